import Mathlib.Tactic.Ring
import Mathlib.Tactic.FieldSimp
import Mathlib.Tactic.Linarith
import Mathlib.Algebra.Order.Field.Basic
import Mathlib.Algebra.BigOperators.Group.List.Basic

namespace LS
variable {K : Type} [Field K]

/-- model of the sums in least_squares.rs over a list of points -/
def sx (pts : List (K × K)) : K := (pts.map (·.1)).sum
def sy (pts : List (K × K)) : K := (pts.map (·.2)).sum
def sxy (pts : List (K × K)) : K := (pts.map fun p => p.1 * p.2).sum
def sxx (pts : List (K × K)) : K := (pts.map fun p => p.1 * p.1).sum
def n (pts : List (K × K)) : K := (pts.length : K)

def slope (pts : List (K × K)) : K := (n pts * sxy pts - sx pts * sy pts) / (n pts * sxx pts - sx pts * sx pts)
def intercept (pts : List (K × K)) : K := sy pts / n pts - slope pts * (sx pts / n pts)

/-- residual sums for arbitrary (a,b) in closed form -/
theorem res_sum (pts : List (K × K)) (a b : K) :
    (pts.map fun p => p.2 - (a + b * p.1)).sum = sy pts - a * n pts - b * sx pts := by
  induction pts with
  | nil => simp [sy, n, sx]
  | cons p ps ih =>
    simp only [List.map_cons, List.sum_cons, sy, n, sx, List.length_cons, Nat.cast_succ] at *
    rw [ih]; ring

theorem res_x_sum (pts : List (K × K)) (a b : K) :
    (pts.map fun p => (p.2 - (a + b * p.1)) * p.1).sum = sxy pts - a * sx pts - b * sxx pts := by
  induction pts with
  | nil => simp [sxy, sx, sxx]
  | cons p ps ih =>
    simp only [List.map_cons, List.sum_cons, sxy, sx, sxx] at *
    rw [ih]; ring

theorem ls_normal_eqs (pts : List (K × K)) (hn : n pts ≠ 0)
    (hD : n pts * sxx pts - sx pts * sx pts ≠ 0) :
    (pts.map fun p => p.2 - (intercept pts + slope pts * p.1)).sum = 0 ∧
    (pts.map fun p => (p.2 - (intercept pts + slope pts * p.1)) * p.1).sum = 0 := by
  rw [res_sum, res_x_sum]
  unfold intercept slope
  generalize n pts = N at *
  generalize sx pts = X at *
  generalize sy pts = Y at *
  generalize sxy pts = XY at *
  generalize sxx pts = XX at *
  have hD' : N * XX - X ^ 2 ≠ 0 := by rwa [pow_two]
  constructor
  · field_simp; ring
  · field_simp; ring

end LS
