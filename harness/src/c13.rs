//! C13 — power method: `power <half> <h> <w> <bits…> <es bits>` →
//! `ok <λ> <n> 1 <v…>` | `err nonsquare` | `err noconv` | `panic` | `hang`.
//!
//! `<half>` says which clause of the property the request exercises: `acc` (symmetric Q D Qᵀ with a
//! spectral gap: the call must succeed and be accurate — the numeric part of that oracle is exact
//! rational arithmetic in tools/props/c13.py), `term` (any square matrix: the call must return, `Ok`
//! or `Err`, never panic, never hang), `sym` (small symmetric integer matrices — exact zeros and ties in the
//! iterates; judged for accuracy by the plug-in only when its own reference computation finds the matrix inside
//! the accuracy quantifier, otherwise like `term`), `shape` (non-square / empty: `NonSquareMatrix`).
use crate::util::*;
use spindalis::eigen::power_method;
use spindalis::utils::{Arr2D, Arr2DError};
use std::sync::mpsc;
use std::time::Duration;

/// the cap of the source makes every call finite; a call that needs longer than this is a hang
const WATCHDOG: Duration = Duration::from_secs(10);

fn to_arr(h: usize, w: usize, v: &[f64]) -> Arr2D<f64> {
    let mut a = Arr2D::full(0.0f64, h, w);
    for i in 0..h {
        for j in 0..w {
            a[(i, j)] = v[i * w + j];
        }
    }
    a
}

fn show(a: &Arr2D<f64>) -> String {
    let mut s = format!("{} {}", a.height, a.width);
    for i in 0..a.height {
        for j in 0..a.width {
            s.push(' ');
            s.push_str(&fbits(a[(i, j)]));
        }
    }
    s
}

enum Run {
    Done(Result<(f64, Arr2D<f64>), Arr2DError>),
    Panic,
    Hang,
}

fn call(a: Arr2D<f64>, es: f64) -> Run {
    let (tx, rx) = mpsc::channel();
    std::thread::spawn(move || {
        let r = catch(|| power_method(&a, es));
        let _ = tx.send(r);
    });
    match rx.recv_timeout(WATCHDOG) {
        Ok(Some(r)) => Run::Done(r),
        Ok(None) => Run::Panic,
        Err(_) => Run::Hang,
    }
}

pub fn run(line: &str) -> Obs {
    let mut t = Toks::new(line);
    let cmd = t.tok();
    assert_eq!(cmd, "power", "unknown C13 request {cmd}");
    let half = t.tok().to_string();
    let (h, w, v) = t.mat_f64();
    let es = t.f64();
    let square = h == w && h > 0;
    match call(to_arr(h, w, &v), es) {
        Run::Panic => Obs::with("panic".into(), Err("power_method panicked".into())),
        Run::Hang => Obs::with("hang".into(), Err(format!("power_method did not return within {WATCHDOG:?}"))),
        Run::Done(Ok((lam, vec))) => {
            let verdict = if !square {
                Err(format!("{h}x{w} input accepted"))
            } else if vec.height != h || vec.width != 1 {
                Err(format!("eigenvector has shape {}x{}, expected {h}x1", vec.height, vec.width))
            } else {
                Ok(())
            };
            Obs::with(format!("ok {} {}", fbits(lam), show(&vec)), verdict)
        }
        Run::Done(Err(Arr2DError::NonSquareMatrix)) => {
            let verdict = if square { Err(format!("square {h}x{w} input rejected as non-square")) } else { Ok(()) };
            Obs::with("err nonsquare".into(), verdict)
        }
        Run::Done(Err(Arr2DError::NoConvergence)) => {
            let verdict = if !square {
                Err(format!("{h}x{w} input: expected NonSquareMatrix"))
            } else if half == "acc" {
                Err("no convergence on a symmetric matrix with spectral gap <= 1/2".into())
            } else {
                Ok(())
            };
            Obs::with("err noconv".into(), verdict)
        }
        Run::Done(Err(e)) => Obs::with(format!("err other {e:?}"), Err(format!("unexpected error kind {e:?}"))),
    }
}

// ------------------------------------------------------------------------------------ generators

fn emit_req(emit: &mut dyn FnMut(String), half: &str, h: usize, w: usize, v: &[f64], es: f64) {
    emit(format!("power {half} {} {}", req_mat_f(h, w, v), rbits(es)));
}

/// random orthogonal matrix: product of Givens rotations with random angles, then a random sign per
/// column (row-major n x n)
fn random_orthogonal(rng: &mut Rng, n: usize) -> Vec<f64> {
    let mut q = vec![0.0; n * n];
    for i in 0..n {
        q[i * n + i] = if rng.chance(1, 2) { -1.0 } else { 1.0 };
    }
    let sweeps = 2;
    for _ in 0..sweeps {
        for p in 0..n {
            for r in p + 1..n {
                let th = rng.uniform(0.0, std::f64::consts::TAU);
                let (c, s) = (th.cos(), th.sin());
                for row in 0..n {
                    let (x, y) = (q[row * n + p], q[row * n + r]);
                    q[row * n + p] = c * x - s * y;
                    q[row * n + r] = s * x + c * y;
                }
            }
        }
    }
    q
}

/// A = Q diag(d) Qᵀ, symmetrised exactly
fn qdqt(n: usize, q: &[f64], d: &[f64]) -> Vec<f64> {
    let mut a = vec![0.0; n * n];
    for i in 0..n {
        for j in 0..n {
            let mut s = 0.0;
            for k in 0..n {
                s += q[i * n + k] * d[k] * q[j * n + k];
            }
            a[i * n + j] = s;
        }
    }
    for i in 0..n {
        for j in 0..i {
            let m = 0.5 * (a[i * n + j] + a[j * n + i]);
            a[i * n + j] = m;
            a[j * n + i] = m;
        }
    }
    a
}

/// symmetric matrix with dominant eigenvalue `l1` (either sign), all others of modulus <= gap*|l1|,
/// and the all-ones vector at an angle of cosine >= 0.3 to the dominant eigenvector
fn accuracy_case(rng: &mut Rng, n: usize) -> Vec<f64> {
    loop {
        let q = random_orthogonal(rng, n);
        let mut c = 0.0;
        for i in 0..n {
            c += q[i * n];
        }
        if c.abs() / (n as f64).sqrt() < 0.3 {
            continue;
        }
        let mag = match rng.below(4) {
            0 => 1.0,
            1 => rng.uniform(0.5, 20.0),
            2 => 2f64.powi(rng.range(-20, 20) as i32),
            _ => rng.uniform(1e-3, 1e3),
        };
        let l1 = if rng.chance(1, 2) { -mag } else { mag };
        let gap = match rng.below(3) {
            0 => 0.49,
            1 => rng.uniform(0.0, 0.49),
            _ => rng.uniform(0.3, 0.49),
        };
        let mut d = vec![l1; n];
        for k in 1..n {
            d[k] = match rng.below(5) {
                0 => gap * mag,
                1 => -gap * mag,
                2 => 0.0,
                _ => rng.uniform(-gap, gap) * mag,
            };
        }
        return qdqt(n, &q, &d);
    }
}

fn tolerance(rng: &mut Rng) -> f64 {
    match rng.below(4) {
        0 => *rng.pick(&[1e-4, 1e-6, 1e-8, 1e-10, 1e-12]),
        _ => 10f64.powf(rng.uniform(-12.0, -4.0)),
    }
}

/// inputs on which the stopping rule alone would never (or only by luck) be met
fn termination_case(rng: &mut Rng, n: usize, kind: u64) -> Vec<f64> {
    let at = |i: usize, j: usize| i * n + j;
    let mut a = vec![0.0; n * n];
    match kind {
        0 => {} // zero matrix: 0/0 on the first normalisation
        1 => {
            // nilpotent: strictly upper (or lower) triangular
            let upper = rng.chance(1, 2);
            for i in 0..n {
                for j in 0..n {
                    if (upper && j > i) || (!upper && j < i) {
                        a[at(i, j)] = rng.range(-3, 3) as f64;
                    }
                }
            }
        }
        2 => {
            // +-lambda pair: Q diag(l, -l, small…) Qᵀ, or the plain swap / diag(1,-1) forms
            match rng.below(3) {
                0 => {
                    for i in 0..n {
                        a[at(i, i)] = if i % 2 == 0 { 2.0 } else { -2.0 };
                    }
                }
                1 => {
                    for i in 0..n {
                        a[at(i, n - 1 - i)] = 1.0;
                    }
                    if n % 2 == 1 {
                        a[at(n / 2, n / 2)] = -1.0;
                    }
                }
                _ => {
                    let q = random_orthogonal(rng, n);
                    let l = rng.uniform(0.5, 4.0);
                    let mut d = vec![0.0; n];
                    for (k, x) in d.iter_mut().enumerate() {
                        *x = match k {
                            0 => l,
                            1 => -l,
                            _ => rng.uniform(-0.4, 0.4) * l,
                        };
                    }
                    a = qdqt(n, &q, &d);
                }
            }
        }
        3 => {
            // rotation blocks: complex dominant pair
            let th = match rng.below(3) {
                0 => std::f64::consts::FRAC_PI_2,
                1 => 1.0,
                _ => rng.uniform(0.1, 3.0),
            };
            let r = rng.uniform(0.5, 2.0);
            if n == 1 {
                a[0] = -r;
            } else {
                a[at(0, 0)] = r * th.cos();
                a[at(0, 1)] = -r * th.sin();
                a[at(1, 0)] = r * th.sin();
                a[at(1, 1)] = r * th.cos();
                for i in 2..n {
                    a[at(i, i)] = rng.uniform(-0.4, 0.4) * r;
                }
            }
        }
        4 => {
            // NaN / infinite entries
            for x in a.iter_mut() {
                *x = rng.uniform(-2.0, 2.0);
            }
            let k = 1 + rng.below(2) as usize;
            for _ in 0..k {
                let p = rng.below((n * n) as u64) as usize;
                a[p] = *rng.pick(&[f64::NAN, f64::INFINITY, f64::NEG_INFINITY, f64::NAN]);
            }
        }
        5 => {
            // negative matrix (all row sums negative: the first normaliser is negative), and matrices
            // whose product with the ones vector is exactly zero (rows summing to zero)
            for i in 0..n {
                let mut s = 0.0;
                for j in 0..n {
                    let x = rng.range(-4, 4) as f64;
                    a[at(i, j)] = x;
                    s += x;
                }
                if rng.chance(2, 3) {
                    a[at(i, i)] -= s;
                }
            }
        }
        _ => {
            // general non-symmetric random matrix (usually converges)
            for x in a.iter_mut() {
                *x = rng.uniform(-1.0, 1.0);
            }
        }
    }
    a
}

pub fn generate(seed: u64, thorough: bool, emit: &mut dyn FnMut(String)) {
    let mut rng = Rng::new(seed ^ 0xC13);
    // shape half: every non-square or empty shape in 0..4 x 0..4 and a few larger ones
    for h in 0..=4usize {
        for w in 0..=4usize {
            if h != w || h == 0 {
                let v: Vec<f64> = (0..h * w).map(|_| rng.dyadic(16, 2)).collect();
                emit_req(emit, "shape", h, w, &v, 1e-6);
            }
        }
    }
    for (h, w) in [(8usize, 7usize), (1, 8), (8, 1), (0, 5), (5, 0)] {
        let v: Vec<f64> = (0..h * w).map(|_| rng.uniform(-1.0, 1.0)).collect();
        emit_req(emit, "shape", h, w, &v, 1e-6);
    }
    // small symmetric integer matrices (exact zeros, ties and sign patterns in A*x that random reals never
    // produce): all 2x2 with entries -4..4 in the thorough tier, random samples of size 2..4 in both
    if thorough {
        for a in -4i64..=4 {
            for b in -4i64..=4 {
                for d in -4i64..=4 {
                    let es = *rng.pick(&[1e-4, 1e-6, 1e-8, 1e-10, 1e-12]);
                    emit_req(emit, "sym", 2, 2, &[a as f64, b as f64, b as f64, d as f64], es);
                }
            }
        }
    }
    let n_sym = if thorough { 3000 } else { 120 };
    for _ in 0..n_sym {
        let n = 2 + rng.below(3) as usize;
        let mut a = vec![0.0; n * n];
        let r = *rng.pick(&[2i64, 3, 5, 9]);
        for i in 0..n {
            for j in 0..=i {
                let x = rng.range(-r, r) as f64;
                a[i * n + j] = x;
                a[j * n + i] = x;
            }
        }
        let es = tolerance(&mut rng);
        emit_req(emit, "sym", n, n, &a, es);
    }
    // accuracy half interleaved with the (expensive: up to the full cap of passes) termination half
    let acc_per_n = if thorough { 3000 } else { 60 };
    let term_every = if thorough { 24 } else { 40 };
    let mut count = 0usize;
    for r in 0..acc_per_n {
        for n in 1..=8usize {
            let a = accuracy_case(&mut rng, n);
            let es = tolerance(&mut rng);
            emit_req(emit, "acc", n, n, &a, es);
            count += 1;
            if count % term_every == 0 {
                let k = count / term_every;
                let kind = (k % 7) as u64;
                let tn = 1 + (k * 3 + k / 7) % 5;
                let a = termination_case(&mut rng, tn, kind);
                let es = match rng.below(8) {
                    0 => 0.0,
                    1 => -1.0,
                    2 => f64::NAN,
                    _ => tolerance(&mut rng),
                };
                emit_req(emit, "term", tn, tn, &a, es);
            }
        }
        let _ = r;
    }
}
