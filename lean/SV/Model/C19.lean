import SV.Model.Text
import SV.Model.Wire
import SV.Gen.Consts
/-!
Model of the general expression parser (spindalis_core/src/polynomials/advanced.rs):

* `lex`         `lexer`: drops `' '`, numbers are runs of digits and `.`, letter runs are a function
                 name, a constant name, or single-letter factors (each `e`/`E` the constant), the
                 symbols `π τ ϕ`, parentheses, operator characters
* `impliedMul`  `implied_multiplication_pass`: inserts `·` between juxtaposed factors
* `parseExpr`   `parse_expr`: Pratt parser, binding powers from the source (`SV.Gen.bindingPow`),
                 unary minus operand at `max SV.Gen.unaryMinPow min_bind_pow`, function argument = the parenthesised
                 expression; recursion on fuel (never exhausted with fuel = tokens + 1)
* `parseTokens` `parser` without folding; `fold` = `fold_operations`
* `display`     `Display for Expr` (precedence-aware parentheses, juxtaposed forms)

Numbers are exact decimals (`Text.Dec`): the value tests of `fold` (`== 0`, `== 1`, `> 0`) are decided
on the decimal, which agrees with the `f64` tests for every literal of at most 15 significant digits;
`Display` prints the shortest decimal, which for a canonical literal is the literal itself.
-/
namespace SV.C19
open SV SV.Text

inductive Op where | add | sub | div | mul | cdot | rem | caret | fac
deriving DecidableEq, Repr

inductive Func where | sin | cos | tan | cot | log | ln
deriving DecidableEq, Repr

inductive Const where | pi | e | tau | phi
deriving DecidableEq, Repr

inductive Tok (N : Type) where
  | num (x : N) | var (s : String) | op (o : Op) | func (f : Func) | const (c : Const) | lp | rp
deriving DecidableEq, Repr

inductive Expr (N : Type) where
  | num (x : N)
  | var (s : String)
  | const (c : Const)
  | func (f : Func) (inner : Expr N)
  | pre (o : Op) (v : Expr N)
  | post (o : Op) (v : Expr N)
  | bin (o : Op) (l r : Expr N) (paren : Bool)
deriving DecidableEq, Repr

inductive PErr where | unexpectedToken | eot | syntaxErr | invalidNumber | unexpectedChar
deriving DecidableEq, Repr

def PErr.kind : PErr → String
  | .unexpectedToken => "UnexpectedToken" | .eot => "UnexpectedEndOfTokens"
  | .syntaxErr => "PolynomialSyntaxError" | .invalidNumber => "InvalidNumber"
  | .unexpectedChar => "UnexpectedChar"

def Op.name : Op → String
  | .add => "Add" | .sub => "Sub" | .div => "Div" | .mul => "Mul" | .cdot => "CDot" | .rem => "Rem"
  | .caret => "Caret" | .fac => "Fac"

/-- binding power from the generated table; operators without an entry (`Fac`) bind with 0 -/
def bp (o : Op) : Nat :=
  match SV.Gen.bindingPow.find? (fun p => p.1 = o.name) with
  | some p => p.2
  | none => 0

/-! ### lexer -/

def opOfChar (c : Char) : Option Op :=
  if c = '+' then some .add else if c = '-' then some .sub else if c = '/' then some .div
  else if c = '*' then some .mul else if c = '·' then some .cdot else if c = '%' then some .rem
  else if c = '^' then some .caret else if c = '!' then some .fac else none

def lower (s : List Char) : List Char := s.map fun c => if 'A' ≤ c ∧ c ≤ 'Z' then Char.ofNat (c.toNat + 32) else c

def funcOfName (s : List Char) : Option Func :=
  let l := String.ofList (lower s)
  if l = "sin" then some .sin else if l = "cos" then some .cos else if l = "tan" then some .tan
  else if l = "cot" then some .cot else if l = "log" then some .log else if l = "ln" then some .ln else none

def constOfName (s : List Char) : Option Const :=
  let l := String.ofList (lower s)
  if l = "pi" then some .pi else if l = "e" then some .e else if l = "tau" then some .tau
  else if l = "phi" then some .phi else none

def letterTok (c : Char) : Tok Dec :=
  match constOfName [c] with
  | some k => .const k
  | none => .var (String.singleton c)

/-- `lexer` after the removal of `' '`; fuel = length + 1 (every pass consumes a character) -/
def lexGo : Nat → List Char → List (Tok Dec) → Except PErr (List (Tok Dec))
  | 0, _, acc => .ok acc.reverse
  | _, [], acc => .ok acc.reverse
  | fuel + 1, c :: cs, acc =>
    if isAsciiDigit c ∨ c = '.' then
      let run := (c :: cs).takeWhile fun d => isAsciiDigit d || d = '.'
      let rest := (c :: cs).dropWhile fun d => isAsciiDigit d || d = '.'
      match parseUDec run with
      | some (m, s) => lexGo fuel rest (.num ⟨false, m, s⟩ :: acc)
      | none => .error .invalidNumber
    else if isAsciiLetter c then
      let run := (c :: cs).takeWhile isAsciiLetter
      let rest := (c :: cs).dropWhile isAsciiLetter
      let toks : List (Tok Dec) :=
        match run with
        | [d] => [letterTok d]
        | _ =>
          match funcOfName run with
          | some f => [.func f]
          | none =>
            match constOfName run with
            | some k => [.const k]
            | none => run.map letterTok
      lexGo fuel rest (toks.reverse ++ acc)
    else if c = 'π' then lexGo fuel cs (.const .pi :: acc)
    else if c = 'τ' then lexGo fuel cs (.const .tau :: acc)
    else if c = 'ϕ' then lexGo fuel cs (.const .phi :: acc)
    else if c = '(' then lexGo fuel cs (.lp :: acc)
    else if c = ')' then lexGo fuel cs (.rp :: acc)
    else
      match opOfChar c with
      | some o => lexGo fuel cs (.op o :: acc)
      | none => .error .unexpectedChar

def lex (s : List Char) : Except PErr (List (Tok Dec)) :=
  let t := s.filter (· ≠ ' ')
  lexGo (t.length + 1) t []

/-! ### implied multiplication -/
section generic
variable {N : Type}

def needsDot : Tok N → Tok N → Bool
  | .num _, .var _ | .num _, .func _ | .num _, .const _ | .num _, .lp => true
  | .var _, .num _ | .var _, .var _ | .var _, .func _ | .var _, .const _ | .var _, .lp => true
  | .const _, .num _ | .const _, .var _ | .const _, .func _ | .const _, .const _ | .const _, .lp => true
  | _, _ => false

def impliedMul : List (Tok N) → List (Tok N)
  | a :: b :: rest =>
    if needsDot a b then a :: .op .cdot :: impliedMul (b :: rest) else a :: impliedMul (b :: rest)
  | l => l

/-! ### Pratt parser -/

def setParen : Expr N → Expr N
  | .bin o l r _ => .bin o l r true
  | e => e

def postfixLoop (l : Expr N) : List (Tok N) → Expr N × List (Tok N)
  | .op .fac :: r => postfixLoop (.post .fac l) r
  | ts => (l, ts)

mutual
/-- `parse_expr(tokens, min_bind_pow)` -/
def parseExpr : Nat → List (Tok N) → Nat → Except PErr (Expr N × List (Tok N))
  | 0, _, _ => .error .syntaxErr
  | fuel + 1, ts, minBp =>
    match ts with
    | [] => .error .syntaxErr
    | t :: rest =>
      let left : Except PErr (Expr N × List (Tok N)) :=
        match t with
        | .num n => .ok (.num n, rest)
        | .var c => .ok (.var c, rest)
        | .const k => .ok (.const k, rest)
        | .lp =>
          match parseExpr fuel rest 0 with
          | .error e => .error e
          | .ok (e, rest') =>
            match rest' with
            | .rp :: r'' => .ok (setParen e, r'')
            | _ :: _ => .error .unexpectedToken
            | [] => .error .eot
        | .rp => .error .unexpectedToken
        | .func f =>
          match rest with
          | .lp :: rest1 =>
            match parseExpr fuel rest1 0 with
            | .error e => .error e
            | .ok (inner, rest') =>
              match rest' with
              | .rp :: r'' => .ok (.func f (setParen inner), r'')
              | _ :: _ => .error .unexpectedToken
              | [] => .error .eot
          | _ :: _ => .error .unexpectedToken
          | [] => .error .eot
        | .op o =>
          if o ≠ .sub then .error .unexpectedToken else
          match parseExpr fuel rest (max SV.Gen.unaryMinPow minBp) with
          | .error e => .error e
          | .ok (v, r') => .ok (.pre .sub v, r')
      match left with
      | .error e => .error e
      | .ok (l, r) =>
        let (l, r) := postfixLoop l r
        binLoop fuel l r minBp

/-- the `while let Some(Token::Operator(op)) = peek()` loop -/
def binLoop : Nat → Expr N → List (Tok N) → Nat → Except PErr (Expr N × List (Tok N))
  | 0, l, ts, _ => (match ts with | .op _ :: _ => .error .syntaxErr | _ => .ok (l, ts))
  | fuel + 1, l, ts, minBp =>
    match ts with
    | .op o :: rest =>
      let c := bp o
      if c < minBp then .ok (l, ts) else
      let o' := if o = .cdot then .mul else o
      match parseExpr fuel rest (c + 1) with
      | .error e => .error e
      | .ok (rhs, r') => binLoop fuel (.bin o' l rhs false) r' minBp
    | _ => .ok (l, ts)
end

/-- `parser` up to (not including) `fold_operations` -/
def parseTokens (ts : List (Tok N)) : Except PErr (Expr N) :=
  let ts := impliedMul ts
  match parseExpr (ts.length + 1) ts 0 with
  | .error e => .error e
  | .ok (e, []) => .ok e
  | .ok (_, _ :: _) => .error .unexpectedToken

/-! ### constant folding -/

/-- the value tests `fold_operations` makes on number literals -/
structure NumTests (N : Type) where
  isZero : N → Bool
  isOne : N → Bool
  isPos : N → Bool
  zero : N
  one : N

def isNumZero (nt : NumTests N) : Expr N → Bool
  | .num x => nt.isZero x
  | _ => false
def isNumOne (nt : NumTests N) : Expr N → Bool
  | .num x => nt.isOne x
  | _ => false
def isNumPos (nt : NumTests N) : Expr N → Bool
  | .num x => nt.isPos x
  | _ => false

/-- `fold_operations` (the match arms in source order) -/
def fold (nt : NumTests N) : Expr N → Expr N
  | .bin o l r p =>
    let l := fold nt l
    let r := fold nt r
    if o = .mul ∧ isNumZero nt l then .num nt.zero
    else if o = .mul ∧ isNumZero nt r then .num nt.zero
    else if o = .caret ∧ isNumZero nt r then .num nt.one
    else if o = .caret ∧ isNumZero nt l ∧ isNumPos nt r then .num nt.zero
    else if o = .add ∧ isNumZero nt l then r
    else if o = .add ∧ isNumZero nt r then l
    else if o = .sub ∧ isNumZero nt r then l
    else if o = .sub ∧ isNumZero nt l then .pre .sub r
    else if o = .div ∧ isNumOne nt r then l
    else .bin o l r p
  | e => e

/-! ### display -/

def Op.sym : Op → String
  | .add => "+" | .sub => "-" | .div => "/" | .mul => "*" | .cdot => "·" | .rem => "%"
  | .caret => "^" | .fac => "!"
def Func.name : Func → String
  | .sin => "sin" | .cos => "cos" | .tan => "tan" | .cot => "cot" | .log => "log" | .ln => "ln"
def Const.sym : Const → String
  | .pi => "π" | .e => "e" | .tau => "τ" | .phi => "ϕ"

/-- display powers are doubled so that the unary node's 2.5 is a natural number; `inf` stands for ∞ -/
def inf : Nat := 1000

/-- `fmt_operand(needed, strict)` on an already rendered operand `(text, display power)` -/
def wrap (t : String) (power needed : Nat) (strict : Bool) : String :=
  if power < needed ∨ (strict ∧ power = needed) then "(" ++ t ++ ")" else t

/-- `implied_form`: the juxtaposed spellings; `tr` is the rendered right operand -/
def implied (fmt : N → String) (o : Op) (l r : Expr N) (tr : String) : Option String :=
  match o, l, r with
  | .mul, .num n, .var v => some (fmt n ++ v)
  | .mul, .num n, .const c => some (fmt n ++ c.sym)
  | .mul, .num n, .bin .caret _ _ _ =>
    match tr.toList with
    | c :: _ => if isAsciiDigit c ∨ c = '.' then none else some (fmt n ++ tr)
    | [] => some (fmt n ++ tr)
  | .mul, .var v, .num n => some (v ++ fmt n)
  | .mul, .const c, .num n => some (c.sym ++ fmt n)
  | .caret, .var v, .num n => some (v ++ "^" ++ fmt n)
  | .caret, .const c, .num n => some (c.sym ++ "^" ++ fmt n)
  | _, _, _ => none

/-- `Display for Expr` together with `display_power`: `(text, power)` of a node, bottom-up -/
def render (fmt : N → String) : Expr N → String × Nat
  | .num x => (fmt x, inf)
  | .var s => (s, inf)
  | .const c => (c.sym, inf)
  | .func f inner => (f.name ++ "(" ++ (render fmt inner).1 ++ ")", inf)
  | .pre o v =>
    let (tv, pv) := render fmt v
    (o.sym ++ (match v with
      | .bin _ _ _ _ => wrap tv pv (2 * SV.Gen.unaryMinPow) false
      | _ => tv), 5)
  | .post o v =>
    let (tv, pv) := render fmt v
    (wrap tv pv inf false ++ o.sym, inf)
  | .bin o l r p =>
    let (tl, pl) := render fmt l
    let (tr, pr) := render fmt r
    let imp := implied fmt o l r tr
    let body := match imp with
      | some s => s
      | none => wrap tl pl (2 * bp o) false ++ " " ++ o.sym ++ " " ++ wrap tr pr (2 * bp o) true
    (if p then "(" ++ body ++ ")" else body,
     if p then inf else if imp.isSome ∧ o = .mul then 8 else 2 * bp o)

def display (fmt : N → String) (e : Expr N) : String := (render fmt e).1

end generic

/-! ### the `Dec` instance used by the driver -/

def decTests : NumTests Dec where
  isZero d := d.mant = 0
  isOne d := !d.neg && d.mant = 10 ^ d.scale
  isPos d := !d.neg && d.mant ≠ 0
  zero := ⟨false, 0, 0⟩
  one := ⟨false, 1, 0⟩

/-- shortest decimal of a non-negative exact decimal (what `{}` prints for the `f64` of a canonical
literal): no trailing fractional zeros, no point for integers, a leading `0` before a bare fraction -/
def fmtDec (d : Dec) : String :=
  let digits := (toString d.mant).toList
  -- pad so that there are more digits than the scale
  let padded := List.replicate (d.scale + 1 - digits.length) '0' ++ digits
  let ip := padded.take (padded.length - d.scale)
  let fp := (padded.drop (padded.length - d.scale)).reverse.dropWhile (· = '0') |>.reverse
  let body := if fp = [] then ip else ip ++ ['.'] ++ fp
  (if d.neg ∧ d.mant ≠ 0 then "-" else "") ++ String.ofList body

end SV.C19

/-! ### driver -/
namespace SV.C19.Driver
open SV SV.Wire SV.Text SV.C19

def opOfName (s : String) : Option Op :=
  [Op.add, .sub, .div, .mul, .cdot, .rem, .caret, .fac].find? fun o => o.name = s
def funcOfTag (s : String) : Option Func :=
  [Func.sin, .cos, .tan, .cot, .log, .ln].find? fun f => f.name = s
def Const.tag : Const → String
  | .pi => "pi" | .e => "e" | .tau => "tau" | .phi => "phi"
def constOfTag (s : String) : Option Const :=
  [Const.pi, .e, .tau, .phi].find? fun c => Const.tag c = s

/-- one token word: `N<decimal>` `V<name>` `O<Name>` `F<name>` `C<name>` `LP` `RP` -/
def tokOfWord (w : String) : Option (Tok Dec) :=
  if w = "LP" then some .lp else if w = "RP" then some .rp else
  match w.toList with
  | 'N' :: r => (parseUDec r).map fun (m, s) => .num ⟨false, m, s⟩
  | 'V' :: r => some (.var (String.ofList r))
  | 'O' :: r => (opOfName (String.ofList r)).map .op
  | 'F' :: r => (funcOfTag (String.ofList r)).map .func
  | 'C' :: r => (constOfTag (String.ofList r)).map .const
  | _ => none

def wordOfTok (num : Dec → String) : Tok Dec → String
  | .num x => "N" ++ num x
  | .var s => "V" ++ s
  | .op o => "O" ++ o.name
  | .func f => "F" ++ f.name
  | .const c => "C" ++ Const.tag c
  | .lp => "LP"
  | .rp => "RP"

def sexpr : Expr Dec → String
  | .num x => "n:" ++ fmtDec x
  | .var s => "v:" ++ s
  | .const c => "c:" ++ Const.tag c
  | .func f i => "f:" ++ f.name ++ " " ++ sexpr i
  | .pre o v => "pre:" ++ o.name ++ " " ++ sexpr v
  | .post o v => "post:" ++ o.name ++ " " ++ sexpr v
  | .bin o l r p => "b:" ++ o.name ++ ":" ++ (if p then "1" else "0") ++ " " ++ sexpr l ++ " " ++ sexpr r

/-- tokens → the whole pipeline's observations -/
def pipeline (ts : List (Tok Dec)) : String :=
  match parseTokens ts with
  | .error e => "err " ++ e.kind
  | .ok u =>
    let f := fold decTests u
    let d := display fmtDec f
    let back := match lex d.toList with
      | .error e => "err " ++ e.kind
      | .ok ts' => match parseTokens ts' with
        | .error e => "err " ++ e.kind
        | .ok u' => sexpr (fold decTests u')
    "U " ++ sexpr u ++ " | F " ++ sexpr f ++ " | D " ++ fmtStr d.toList ++ " | R " ++ back

def fnvStep (h : UInt64) (b : UInt8) : UInt64 := (h ^^^ b.toUInt64) * 0x100000001b3
def fnvStr (h : UInt64) (s : String) : UInt64 := fnvStep (s.toUTF8.foldl fnvStep h) 10

/-- the 15 token kinds of the exhaustive space -/
def alphabet : List (Tok Dec) :=
  [.num ⟨false, 25, 1⟩, .num ⟨false, 0, 0⟩, .num ⟨false, 1, 0⟩, .var "x", .var "y", .const .pi, .func .sin,
   .op .add, .op .sub, .op .mul, .op .div, .op .caret, .op .fac, .lp, .rp]

structure Acc where
  n : Nat := 0
  ok : Nat := 0
  h : UInt64 := 0xcbf29ce484222325

def enumFrom : Nat → List (Tok Dec) → Acc → Acc
  | budget, ts, acc =>
    let a := pipeline ts
    let acc := { acc with n := acc.n + 1, ok := acc.ok + (if a.startsWith "U" then 1 else 0), h := fnvStr acc.h a }
    match budget with
    | 0 => acc
    | b + 1 => alphabet.foldl (fun acc t => enumFrom b (ts ++ [t]) acc) acc

def readToks : P (List (Tok Dec)) := do
  let n ← nat
  let ws ← many n tok
  match ws.mapM tokOfWord with
  | some ts => return ts
  | none => fail

/--
    lex <text>                → ok <n> <token words, numbers as exact decimals> | err Kind
    toks <n> <token words>    → U <tree> | F <folded tree> | D <display text> | R <re-parsed folded tree> | err Kind
    str <text>                → the same, starting from text
    enum <maxlen> <n> <words> → <sequences> <accepted> <fnv64 of the answers>
-/
def handle (line : String) : String :=
  let p : P String := do
    let cmd ← tok
    match cmd with
    | "lex" => do
      let s ← chars
      return match lex s with
        | .error e => "err " ++ e.kind
        | .ok ts => " ".intercalate ("ok" :: toString ts.length :: ts.map (wordOfTok fun d => "d" ++ d.show))
    | "toks" => do
      let ts ← readToks
      return pipeline ts
    | "str" => do
      let s ← chars
      return match lex s with
        | .error e => "err " ++ e.kind
        | .ok ts => pipeline ts
    | "enum" => do
      let maxlen ← nat
      let pre ← readToks
      let acc := enumFrom (maxlen - pre.length) pre {}
      return s!"{acc.n} {acc.ok} {acc.h.toNat}"
    | _ => fail
  match run p ((line.splitOn " | ").headD line) with
  | some s => s
  | none => "bad-request"

end SV.C19.Driver
