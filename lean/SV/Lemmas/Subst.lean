import SV.Model.Subst
import SV.Lemmas.Mat
import Mathlib.Tactic.Ring
import Mathlib.Tactic.FieldSimp
import Mathlib.Tactic.LinearCombination
import Mathlib.Algebra.BigOperators.Intervals
import Mathlib.Algebra.Field.Basic
/-!
Lemmas about the vector helpers `vget`/`vtab` and the substitution loops of `SV.Model.Subst`:
every row the backward / forward sweep has processed satisfies its row equation, whatever the
other triangle of the matrix holds; an upper-triangular system with a non-zero diagonal has at
most one solution.
-/
namespace SV
open Finset

section vec
variable {S : Type}

@[simp] theorem vtab_size (n : Nat) (f : Nat → S) : (vtab n f).size = n := by
  simp [vtab]

theorem vget_vtab [Inhabited S] {n : Nat} (f : Nat → S) {i : Nat} (hi : i < n) :
    vget (vtab n f) i = f i := by
  simp [vget, vtab, Array.getD_eq_getD_getElem?, hi]

theorem vget_set [Inhabited S] (v : Array S) (i j : Nat) (a : S) :
    vget (v.setIfInBounds i a) j = if i = j ∧ i < v.size then a else vget v j := by
  simp only [vget, Array.getD_eq_getD_getElem?, Array.getElem?_setIfInBounds]
  by_cases h : i = j
  · subst h
    by_cases h2 : i < v.size
    · simp [h2]
    · simp [h2]
  · simp [h]

theorem vget_set_self [Inhabited S] (v : Array S) (i : Nat) (a : S) (hi : i < v.size) :
    vget (v.setIfInBounds i a) i = a := by
  rw [vget_set]; simp [hi]

theorem vget_set_ne [Inhabited S] (v : Array S) {i j : Nat} (a : S) (h : i ≠ j) :
    vget (v.setIfInBounds i a) j = vget v j := by
  rw [vget_set]; simp [h]

end vec

namespace Subst

section anyScalar
variable {S : Type} [Inhabited S] [Add S] [Sub S] [Mul S] [Div S] [OfNat S 0]

/-- inside its precondition `back_substitution` does not panic (any scalar type) -/
theorem backSubst_eq_ok (U : Mat S) (n : Nat) (b sol : Array S) (h0 : 0 < n) (h1 : n ≤ U.h)
    (h2 : n ≤ U.w) (h3 : n ≤ b.size) (h4 : n ≤ sol.size) :
    backSubst U n b sol = .ok (backCore U n b sol) := by
  unfold backSubst
  rw [if_neg (by omega)]

/-- inside its precondition `forward_substitution` does not panic (any scalar type) -/
theorem forwardSubst_eq_ok (L : Mat S) (n : Nat) (b sol : Array S) (h1 : n ≤ L.h)
    (h2 : n ≤ L.w) (h3 : n ≤ b.size) (h4 : n ≤ sol.size) :
    forwardSubst L n b sol = .ok (fwdCore L n b sol) := by
  unfold forwardSubst
  rw [if_neg (by omega)]

end anyScalar

variable {K : Type} [Field K] [Inhabited K]

omit [Inhabited K] in
/-- `sumFrom 0 lo hi f` is the sum over the interval `[lo, hi)` -/
theorem sumFrom_Ico (lo hi : Nat) (f : Nat → K) :
    sumFrom 0 lo hi f = ∑ j ∈ Ico lo hi, f j := by
  rw [sumFrom_eq, zero_add, Finset.sum_Ico_eq_sum_range]

/-- row `i` of the upper-triangular part: `a_ii x_i + Σ_{i<j<n} a_ij x_j = b_i` -/
def BackRow (U : Mat K) (n : Nat) (b x : Array K) (i : Nat) : Prop :=
  U.get i i * vget x i + ∑ j ∈ Ico (i + 1) n, U.get i j * vget x j = vget b i

theorem BackRow_congr {U : Mat K} {n : Nat} {b x y : Array K} {i : Nat}
    (h : ∀ j, i ≤ j → j < n → vget y j = vget x j) (hi : i < n) (hx : BackRow U n b x i) :
    BackRow U n b y i := by
  unfold BackRow at *
  rw [h i (le_refl i) hi]
  rw [← hx]
  congr 1
  apply Finset.sum_congr rfl
  intro j hj
  rw [Finset.mem_Ico] at hj
  rw [h j (by omega) hj.2]

@[simp] theorem backStep_size (U : Mat K) (n : Nat) (b sol : Array K) (i : Nat) :
    (backStep U n b sol i).size = sol.size := by
  simp [backStep]

theorem backStep_ne (U : Mat K) (n : Nat) (b sol : Array K) {i j : Nat} (h : i ≠ j) :
    vget (backStep U n b sol i) j = vget sol j := by
  unfold backStep; exact vget_set_ne _ _ h

theorem backStep_row (U : Mat K) (n : Nat) (b sol : Array K) {i : Nat} (hi : i < sol.size)
    (hd : U.get i i ≠ 0) : BackRow U n b (backStep U n b sol i) i := by
  unfold BackRow
  have e : ∑ j ∈ Ico (i + 1) n, U.get i j * vget (backStep U n b sol i) j
      = ∑ j ∈ Ico (i + 1) n, U.get i j * vget sol j := by
    apply Finset.sum_congr rfl
    intro j hj
    rw [Finset.mem_Ico] at hj
    rw [backStep_ne U n b sol (by omega : i ≠ j)]
  rw [e]
  unfold backStep
  rw [vget_set_self _ _ _ hi, sumFrom_Ico]
  generalize ∑ j ∈ Ico (i + 1) n, U.get i j * vget sol j = s
  field_simp
  ring

/-- the sweep over rows `t-1, …, 0` keeps the rows already solved, solves the new ones, and
touches nothing at positions `≥ t` -/
theorem backLoop_inv (U : Mat K) (n : Nat) (b : Array K) (hd : ∀ i, i < n → U.get i i ≠ 0) :
    ∀ (t : Nat) (sol : Array K), t ≤ n → n ≤ sol.size →
      (∀ i, t ≤ i → i < n → BackRow U n b sol i) →
      (backLoop U n b t sol).size = sol.size ∧
      (∀ i, i < n → BackRow U n b (backLoop U n b t sol) i) ∧
      (∀ j, t ≤ j → vget (backLoop U n b t sol) j = vget sol j) := by
  intro t
  induction t with
  | zero =>
    intro sol _ _ h
    exact ⟨rfl, fun i hi => h i (Nat.zero_le _) hi, fun _ _ => rfl⟩
  | succ t ih =>
    intro sol ht hs h
    have hrow : ∀ i, t ≤ i → i < n → BackRow U n b (backStep U n b sol t) i := by
      intro i hti hin
      by_cases hit : i = t
      · subst hit
        exact backStep_row U n b sol (by omega) (hd i hin)
      · apply BackRow_congr _ hin (h i (by omega) hin)
        intro j hij _
        exact backStep_ne U n b sol (by omega)
    obtain ⟨h1, h2, h3⟩ := ih (backStep U n b sol t) (by omega) (by simpa using hs) hrow
    refine ⟨h1.trans (backStep_size U n b sol t), h2, ?_⟩
    intro j hj
    show vget (backLoop U n b t (backStep U n b sol t)) j = vget sol j
    rw [h3 j (by omega), backStep_ne U n b sol (by omega)]

/-- `back_substitution` inside its precondition: every row of the upper-triangular part is
satisfied (the strictly lower part of the matrix is never read), the slice keeps its length and
its entries beyond `n` -/
theorem backCore_rows (U : Mat K) (n : Nat) (b sol : Array K) (hn : 0 < n) (hs : n ≤ sol.size)
    (hd : ∀ i, i < n → U.get i i ≠ 0) :
    (backCore U n b sol).size = sol.size ∧
    (∀ i, i < n → BackRow U n b (backCore U n b sol) i) ∧
    (∀ j, n ≤ j → vget (backCore U n b sol) j = vget sol j) := by
  unfold backCore
  set sol0 := sol.setIfInBounds (n - 1) (vget b (n - 1) / U.get (n - 1) (n - 1)) with hsol0
  have hlast : ∀ i, n - 1 ≤ i → i < n → BackRow U n b sol0 i := by
    intro i h1 h2
    have hi : i = n - 1 := by omega
    subst hi
    unfold BackRow
    have hemp : Ico (n - 1 + 1) n = ∅ := by
      apply Finset.Ico_eq_empty; omega
    rw [hemp, Finset.sum_empty, add_zero, hsol0, vget_set_self _ _ _ (by omega)]
    have := hd (n - 1) h2
    field_simp
  obtain ⟨h1, h2, h3⟩ := backLoop_inv U n b hd (n - 1) sol0 (by omega) (by simpa [hsol0] using hs) hlast
  refine ⟨by simpa [hsol0] using h1, h2, ?_⟩
  intro j hj
  rw [h3 j (by omega), hsol0, vget_set_ne _ _ (by omega)]

theorem backSubst_ok_iff (U : Mat K) (n : Nat) (b sol x : Array K) :
    backSubst U n b sol = .ok x ↔
      (0 < n ∧ n ≤ U.h ∧ n ≤ U.w ∧ n ≤ b.size ∧ n ≤ sol.size) ∧ x = backCore U n b sol := by
  unfold backSubst
  by_cases h : n = 0 ∨ U.h < n ∨ U.w < n ∨ b.size < n ∨ sol.size < n
  · rw [if_pos h]
    constructor
    · intro h'; cases h'
    · rintro ⟨⟨h0, h1, h2, h3, h4⟩, _⟩
      omega
  · rw [if_neg h]
    constructor
    · intro h'
      injection h' with h'
      exact ⟨by omega, h'.symm⟩
    · rintro ⟨_, rfl⟩; rfl

/-- row `i` of the lower-triangular part: `Σ_{j<i} a_ij x_j + a_ii x_i = b_i` -/
def FwdRow (L : Mat K) (b x : Array K) (i : Nat) : Prop :=
  ∑ j ∈ range i, L.get i j * vget x j + L.get i i * vget x i = vget b i

theorem FwdRow_congr {L : Mat K} {b x y : Array K} {i : Nat}
    (h : ∀ j, j ≤ i → vget y j = vget x j) (hx : FwdRow L b x i) : FwdRow L b y i := by
  unfold FwdRow at *
  rw [h i (le_refl i), ← hx]
  congr 1
  apply Finset.sum_congr rfl
  intro j hj
  rw [Finset.mem_range] at hj
  rw [h j (by omega)]

@[simp] theorem fwdStep_size (L : Mat K) (b sol : Array K) (i : Nat) :
    (fwdStep L b sol i).size = sol.size := by
  simp [fwdStep]

theorem fwdStep_ne (L : Mat K) (b sol : Array K) {i j : Nat} (h : i ≠ j) :
    vget (fwdStep L b sol i) j = vget sol j := by
  unfold fwdStep; exact vget_set_ne _ _ h

theorem fwdStep_row (L : Mat K) (b sol : Array K) {i : Nat} (hi : i < sol.size)
    (hd : L.get i i ≠ 0) : FwdRow L b (fwdStep L b sol i) i := by
  unfold FwdRow
  have e : ∑ j ∈ range i, L.get i j * vget (fwdStep L b sol i) j
      = ∑ j ∈ range i, L.get i j * vget sol j := by
    apply Finset.sum_congr rfl
    intro j hj
    rw [Finset.mem_range] at hj
    rw [fwdStep_ne L b sol (by omega : i ≠ j)]
  rw [e]
  unfold fwdStep
  rw [vget_set_self _ _ _ hi, sumFrom_zero]
  generalize ∑ j ∈ range i, L.get i j * vget sol j = s
  field_simp
  ring

theorem fwdCore_rows (L : Mat K) (b sol : Array K) :
    ∀ n : Nat, n ≤ sol.size → (∀ i, i < n → L.get i i ≠ 0) →
      (fwdCore L n b sol).size = sol.size ∧
      (∀ i, i < n → FwdRow L b (fwdCore L n b sol) i) ∧
      (∀ j, n ≤ j → vget (fwdCore L n b sol) j = vget sol j) := by
  intro n
  induction n with
  | zero =>
    intro _ _
    exact ⟨rfl, fun i hi => absurd hi (Nat.not_lt_zero _), fun _ _ => rfl⟩
  | succ n ih =>
    intro hs hd
    obtain ⟨h1, h2, h3⟩ := ih (by omega) (fun i hi => hd i (by omega))
    have e : fwdCore L (n + 1) b sol = fwdStep L b (fwdCore L n b sol) n := by
      unfold fwdCore
      rw [List.range_succ, List.foldl_append]
      rfl
    rw [e]
    refine ⟨by simpa using h1, ?_, ?_⟩
    · intro i hi
      by_cases hin : i = n
      · subst hin
        exact fwdStep_row L b _ (by omega) (hd i (by omega))
      · apply FwdRow_congr _ (h2 i (by omega))
        intro j hj
        exact fwdStep_ne L b _ (by omega)
    · intro j hj
      rw [fwdStep_ne L b _ (by omega), h3 j (by omega)]

theorem forwardSubst_ok_iff (L : Mat K) (n : Nat) (b sol x : Array K) :
    forwardSubst L n b sol = .ok x ↔
      (n ≤ L.h ∧ n ≤ L.w ∧ n ≤ b.size ∧ n ≤ sol.size) ∧ x = fwdCore L n b sol := by
  unfold forwardSubst
  by_cases h : L.h < n ∨ L.w < n ∨ b.size < n ∨ sol.size < n
  · rw [if_pos h]
    constructor
    · intro h'; cases h'
    · rintro ⟨⟨h1, h2, h3, h4⟩, _⟩
      omega
  · rw [if_neg h]
    constructor
    · intro h'
      injection h' with h'
      exact ⟨by omega, h'.symm⟩
    · rintro ⟨_, rfl⟩; rfl

omit [Inhabited K] in
/-- a full row sum splits into the strictly lower part, the diagonal term and the strictly upper part -/
theorem sum_range_split (n i : Nat) (hi : i < n) (f : Nat → K) :
    ∑ j ∈ range n, f j = ∑ j ∈ range i, f j + f i + ∑ j ∈ Ico (i + 1) n, f j := by
  simp only [Finset.range_eq_Ico]
  rw [← Finset.sum_Ico_consecutive f (Nat.zero_le i) (by omega : i ≤ n),
    Finset.sum_eq_sum_Ico_succ_bot hi f, add_assoc]

omit [Inhabited K] in
/-- an upper-triangular system with non-zero diagonal has at most one solution -/
theorem upper_unique (U : Nat → Nat → K) (n : Nat) (c x y : Nat → K)
    (hd : ∀ i, i < n → U i i ≠ 0)
    (hx : ∀ i, i < n → U i i * x i + ∑ j ∈ Ico (i + 1) n, U i j * x j = c i)
    (hy : ∀ i, i < n → U i i * y i + ∑ j ∈ Ico (i + 1) n, U i j * y j = c i) :
    ∀ i, i < n → x i = y i := by
  have key : ∀ t, t ≤ n → ∀ i, n - t ≤ i → i < n → x i = y i := by
    intro t
    induction t with
    | zero => intro _ i h1 h2; omega
    | succ t ih =>
      intro ht i h1 h2
      by_cases hit : n - t ≤ i
      · exact ih (by omega) i hit h2
      · have e : ∑ j ∈ Ico (i + 1) n, U i j * x j = ∑ j ∈ Ico (i + 1) n, U i j * y j := by
          apply Finset.sum_congr rfl
          intro j hj
          rw [Finset.mem_Ico] at hj
          rw [ih (by omega) j (by omega) hj.2]
        have h3 := hx i h2
        have h4 := hy i h2
        rw [e] at h3
        have h5 : U i i * x i = U i i * y i := by
          linear_combination h3 - h4
        exact mul_left_cancel₀ (hd i h2) h5
  intro i hi
  exact key n (le_refl n) i (by omega) hi

end Subst
end SV
