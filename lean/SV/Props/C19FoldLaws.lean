import SV.Lemmas.C19Eval
/-!
# C19 — structural laws of the constant-folding pass, for every expression tree

Companion of `SV.Props.C19Fold` (which says folding keeps the *value*).  Here the statements are about the *shape* of
`fold nt e` (`fold_operations`), for every tree `e` and every choice `nt` of the value tests on literals:

* `fold_leaf`: numbers, variables and named constants are unchanged; so are function applications, unary and postfix nodes
  (`fold_unvisited`: the pass does not descend into them).
* `fold_only_listed_rules`: a binary node whose folded operands are not the literals 0 or 1 stays the same binary node of the
  folded operands.  `fold_no_rule_for_op`: `%`, `·`, `!` nodes are never rewritten.  `fold_pow_pow_kept`: `(b^n)^r` with literal
  exponents that are not 0 keeps both powers — there is no rule `(b^n)^r ↦ b` (seed C19-s6); instance `(x^2)^0.5`.
* `fold_no_new_symbols`: every variable, function name, named constant (and operator) of `fold e` occurs in `e`;
  `fold_nums`: every number literal of `fold e` is a literal of `e` or one of the two literals `0`, `1` the rules write.
* `fold_size_le`: the folded tree has at most as many nodes as the input; `fold_size_lt_of_ne`: strictly fewer whenever
  folding changed anything.
* `fold_idempotent`: `fold (fold e) = fold e` (the model's fold IS idempotent: every rule returns a literal, an already folded
  operand, or `-r` which the pass does not enter).  `IsFolded` characterises the fixed points: `isFolded_fold`,
  `isFolded_iff_fold_eq`.
-/
namespace SV.Props.C19FoldLaws
open SV SV.C19

section
variable {N : Type}

/-! ### (4) leaves and unvisited nodes -/

/-- **Leaves are unchanged**: `fold_operations` returns a number literal, a variable and a named constant as they are. -/
theorem fold_leaf (nt : NumTests N) :
    (∀ x : N, fold nt (.num x) = .num x) ∧ (∀ s : String, fold nt (.var s) = (.var s : Expr N)) ∧
    (∀ c : Const, fold nt (.const c) = (.const c : Expr N)) :=
  ⟨fold_num nt, fold_var nt, fold_const nt⟩

/-- The pass does not enter function arguments, unary minus or postfix nodes: such a node is returned as it is, whatever
redexes its operand contains. -/
theorem fold_unvisited (nt : NumTests N) (v : Expr N) :
    (∀ f : Func, fold nt (.func f v) = .func f v) ∧ (∀ o : Op, fold nt (.pre o v) = .pre o v) ∧
    (∀ o : Op, fold nt (.post o v) = .post o v) :=
  ⟨fun f => fold_func nt f v, fun o => fold_pre nt o v, fun o => fold_post nt o v⟩

/-! ### (5) only the listed rules -/

/-- a fold step whose operands are not the literals 0 or 1 does nothing -/
theorem foldStep_only_listed_rules (nt : NumTests N) (o : Op) (l r : Expr N) (p : Bool)
    (hl0 : isNumZero nt l = false) (hr0 : isNumZero nt r = false) (hr1 : isNumOne nt r = false) :
    foldStep nt o l r p = .bin o l r p := by
  unfold foldStep
  simp [hl0, hr0, hr1]

/-- **Only the listed rules rewrite.**  If neither folded operand of a binary node is a literal that tests as 0 and the
folded right operand is not a literal that tests as 1, `fold_operations` returns the same binary node (same operator, same
parenthesis flag) of the folded operands.  Every rewrite of the pass needs a literal 0 or 1 as an operand. -/
theorem fold_only_listed_rules (nt : NumTests N) (o : Op) (l r : Expr N) (p : Bool)
    (hl0 : isNumZero nt (fold nt l) = false) (hr0 : isNumZero nt (fold nt r) = false)
    (hr1 : isNumOne nt (fold nt r) = false) :
    fold nt (.bin o l r p) = .bin o (fold nt l) (fold nt r) p := by
  rw [fold_bin]; exact foldStep_only_listed_rules nt o _ _ p hl0 hr0 hr1

/-- The operators `%`, `·` (as an operator of the tree) and `!` have no rule at all: such a node is always kept, even with
operands 0 or 1. -/
theorem fold_no_rule_for_op (nt : NumTests N) (o : Op) (l r : Expr N) (p : Bool)
    (ho : o = .rem ∨ o = .cdot ∨ o = .fac) :
    fold nt (.bin o l r p) = .bin o (fold nt l) (fold nt r) p := by
  rw [fold_bin]; unfold foldStep
  rcases ho with rfl | rfl | rfl <;> simp

/-- A power whose exponent is a literal that does not test as 0, over a base that does not fold to the literal 0, is kept. -/
theorem fold_pow_kept (nt : NumTests N) (b : Expr N) (n : N) (p : Bool)
    (hb : isNumZero nt (fold nt b) = false) (hn : nt.isZero n = false) :
    fold nt (.bin .caret b (.num n) p) = .bin .caret (fold nt b) (.num n) p := by
  have hn' : isNumZero nt (.num n) = false := by simp [isNumZero, hn]
  rw [fold_bin, fold_num]; unfold foldStep
  simp [hb, hn']

/-- **`(b^n)^r` keeps both powers.**  For literal exponents `n`, `r` that do not test as 0 (in particular `n·r = 1`, e.g.
`2` and `0.5`) and a base that does not fold to the literal 0, the folded tree is `((fold b)^n)^r`: the rewrite
`(b^n)^r ↦ b` of seed C19-s6 is not a rule of the pass. -/
theorem fold_pow_pow_kept (nt : NumTests N) (b : Expr N) (n r : N) (p q : Bool)
    (hb : isNumZero nt (fold nt b) = false) (hn : nt.isZero n = false) (hr : nt.isZero r = false) :
    fold nt (.bin .caret (.bin .caret b (.num n) p) (.num r) q)
      = .bin .caret (.bin .caret (fold nt b) (.num n) p) (.num r) q := by
  rw [fold_pow_kept nt _ r q _ hr] <;> rw [fold_pow_kept nt b n p hb hn]
  rfl

/-! ### (3) folding invents nothing -/

/-- the variables of a tree, left to right (all nodes, also below functions and unary nodes) -/
def vars : Expr N → List String
  | .num _ => [] | .var s => [s] | .const _ => []
  | .func _ i => vars i | .pre _ v => vars v | .post _ v => vars v
  | .bin _ l r _ => vars l ++ vars r

/-- the function names of a tree -/
def funcs : Expr N → List Func
  | .num _ => [] | .var _ => [] | .const _ => []
  | .func f i => f :: funcs i | .pre _ v => funcs v | .post _ v => funcs v
  | .bin _ l r _ => funcs l ++ funcs r

/-- the named constants of a tree -/
def consts : Expr N → List Const
  | .num _ => [] | .var _ => [] | .const c => [c]
  | .func _ i => consts i | .pre _ v => consts v | .post _ v => consts v
  | .bin _ l r _ => consts l ++ consts r

/-- the operators of a tree (unary, postfix and binary) -/
def ops : Expr N → List Op
  | .num _ => [] | .var _ => [] | .const _ => []
  | .func _ i => ops i | .pre o v => o :: ops v | .post o v => o :: ops v
  | .bin o l r _ => o :: (ops l ++ ops r)

/-- the number literals of a tree -/
def nums : Expr N → List N
  | .num x => [x] | .var _ => [] | .const _ => []
  | .func _ i => nums i | .pre _ v => nums v | .post _ v => nums v
  | .bin _ l r _ => nums l ++ nums r

/-- the number of nodes of a tree -/
def size : Expr N → Nat
  | .num _ => 1 | .var _ => 1 | .const _ => 1
  | .func _ i => 1 + size i | .pre _ v => 1 + size v | .post _ v => 1 + size v
  | .bin _ l r _ => 1 + size l + size r

/-- every tree has at least one node -/
theorem size_pos (e : Expr N) : 0 < size e := by
  cases e <;> simp [size]

/-- the results of a fold step, with the operator of the one rule that builds a new node -/
private theorem foldStep_cases' (nt : NumTests N) (o : Op) (l r : Expr N) (p : Bool) :
    foldStep nt o l r p = .num nt.zero ∨ foldStep nt o l r p = .num nt.one ∨ foldStep nt o l r p = l ∨
    foldStep nt o l r p = r ∨ (o = .sub ∧ foldStep nt o l r p = .pre .sub r) ∨ foldStep nt o l r p = .bin o l r p := by
  unfold foldStep
  split_ifs with h1 h2 h3 h4 h5 h6 h7 h8 h9
  all_goals first | (simp; done) | (simp [h8.1])

/-- a fold step invents no symbol: what occurs in its result occurs in the node it was applied to -/
private theorem foldStep_symbols (nt : NumTests N) (o : Op) (l r : Expr N) (p : Bool) :
    vars (foldStep nt o l r p) ⊆ vars l ++ vars r ∧ funcs (foldStep nt o l r p) ⊆ funcs l ++ funcs r ∧
    consts (foldStep nt o l r p) ⊆ consts l ++ consts r ∧ ops (foldStep nt o l r p) ⊆ o :: (ops l ++ ops r) := by
  rcases foldStep_cases' nt o l r p with h | h | h | h | ⟨rfl, h⟩ | h
  all_goals
    rw [h]
    refine ⟨?_, ?_, ?_, ?_⟩ <;> intro x hx <;>
      simp only [vars, funcs, consts, ops, List.mem_cons, List.mem_append, List.not_mem_nil] at hx ⊢ <;> tauto

/-- **Folding invents nothing.**  Every variable, every function name, every named constant and every operator that occurs
in the folded tree occurs in the input tree.  (Number literals can be new: the rules write `0` and `1`, see `fold_nums`.) -/
theorem fold_no_new_symbols (nt : NumTests N) (e : Expr N) :
    vars (fold nt e) ⊆ vars e ∧ funcs (fold nt e) ⊆ funcs e ∧ consts (fold nt e) ⊆ consts e ∧
    ops (fold nt e) ⊆ ops e := by
  induction e with
  | num | var | const | func | pre | post =>
    simp only [fold_num, fold_var, fold_const, fold_func, fold_pre, fold_post, List.Subset.refl, and_self]
  | bin o l r p ihl ihr =>
    rw [fold_bin]
    obtain ⟨hv, hf, hc, ho⟩ := foldStep_symbols nt o (fold nt l) (fold nt r) p
    obtain ⟨lv, lf, lc, lo⟩ := ihl
    obtain ⟨rv, rf, rc, ro⟩ := ihr
    simp only [vars, funcs, consts, ops]
    refine ⟨?_, ?_, ?_, ?_⟩
    · intro x hx
      have := hv hx
      simp only [List.mem_append] at this ⊢
      exact this.imp (fun h => lv h) (fun h => rv h)
    · intro x hx
      have := hf hx
      simp only [List.mem_append] at this ⊢
      exact this.imp (fun h => lf h) (fun h => rf h)
    · intro x hx
      have := hc hx
      simp only [List.mem_append] at this ⊢
      exact this.imp (fun h => lc h) (fun h => rc h)
    · intro x hx
      have := ho hx
      simp only [List.mem_cons, List.mem_append] at this ⊢
      exact this.imp id (fun h => h.imp (fun h => lo h) (fun h => ro h))

/-- a fold step writes no literal other than the rules' `0` and `1` -/
private theorem foldStep_nums (nt : NumTests N) (o : Op) (l r : Expr N) (p : Bool) :
    ∀ x ∈ nums (foldStep nt o l r p), x ∈ nums l ++ nums r ∨ x = nt.zero ∨ x = nt.one := by
  rcases foldStep_cases nt o l r p with h | h | h | h | h | h
  all_goals
    rw [h]
    intro x hx
    simp only [nums, List.mem_cons, List.mem_append, List.not_mem_nil, or_false] at hx ⊢
    tauto

/-- The only number literals folding can write are the `0` and the `1` of the rules: every literal of the folded tree is a
literal of the input, or `nt.zero`, or `nt.one`. -/
theorem fold_nums (nt : NumTests N) (e : Expr N) :
    ∀ x ∈ nums (fold nt e), x ∈ nums e ∨ x = nt.zero ∨ x = nt.one := by
  induction e with
  | num | var | const | func | pre | post =>
    simp only [fold_num, fold_var, fold_const, fold_func, fold_pre, fold_post]
    intro x hx; exact Or.inl hx
  | bin o l r p ihl ihr =>
    rw [fold_bin]
    intro x hx
    rcases foldStep_nums nt o _ _ p x hx with h | h
    · simp only [nums, List.mem_append] at h ⊢
      rcases h with h | h
      · exact (ihl x h).imp Or.inl id
      · exact (ihr x h).imp Or.inr id
    · exact Or.inr h

/-! ### (1) folding never grows the tree -/

/-- a fold step returns at most the node it was applied to -/
private theorem foldStep_size_le (nt : NumTests N) (o : Op) (l r : Expr N) (p : Bool) :
    size (foldStep nt o l r p) ≤ 1 + size l + size r := by
  have hl := size_pos l
  rcases foldStep_cases nt o l r p with h | h | h | h | h | h <;> rw [h] <;> (try simp only [size]) <;> omega

/-- a fold step that does not return the node itself returns something strictly smaller -/
private theorem foldStep_size_lt (nt : NumTests N) (o : Op) (l r : Expr N) (p : Bool)
    (hne : foldStep nt o l r p ≠ .bin o l r p) : size (foldStep nt o l r p) < 1 + size l + size r := by
  have hl := size_pos l
  have hr := size_pos r
  rcases foldStep_cases nt o l r p with h | h | h | h | h | h
  · rw [h]; simp only [size]; omega
  · rw [h]; simp only [size]; omega
  · rw [h]; omega
  · rw [h]; omega
  · rw [h]; simp only [size]; omega
  · exact absurd h hne

/-- **Folding never grows the tree**: the folded tree has at most as many nodes as the input, for every tree. -/
theorem fold_size_le (nt : NumTests N) (e : Expr N) : size (fold nt e) ≤ size e := by
  induction e with
  | num | var | const | func | pre | post =>
    simp only [fold_num, fold_var, fold_const, fold_func, fold_pre, fold_post, le_refl]
  | bin o l r p ihl ihr =>
    rw [fold_bin]
    have := foldStep_size_le nt o (fold nt l) (fold nt r) p
    simp only [size]; omega

/-- … and whenever folding changes the tree at all, the result has strictly fewer nodes: every rule removes a node. -/
theorem fold_size_lt_of_ne (nt : NumTests N) (e : Expr N) (hne : fold nt e ≠ e) : size (fold nt e) < size e := by
  induction e with
  | num | var | const | func | pre | post =>
    simp only [fold_num, fold_var, fold_const, fold_func, fold_pre, fold_post, ne_eq, not_true_eq_false] at hne
  | bin o l r p ihl ihr =>
    have hl := fold_size_le nt l
    have hr := fold_size_le nt r
    rw [fold_bin] at hne ⊢
    by_cases hs : foldStep nt o (fold nt l) (fold nt r) p = .bin o (fold nt l) (fold nt r) p
    · rw [hs] at hne ⊢
      simp only [size]
      by_cases h1 : fold nt l = l
      · by_cases h2 : fold nt r = r
        · rw [h1, h2] at hne; exact absurd rfl hne
        · have := ihr h2; omega
      · have := ihl h1; omega
    · have := foldStep_size_lt nt o _ _ p hs
      simp only [size]; omega

/-! ### (2) idempotence and the fixed points -/

/-- **Folding is idempotent**: folding a folded tree changes nothing, for every tree and every choice of the literal tests.
(Checked first on examples; it holds because every rule returns a literal, an operand that is already folded, or `-r`,
a node the pass does not enter — no rule exposes a new redex at a node the pass visits.) -/
theorem fold_idempotent (nt : NumTests N) (e : Expr N) : fold nt (fold nt e) = fold nt e :=
  fold_idem nt e

/-- `IsFolded nt e`: no rule applies at any node the pass visits — every binary node reachable from the root through
binary nodes has folded operands and is left alone by a fold step. -/
def IsFolded (nt : NumTests N) : Expr N → Prop
  | .bin o l r p => IsFolded nt l ∧ IsFolded nt r ∧ foldStep nt o l r p = .bin o l r p
  | _ => True

/-- The folded trees are exactly the fixed points of the pass. -/
theorem isFolded_iff_fold_eq (nt : NumTests N) (e : Expr N) : IsFolded nt e ↔ fold nt e = e := by
  induction e with
  | num | var | const | func | pre | post =>
    simp only [IsFolded, fold_num, fold_var, fold_const, fold_func, fold_pre, fold_post]
  | bin o l r p ihl ihr =>
    simp only [IsFolded]
    constructor
    · rintro ⟨hl, hr, hs⟩
      rw [fold_bin, ihl.mp hl, ihr.mp hr, hs]
    · intro h
      rw [fold_bin] at h
      -- the step returned a `bin` node equal to the input, so the operands are fixed
      by_cases hs : foldStep nt o (fold nt l) (fold nt r) p = .bin o (fold nt l) (fold nt r) p
      · rw [hs] at h
        injection h with _ h1 h2 _
        refine ⟨ihl.mpr h1, ihr.mpr h2, ?_⟩
        rw [h1, h2] at hs; exact hs
      · exfalso
        have h1 := foldStep_size_lt nt o _ _ p hs
        have hl := fold_size_le nt l
        have hr := fold_size_le nt r
        rw [h] at h1
        simp only [size] at h1
        omega

/-- **The result of the pass is folded**: no rule applies at any visited node of `fold e`. -/
theorem isFolded_fold (nt : NumTests N) (e : Expr N) : IsFolded nt (fold nt e) :=
  (isFolded_iff_fold_eq nt _).mpr (fold_idempotent nt e)

end

/-! ### instances -/

/-- `(x^2)^0.5` on the driver's decimal literals: both powers are kept (seed C19-s6 would return `x`). -/
theorem fold_pow_pow_instance :
    fold decTests (.bin .caret (.bin .caret (.var "x") (.num ⟨false, 2, 0⟩) true) (.num ⟨false, 5, 1⟩) false)
      = .bin .caret (.bin .caret (.var "x") (.num ⟨false, 2, 0⟩) true) (.num ⟨false, 5, 1⟩) false := by
  rfl

/-- the same over ℚ, as an instance of `fold_pow_pow_kept` -/
example : fold (fieldTests ℚ) (.bin .caret (.bin .caret (.var "x") (.num 2) true) (.num (1/2)) false)
      = .bin .caret (.bin .caret (.var "x") (.num 2) true) (.num (1/2)) false := by
  have := fold_pow_pow_kept (fieldTests ℚ) (.var "x") 2 (1/2) true false
    (by simp [fold_var, isNumZero]) (by simp [fieldTests]) (by simp [fieldTests])
  simpa [fold_var] using this

/-- non-vacuity over ℚ: a tree on which rules fire — `(0*x + y/1) - sin(0+z)`: size 12 ↦ 6, the variable `x` disappears,
nothing appears, the function argument is not entered, and the result is folded. -/
example :
    let e : Expr ℚ := .bin .sub (.bin .add (.bin .mul (.num 0) (.var "x") false) (.bin .div (.var "y") (.num 1) false) true)
      (.func .sin (.bin .add (.num 0) (.var "z") true)) false
    fold (fieldTests ℚ) e = .bin .sub (.var "y") (.func .sin (.bin .add (.num 0) (.var "z") true)) false ∧
    size e = 12 ∧ size (fold (fieldTests ℚ) e) = 6 ∧ vars (fold (fieldTests ℚ) e) = ["y", "z"] ∧
    IsFolded (fieldTests ℚ) (fold (fieldTests ℚ) e) := by
  refine ⟨?_, ?_, ?_, ?_, isFolded_fold _ _⟩ <;>
    simp [fold, isNumZero, isNumOne, isNumPos, fieldTests, size, vars]

end SV.Props.C19FoldLaws
