//! C02 — multivariate parser: grammar accepted, canonical form, evaluation matches maths.
//!
//!   parse <entry> <text> | <intended>    entry 0 = parse_intermediate_polynomial, 1 = IntermediatePolynomial::parse
//!   evalm <poly> <n> {name value}*       eval_multivariate on a structure (shared PolyOps request)
//!   eval  <poly> <x>                     eval_univariate
//!   pe    <text> <n> {name value}* | <intended>      parse then eval_multivariate (oracle only)
//!   both  <text> <x> | <intended>        parse with BOTH parsers, evaluate both at x (oracle only)
//!
//! `<intended>` = `nterms { neg cm cs dm ds nv { cp eneg em es fm fs }* }*`: coefficient
//! ±(cm/10^cs)/(dm/10^ds) (dm = 0: no denominator), per variable the code point and exponent
//! ±(em/10^es)/(fm/10^fs) (fm = 0: no denominator).  Only the Python oracle reads it.
use crate::polyio::*;
use crate::polyops;
use crate::util::*;
use spindalis_core::polynomials::intermediate::parse_intermediate_polynomial;
use spindalis_core::polynomials::structs::{IntermediatePolynomial, PolynomialTraits, SimplePolynomial};

pub fn show_parsed(r: &Result<IntermediatePolynomial, spindalis_core::polynomials::PolynomialError>) -> String {
    match r {
        Ok(p) => format!("ok {}", show_inter(p)),
        Err(e) => format!("err {}", err_kind(e)),
    }
}

pub fn run(line: &str) -> Obs {
    let mut t = Toks::new(line);
    match t.tok() {
        "parse" => {
            let entry = t.usize();
            let text = t.string();
            let r = catch(|| match entry {
                0 => parse_intermediate_polynomial(&text),
                _ => IntermediatePolynomial::parse(&text),
            });
            match r {
                Some(r) => Obs::plain(show_parsed(&r)),
                None => Obs::with("panic".into(), Err("parser panicked".into())),
            }
        }
        "pe" => {
            let text = t.string();
            let n = t.usize();
            let binds: Vec<(String, f64)> = (0..n).map(|_| (t.string(), t.f64())).collect();
            let r = catch(|| IntermediatePolynomial::parse(&text).and_then(|p| p.eval_multivariate(&binds)));
            match r {
                Some(r) => Obs::plain(show_eval(&r)),
                None => Obs::with("panic".into(), Err("parse+eval panicked".into())),
            }
        }
        "both" => {
            let text = t.string();
            let x = t.f64();
            let r = catch(|| {
                let a = SimplePolynomial::parse(&text).and_then(|p| p.eval_univariate(x));
                let b = IntermediatePolynomial::parse(&text).and_then(|p| p.eval_univariate(x));
                format!("{} {}", show_eval(&a), show_eval(&b))
            });
            match r {
                Some(s) => Obs::plain(s),
                None => Obs::with("panic".into(), Err("parse+eval panicked".into())),
            }
        }
        _ => polyops::run(line),
    }
}

// ------------------------------------------------------------------------------------ generators

pub struct GenNum {
    pub neg: bool,
    pub m: u64,
    pub s: u32,
    pub dm: u64,
    pub ds: u32,
    pub text: String, // without sign
}

fn small_dec(rng: &mut Rng) -> (String, u64, u32) {
    match rng.below(5) {
        0 => {
            let n = 1 + rng.below(20);
            (format!("{n}"), n, 0)
        }
        1 => {
            let i = rng.below(10);
            let f = 1 + rng.below(99);
            (format!("{i}.{f:02}"), i * 100 + f, 2)
        }
        2 => {
            let f = 1 + rng.below(9);
            (format!(".{f}"), f, 1)
        }
        3 => {
            let n = 1 + rng.below(9);
            (format!("{n}."), n, 0)
        }
        _ => {
            let n = 1 + rng.below(9);
            (format!("0{n}"), n, 0)
        }
    }
}

/// coefficient forms '', n, n.d, .d, a/b
pub fn gen_coeff(rng: &mut Rng) -> Option<GenNum> {
    match rng.below(5) {
        0 => None,
        1 => {
            let (ta, a, sa) = small_dec(rng);
            let (tb, b, sb) = small_dec(rng);
            Some(GenNum { neg: false, m: a, s: sa, dm: b, ds: sb, text: format!("{ta}/{tb}") })
        }
        _ => {
            let (t, m, s) = if rng.chance(1, 3) { crate::c01::dec_spelling(rng) } else { small_dec(rng) };
            Some(GenNum { neg: false, m, s, dm: 0, ds: 0, text: t })
        }
    }
}

/// exponent forms n, -n, n.d, a/b, -a/b with denominators dividing 12 (so that r^12 bases give
/// exact rational powers for the oracle)
pub fn gen_exp(rng: &mut Rng) -> Option<GenNum> {
    match rng.below(8) {
        0 | 1 => None,
        2 => {
            let n = 1 + rng.below(5);
            Some(GenNum { neg: true, m: n, s: 0, dm: 0, ds: 0, text: format!("-{n}") })
        }
        3 => {
            // n.d with d in {5, 25, 75, 0}
            let n = rng.below(4);
            let (ft, fm, fs) = *rng.pick(&[("5", 5u64, 1u32), ("25", 25, 2), ("75", 75, 2), ("50", 50, 2), ("0", 0, 1)]);
            let neg = rng.chance(1, 4);
            let m = n * 10u64.pow(fs) + fm;
            Some(GenNum { neg, m, s: fs, dm: 0, ds: 0, text: format!("{}{n}.{ft}", if neg { "-" } else { "" }) })
        }
        4 => {
            let a = 1 + rng.below(7);
            let b = *rng.pick(&[2u64, 3, 4, 6]);
            let neg = rng.chance(1, 3);
            Some(GenNum { neg, m: a, s: 0, dm: b, ds: 0, text: format!("{}{a}/{b}", if neg { "-" } else { "" }) })
        }
        5 => Some(GenNum { neg: false, m: 0, s: 0, dm: 0, ds: 0, text: "0".into() }),
        _ => {
            let n = 1 + rng.below(6);
            let t = if rng.chance(1, 4) { format!("0{n}") } else { format!("{n}") };
            Some(GenNum { neg: false, m: n, s: 0, dm: 0, ds: 0, text: t })
        }
    }
}

pub struct GenITerm {
    pub neg: bool,
    pub coef: Option<GenNum>,
    pub vars: Vec<(char, Option<GenNum>)>,
}

pub const LETTERS: &[char] = &['x', 'y', 'z', 'a', 'b', 'q', 'X', 'Y', 'e'];

pub fn gen_iterm(rng: &mut Rng, pool: &[char], integer_only: bool) -> GenITerm {
    let nv = rng.below(pool.len() as u64 + 1) as usize;
    // distinct letters in random order
    let mut letters: Vec<char> = pool.to_vec();
    for i in (1..letters.len()).rev() {
        letters.swap(i, rng.below(i as u64 + 1) as usize);
    }
    letters.truncate(nv);
    let mut coef = gen_coeff(rng);
    if nv == 0 && coef.is_none() {
        coef = Some(GenNum { neg: false, m: 7, s: 0, dm: 0, ds: 0, text: "7".into() });
    }
    let vars = letters
        .into_iter()
        .map(|c| {
            let mut e = gen_exp(rng);
            if integer_only {
                if let Some(g) = &e {
                    if g.dm != 0 || g.s != 0 || g.neg {
                        e = Some(GenNum { neg: false, m: 2, s: 0, dm: 0, ds: 0, text: "2".into() });
                    }
                }
            }
            (c, e)
        })
        .collect();
    GenITerm { neg: rng.chance(2, 5), coef, vars }
}

pub fn render(rng: &mut Rng, terms: &[GenITerm], spacing: u64) -> String {
    let mut s = String::new();
    let sp = |rng: &mut Rng, s: &mut String| {
        if rng.below(10) < spacing {
            s.push_str(*rng.pick(crate::c01::SPACES));
        }
    };
    sp(rng, &mut s);
    for (i, t) in terms.iter().enumerate() {
        if t.neg {
            s.push('-');
            sp(rng, &mut s);
        } else if i > 0 || rng.chance(1, 8) {
            s.push('+');
            sp(rng, &mut s);
        }
        if let Some(c) = &t.coef {
            s.push_str(&c.text);
            sp(rng, &mut s);
        }
        for (v, e) in &t.vars {
            s.push(*v);
            sp(rng, &mut s);
            if let Some(e) = e {
                s.push('^');
                sp(rng, &mut s);
                s.push_str(&e.text);
                sp(rng, &mut s);
            }
        }
    }
    s
}

pub fn intended(terms: &[GenITerm]) -> String {
    let mut s = format!("{}", terms.len());
    for t in terms {
        match &t.coef {
            Some(c) => s.push_str(&format!(" {} {} {} {} {}", t.neg as u8, c.m, c.s, c.dm, c.ds)),
            None => s.push_str(&format!(" {} 1 0 0 0", t.neg as u8)),
        }
        s.push_str(&format!(" {}", t.vars.len()));
        for (v, e) in &t.vars {
            match e {
                Some(e) => s.push_str(&format!(" {} {} {} {} {} {}", *v as u32, e.neg as u8, e.m, e.s, e.dm, e.ds)),
                None => s.push_str(&format!(" {} 0 1 0 0 0", *v as u32)),
            }
        }
    }
    s
}

/// values r^12 with r = m/2^k small: every exponent with denominator dividing 12 gives an exact rational
pub fn base12(rng: &mut Rng) -> f64 {
    let r: f64 = *rng.pick(&[1.0, 2.0, 0.5, 1.5, 3.0, 0.75, 1.25, 2.5]);
    r.powi(12)
}

pub fn generate(seed: u64, thorough: bool, emit: &mut dyn FnMut(String)) {
    let mut rng = Rng::new(seed ^ 0xC02);
    let n = if thorough { 60_000 } else { 3000 };
    for i in 0..n {
        let pool_size = rng.below(5) as usize;
        let mut pool: Vec<char> = Vec::new();
        while pool.len() < pool_size {
            let c = *rng.pick(LETTERS);
            if !pool.contains(&c) {
                pool.push(c);
            }
        }
        let nt = 1 + rng.below(5) as usize;
        let terms: Vec<GenITerm> = (0..nt).map(|_| gen_iterm(&mut rng, &pool, false)).collect();
        let spacing = *rng.pick(&[0u64, 2, 6]);
        let text = render(&mut rng, &terms, spacing);
        let want = intended(&terms);
        emit(format!("parse {} {} | {}", i % 2, req_string(&text), want));
        // evaluate under an assignment of all pool variables (sometimes one missing)
        let drop = if !pool.is_empty() && rng.chance(1, 6) { Some(rng.below(pool.len() as u64) as usize) } else { None };
        let mut b = String::new();
        let mut nb = 0;
        for (k, c) in pool.iter().enumerate() {
            if Some(k) == drop {
                continue;
            }
            nb += 1;
            b.push_str(&format!(" {} {}", req_string(&c.to_string()), rbits(base12(&mut rng))));
        }
        emit(format!("pe {} {nb}{b} | {}", req_string(&text), want));
    }
    // the common univariate sub-language through both parsers
    let m = if thorough { 20_000 } else { 1500 };
    for _ in 0..m {
        let (text, want) = crate::c01::gen_poly_text_ascii(&mut rng);
        let x = if rng.chance(1, 10) { 0.0 } else { rng.dyadic(256, 6) };
        emit(format!("both {} {} | {}", req_string(&text), rbits(x), want));
    }
    // structures: evaluation requests (K on the shared model + missing-variable behaviour)
    let k = if thorough { 20_000 } else { 1500 };
    for _ in 0..k {
        let names: &[&str] = match rng.below(3) {
            0 => &["x"],
            1 => &["x", "y"],
            _ => &["a", "x", "z"],
        };
        let p = polyops::rand_inter(&mut rng, names, 4);
        let mut s = format!("evalm {} ", req_inter(&p));
        let nb = rng.below(names.len() as u64 + 1) as usize;
        s.push_str(&format!("{nb}"));
        for v in names.iter().take(nb) {
            s.push_str(&format!(" {} {}", req_string(v), rbits(base12(&mut rng))));
        }
        emit(s);
    }
}
