import SV.Model.C15
import SV.Lemmas.C15
/-!
# C15 — gradient descent can only stall at the least-squares optimum

Companion of `SV.Props.C15` (added after seeding round 6b, DESIGN.md §17).  The seeded change C15-s6a stops the
descent loop as soon as the slope's partial gradient is exactly 0.  The theorems here say, for the model `gdStep`
the correspondence run ties to `GradientDescentRegression::fit`:

* `gd_fixed_point_iff`: one pass leaves the weights unchanged **iff both** gradient sums vanish, i.e. iff the weights
  solve the normal equations (`gd_fixed_point_iff_normalEqs`) — for every data set, every step `α ≠ 0`;
* `gd_loop_stationary`: from such a point every number of further passes stays there (so stopping is sound exactly there);
* `slope_gradient_zero_is_not_convergence`: a zero *slope* gradient alone is not such a point (concrete witness over ℚ);
* `gd_resonant_second_pass`: whenever `α · mean(x²) = 1` the slope's gradient sum is exactly 0 after the first pass from
  the code's starting point `(mean y, 0)` — for all data — while the intercept's gradient is `slope₁ · mean x`: the
  family `resonant_gd` of the harness generates exactly these data.
-/
set_option linter.unusedSectionVars false

namespace SV.Props.C15Stationary
open SV SV.C15 SV.C18 Finset

variable {K : Type} [Field K] [LinearOrder K] [IsStrictOrderedRing K] [Inhabited K]

/-- a pass is a fixed point iff both gradient sums are zero -/
theorem gd_fixed_point_iff (α : K) (hα : α ≠ 0) (x y : List K) (hn : y.length ≠ 0) (w : K × K) :
    gdStep α x y w = w ↔
      ((x.zip y).map fun p => w.1 + w.2 * p.1 - p.2).sum = 0 ∧
      ((x.zip y).map fun p => (w.1 + w.2 * p.1 - p.2) * p.1).sum = 0 := by
  have hnK : (y.length : K) ≠ 0 := Nat.cast_ne_zero.mpr hn
  rw [gdStep_eq, Prod.ext_iff]
  simp only [sub_eq_self, mul_eq_zero, hα, false_or, div_eq_zero_iff, hnK, or_false]

private theorem sum_map_neg' {ι : Type} (l : List ι) (f : ι → K) :
    (l.map fun p => -f p).sum = -(l.map f).sum := by
  induction l with
  | nil => simp
  | cons a l ih => simp only [List.map_cons, List.sum_cons, ih]; ring

/-- … i.e. iff the weights solve the normal equations of the line fit -/
theorem gd_fixed_point_iff_normalEqs (α : K) (hα : α ≠ 0) (x y : List K) (hn : y.length ≠ 0) (w : K × K) :
    gdStep α x y w = w ↔
      ((x.zip y).map fun p => p.2 - (w.1 + w.2 * p.1)).sum = 0 ∧
      ((x.zip y).map fun p => (p.2 - (w.1 + w.2 * p.1)) * p.1).sum = 0 := by
  rw [gd_fixed_point_iff α hα x y hn w]
  have e0 : ((x.zip y).map fun p => p.2 - (w.1 + w.2 * p.1)).sum
      = -((x.zip y).map fun p => w.1 + w.2 * p.1 - p.2).sum := by
    rw [← sum_map_neg']
    congr 1
    apply List.map_congr_left
    intro p _
    ring
  have e1 : ((x.zip y).map fun p => (p.2 - (w.1 + w.2 * p.1)) * p.1).sum
      = -((x.zip y).map fun p => (w.1 + w.2 * p.1 - p.2) * p.1).sum := by
    rw [← sum_map_neg']
    congr 1
    apply List.map_congr_left
    intro p _
    ring
  rw [e0, e1, neg_eq_zero, neg_eq_zero]

/-- at a fixed point of the pass every number of further passes changes nothing -/
theorem gd_loop_stationary (α : K) (x y : List K) (w : K × K) (h : gdStep α x y w = w) (k : Nat) :
    gdLoop α x y k w = w := by
  induction k with
  | zero => rfl
  | succ k ih => rw [gdLoop, h, ih]

/-- a vanishing slope gradient alone is not convergence: `x = [-1,0,1]`, `y = [1,1,1]`, weights `(0,0)`:
the slope's gradient sum is 0, the pass still moves the intercept -/
theorem slope_gradient_zero_is_not_convergence :
    (((([-1, 0, 1] : List ℚ).zip [1, 1, 1]).map fun p => ((0 : ℚ) + 0 * p.1 - p.2) * p.1).sum = 0) ∧
    gdStep (1 : ℚ) [-1, 0, 1] [1, 1, 1] (0, 0) ≠ (0, 0) := by
  constructor
  · norm_num
  · rw [gdStep_eq]
    norm_num

/-- the two gradient sums are affine in the weights -/
theorem grad_sums_affine (x y : List K) (hxy : x.length = y.length) (w : K × K) :
    ((x.zip y).map fun p => w.1 + w.2 * p.1 - p.2).sum
        = (y.length : K) * w.1 + w.2 * x.sum - y.sum ∧
    ((x.zip y).map fun p => (w.1 + w.2 * p.1 - p.2) * p.1).sum
        = w.1 * x.sum + w.2 * (x.map fun xi => xi ^ 2).sum - ((x.zip y).map fun p => p.2 * p.1).sum := by
  have hx : ((x.zip y).map fun p => p.1).sum = x.sum := by
    have := map_zip_fst x y (fun t => t) (le_of_eq hxy)
    simp only [List.map_id'] at this
    rw [this]
  have hy : ((x.zip y).map fun p => p.2).sum = y.sum := by
    have := map_zip_snd x y (fun t => t) (le_of_eq hxy.symm)
    simp only [List.map_id'] at this
    rw [this]
  have hxx : ((x.zip y).map fun p => p.1 ^ 2).sum = (x.map fun xi => xi ^ 2).sum := by
    rw [map_zip_fst x y (fun t => t ^ 2) (le_of_eq hxy)]
  have hlen : ((x.zip y).length : K) = (y.length : K) := by
    rw [List.length_zip, hxy, min_self]
  constructor
  · have e : ((x.zip y).map fun p => w.1 + w.2 * p.1 - p.2)
        = (x.zip y).map fun p => (w.1 + w.2 * p.1) - p.2 := rfl
    rw [e, sum_map_sub, sum_map_add', sum_map_const, hlen,
      sum_map_mul_left' (x.zip y) (fun p => p.1) w.2, hx, hy]
  · have e : ((x.zip y).map fun p => (w.1 + w.2 * p.1 - p.2) * p.1)
        = (x.zip y).map fun p => (w.1 * p.1 + w.2 * p.1 ^ 2) - p.2 * p.1 := by
      apply List.map_congr_left; intro p _; ring
    rw [e, sum_map_sub, sum_map_add',
      sum_map_mul_left' (x.zip y) (fun p => p.1) w.1,
      sum_map_mul_left' (x.zip y) (fun p => p.1 ^ 2) w.2, hx, hxx]

/-- **resonance**: if `α · mean(x²) = 1`, then after the first pass from the code's starting point `(mean y, 0)` the
intercept has not moved, the slope's gradient sum is exactly 0 — for every data set — and the intercept's gradient sum
on that second pass is `slope₁ · Σx`, which is not 0 unless the data are centred or uncorrelated.  An exit test on the
slope's gradient alone therefore stops here, one pass after the start, wherever the optimum is. -/
theorem gd_resonant_second_pass (α : K) (x y : List K) (hxy : x.length = y.length) (hn : y.length ≠ 0)
    (hres : α * ((x.map fun xi => xi ^ 2).sum / (y.length : K)) = 1) :
    (gdStep α x y (y.sum / (y.length : K), 0)).1 = y.sum / (y.length : K) ∧
    ((x.zip y).map fun p => ((gdStep α x y (y.sum / (y.length : K), 0)).1
        + (gdStep α x y (y.sum / (y.length : K), 0)).2 * p.1 - p.2) * p.1).sum = 0 ∧
    ((x.zip y).map fun p => (gdStep α x y (y.sum / (y.length : K), 0)).1
        + (gdStep α x y (y.sum / (y.length : K), 0)).2 * p.1 - p.2).sum
      = (gdStep α x y (y.sum / (y.length : K), 0)).2 * x.sum := by
  have hnK : (y.length : K) ≠ 0 := Nat.cast_ne_zero.mpr hn
  obtain ⟨g0, g1⟩ := grad_sums_affine x y hxy (y.sum / (y.length : K), 0)
  simp only at g0 g1
  have hw1 : gdStep α x y (y.sum / (y.length : K), 0)
      = (y.sum / (y.length : K),
         -(α * ((y.sum / (y.length : K) * x.sum - ((x.zip y).map fun p => p.2 * p.1).sum) / (y.length : K)))) := by
    rw [gdStep_eq]
    simp only
    rw [g0, g1, Prod.mk.injEq]
    constructor
    · field_simp
      ring
    · ring
  obtain ⟨a0, a1⟩ := grad_sums_affine x y hxy (gdStep α x y (y.sum / (y.length : K), 0))
  have hres' : α * (x.map fun xi => xi ^ 2).sum = (y.length : K) := by
    have := hres
    field_simp at this
    linarith
  refine ⟨by rw [hw1], ?_, ?_⟩
  · rw [a1, hw1]
    simp only
    have : -(α * ((y.sum / (y.length : K) * x.sum - ((x.zip y).map fun p => p.2 * p.1).sum) / (y.length : K)))
          * (x.map fun xi => xi ^ 2).sum
        = -((y.sum / (y.length : K) * x.sum - ((x.zip y).map fun p => p.2 * p.1).sum) / (y.length : K))
            * (α * (x.map fun xi => xi ^ 2).sum) := by ring
    rw [this, hres']
    field_simp
    ring
  · rw [a0, hw1]
    simp only
    field_simp
    ring

/-- the resonance hypothesis is satisfiable with a stable step and un-centred data: `x = [4,3,2,1,1,1,0,0]`
(`mean x² = 4`, `α = 1/4`, `Σx = 12`) — the data of the seeded change's demonstration -/
example : (1 / 4 : ℚ) * ((([4, 3, 2, 1, 1, 1, 0, 0] : List ℚ).map fun xi => xi ^ 2).sum / ((8 : ℕ) : ℚ)) = 1 := by
  norm_num

end SV.Props.C15Stationary
