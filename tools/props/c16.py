"""C16 plug-in: arbitrary text through both parser models.  `parse1`/`parse2` answers are compared like C01/C02
`parse` (the model's exact decimal expressions evaluated in binary64 must equal the implementation's f64).
`enum` answers are digests over every string of a prefix class; a differing digest or a failing oracle inside a
class is refined prefix by prefix down to a single string (`refine`)."""
import os, importlib.util
from oracle_util import *

_here = os.path.dirname(os.path.abspath(__file__))
def _load(name):
    spec = importlib.util.spec_from_file_location("prop_" + name, os.path.join(_here, name + ".py"))
    m = importlib.util.module_from_spec(spec); spec.loader.exec_module(m); return m
_c01, _c02 = _load("c01"), _load("c02")

ALPHABET = ['x', 'y', '2', '3', '0', '.', '^', '+', '-', '/', '*', '(', ')', ' ', '#']
CHUNK_MIN = 64   # enum requests are heavy: spread them over all cores

RULE = ("exhaustive: every string of length <= 5 (quick) / 6 (thorough) over {x,y,2,3,0,.,^,+,-,/,*,(,),space,#} through both "
        "parsers (digest per 2-symbol prefix class, refined to a single string on any difference), plus grammatical strings "
        "mutated with arbitrary Unicode and extreme exponent magnitudes. Non-trivial = a prefix class in which at least one "
        "string is accepted, or a single text the model accepts; distinct = distinct request lines (each enum request stands for "
        "15^(L-2)-ish distinct strings, counted in coverage.notes)")

def compare(req, impl, model):
    from __main__ import default_compare
    r = req.split()
    if r[0] == "parse1":
        return _c01.compare("parse 0 " + " ".join(r[1:]), impl, model)
    if r[0] == "parse2":
        return _c02.compare("parse 0 " + " ".join(r[1:]), impl, model)
    return default_compare(req, impl, model)

def nontrivial(req, model):
    r = req.split()
    if r[0] == "enum":
        return int(model.split()[1]) > 0
    return model.startswith("ok")

def tag(req, model):
    r = req.split(); m = model.split()
    if r[0] == "enum":
        return f"enum{r[1]}:" + ("some-accepted" if int(m[1]) > 0 else "all-rejected")
    return r[0] + ":" + (m[0] if m else "empty") + (":" + m[1] if m and m[0] == "err" else "")

def refine(req):
    """sub-requests that together cover an enum request; [] when it cannot be refined further"""
    r = req.split()
    if r[0] != "enum":
        return []
    parser, maxlen = r[1], int(r[2])
    prefix, _ = read_string(r, 3)
    def enc(s):
        return f"{len(s)} " + " ".join(str(ord(c)) for c in s) if s else "0"
    subs = [f"parse{parser} {enc(prefix)}"]
    if len(prefix) < maxlen:
        for c in ALPHABET:
            subs.append(f"enum {parser} {maxlen} {enc(prefix + c)}")
    return subs

def finish(rows, tier):
    n = sum(int(m.split()[0]) for (r, i, o, m) in rows if r.startswith("enum"))
    a = sum(int(m.split()[1]) for (r, i, o, m) in rows if r.startswith("enum"))
    return [f"exhaustive enumeration covered {n} (parser, string) pairs, {a} accepted by the model; implementation digests compared per prefix class"]
