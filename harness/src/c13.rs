//! C13 — power method: `power <half> <h> <w> <bits…> <es bits>` →
//! `ok <λ> <n> 1 <v…>` | `err nonsquare` | `err noconv` | `panic` | `hang`.
//!
//! `<half>` says which clause of the property the request exercises: `acc` (symmetric Q D Qᵀ with a
//! spectral gap: the call must succeed and be accurate — the numeric part of that oracle is exact
//! rational arithmetic in tools/props/c13.py), `term` (any square matrix: the call must return, `Ok`
//! or `Err`, never panic, never hang), `sym` (small symmetric integer matrices — exact zeros and ties in the
//! iterates; judged for accuracy by the plug-in only when its own reference computation finds the matrix inside
//! the accuracy quantifier, otherwise like `term`), `shape` (non-square / empty: rejected, i.e. any `Err`; the statement
//! names no error kind, the observation keeps it for information only).
//! Hardening halves: `nsym` (non-symmetric S D S^-1 built exactly from small integer data, triangular, Markov:
//! a strictly dominant real eigenvalue with gap <= 1/2 by construction, re-checked by the plug-in's own reference;
//! must succeed; residual clause judged exactly), `gen` (small non-symmetric integer matrices, judged like `nsym` when
//! the reference finds them inside the quantifier, otherwise like `term`), `accbig` / `nsymbig` (the same two
//! constructions at n = 9..40: must succeed; residual judged exactly, the eigenvalue by exact inertia counts in the
//! symmetric case).
//! Hardening 4: `accw` (symmetric Q D Qᵀ with eigenvalues of BOTH signs, gap <= 1/2, and the all-ones start vector
//! 60..89 degrees away from the dominant eigenvector — "not orthogonal", which is all the statement asks: must succeed,
//! judged by the same exact accuracy oracle.  The Rayleigh quotients of such a matrix start with the sign of the
//! sub-dominant eigenvalues and CROSS ZERO on their way to the dominant one; half of the family is tuned — by bisection
//! on the angle with a binary64 replica of the documented iteration — so that the two quotients next to the crossing
//! are equal in magnitude to a relative 1e-3..1e-14).
//!
//! Verdicts decided here for every half: outcome kind, shape of v; whenever an eigenpair is returned it is finite
//! and its largest component is exactly 1 (no `Ok(NaN)`); every container type the entry point accepts
//! (`&Arr2D<f64>`, `Vec<Vec<f64>>`, `&Vec<Vec<f64>>`, and `&Vec<Vec<i32|f32>>`, `&Arr2D<i32|f32>` when they can hold
//! the numbers) gives the same answer bit for bit (which also makes every request a repeated call); on `shape`
//! requests, ragged nested vectors of every row-length tuple derived from the request are rejected.
use crate::util::*;
use spindalis::eigen::power_method;
use spindalis::utils::{Arr2D, Arr2DError};
use std::sync::mpsc;
use std::time::Duration;

/// the cap of the source makes every call finite (the slowest request of the tiers needs ~0.1 s); a call that
/// needs longer than this is a hang.  A loaded machine can stall a thread for seconds, so the first time-out is
/// only believed after a second, longer wait; once one hang is confirmed the later calls use the short wait only.
const WATCHDOG: Duration = Duration::from_secs(10);
const WATCHDOG_CONFIRM: Duration = Duration::from_secs(35);
static HANG_SEEN: std::sync::atomic::AtomicBool = std::sync::atomic::AtomicBool::new(false);

fn to_arr(h: usize, w: usize, v: &[f64]) -> Arr2D<f64> {
    let mut a = Arr2D::full(0.0f64, h, w);
    for i in 0..h {
        for j in 0..w {
            a[(i, j)] = v[i * w + j];
        }
    }
    a
}

fn show(a: &Arr2D<f64>) -> String {
    let mut s = format!("{} {}", a.height, a.width);
    for i in 0..a.height {
        for j in 0..a.width {
            s.push(' ');
            s.push_str(&fbits(a[(i, j)]));
        }
    }
    s
}

type Res = Result<(f64, Arr2D<f64>), Arr2DError>;

enum Run {
    Done(Res),
    Panic,
    Hang,
}

fn call(f: impl FnOnce() -> Res + Send + 'static) -> Run {
    use std::sync::atomic::Ordering;
    let (tx, rx) = mpsc::channel();
    std::thread::spawn(move || {
        let r = catch(f);
        let _ = tx.send(r);
    });
    let first = rx.recv_timeout(WATCHDOG);
    let got = match first {
        Err(_) if !HANG_SEEN.load(Ordering::Relaxed) => rx.recv_timeout(WATCHDOG_CONFIRM),
        other => other,
    };
    match got {
        Ok(Some(r)) => Run::Done(r),
        Ok(None) => Run::Panic,
        Err(_) => {
            HANG_SEEN.store(true, Ordering::Relaxed);
            Run::Hang
        }
    }
}

/// canonical observation of one call
fn observe(r: &Run) -> String {
    match r {
        Run::Panic => "panic".into(),
        Run::Hang => "hang".into(),
        Run::Done(Ok((lam, vec))) => format!("ok {} {}", fbits(*lam), show(vec)),
        Run::Done(Err(Arr2DError::NonSquareMatrix)) => "err nonsquare".into(),
        Run::Done(Err(Arr2DError::NoConvergence)) => "err noconv".into(),
        Run::Done(Err(e)) => format!("err other {e:?}"),
    }
}

fn rows_of<T: Copy>(h: usize, w: usize, v: &[T]) -> Vec<Vec<T>> {
    (0..h).map(|i| v[i * w..(i + 1) * w].to_vec()).collect()
}

/// the other container types `power_method` accepts for these numbers: (name, observation)
fn other_containers(h: usize, w: usize, v: &[f64], es: f64) -> Vec<(&'static str, String)> {
    let mut out = Vec::new();
    // a nested Vec cannot say "0 rows of w columns"; Arr2D can
    if h == 0 && w != 0 {
        return out;
    }
    // the same numbers as an `Arr2D<f64>` with another history: `from_flat` of a short slice (padded with NaN, then
    // overwritten), a single row reshaped, `clone_from` into a larger object, transposed twice
    if h * w > 0 {
        if let Ok(mut a) = Arr2D::from_flat(&v[..(h * w) / 2], f64::NAN, h, w) {
            for i in 0..h {
                for j in 0..w {
                    a[(i, j)] = v[i * w + j];
                }
            }
            out.push(("&Arr2D<f64> (from_flat of a short slice, padded, then filled)", observe(&call(move || power_method(&a, es)))));
        }
        if let Ok(mut a) = Arr2D::from_flat(v, f64::NAN, 1, h * w) {
            if a.reshape(h).is_ok() {
                out.push(("&Arr2D<f64> (one row reshaped)", observe(&call(move || power_method(&a, es)))));
            }
        }
    }
    {
        let src = to_arr(h, w, v);
        let mut big = Arr2D::full(f64::NAN, h + 3, w + 2);
        big.clone_from(&src);
        let mut t = src.transpose();
        t.transpose_mut();
        out.push(("&Arr2D<f64> (clone_from into a larger object)", observe(&call(move || power_method(&big, es)))));
        out.push(("&Arr2D<f64> (transpose, then transpose_mut)", observe(&call(move || power_method(&t, es)))));
    }
    let vv = rows_of(h, w, v);
    let owned = vv.clone();
    out.push(("Vec<Vec<f64>>", observe(&call(move || power_method(owned, es)))));
    let borrowed = vv.clone();
    out.push(("&Vec<Vec<f64>>", observe(&call(move || power_method(&borrowed, es)))));
    let int_ok = v.iter().all(|x| x.fract() == 0.0 && x.abs() <= 1e9 && !(*x == 0.0 && x.is_sign_negative()));
    if int_ok {
        let vi: Vec<i32> = v.iter().map(|x| *x as i32).collect();
        let nested = rows_of(h, w, &vi);
        out.push(("&Vec<Vec<i32>>", observe(&call(move || power_method(&nested, es)))));
        let mut a = Arr2D::full(0i32, h, w);
        for i in 0..h {
            for j in 0..w {
                a[(i, j)] = vi[i * w + j];
            }
        }
        out.push(("&Arr2D<i32>", observe(&call(move || power_method(&a, es)))));
    }
    let f32_ok = v.iter().all(|x| x.is_finite() && ((*x as f32) as f64).to_bits() == x.to_bits());
    if f32_ok {
        let vf: Vec<f32> = v.iter().map(|x| *x as f32).collect();
        let nested = rows_of(h, w, &vf);
        out.push(("&Vec<Vec<f32>>", observe(&call(move || power_method(&nested, es)))));
        let mut a = Arr2D::full(0f32, h, w);
        for i in 0..h {
            for j in 0..w {
                a[(i, j)] = vf[i * w + j];
            }
        }
        out.push(("&Arr2D<f32>", observe(&call(move || power_method(&a, es)))));
    }
    out
}

/// degenerate shapes that only exist as `&Arr2D`: N empty rows (N x 0, from an array of empty arrays or from nested
/// empty vectors) and their transposes (0 x N, by `transpose` and by `transpose_mut`).  Each must be refused.
fn empty_forms_verdict(h: usize, w: usize, es: f64) -> Result<(), String> {
    let n = h.max(w);
    if h.min(w) != 0 || n == 0 {
        return Ok(());
    }
    macro_rules! rows {
        ($($k:literal),*) => {
            match n {
                $($k => Some(Arr2D::from(&[[0f64; 0]; $k])),)*
                _ => None,
            }
        };
    }
    let mut forms: Vec<(&'static str, Arr2D<f64>)> = Vec::new();
    if let Some(a) = rows!(1, 2, 3, 4, 5, 6, 7, 8) {
        forms.push(("an array of N empty arrays", a));
    }
    if let Ok(a) = Arr2D::try_from(vec![Vec::<f64>::new(); n]) {
        forms.push(("N empty nested vectors", a));
    }
    if h == 0 {
        let mut flat = Vec::new();
        for (_, a) in forms {
            flat.push(("N empty rows, transposed", a.transpose()));
            let mut b = a.clone();
            b.transpose_mut();
            flat.push(("N empty rows, transpose_mut", b));
        }
        forms = flat;
    }
    for (name, a) in forms {
        if (a.height, a.width) != (h, w) {
            return Err(format!("harness: the form `{name}` has shape {}x{}, expected {h}x{w}", a.height, a.width));
        }
        match catch(|| power_method(&a, es)) {
            Some(Err(_)) => {}
            Some(Ok(_)) => return Err(format!("{h}x{w} input built as `{name}` accepted")),
            None => return Err(format!("{h}x{w} input built as `{name}`: panic")),
        }
    }
    Ok(())
}

/// ragged nested vectors: every row-length tuple in 0..=2·rows−1 over 2 and 3 rows, and over 4 rows every tuple that
/// starts with 4 and totals 16, with at least one row differing from the first.  The range reaches past the row count so
/// that COMPENSATING tuples exist — (3,1,5), (4,4,3,5): the total equals rows × rows and the first row has the square's
/// width, which a conversion that checks the total instead of each row would accept (seed C13-s3); entries from the
/// request.  Each must be refused (any `Err`), owned and borrowed.
fn ragged_verdict(v: &[f64], es: f64) -> Result<(), String> {
    let pool: Vec<f64> = if v.is_empty() { vec![1.0, 2.0, 3.0] } else { v.to_vec() };
    for rows in 2..=4usize {
        let maxlen = 2 * rows - 1;
        let mut lens = vec![0usize; rows];
        loop {
            if lens.iter().any(|l| *l != lens[0]) && (rows < 4 || (lens[0] == 4 && lens.iter().sum::<usize>() == 16)) {
                let mut k = 0usize;
                let nested: Vec<Vec<f64>> = lens
                    .iter()
                    .map(|l| {
                        (0..*l)
                            .map(|_| {
                                k += 1;
                                pool[k % pool.len()]
                            })
                            .collect()
                    })
                    .collect();
                let owned = nested.clone();
                for (name, r) in [
                    ("&Vec<Vec<f64>>", catch(|| power_method(&nested, es))),
                    ("Vec<Vec<f64>>", catch(move || power_method(owned, es))),
                ] {
                    match r {
                        // the statement says "rejected" and names no error kind: any `Err` is a rejection
                        Some(Err(_)) => {}
                        Some(Ok(_)) => return Err(format!("ragged {name} with row lengths {lens:?} accepted")),
                        None => return Err(format!("ragged {name} with row lengths {lens:?}: panic")),
                    }
                }
            }
            // next tuple
            let mut i = 0;
            while i < rows {
                lens[i] += 1;
                if lens[i] <= maxlen {
                    break;
                }
                lens[i] = 0;
                i += 1;
            }
            if i == rows {
                break;
            }
        }
    }
    Ok(())
}

pub fn run(line: &str) -> Obs {
    let mut t = Toks::new(line);
    let cmd = t.tok();
    assert_eq!(cmd, "power", "unknown C13 request {cmd}");
    let half = t.tok().to_string();
    let (h, w, v) = t.mat_f64();
    let es = t.f64();
    let square = h == w && h > 0;
    let must_succeed = matches!(half.as_str(), "acc" | "accw" | "accbig" | "nsym" | "nsymbig");
    let a = to_arr(h, w, &v);
    let r = call(move || power_method(&a, es));
    let obs = observe(&r);
    let mut verdict = match &r {
        Run::Panic => Err("power_method panicked".into()),
        Run::Hang => Err(format!("power_method did not return within {:?}", WATCHDOG + WATCHDOG_CONFIRM)),
        Run::Done(Ok((lam, vec))) => {
            if !square {
                Err(format!("{h}x{w} input accepted"))
            } else if vec.height != h || vec.width != 1 {
                Err(format!("eigenvector has shape {}x{}, expected {h}x1", vec.height, vec.width))
            } else {
                // whatever the input: a returned eigenpair is finite and scaled to largest component exactly 1
                let comps: Vec<f64> = (0..h).map(|i| vec[(i, 0)]).collect();
                if !lam.is_finite() || comps.iter().any(|c| !c.is_finite()) {
                    Err("Ok with a non-finite eigenvalue or eigenvector component".into())
                } else if !comps.iter().any(|c| *c == 1.0) || comps.iter().any(|c| *c > 1.0) {
                    Err("Ok with an eigenvector whose largest component is not exactly 1".into())
                } else {
                    Ok(())
                }
            }
        }
        // The statement names no error kind: "non-square and empty inputs are rejected" (any `Err` is a rejection),
        // a square matrix built inside the quantifier must yield an eigenpair (any `Err` is a failure), and on every
        // other square input "the call returns or fails in bounded time" (any `Err` is fine; the halves `sym` and `gen`
        // are judged by the plug-in's own reference when it finds the matrix inside the quantifier).
        Run::Done(Err(e)) => {
            if !square {
                Ok(())
            } else if must_succeed {
                Err(match e {
                    Arr2DError::NoConvergence => "no convergence on a matrix with a strictly dominant eigenvalue, gap <= 1/2, built inside the quantifier".to_string(),
                    e => format!("a square {h}x{w} matrix with a strictly dominant eigenvalue, gap <= 1/2, built inside the quantifier, is refused: {e:?}"),
                })
            } else {
                Ok(())
            }
        }
    };
    // every accepted container type answers the same (skipped after a hang: each further call would hang too; a call
    // that ran into the iteration cap is the slowest kind of request, so only one in eight of those is repeated)
    let capped = matches!(r, Run::Done(Err(Arr2DError::NoConvergence)));
    let sampled = line.bytes().fold(0u32, |a, b| a.wrapping_mul(31).wrapping_add(b as u32)) % 8 == 0;
    if verdict.is_ok() && !matches!(r, Run::Hang) && (!capped || sampled) {
        for (name, o) in other_containers(h, w, &v, es) {
            // two refusals are the same answer whatever their kind (the statement names none)
            if o != obs && !(o.starts_with("err") && obs.starts_with("err")) {
                verdict = Err(format!("container {name} answers `{}` but &Arr2D<f64> answers `{}` for the same numbers",
                    &o[..o.len().min(60)], &obs[..obs.len().min(60)]));
                break;
            }
        }
    }
    if verdict.is_ok() && half == "shape" {
        verdict = empty_forms_verdict(h, w, es).and_then(|_| ragged_verdict(&v, es));
    }
    Obs::with(obs, verdict)
}

// ------------------------------------------------------------------------------------ generators

fn emit_req(emit: &mut dyn FnMut(String), half: &str, h: usize, w: usize, v: &[f64], es: f64) {
    emit(format!("power {half} {} {}", req_mat_f(h, w, v), rbits(es)));
}

/// random orthogonal matrix: product of Givens rotations with random angles, then a random sign per
/// column (row-major n x n)
fn random_orthogonal(rng: &mut Rng, n: usize) -> Vec<f64> {
    let mut q = vec![0.0; n * n];
    for i in 0..n {
        q[i * n + i] = if rng.chance(1, 2) { -1.0 } else { 1.0 };
    }
    let sweeps = 2;
    for _ in 0..sweeps {
        for p in 0..n {
            for r in p + 1..n {
                let th = rng.uniform(0.0, std::f64::consts::TAU);
                let (c, s) = (th.cos(), th.sin());
                for row in 0..n {
                    let (x, y) = (q[row * n + p], q[row * n + r]);
                    q[row * n + p] = c * x - s * y;
                    q[row * n + r] = s * x + c * y;
                }
            }
        }
    }
    q
}

/// A = Q diag(d) Qᵀ, symmetrised exactly
fn qdqt(n: usize, q: &[f64], d: &[f64]) -> Vec<f64> {
    let mut a = vec![0.0; n * n];
    for i in 0..n {
        for j in 0..n {
            let mut s = 0.0;
            for k in 0..n {
                s += q[i * n + k] * d[k] * q[j * n + k];
            }
            a[i * n + j] = s;
        }
    }
    for i in 0..n {
        for j in 0..i {
            let m = 0.5 * (a[i * n + j] + a[j * n + i]);
            a[i * n + j] = m;
            a[j * n + i] = m;
        }
    }
    a
}

/// symmetric matrix with dominant eigenvalue `l1` (either sign), all others of modulus <= gap*|l1|,
/// and the all-ones vector at an angle of cosine >= 0.3 to the dominant eigenvector
fn accuracy_case(rng: &mut Rng, n: usize) -> Vec<f64> {
    accuracy_case_with(rng, n, None)
}

/// `special`: (dominant eigenvalue, gap) given by the caller
fn accuracy_case_with(rng: &mut Rng, n: usize, special: Option<(f64, f64)>) -> Vec<f64> {
    loop {
        let q = random_orthogonal(rng, n);
        let mut c = 0.0;
        for i in 0..n {
            c += q[i * n];
        }
        if c.abs() / (n as f64).sqrt() < 0.3 {
            continue;
        }
        // the statement has no scale: 2^-70 .. 2^60 and far beyond (a stopping rule, a "zero" test or a guard in
        // absolute units only shows far from 1)
        let mag = match rng.below(7) {
            0 => 1.0,
            1 => rng.uniform(0.5, 20.0),
            2 => 2f64.powi(rng.range(-20, 20) as i32),
            3 => rng.uniform(1e-3, 1e3),
            4 => 2f64.powi(*rng.pick(&[-70, 60, -40, 40, -100, 100])) * rng.uniform(0.5, 2.0),
            5 => 2f64.powi(rng.range(-400, 400) as i32) * rng.uniform(0.5, 2.0),
            _ => rng.uniform(0.5, 20.0),
        };
        let mut l1 = if rng.chance(1, 2) { -mag } else { mag };
        let mut gap = match rng.below(3) {
            0 => 0.49,
            1 => rng.uniform(0.0, 0.49),
            _ => rng.uniform(0.3, 0.49),
        };
        let mut mag = mag;
        if let Some((l, g)) = special {
            l1 = l;
            mag = l.abs();
            gap = g;
        }
        let mut d = vec![l1; n];
        for k in 1..n {
            d[k] = match rng.below(5) {
                0 => gap * mag,
                1 => -gap * mag,
                2 => 0.0,
                _ => rng.uniform(-gap, gap) * mag,
            };
        }
        return qdqt(n, &q, &d);
    }
}

fn tolerance(rng: &mut Rng) -> f64 {
    match rng.below(4) {
        0 => *rng.pick(&[1e-4, 1e-6, 1e-8, 1e-10, 1e-12]),
        _ => 10f64.powf(rng.uniform(-12.0, -4.0)),
    }
}

/// inputs on which the stopping rule alone would never (or only by luck) be met
fn termination_case(rng: &mut Rng, n: usize, kind: u64) -> Vec<f64> {
    let at = |i: usize, j: usize| i * n + j;
    let mut a = vec![0.0; n * n];
    match kind {
        0 => {} // zero matrix: 0/0 on the first normalisation
        1 => {
            // nilpotent: strictly upper (or lower) triangular
            let upper = rng.chance(1, 2);
            for i in 0..n {
                for j in 0..n {
                    if (upper && j > i) || (!upper && j < i) {
                        a[at(i, j)] = rng.range(-3, 3) as f64;
                    }
                }
            }
        }
        2 => {
            // +-lambda pair: Q diag(l, -l, small…) Qᵀ, or the plain swap / diag(1,-1) forms
            match rng.below(3) {
                0 => {
                    for i in 0..n {
                        a[at(i, i)] = if i % 2 == 0 { 2.0 } else { -2.0 };
                    }
                }
                1 => {
                    for i in 0..n {
                        a[at(i, n - 1 - i)] = 1.0;
                    }
                    if n % 2 == 1 {
                        a[at(n / 2, n / 2)] = -1.0;
                    }
                }
                _ => {
                    let q = random_orthogonal(rng, n);
                    let l = rng.uniform(0.5, 4.0);
                    let mut d = vec![0.0; n];
                    for (k, x) in d.iter_mut().enumerate() {
                        *x = match k {
                            0 => l,
                            1 => -l,
                            _ => rng.uniform(-0.4, 0.4) * l,
                        };
                    }
                    a = qdqt(n, &q, &d);
                }
            }
        }
        3 => {
            // rotation blocks: complex dominant pair
            let th = match rng.below(3) {
                0 => std::f64::consts::FRAC_PI_2,
                1 => 1.0,
                _ => rng.uniform(0.1, 3.0),
            };
            let r = rng.uniform(0.5, 2.0);
            if n == 1 {
                a[0] = -r;
            } else {
                a[at(0, 0)] = r * th.cos();
                a[at(0, 1)] = -r * th.sin();
                a[at(1, 0)] = r * th.sin();
                a[at(1, 1)] = r * th.cos();
                for i in 2..n {
                    a[at(i, i)] = rng.uniform(-0.4, 0.4) * r;
                }
            }
        }
        4 => {
            // NaN / infinite entries
            for x in a.iter_mut() {
                *x = rng.uniform(-2.0, 2.0);
            }
            let k = 1 + rng.below(2) as usize;
            for _ in 0..k {
                let p = rng.below((n * n) as u64) as usize;
                a[p] = *rng.pick(&[f64::NAN, f64::INFINITY, f64::NEG_INFINITY, f64::NAN]);
            }
        }
        5 => {
            // negative matrix (all row sums negative: the first normaliser is negative), and matrices
            // whose product with the ones vector is exactly zero (rows summing to zero)
            for i in 0..n {
                let mut s = 0.0;
                for j in 0..n {
                    let x = rng.range(-4, 4) as f64;
                    a[at(i, j)] = x;
                    s += x;
                }
                if rng.chance(2, 3) {
                    a[at(i, i)] -= s;
                }
            }
        }
        _ => {
            // general non-symmetric random matrix (usually converges)
            for x in a.iter_mut() {
                *x = rng.uniform(-1.0, 1.0);
            }
        }
    }
    a
}

// ------------------------------------------------------------------ hardening: non-symmetric matrices, sizes

/// integer S and S^-1 (row-major n x n): a product of elementary column shears, entries bounded by 40
fn unimodular(rng: &mut Rng, n: usize, ops: usize) -> (Vec<i64>, Vec<i64>) {
    let mut s = vec![0i64; n * n];
    let mut si = vec![0i64; n * n];
    for i in 0..n {
        s[i * n + i] = 1;
        si[i * n + i] = 1;
    }
    if n < 2 {
        return (s, si);
    }
    for _ in 0..ops {
        let i = rng.below(n as u64) as usize;
        let mut j = rng.below(n as u64) as usize;
        if j == i {
            j = (j + 1) % n;
        }
        let c = *rng.pick(&[-2i64, -1, -1, 1, 1, 2]);
        // S <- S (I + c e_j e_i^T): column i += c * column j;   S^-1 <- (I - c e_j e_i^T) S^-1: row j -= c * row i
        let (mut s2, mut si2) = (s.clone(), si.clone());
        for r in 0..n {
            s2[r * n + i] += c * s[r * n + j];
        }
        for k in 0..n {
            si2[j * n + k] -= c * si[i * n + k];
        }
        if s2.iter().chain(si2.iter()).all(|x| x.abs() <= 40) {
            s = s2;
            si = si2;
        }
    }
    (s, si)
}

/// the scale of the dominant eigenvalue: m * 2^e with a short mantissa (so that every entry of A is exact)
fn exact_scale(rng: &mut Rng) -> f64 {
    let m = *rng.pick(&[1.0, 1.0, 3.0, 5.0, 7.0, 9.0]);
    let e = match rng.below(6) {
        0 | 1 => 0,
        2 => rng.range(-20, 20) as i32,
        3 => *rng.pick(&[-70, 60, -40, 40]),
        4 => rng.range(-300, 300) as i32,
        _ => rng.range(-3, 3) as i32,
    };
    let l = m * 2f64.powi(e);
    if rng.chance(1, 2) { -l } else { l }
}

/// non-symmetric A = S diag(l1, l1 j_2/64, ..) S^-1, EXACT in binary64 (integer S, S^-1; |j_k| <= 31, so the gap is
/// <= 0.485), with the all-ones vector's component along the dominant eigenvector between 0.3 and 30 of its length
/// and the eigenvalue's condition number <= 50.  The dominant pair is (l1, first column of S).
///
/// Returned with the smallest tolerance the request may carry: the Rayleigh quotient of a non-normal matrix is
/// first-order sensitive to the rounding errors of the iterate, so its relative noise is about n u (|A|_F/|l1|)^2 and
/// the stopping rule cannot be met below that (observed: [[-95.5,118.75],[-77.2,96]], eigenvalues 1 and -0.49, never
/// meets 1e-12).  The floor is 120 n u (|A|_F/|l1|)^2, a thousand times the observed failure level; matrices whose
/// floor exceeds 1e-6 are not used.
fn nsym_case(rng: &mut Rng, n: usize) -> (Vec<f64>, f64) {
    let mut tries = 0;
    loop {
        tries += 1;
        let ops = if tries > 200 { n } else { rng.range(n as i64, 4 * n as i64) as usize };
        let (s, si) = unimodular(rng, n, ops);
        let c0: i64 = (0..n).map(|k| si[k]).sum();
        let s1: f64 = (0..n).map(|r| (s[r * n] * s[r * n]) as f64).sum::<f64>().sqrt();
        let u1: f64 = (0..n).map(|k| (si[k] * si[k]) as f64).sum::<f64>().sqrt();
        let along = c0.abs() as f64 * s1 / (n as f64).sqrt();
        if !(0.3..=30.0).contains(&along) || s1 * u1 > 50.0 {
            continue;
        }
        let mut j = vec![64i64; n];
        let style = rng.below(4);
        let common = rng.range(-31, 31);
        for k in 1..n {
            j[k] = match style {
                0 => common,                                 // one repeated sub-dominant eigenvalue
                1 => *rng.pick(&[31i64, -31, 0, 16, -16]),
                2 => if k == 1 { *rng.pick(&[31i64, -31]) } else { 0 },
                _ => rng.range(-31, 31),
            };
        }
        let l1 = exact_scale(rng);
        let unit = l1 / 64.0;
        let mut a = vec![0.0; n * n];
        for r in 0..n {
            for c in 0..n {
                let mut t = 0i64;
                for k in 0..n {
                    t += s[r * n + k] * j[k] * si[k * n + c];
                }
                a[r * n + c] = t as f64 * unit;
            }
        }
        let fro2: f64 = a.iter().map(|x| (x / l1) * (x / l1)).sum();
        let floor = 120.0 * n as f64 * (f64::EPSILON / 2.0) * fro2;
        if floor > 1e-6 {
            continue;
        }
        return (a, floor);
    }
}

/// a tolerance of the usual distribution, raised to the matrix's floor when below it
fn tolerance_above(rng: &mut Rng, floor: f64) -> f64 {
    let t = tolerance(rng);
    if t >= floor { t } else { (floor * rng.uniform(1.0, 10.0)).min(1e-4) }
}

/// triangular with an exact dominant diagonal entry (the eigenvalues are the diagonal): upper or lower
fn triangular_case(rng: &mut Rng, n: usize) -> Vec<f64> {
    let l1 = exact_scale(rng);
    let unit = l1 / 64.0;
    let p = rng.below(n as u64) as usize;
    let upper = rng.chance(1, 2);
    let mut a = vec![0.0; n * n];
    for i in 0..n {
        for c in 0..n {
            let t: i64 = if i == c {
                if i == p { 64 } else { rng.range(-31, 31) }
            } else if (upper && c > i) || (!upper && c < i) {
                if rng.chance(1, 4) { 0 } else { rng.range(-48, 48) }
            } else {
                0
            };
            a[i * n + c] = if t == 0 && rng.chance(1, 8) { -0.0 } else { t as f64 * unit };
        }
    }
    a
}

/// Markov matrices with exact dyadic entries: G = (1-a) P + a w 1^T with P column-stochastic, w a distribution,
/// a = 1/2 or 3/4 (dominant eigenvalue exactly 1, |l2| <= 1-a); column-stochastic (the eigenvector is the stationary
/// distribution, the LEFT eigenvector is the all-ones vector) or its transpose (the start vector is the eigenvector)
fn markov_case(rng: &mut Rng, n: usize) -> Vec<f64> {
    let dist = |rng: &mut Rng| -> Vec<i64> {
        // n non-negative integers summing to 64
        let mut v = vec![0i64; n];
        for _ in 0..64 {
            let k = if rng.chance(1, 3) { 0 } else { rng.below(n as u64) as usize };
            v[k] += 1;
        }
        let r = rng.below(n as u64) as usize;
        v.rotate_left(r);
        v
    };
    let a4 = *rng.pick(&[2i64, 3]); // a = a4/4
    let w = dist(rng);
    let mut g = vec![0i64; n * n]; // entries in units of 1/256
    for c in 0..n {
        let pc = dist(rng);
        for r in 0..n {
            g[r * n + c] = (4 - a4) * pc[r] + a4 * w[r];
        }
    }
    let transpose = rng.chance(1, 3);
    let scale = match rng.below(4) {
        0 => exact_scale(rng),
        _ => 1.0,
    };
    let mut a = vec![0.0; n * n];
    for r in 0..n {
        for c in 0..n {
            let x = g[r * n + c] as f64 / 256.0 * scale;
            if transpose { a[c * n + r] = x } else { a[r * n + c] = x }
        }
    }
    a
}

fn hardening(rng: &mut Rng, thorough: bool, emit: &mut dyn FnMut(String)) {
    // non-symmetric, constructed inside the quantifier: n = 2..8
    let per_n = if thorough { 1500 } else { 40 };
    for _ in 0..per_n {
        for n in 2..=8usize {
            let (a, floor) = nsym_case(rng, n);
            let es = tolerance_above(rng, floor);
            emit_req(emit, "nsym", n, n, &a, es);
        }
    }
    // triangular and Markov: judged when the plug-in's reference finds them inside the quantifier
    let per_n = if thorough { 500 } else { 16 };
    for r in 0..per_n {
        for n in 2..=8usize {
            let a = if (r + n) % 2 == 0 { triangular_case(rng, n) } else { markov_case(rng, n) };
            let es = tolerance(rng);
            emit_req(emit, "gen", n, n, &a, es);
        }
    }
    // small non-symmetric integer matrices: all 2x2 with entries -3..3 in the thorough tier, random n = 2..4 in both
    if thorough {
        for a in -3i64..=3 {
            for b in -3i64..=3 {
                for c in -3i64..=3 {
                    for d in -3i64..=3 {
                        let es = *rng.pick(&[1e-4, 1e-6, 1e-8, 1e-10, 1e-12]);
                        emit_req(emit, "gen", 2, 2, &[a as f64, b as f64, c as f64, d as f64], es);
                    }
                }
            }
        }
    }
    // (every second one with one diagonal entry pushed out, which usually gives a real dominant eigenvalue with a gap;
    // the plain ones often have a complex or +-lambda dominant pair and run into the iteration cap)
    for k in 0..(if thorough { 3000 } else { 60 }) {
        let n = 2 + rng.below(3) as usize;
        let r = *rng.pick(&[2i64, 3, 5, 9]);
        let mut a: Vec<f64> = (0..n * n).map(|_| rng.range(-r, r) as f64).collect();
        if k % 2 == 0 || (!thorough && k % 4 != 1) {
            let p = rng.below(n as u64) as usize;
            let boost = (rng.range(2 * r, 4 * r)) as f64;
            a[p * n + p] += if rng.chance(1, 2) { -boost } else { boost };
        }
        let es = tolerance(rng);
        emit_req(emit, "gen", n, n, &a, es);
    }
    // sizes just beyond: every n = 9..40, symmetric and non-symmetric (blocked / unrolled products)
    let reps = if thorough { 12 } else { 1 };
    for _ in 0..reps {
        for n in 9..=40usize {
            let a = accuracy_case(rng, n);
            let es = tolerance(rng);
            emit_req(emit, "accbig", n, n, &a, es);
            let (a, floor) = nsym_case(rng, n);
            let es = tolerance_above(rng, floor);
            emit_req(emit, "nsymbig", n, n, &a, es);
        }
    }
    // termination half beyond its usual sizes and tolerances: tolerances at and below rounding level, at and above 1,
    // subnormal, infinite; sizes up to 12; matrices that converge (the stopping rule must still be the only way out)
    let pick_half = rng.below(2);
    let extremes = [1e-13, 1e-15, 1e-16, 2.220446049250313e-16, 1e-17, 5e-324, 1e-300, 0.5, 1.0, 2.0, 10.0, 1e300, f64::INFINITY, f64::NEG_INFINITY, -0.0];
    for (k, es) in extremes.iter().enumerate() {
        // quick tier: every second tolerance, alternating with the seed
        if !thorough && (k as u64 + pick_half) % 2 == 1 {
            continue;
        }
        let n = 1 + (k * 5) % 12;
        let a = if k % 3 == 0 { nsym_case(rng, n.max(2)).0 } else { accuracy_case(rng, n) };
        let n = if k % 3 == 0 { n.max(2) } else { n };
        emit_req(emit, "term", n, n, &a, *es);
        if thorough || k % 4 == 0 {
            let kind = (k % 7) as u64;
            let tn = 6 + k % 7;
            let a = termination_case(rng, tn, kind);
            emit_req(emit, "term", tn, tn, &a, *es);
        }
    }
}

// ------------------------------------------------------------------ hardening 4: wide angles, zero crossings

/// the Rayleigh quotients of the first `k` passes of the documented method, in binary64 with the documented operation
/// order (start at the ones vector, multiply, divide by the largest component — the smallest when none is positive —,
/// quotient xᵀAx / xᵀx of the normalised iterate).  Used by the generator only, to FIND inputs (never to judge answers).
fn rq_prefix(a: &[f64], n: usize, k: usize) -> Vec<f64> {
    let mul = |v: &[f64]| -> Vec<f64> {
        (0..n)
            .map(|i| {
                let mut s = 0.0;
                for j in 0..n {
                    s += a[i * n + j] * v[j];
                }
                s
            })
            .collect()
    };
    let norm = |v: &[f64]| -> f64 {
        let m = v.iter().cloned().fold(f64::NEG_INFINITY, |p, q| if p > q { p } else { q });
        if m > 0.0 { m } else { v.iter().cloned().fold(f64::INFINITY, |p, q| if p < q { p } else { q }) }
    };
    let mut ev = mul(&vec![1.0; n]);
    let c = norm(&ev);
    for x in ev.iter_mut() {
        *x /= c;
    }
    let mut out = Vec::with_capacity(k);
    for _ in 0..k {
        let e2 = mul(&ev);
        let c = norm(&e2);
        let nv: Vec<f64> = e2.iter().map(|x| x / c).collect();
        let av = mul(&nv);
        let (mut num, mut den) = (0.0, 0.0);
        for i in 0..n {
            num += nv[i] * av[i];
            den += nv[i] * nv[i];
        }
        out.push(num / den);
        ev = nv;
    }
    out
}

/// a one-parameter family of symmetric matrices A(phi) = Q(phi) D Q(phi)ᵀ whose dominant eigenvector is at the angle
/// phi to the all-ones vector: q1 = cos(phi) 1/√n + sin(phi) w with w a unit vector orthogonal to 1; Q = (Householder
/// reflector taking e1 to q1) · diag(1, Q') with Q' random orthogonal
struct WideFamily {
    n: usize,
    w: Vec<f64>,
    qp: Vec<f64>,
    d: Vec<f64>,
}

impl WideFamily {
    /// eigenvalues: l1 = ±mag dominant; the second one of the OTHER sign (the quotients then start with that sign
    /// when the start vector is far from q1); the rest of either sign; all of modulus <= gap·mag, gap <= 0.49
    fn new(rng: &mut Rng, n: usize) -> WideFamily {
        let w = loop {
            let mut w: Vec<f64> = (0..n).map(|_| rng.uniform(-1.0, 1.0)).collect();
            let m = w.iter().sum::<f64>() / n as f64;
            for x in w.iter_mut() {
                *x -= m;
            }
            let nr = w.iter().map(|x| x * x).sum::<f64>().sqrt();
            if nr > 1e-2 {
                for x in w.iter_mut() {
                    *x /= nr;
                }
                break w;
            }
        };
        let qp = random_orthogonal(rng, n - 1);
        let mag = match rng.below(6) {
            0 => 1.0,
            1 => rng.uniform(0.5, 20.0),
            2 => 2f64.powi(rng.range(-20, 20) as i32),
            3 => rng.uniform(1e-3, 1e3),
            4 => 2f64.powi(rng.range(-300, 300) as i32) * rng.uniform(0.5, 2.0),
            _ => rng.range(1, 9) as f64,
        };
        let l1 = if rng.chance(1, 2) { -mag } else { mag };
        let gap = match rng.below(3) {
            0 => 0.49,
            1 => rng.uniform(0.25, 0.49),
            _ => rng.uniform(0.4, 0.49),
        };
        let other = -l1.signum();
        let mut d = vec![l1; n];
        for k in 1..n {
            d[k] = if k == 1 || rng.chance(3, 5) {
                other * mag * gap * if rng.chance(1, 2) { 1.0 } else { rng.uniform(0.2, 1.0) }
            } else if rng.chance(1, 6) {
                0.0
            } else {
                mag * rng.uniform(-gap, gap)
            };
        }
        WideFamily { n, w, qp, d }
    }

    fn at(&self, phi: f64) -> Vec<f64> {
        let n = self.n;
        let e = 1.0 / (n as f64).sqrt();
        let q1: Vec<f64> = self.w.iter().map(|x| phi.cos() * e + phi.sin() * x).collect();
        let u: Vec<f64> = (0..n).map(|i| if i == 0 { 1.0 - q1[0] } else { -q1[i] }).collect();
        let uu: f64 = u.iter().map(|x| x * x).sum();
        let mut q = vec![0.0; n * n];
        for i in 0..n {
            for j in 0..n {
                // (I − 2uuᵀ/uᵀu) · diag(1, Q')
                let mut s = 0.0;
                for k in 0..n {
                    let h = (if i == k { 1.0 } else { 0.0 }) - if uu > 0.0 { 2.0 * u[i] * u[k] / uu } else { 0.0 };
                    let b = if k == 0 || j == 0 {
                        if k == j { 1.0 } else { 0.0 }
                    } else {
                        self.qp[(k - 1) * (n - 1) + (j - 1)]
                    };
                    s += h * b;
                }
                q[i * n + j] = s;
            }
        }
        qdqt(n, &q, &self.d)
    }
}

const WIDE_PASSES: usize = 6;

/// an angle in 60..89 degrees at which the Rayleigh quotients of passes k−1 and k (k >= 1: the first pair the stopping
/// test looks at is (0, 1)) have OPPOSITE signs and magnitudes equal to a relative `target` or better (`zero` = false),
/// or at which the quotient of pass k is `target` times the one of pass k−1 or less — the sequence lands ON zero
/// (`zero` = true): scan the angle in steps of a quarter degree for a sign change of g = r_k + r_{k−1} (or g = r_k),
/// then bisect.  None when the family has no crossing there.
fn crossing_tie(rng: &mut Rng, f: &WideFamily, target: f64, zero: bool) -> Option<(f64, f64)> {
    let rq = |phi: f64| rq_prefix(&f.at(phi), f.n, WIDE_PASSES);
    let g = |r: &[f64], k: usize| if zero { r[k] } else { r[k] + r[k - 1] };
    let mut cands: Vec<(usize, f64, f64)> = Vec::new();
    let mut prev: Option<(f64, Vec<f64>)> = None;
    let mut deg = 60.0;
    while deg <= 89.0 {
        let r = rq(f64::to_radians(deg));
        if let Some((pd, pr)) = &prev {
            for k in 1..WIDE_PASSES {
                if g(pr, k) * g(&r, k) < 0.0 && (zero || pr[k] * pr[k - 1] < 0.0 || r[k] * r[k - 1] < 0.0) {
                    cands.push((k, *pd, deg));
                }
            }
        }
        prev = Some((deg, r));
        deg += 0.25;
    }
    if cands.is_empty() {
        return None;
    }
    let (k, lo, hi) = *rng.pick(&cands);
    let (mut lo, mut hi) = (f64::to_radians(lo), f64::to_radians(hi));
    let glo = g(&rq(lo), k);
    let mut best: Option<(f64, f64)> = None; // (tie, angle)
    for _ in 0..90 {
        let mid = 0.5 * (lo + hi);
        if mid == lo || mid == hi {
            break;
        }
        let r = rq(mid);
        let (usable, tie) = if zero {
            (r[k - 1] != 0.0, (r[k] / r[k - 1]).abs())
        } else {
            (r[k] * r[k - 1] < 0.0, ((r[k].abs() - r[k - 1].abs()) / r[k]).abs())
        };
        if usable && best.map_or(true, |(t, _)| tie < t) {
            best = Some((tie, mid));
        }
        if usable && tie <= target {
            break;
        }
        if (g(&r, k) < 0.0) == (glo < 0.0) {
            lo = mid;
        } else {
            hi = mid;
        }
    }
    best
}

/// a number next to a "round" one: m (1 +- 2^-k), k = 20..50, for m a small integer, a power of two or ten, a half
fn near_round(rng: &mut Rng) -> f64 {
    let m = *rng.pick(&[1.0, 1.0, 2.0, 3.0, 4.0, 5.0, 7.0, 8.0, 10.0, 16.0, 100.0, 1000.0, 1e6, 0.5, 0.25, 1.5, 2.5]);
    let k = rng.range(20, 50) as i32;
    let x = m * (1.0 + if rng.chance(1, 2) { 1.0 } else { -1.0 } * 2f64.powi(-k));
    if rng.chance(1, 2) { -x } else { x }
}

fn hardening4(rng: &mut Rng, thorough: bool, emit: &mut dyn FnMut(String)) {
    // dominant eigenvalue next to (not at) a round number, gap at and next to the quantifier's limit 1/2; tight
    // tolerances (a result snapped or rounded to the round number is then outside C tol)
    for k in 0..(if thorough { 1600 } else { 48 }) {
        let n = 1 + k % 8;
        let l1 = if k % 4 == 3 { *rng.pick(&[1.0, -1.0, 2.0, -3.0, 10.0]) } else { near_round(rng) };
        let gap = match rng.below(4) {
            0 => 0.5,
            1 => 0.5 * (1.0 - 2f64.powi(-(rng.range(20, 50) as i32))),
            _ => rng.uniform(0.2, 0.49),
        };
        let a = accuracy_case_with(rng, n, Some((l1, gap)));
        let es = *rng.pick(&[1e-12, 1e-12, 1e-11, 1e-10, 3e-12, 1e-9, 1e-8]);
        emit_req(emit, "acc", n, n, &a, es);
    }
    // duplicates: symmetric matrices with repeated rows and columns (A_ij = B_{c(i) c(j)} for a small symmetric integer
    // B and a map c with repeats) and rank-one u uᵀ with repeated values: the iterates have exactly equal components
    // (ties for the largest one).  Judged for accuracy when the plug-in's reference finds them inside the quantifier.
    for k in 0..(if thorough { 600 } else { 24 }) {
        let n = 2 + k % 5;
        let m = 1 + rng.below(3.min(n as u64 - 1)) as usize;
        let mut b = vec![0.0; m * m];
        for i in 0..m {
            for j in 0..=i {
                let x = if i == j { rng.range(-9, 9) } else { rng.range(-4, 4) } as f64;
                b[i * m + j] = x;
                b[j * m + i] = x;
            }
        }
        let c: Vec<usize> = (0..n).map(|i| if i < m { i } else { rng.below(m as u64) as usize }).collect();
        let mut a = vec![0.0; n * n];
        for i in 0..n {
            for j in 0..n {
                a[i * n + j] = b[c[i] * m + c[j]];
            }
        }
        let es = tolerance(rng);
        emit_req(emit, "sym", n, n, &a, es);
    }
    // mixed-sign spectra, start vector 60..89 degrees from the dominant eigenvector, any angle
    let plain = if thorough { 2500 } else { 50 };
    for k in 0..plain {
        let n = [2usize, 3, 4, 2, 3, 4, 5, 6][k % 8];
        let f = WideFamily::new(rng, n);
        let deg = match rng.below(4) {
            0 => rng.uniform(80.0, 89.0),
            1 => *rng.pick(&[60.0, 75.0, 80.0, 83.0, 85.0, 87.0, 88.0, 89.0]),
            _ => rng.uniform(60.0, 89.0),
        };
        let a = f.at(f64::to_radians(deg));
        let es = tolerance(rng);
        emit_req(emit, "accw", n, n, &a, es);
    }
    // the same with the angle tuned to a tie |r_k| = |r_{k-1}| across the zero crossing, closer than the tolerance
    // (mostly) or a little wider than it
    let tuned = if thorough { 1500 } else { 45 };
    for k in 0..tuned {
        let n = [2usize, 3, 4, 2, 3, 4, 5][k % 7];
        let f = WideFamily::new(rng, n);
        let es = tolerance(rng);
        let target = match rng.below(8) {
            0 => es * rng.uniform(1.5, 10.0),
            1 => 1e-14,
            _ => (es * 10f64.powf(rng.uniform(-3.0, -0.3))).max(1e-14),
        };
        if let Some((_, phi)) = crossing_tie(rng, &f, target, false) {
            let a = f.at(phi);
            emit_req(emit, "accw", n, n, &a, es);
        }
    }
    // the angle tuned so that one Rayleigh quotient lands on zero: |r_k| = 1e-6..1e-16 of |r_{k-1}| (the relative
    // change is then huge, and 1 in the next pass)
    for k in 0..(if thorough { 500 } else { 15 }) {
        let n = [2usize, 3, 4, 2, 3][k % 5];
        let f = WideFamily::new(rng, n);
        let es = tolerance(rng);
        let target = 10f64.powf(rng.uniform(-16.0, -6.0));
        if let Some((_, phi)) = crossing_tie(rng, &f, target, true) {
            let a = f.at(phi);
            emit_req(emit, "accw", n, n, &a, es);
        }
    }
}

/// BLOCK BOUNDARIES (sixth seeded round, category O): a blocked / unrolled matrix-vector product, maximum search, Rayleigh
/// quotient or normalisation changes behaviour exactly when the order passes 16, 32, 64 (128 in the thorough tier).  The
/// orders 15..18 and 31..34 are part of "every n = 9..40" above; here once more and 63..66 (thorough: 127..130), with
/// non-constant data: symmetric Q D Q^T (`accbig`: residual + exact inertia counts) and NON-symmetric exact S D S^-1 whose
/// dominant pair is known exactly (`nsymbig`: residual clause in exact rationals; the correspondence K is the judge of the
/// eigenvalue at these orders), and the transposed S D S^-1 (a product that walks the matrix the other way round).
fn block_boundaries(rng: &mut Rng, thorough: bool, emit: &mut dyn FnMut(String)) {
    for &blk in &[16usize, 32, 64, 128] {
        for n in [blk - 1, blk, blk + 1, blk + 2, 2 * blk + 1] {
            if n > 130 || (n > 66 && !thorough) {
                continue;
            }
            if n > 40 {
                let a = accuracy_case(rng, n);
                let es = tolerance(rng);
                emit_req(emit, "accbig", n, n, &a, es);
            }
            let (a, floor) = nsym_case(rng, n);
            let es = tolerance_above(rng, floor);
            emit_req(emit, "nsymbig", n, n, &a, es);
        }
    }
}

/// RESONANT / EXACT-RELATION PARAMETERS (sixth seeded round, category P): the tolerance EXACTLY equal to the relative
/// change `ea` of some pass of the documented method (the stopping rule is `ea < es`: it must not stop there), one ulp
/// above (it must) and one ulp below, and 2^-40 relative to either side; integer matrices with constant row sums (the
/// all-ones start vector is exactly an eigenvector: `ea` is exactly 0 from the second pass on, every normaliser exactly
/// the eigenvalue) with dominant and non-dominant row sum, both signs; diagonal and permutation-similar matrices whose
/// iterates have exact zeros.  `rq_prefix` is used to FIND the tolerance only.
fn resonant(rng: &mut Rng, thorough: bool, emit: &mut dyn FnMut(String)) {
    let reps = if thorough { 20 } else { 1 };
    for k in 0..40 * reps {
        let n = 2 + k % 7;
        let (l1, gap) = (exact_scale(rng), rng.uniform(0.2, 0.49));
        let a = accuracy_case_with(rng, n, Some((l1, gap)));
        let half = "acc";
        let r = rq_prefix(&a, n, 40);
        let lo = 1.001e-12;
        let mut found = None;
        for p in 1..r.len() {
            let ea = ((r[p] - r[p - 1]) / r[p]).abs();
            if ea.is_finite() && ea > lo && ea < 0.999e-4 && (found.is_none() || rng.chance(1, 3)) {
                found = Some(ea);
            }
        }
        let Some(ea) = found else { continue };
        let up = f64::from_bits(ea.to_bits() + 1);
        let down = f64::from_bits(ea.to_bits() - 1);
        for es in [ea, up, down, ea * (1.0 + 2f64.powi(-40)), ea * (1.0 - 2f64.powi(-40))] {
            emit_req(emit, half, n, n, &a, es);
        }
    }
    // constant row sums: A 1 = s 1 exactly (small integers, exact in binary64)
    for k in 0..40 * reps {
        let n = 2 + k % 7;
        let sym = k % 2 == 0;
        let mut a = vec![0.0; n * n];
        for i in 0..n {
            for j in 0..n {
                if i != j && (!sym || j < i) {
                    let x = rng.range(-2, 2) as f64;
                    a[i * n + j] = x;
                    if sym {
                        a[j * n + i] = x;
                    }
                }
            }
        }
        let s = *rng.pick(&[16.0, -16.0, 32.0, -24.0, 1.0, 0.0, -1.0, 64.0]);
        for i in 0..n {
            let off: f64 = (0..n).filter(|&j| j != i).map(|j| a[i * n + j]).sum();
            a[i * n + i] = s - off;
        }
        let sc = if k % 4 == 3 { exact_scale(rng) } else { 1.0 };
        for x in a.iter_mut() {
            *x *= sc;
        }
        let es = if k % 5 == 4 { 0.0 } else { tolerance(rng) };
        emit_req(emit, if es == 0.0 { "term" } else if sym { "sym" } else { "gen" }, n, n, &a, es);
    }
}

/// The requests that run into the iteration cap cost a thousand times more than the others and come in runs
/// (termination half, integer matrices with complex or +-lambda pairs); `check` splits the batch into contiguous
/// slices, one per core, so the requests are emitted in a strided order that gives every slice the same mix.
pub fn generate(seed: u64, thorough: bool, emit: &mut dyn FnMut(String)) {
    let mut all: Vec<String> = Vec::new();
    generate_in_order(seed, thorough, &mut |l| all.push(l));
    const STRIDE: usize = 16;
    for off in 0..STRIDE {
        let mut i = off;
        while i < all.len() {
            emit(std::mem::take(&mut all[i]));
            i += STRIDE;
        }
    }
}

fn generate_in_order(seed: u64, thorough: bool, emit: &mut dyn FnMut(String)) {
    {
        let mut r2 = Rng::new(seed ^ 0xC13_0001);
        hardening(&mut r2, thorough, emit);
    }
    {
        let mut r4 = Rng::new(seed ^ 0xC13_0004);
        hardening4(&mut r4, thorough, emit);
    }
    {
        let mut r6 = Rng::new(seed ^ 0xC13_0006);
        block_boundaries(&mut r6, thorough, emit);
        resonant(&mut r6, thorough, emit);
    }
    let mut rng = Rng::new(seed ^ 0xC13);
    // shape half: every non-square or empty shape in 0..4 x 0..4 and a few larger ones
    for h in 0..=4usize {
        for w in 0..=4usize {
            if h != w || h == 0 {
                let v: Vec<f64> = (0..h * w).map(|_| rng.dyadic(16, 2)).collect();
                emit_req(emit, "shape", h, w, &v, 1e-6);
            }
        }
    }
    for (h, w) in [(8usize, 7usize), (1, 8), (8, 1), (0, 5), (5, 0)] {
        let v: Vec<f64> = (0..h * w).map(|_| rng.uniform(-1.0, 1.0)).collect();
        emit_req(emit, "shape", h, w, &v, 1e-6);
    }
    // small symmetric integer matrices (exact zeros, ties and sign patterns in A*x that random reals never
    // produce): all 2x2 with entries -4..4 in the thorough tier, random samples of size 2..4 in both
    if thorough {
        for a in -4i64..=4 {
            for b in -4i64..=4 {
                for d in -4i64..=4 {
                    let es = *rng.pick(&[1e-4, 1e-6, 1e-8, 1e-10, 1e-12]);
                    emit_req(emit, "sym", 2, 2, &[a as f64, b as f64, b as f64, d as f64], es);
                }
            }
        }
    }
    let n_sym = if thorough { 3000 } else { 120 };
    for _ in 0..n_sym {
        let n = 2 + rng.below(3) as usize;
        let mut a = vec![0.0; n * n];
        let r = *rng.pick(&[2i64, 3, 5, 9]);
        for i in 0..n {
            for j in 0..=i {
                let x = rng.range(-r, r) as f64;
                a[i * n + j] = x;
                a[j * n + i] = x;
            }
        }
        let es = tolerance(&mut rng);
        emit_req(emit, "sym", n, n, &a, es);
    }
    // accuracy half interleaved with the (expensive: up to the full cap of passes) termination half
    let acc_per_n = if thorough { 3000 } else { 60 };
    let term_every = if thorough { 24 } else { 40 };
    let mut count = 0usize;
    for r in 0..acc_per_n {
        for n in 1..=8usize {
            let a = accuracy_case(&mut rng, n);
            let es = tolerance(&mut rng);
            emit_req(emit, "acc", n, n, &a, es);
            count += 1;
            if count % term_every == 0 {
                let k = count / term_every;
                let kind = (k % 7) as u64;
                let tn = 1 + (k * 3 + k / 7) % 5;
                let a = termination_case(&mut rng, tn, kind);
                let es = match rng.below(8) {
                    0 => 0.0,
                    1 => -1.0,
                    2 => f64::NAN,
                    _ => tolerance(&mut rng),
                };
                emit_req(emit, "term", tn, tn, &a, es);
            }
        }
        let _ = r;
    }
}
