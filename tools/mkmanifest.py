#!/usr/bin/env python3
"""Writes MANIFEST.json from tools/claims.json (claimed properties) and tools/not_applicable.json."""
import json, os
ROOT = os.path.dirname(os.path.dirname(os.path.abspath(__file__)))
claims = json.load(open(os.path.join(ROOT, "tools", "claims.json")))
na_path = os.path.join(ROOT, "tools", "not_applicable.json")
na = json.load(open(na_path)) if os.path.exists(na_path) else {}
props = [json.loads(l)["id"] for l in open(os.path.join(ROOT, "properties.jsonl"))]
checks = []
for p in props:
    if p not in claims:
        continue
    c = claims[p]
    checks.append({
        "property_id": p,
        "quick_cmd": f"./check {p} --tier quick",
        "thorough_cmd": f"./check {p} --tier thorough",
        "evidence_file": f"/verif/evidence/{p}.json",
        "replay_cmd_template": f"./check {p} --replay {{path}}",
        "engine": "lean4-proof+correspondence",
        "level_claimed": {"category": "proof", "text": c["text"], "design_ref": c.get("design_ref", "DESIGN.md section 6")},
        "level_note": c["note"],
        "technique": c["technique"],
    })
hooks_path = os.path.join(ROOT, "tools", "hooks.json")
hooks = json.load(open(hooks_path)) if os.path.exists(hooks_path) else {"source_commits": []}
man = {
    "version": 1,
    "setup_cmd": "./setup.sh",
    "hooks": {
        "guard": "spindalis_verif",
        "enable": "RUSTFLAGS=--cfg spindalis_verif (set in /verif/harness/.cargo/config.toml; the harness crate path-depends on /repo/spindalis and /repo/spindalis_core)",
        "baseline_off_cmd": "cd /repo && cargo test --workspace --no-fail-fast --offline",
        "source_commits": hooks.get("source_commits", []),
        "add_only": True,
    },
    "engines": [{
        "name": "lean4-proof+correspondence", "path": "/verif/check",
        "serves_properties": [c["property_id"] for c in checks],
        "kind_free_text": "Lean 4 theorems about a hand-written executable model (lean/SV/Model, lean/SV/Props) + differential correspondence run of the compiled model (svdriver) against the real code (harness/svharness) + oracle search for a failing input + reach measurement (coverage-instrumented build: new or modified code of the modelled functions that no request executes is reported)",
    }],
    "checks": checks,
    "not_applicable": [{"property_id": p, "reason": na.get(p, "check not built yet in this round; no claim is made (see DESIGN.md section 10 for the build order)")}
                       for p in props if p not in claims],
    "notes": "See DESIGN.md. Every check rebuilds the harness from /repo's working tree and rewrites its evidence file.",
}
json.dump(man, open(os.path.join(ROOT, "MANIFEST.json"), "w"), indent=1)
print("claimed:", [c["property_id"] for c in checks])
