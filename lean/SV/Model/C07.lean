import SV.Model.C06
/-!
Model of `newton_raphson_method` (spindalis/src/solvers/nrm.rs), generic in the scalar.

```
loop { xr_old = x; x = xr_old - g(x)? / g'(x)?; iter += 1;
       approx_err = if x != 0 { (|x - xr_old| / x) * 100 } else if x == xr_old { 0 } else { +inf };
       if |approx_err| < tol || iter >= itermax { break } }
if iter >= itermax { Err(MaxIterationsReached) } else { Ok(x) }
```

The loop is recursion on `fuel = itermax - 1 - (passes done)`: the pass on which `fuel = 0` is the one
after which `iter >= itermax` holds, so `max itermax 1` passes run at most.

**NaN-poisoning rule** (DESIGN §3).  The code divides by `g'(x)` unguarded.  Over a field `a / 0 = 0`
would silently make the step vanish, so the model branches on `g'(x) == 0` and returns what IEEE
arithmetic leads to: `g(x)/±0` is `±inf` or NaN, hence the new iterate is `±inf` or NaN; from then on
every iterate is `±inf` or NaN (`inf - q` is `±inf` or NaN for every `q`, NaN stays NaN — evaluation
errors do not depend on the point), every `approx_err` is NaN (`|inf - x| / inf`, `|inf - inf|`, or
NaN arithmetic), `NaN < tol` is false for every `tol`, so all remaining passes run and the answer is
`MaxIterationsReached`.  The rule is validated by the correspondence run on inputs that hit it
(constant polynomials, starting points on a critical point).
-/
namespace SV.C07
open SV SV.Poly
open SV.C06 (SolveMode SErr target)

/-- outcome and number of loop passes -/
structure NRes (S : Type) where
  out : Outcome SErr S
  passes : Nat

/-- what one evaluation of the Newton update produces -/
inductive Step (S : Type) where
  | fail (e : PErr)   -- an evaluation returned an error (`?`)
  | poisoned          -- division by a zero derivative: the iterate is ±inf / NaN from here on
  | next (x : S)      -- the new iterate

variable {S : Type} [Add S] [Sub S] [Mul S] [Div S] [Neg S] [OfNat S 0] [OfNat S 1] [NatCast S]
  [LT S] [DecidableRel (α := S) (· < ·)] [BEq S]

/-- `xr_old - (polynomial.eval_univariate(xr_old)? / polynomial_dx.eval_univariate(xr_old)?)` -/
def newtonStep (ev dv : S → Except PErr S) (xo : S) : Step S :=
  match ev xo with
  | .error e => .fail e
  | .ok gv =>
    match dv xo with
    | .error e => .fail e
    | .ok d => if d == 0 then .poisoned else .next (xo - gv / d)

/-- the stopping test `approx_err.abs() < error_tol` with `approx_err` as the source computes it -/
def converged (x xo tol : S) : Bool :=
  if !(x == 0) then decide (sabs ((sabs (x - xo) / x) * ((100 : Nat) : S)) < tol)
  else if x == xo then decide ((0 : S) < tol)   -- sitting on zero with a vanishing step: `0.0 < tol`
  else false                                      -- `f64::INFINITY < tol` is false for every `tol`

/-- the loop; `fuel` = passes that may still follow this one, `k` = passes done -/
def newtonLoop (ev dv : S → Except PErr S) (tol : S) : Nat → Nat → S → NRes S
  | 0, k, xo =>
    match newtonStep ev dv xo with
    | .fail e => ⟨.err (.functionError e), k + 1⟩
    | .poisoned => ⟨.err .maxIterationsReached, k + 1⟩
    | .next _ => ⟨.err .maxIterationsReached, k + 1⟩
  | fuel + 1, k, xo =>
    match newtonStep ev dv xo with
    | .fail e => ⟨.err (.functionError e), k + 1⟩
    | .poisoned => ⟨.err .maxIterationsReached, k + 1 + (fuel + 1)⟩
    | .next x =>
      if converged x xo tol then ⟨.ok x, k + 1⟩
      else newtonLoop ev dv tol fuel (k + 1) x

/-- Newton's method for arbitrary evaluation functions of the target and of its derivative -/
def newtonCore (ev dv : S → Except PErr S) (x0 tol : S) (itermax : Nat) : NRes S :=
  newtonLoop ev dv tol (itermax - 1) 0 x0

/-- `newton_raphson_method(&polynomial, x_init, itermax, error_tol, mode)` -/
def newton (powf : S → S → S) (p : AnyPoly S) (x0 tol : S) (itermax : Nat) (mode : SolveMode) :
    NRes S :=
  match target p mode with
  | .error e => ⟨.err (.functionError e), 0⟩
  | .ok q =>
    match q.derivUni with
    | .error e => ⟨.err (.functionError e), 0⟩
    | .ok dq => newtonLoop (q.evalUni powf) (dq.evalUni powf) tol (itermax - 1) 0 x0

end SV.C07

/-! ### driver -/
namespace SV.C07.Driver
open SV SV.Wire SV.Poly SV.PolyWire SV.C07

/-- `newton <poly> <x0> <tol> <itermax> <mode>` → `ok f<x> <passes>` | `err Kind <passes>` -/
def handle (line : String) : String :=
  let p : P String := do
    let cmd ← tok
    match cmd with
    | "newton" => do
      let q ← anypoly float
      let x0 ← float; let tol ← float
      let itermax ← nat
      let m ← SV.C06.Driver.mode
      let r := newton Float.pow q x0 tol itermax m
      return SV.C06.Driver.fmtOut r.out r.passes
    | _ => fail
  match run p line with
  | some s => s
  | none => "bad-request"

end SV.C07.Driver
