import SV.Model.C07
import SV.Lemmas.C06
import Mathlib.Algebra.Polynomial.Derivative
import Mathlib.Algebra.Polynomial.Eval.Defs
import Mathlib.Algebra.BigOperators.Group.List.Basic
import Mathlib.Algebra.Order.Field.Basic
import Mathlib.Analysis.Calculus.MeanValue
import Mathlib.Analysis.Calculus.Deriv.Polynomial
import Mathlib.Analysis.Calculus.Deriv.Pow
import Mathlib.Tactic.Linarith
import Mathlib.Tactic.Ring
import Mathlib.Tactic.FieldSimp
import Mathlib.Tactic.Positivity
/-!
Helper lemmas for C07 (Newton–Raphson):

* the stopping test spelled out (`converged_iff`), what an `ok` answer of the loop means
  (`newtonLoop_ok`), pass count and absence of the `panic` outcome;
* second-order Taylor bound with the Lagrange-size remainder for real polynomials (`taylor2`), from
  the mean value inequalities of Mathlib;
* `c·Π(X − rᵢ)` to the right of its largest root: logarithmic derivative `Σ 1/(x − rᵢ)`, one Newton
  step (`newton_step_right`), the loop invariant and the exit bound (`newtonLoop_monotone`), and
  termination for a simple largest root `≠ 0` (`newtonLoop_returns`, `newtonLoop_returns_ne`), and the
  mirror image `x ↦ −x` for starts to the left of the smallest root (`newtonLoop_neg`,
  `newtonLoop_monotone_left`, `newtonLoop_returns_left`).
-/
set_option linter.unusedSectionVars false
set_option linter.unnecessarySeqFocus false

namespace SV.C07
open SV SV.Poly Polynomial
open SV.C06 (SolveMode SErr target evOf sabs_eq_abs)

variable {K : Type} [Field K] [LinearOrder K] [IsStrictOrderedRing K]

/-- the stopping test, spelled out -/
theorem converged_iff (x xo tol : K) :
    converged x xo tol = true ↔
      (x ≠ 0 ∧ |x - xo| * 100 < tol * |x|) ∨ (x = 0 ∧ xo = 0 ∧ 0 < tol) := by
  unfold converged
  by_cases hx : x = 0
  · subst hx
    by_cases hxo : xo = 0
    · subst hxo; simp
    · have : ¬ (0 : K) = xo := fun h => hxo h.symm
      simp [hxo, this]
  · have hpos : 0 < |x| := abs_pos.mpr hx
    have hb : (!(x == 0)) = true := by simp [hx]
    rw [if_pos hb, decide_eq_true_eq]
    simp only [sabs_eq_abs, Nat.cast_ofNat, ne_eq, hx, not_false_eq_true, true_and, false_and,
      or_false]
    rw [abs_mul, abs_div, abs_abs, abs_of_pos (by norm_num : (0 : K) < 100), div_mul_eq_mul_div,
      div_lt_iff₀ hpos]

theorem newtonStep_evOf (g g' : K → K) (xo : K) :
    newtonStep (evOf g) (evOf g') xo =
      if g' xo = 0 then .poisoned else .next (xo - g xo / g' xo) := by
  unfold newtonStep evOf
  simp only [beq_iff_eq]

/-- what an `ok` answer of the loop means: it is the Newton update of the previous iterate, the
derivative there does not vanish, and the stopping test fired on this last step -/
theorem newtonLoop_ok (ev dv : K → Except PErr K) (tol : K) :
    ∀ (fuel k : Nat) (xs x : K), (newtonLoop ev dv tol fuel k xs).out = .ok x →
      ∃ xo gv d, ev xo = .ok gv ∧ dv xo = .ok d ∧ d ≠ 0 ∧ x = xo - gv / d ∧
        converged x xo tol = true := by
  intro fuel
  induction fuel with
  | zero =>
    intro k xs x h
    unfold newtonLoop at h
    split at h <;> cases h
  | succ fuel ih =>
    intro k xs x h
    unfold newtonLoop at h
    split at h
    · cases h
    · cases h
    · rename_i x1 hstep
      split_ifs at h with hc
      · simp only [Outcome.ok.injEq] at h
        subst h
        unfold newtonStep at hstep
        split at hstep
        · cases hstep
        · rename_i gv hgv
          split at hstep
          · cases hstep
          · rename_i d hd
            split_ifs at hstep with hz
            simp only [Step.next.injEq] at hstep
            subst hstep
            exact ⟨xs, gv, d, hgv, hd, by simpa using hz, rfl, hc⟩
      · exact ih (k + 1) x1 x h

theorem newtonLoop_passes (ev dv : K → Except PErr K) (tol : K) :
    ∀ (fuel k : Nat) (xs : K),
      k + 1 ≤ (newtonLoop ev dv tol fuel k xs).passes ∧
      (newtonLoop ev dv tol fuel k xs).passes ≤ k + 1 + fuel := by
  intro fuel
  induction fuel with
  | zero => intro k xs; unfold newtonLoop; split <;> simp
  | succ fuel ih =>
    intro k xs
    unfold newtonLoop
    split
    · simp
    · simp
    · split_ifs
      · simp
      · have := ih (k + 1) ‹_›
        omega

theorem newtonLoop_no_panic (ev dv : K → Except PErr K) (tol : K) :
    ∀ (fuel k : Nat) (xs : K), (newtonLoop ev dv tol fuel k xs).out ≠ .panic := by
  intro fuel
  induction fuel with
  | zero => intro k xs; unfold newtonLoop; split <;> simp
  | succ fuel ih =>
    intro k xs
    unfold newtonLoop
    split
    · simp
    · simp
    · split_ifs
      · simp
      · exact ih _ _


/-! ### second-order Taylor bound for real polynomials -/
section taylor
open Set

/-- second-order Taylor bound on `[0,1]` for a real polynomial -/
theorem taylor01 (Q : ℝ[X]) (C : ℝ)
    (h : ∀ s ∈ Icc (0 : ℝ) 1, |(derivative (derivative Q)).eval s| ≤ C) :
    |Q.eval 1 - Q.eval 0 - (derivative Q).eval 0| ≤ C / 2 := by
  -- step 1: the derivative moves by at most `C * s`
  have h1 : ∀ s ∈ Icc (0 : ℝ) 1, ‖(derivative Q).eval s - (derivative Q).eval 0‖ ≤ C * (s - 0) := by
    apply norm_image_sub_le_of_norm_deriv_le_segment' (f := fun s => (derivative Q).eval s)
      (f' := fun s => (derivative (derivative Q)).eval s)
    · intro x _
      exact (derivative Q).hasDerivWithinAt x _
    · intro x hx
      exact h x (Ico_subset_Icc_self hx)
  -- step 2: fence `f s = Q s - Q 0 - Q' 0 * s` by `B s = C/2 * s^2`
  have hd : ∀ x : ℝ, HasDerivAt (fun s => Q.eval s - Q.eval 0 - (derivative Q).eval 0 * s)
      ((derivative Q).eval x - (derivative Q).eval 0) x := by
    intro x
    have := ((Q.hasDerivAt x).sub_const (Q.eval 0)).sub
      ((hasDerivAt_id x).const_mul ((derivative Q).eval 0))
    rw [mul_one] at this
    exact this
  have hB : ∀ x : ℝ, HasDerivAt (fun s => C / 2 * s ^ 2) (C * x) x := by
    intro x
    have := (hasDerivAt_pow 2 x).const_mul (C / 2)
    have e : C / 2 * (((2 : ℕ) : ℝ) * x ^ (2 - 1)) = C * x := by norm_num; ring
    rw [e] at this
    exact this
  have h2 := image_norm_le_of_norm_deriv_right_le_deriv_boundary'
    (f := fun s => Q.eval s - Q.eval 0 - (derivative Q).eval 0 * s)
    (f' := fun s => (derivative Q).eval s - (derivative Q).eval 0)
    (a := 0) (b := 1) (B := fun s => C / 2 * s ^ 2) (B' := fun s => C * s)
    (continuous_iff_continuousAt.2 fun x => (hd x).continuousAt).continuousOn
    (fun x _ => (hd x).hasDerivWithinAt) (by simp)
    (continuous_iff_continuousAt.2 fun x => (hB x).continuousAt).continuousOn
    (fun x _ => (hB x).hasDerivWithinAt)
    (fun x hx => by simpa using h1 x (Ico_subset_Icc_self hx))
  have := h2 (right_mem_Icc.2 zero_le_one)
  simpa [Real.norm_eq_abs] using this

/-- **Taylor with the Lagrange-size remainder, second order, for real polynomials**: if `|P''| ≤ M`
between `a` and `x` then `|P x - P a - P' a (x - a)| ≤ M/2 (x - a)^2`. -/
theorem taylor2 (P : ℝ[X]) (a x M : ℝ)
    (h : ∀ t ∈ uIcc a x, |(derivative (derivative P)).eval t| ≤ M) :
    |P.eval x - P.eval a - (derivative P).eval a * (x - a)| ≤ M / 2 * (x - a) ^ 2 := by
  set L : ℝ[X] := C a + C (x - a) * X with hL
  have hLd : derivative L = C (x - a) := by simp [hL]
  have hLe : ∀ s : ℝ, L.eval s = a + (x - a) * s := by intro s; simp [hL]
  have hQ1 : derivative (P.comp L) = C (x - a) * (derivative P).comp L := by
    rw [derivative_comp, hLd]
  have hQ2 : derivative (derivative (P.comp L)) = C (x - a) * (C (x - a) * (derivative (derivative P)).comp L) := by
    rw [hQ1, derivative_mul, derivative_C, zero_mul, zero_add, derivative_comp, hLd]
  have key := taylor01 (P.comp L) (M * (x - a) ^ 2) ?_
  · rw [hQ1] at key
    simp only [eval_comp, hLe, eval_mul, eval_C, mul_one, mul_zero, add_zero] at key
    have e : a + (x - a) = x := by ring
    rw [e] at key
    have e2 : P.eval x - P.eval a - (derivative P).eval a * (x - a)
        = P.eval x - P.eval a - (x - a) * (derivative P).eval a := by ring
    rw [e2]
    linarith
  · intro s hs
    rw [hQ2]
    simp only [eval_comp, hLe, eval_mul, eval_C]
    have hmem : a + (x - a) * s ∈ uIcc a x := by
      rw [mem_uIcc]
      rcases le_total a x with hax | hax
      · left
        constructor
        · nlinarith [hs.1, hs.2]
        · nlinarith [hs.1, hs.2]
      · right
        constructor
        · nlinarith [hs.1, hs.2]
        · nlinarith [hs.1, hs.2]
    have := h _ hmem
    rw [abs_mul, abs_mul]
    have hsq : |x - a| * |x - a| = (x - a) ^ 2 := by rw [← abs_mul, ← sq, abs_of_nonneg (sq_nonneg _)]
    calc |x - a| * (|x - a| * |(derivative (derivative P)).eval (a + (x - a) * s)|)
        = (x - a) ^ 2 * |(derivative (derivative P)).eval (a + (x - a) * s)| := by rw [← mul_assoc, hsq]
      _ ≤ (x - a) ^ 2 * M := mul_le_mul_of_nonneg_left this (sq_nonneg _)
      _ = M * (x - a) ^ 2 := by ring

end taylor

/-! ### to the right of the largest root -/

/-- `Π (X - r)` over a list of roots -/
noncomputable def rootsProd (rs : List K) : K[X] := (rs.map fun r => X - C r).prod

/-- `Σ 1/(x - r)` -/
def invSum (rs : List K) (x : K) : K := (rs.map fun r => 1 / (x - r)).sum

@[simp] theorem rootsProd_nil : rootsProd ([] : List K) = 1 := rfl
@[simp] theorem rootsProd_cons (r : K) (rs : List K) : rootsProd (r :: rs) = (X - C r) * rootsProd rs := by
  simp [rootsProd]
@[simp] theorem invSum_nil (x : K) : invSum ([] : List K) x = 0 := rfl
@[simp] theorem invSum_cons (r : K) (rs : List K) (x : K) : invSum (r :: rs) x = 1 / (x - r) + invSum rs x := by
  simp [invSum]

/-- to the right of all roots the product is positive and its logarithmic derivative is `Σ 1/(x - r)` -/
theorem rootsProd_right (rs : List K) (x : K) (h : ∀ r ∈ rs, r < x) :
    0 < (rootsProd rs).eval x ∧
    (derivative (rootsProd rs)).eval x = (rootsProd rs).eval x * invSum rs x := by
  induction rs with
  | nil => simp
  | cons r rs ih =>
    have hr : 0 < x - r := sub_pos.mpr (h r (List.mem_cons_self ..))
    obtain ⟨ip, id⟩ := ih (fun q hq => h q (List.mem_cons_of_mem _ hq))
    refine ⟨?_, ?_⟩
    · simp only [rootsProd_cons, eval_mul, eval_sub, eval_X, eval_C]
      exact mul_pos hr ip
    · simp only [rootsProd_cons, derivative_mul, derivative_sub, derivative_X, derivative_C, sub_zero,
        one_mul, eval_add, eval_mul, eval_sub, eval_X, eval_C, id, invSum_cons]
      field_simp

/-- bounds on `Σ 1/(x - r)` when every root is `≤ m < x` -/
theorem invSum_le (rs : List K) (x m : K) (hm : m < x) (h : ∀ r ∈ rs, r ≤ m) :
    0 ≤ invSum rs x ∧ invSum rs x ≤ rs.length / (x - m) := by
  have hxm : 0 < x - m := sub_pos.mpr hm
  induction rs with
  | nil => simp
  | cons r rs ih =>
    obtain ⟨i0, i1⟩ := ih (fun q hq => h q (List.mem_cons_of_mem _ hq))
    have hr : r ≤ m := h r (List.mem_cons_self ..)
    have hxr : 0 < x - r := by linarith
    have h1 : 1 / (x - r) ≤ 1 / (x - m) := one_div_le_one_div_of_le hxm (by linarith)
    have h0 : 0 < 1 / (x - r) := one_div_pos.mpr hxr
    refine ⟨by rw [invSum_cons]; linarith, ?_⟩
    rw [invSum_cons, List.length_cons, Nat.cast_succ, add_div]
    linarith

theorem invSum_ge (rs : List K) (x m : K) (hm : m < x) (h : ∀ r ∈ rs, r ≤ m) (hmem : m ∈ rs) :
    1 / (x - m) ≤ invSum rs x := by
  induction rs with
  | nil => cases hmem
  | cons r rs ih =>
    have hrest := invSum_le rs x m hm (fun q hq => h q (List.mem_cons_of_mem _ hq))
    rw [invSum_cons]
    rcases List.mem_cons.mp hmem with e | e
    · subst e; linarith [hrest.1]
    · have := ih (fun q hq => h q (List.mem_cons_of_mem _ hq)) e
      have hr : r ≤ m := h r (List.mem_cons_self ..)
      have : 0 < 1 / (x - r) := one_div_pos.mpr (by linarith)
      linarith

/-- **One Newton step to the right of the largest root** of `c·Π(X - rᵢ)`: the derivative does not
vanish, the new iterate is still `≥ r_max`, and it has moved left by at least `(x - r_max)/n`. -/
theorem newton_step_right (c : K) (hc : c ≠ 0) (rs : List K) (m x : K) (hm : m < x)
    (h : ∀ r ∈ rs, r ≤ m) (hmem : m ∈ rs) :
    (derivative (C c * rootsProd rs)).eval x ≠ 0 ∧
    m ≤ x - (C c * rootsProd rs).eval x / (derivative (C c * rootsProd rs)).eval x ∧
    x - (C c * rootsProd rs).eval x / (derivative (C c * rootsProd rs)).eval x
      ≤ x - (x - m) / rs.length := by
  have hlt : ∀ r ∈ rs, r < x := fun r hr => lt_of_le_of_lt (h r hr) hm
  obtain ⟨hp, hd⟩ := rootsProd_right rs x hlt
  have hxm : 0 < x - m := sub_pos.mpr hm
  have hge := invSum_ge rs x m hm h hmem
  have hle := (invSum_le rs x m hm h).2
  have hSpos : 0 < invSum rs x := lt_of_lt_of_le (one_div_pos.mpr hxm) hge
  have hlen : (0 : K) < rs.length := by
    have : 0 < rs.length := List.length_pos_of_mem hmem
    exact_mod_cast this
  have hderiv : (derivative (C c * rootsProd rs)).eval x = c * ((rootsProd rs).eval x * invSum rs x) := by
    rw [derivative_C_mul, eval_mul, eval_C, hd]
  have hne : (derivative (C c * rootsProd rs)).eval x ≠ 0 := by
    rw [hderiv]
    exact mul_ne_zero hc (mul_ne_zero (ne_of_gt hp) (ne_of_gt hSpos))
  have hquot : (C c * rootsProd rs).eval x / (derivative (C c * rootsProd rs)).eval x = 1 / invSum rs x := by
    rw [hderiv, eval_mul, eval_C]
    field_simp
  refine ⟨hne, ?_, ?_⟩
  · rw [hquot]
    have : 1 / invSum rs x ≤ x - m := by
      rw [div_le_iff₀ hSpos]
      have := (div_le_iff₀ hxm).mp hge
      linarith
    linarith
  · rw [hquot]
    have : (x - m) / rs.length ≤ 1 / invSum rs x := by
      rw [le_div_iff₀ hSpos, div_mul_eq_mul_div, div_le_iff₀ hlen]
      have := (le_div_iff₀ hxm).mp hle
      linarith
    linarith


theorem rootsProd_eval_mem (rs : List K) (m : K) (hmem : m ∈ rs) : (rootsProd rs).eval m = 0 := by
  induction rs with
  | nil => cases hmem
  | cons r rs ih =>
    rw [rootsProd_cons, eval_mul]
    rcases List.mem_cons.mp hmem with e | e
    · subst e; simp
    · rw [ih e, mul_zero]



section loop
open SV.C06 (evOf)

/-- one step of the loop for total `g`, `g'` with a non-vanishing derivative -/
theorem newtonLoop_evOf_succ (g g' : K → K) (tol : K) (fuel k : Nat) (xs : K) (hd : g' xs ≠ 0) :
    newtonLoop (evOf g) (evOf g') tol (fuel + 1) k xs =
      if converged (xs - g xs / g' xs) xs tol then ⟨.ok (xs - g xs / g' xs), k + 1⟩
      else newtonLoop (evOf g) (evOf g') tol fuel (k + 1) (xs - g xs / g' xs) := by
  conv_lhs => unfold newtonLoop
  rw [newtonStep_evOf, if_neg hd]

/-- the Newton update of `c·Π(X − rᵢ)` from a point `≥ r_max` (`m`): the derivative does not vanish
unless the point is `m` itself, the new point is in `[m, xs]`, and `xs − m ≤ n·(xs − new)` -/
theorem newton_update_right (c : K) (hc : c ≠ 0) (rs : List K) (m xs : K) (hm : m ≤ xs)
    (h : ∀ r ∈ rs, r ≤ m) (hmem : m ∈ rs) :
    let P := C c * rootsProd rs
    let x1 := xs - P.eval xs / (derivative P).eval xs
    m ≤ x1 ∧ x1 ≤ xs ∧ xs - m ≤ rs.length * (xs - x1) ∧ (m < xs → (derivative P).eval xs ≠ 0) := by
  intro P x1
  have hlen : (0 : K) < rs.length := by
    have : 0 < rs.length := List.length_pos_of_mem hmem
    exact_mod_cast this
  rcases lt_or_eq_of_le hm with hlt | heq
  · obtain ⟨hne, h1, h2⟩ := newton_step_right c hc rs m xs hlt h hmem
    have hxm : 0 < xs - m := sub_pos.mpr hlt
    have hq : 0 < (xs - m) / rs.length := div_pos hxm hlen
    refine ⟨h1, by linarith, ?_, fun _ => hne⟩
    have : (xs - m) / rs.length ≤ xs - x1 := by linarith
    calc xs - m = rs.length * ((xs - m) / rs.length) := by field_simp
      _ ≤ rs.length * (xs - x1) := mul_le_mul_of_nonneg_left this (le_of_lt hlen)
  · have h0 : P.eval xs = 0 := by
      rw [← heq]
      simp only [P, eval_mul, eval_C, rootsProd_eval_mem rs m hmem, mul_zero]
    have hx1 : x1 = xs := by simp only [x1, h0, zero_div, sub_zero]
    refine ⟨by rw [hx1]; exact hm, le_of_eq hx1, ?_, fun hlt => absurd heq (ne_of_lt hlt)⟩
    rw [hx1, ← heq]; simp

/-- **Exit bound in the monotone case.**  Started at or to the right of the largest root `m` of
`c·Π(X − rᵢ)`, every value the loop returns lies in `[m, ∞)` and within `(n−1)·tol/100·|x|` of `m`. -/
theorem newtonLoop_monotone (c : K) (hc : c ≠ 0) (rs : List K) (m tol : K)
    (h : ∀ r ∈ rs, r ≤ m) (hmem : m ∈ rs) :
    ∀ (fuel k : Nat) (xs x : K), m ≤ xs →
      (newtonLoop (evOf fun t => (C c * rootsProd rs).eval t)
        (evOf fun t => (derivative (C c * rootsProd rs)).eval t) tol fuel k xs).out = .ok x →
      m ≤ x ∧ x ≤ xs ∧ x - m ≤ ((rs.length : K) - 1) * (tol / 100) * |x| := by
  intro fuel
  induction fuel with
  | zero =>
    intro k xs x _ hout
    unfold newtonLoop at hout
    split at hout <;> cases hout
  | succ fuel ih =>
    intro k xs x hm hout
    obtain ⟨h1, h2, h3, h4⟩ := newton_update_right c hc rs m xs hm h hmem
    by_cases hd : (derivative (C c * rootsProd rs)).eval xs = 0
    · -- poisoned: no value is returned
      exfalso
      unfold newtonLoop at hout
      rw [newtonStep_evOf, if_pos hd] at hout
      cases hout
    · rw [newtonLoop_evOf_succ _ _ _ _ _ _ hd] at hout
      split_ifs at hout with hconv
      · simp only [Outcome.ok.injEq] at hout
        subst hout
        refine ⟨h1, h2, ?_⟩
        have hn1 : (0 : K) ≤ (rs.length : K) - 1 := by
          have : 1 ≤ rs.length := List.length_pos_of_mem hmem
          have : (1 : K) ≤ rs.length := by exact_mod_cast this
          linarith
        set x1 := xs - (C c * rootsProd rs).eval xs / (derivative (C c * rootsProd rs)).eval xs with hx1
        have hdist : x1 - m ≤ ((rs.length : K) - 1) * (xs - x1) := by linarith
        have habs : |x1 - xs| = xs - x1 := by rw [abs_of_nonpos (by linarith)]; ring
        rcases (converged_iff x1 xs tol).mp hconv with ⟨_, hlt⟩ | ⟨e0, e1, _⟩
        · rw [habs] at hlt
          have : xs - x1 ≤ tol / 100 * |x1| := by linarith
          calc x1 - m ≤ ((rs.length : K) - 1) * (xs - x1) := hdist
            _ ≤ ((rs.length : K) - 1) * (tol / 100 * |x1|) := mul_le_mul_of_nonneg_left this hn1
            _ = ((rs.length : K) - 1) * (tol / 100) * |x1| := by ring
        · -- sitting on 0 with a vanishing step
          have : x1 - m ≤ 0 := by
            have hz : xs - x1 = 0 := by rw [e0, e1]; ring
            rw [hz, mul_zero] at hdist; exact hdist
          rw [e0] at this ⊢
          simp only [abs_zero, mul_zero]
          exact this
      · obtain ⟨a, b, c'⟩ := ih (k + 1) _ x h1 hout
        exact ⟨a, le_trans b h2, c'⟩

/-- **Termination in the monotone case, positive simple largest root.**  With `q = 1 − 1/n` the
distance to the largest root `m > 0` shrinks at least by the factor `q` per pass, so the relative
stopping test fires as soon as `(xs − m)·100·q^fuel < tol·m`. -/
theorem newtonLoop_returns (c : K) (hc : c ≠ 0) (rs : List K) (m tol : K) (hmpos : 0 < m)
    (h : ∀ r ∈ rs, r ≤ m) (hmem : m ∈ rs)
    (hsimple : (derivative (C c * rootsProd rs)).eval m ≠ 0) :
    ∀ (fuel k : Nat) (xs : K), m ≤ xs →
      (xs - m) * 100 * (1 - 1 / (rs.length : K)) ^ fuel < tol * m →
      ∃ x, (newtonLoop (evOf fun t => (C c * rootsProd rs).eval t)
        (evOf fun t => (derivative (C c * rootsProd rs)).eval t) tol (fuel + 1) k xs).out = .ok x := by
  have hlen : (0 : K) < rs.length := by
    have : 0 < rs.length := List.length_pos_of_mem hmem
    exact_mod_cast this
  have hq0 : (0 : K) ≤ 1 - 1 / (rs.length : K) := by
    have : 1 ≤ rs.length := List.length_pos_of_mem hmem
    have h1 : (1 : K) ≤ rs.length := by exact_mod_cast this
    have : 1 / (rs.length : K) ≤ 1 := by rw [div_le_one hlen]; exact h1
    linarith
  -- the stopping test fires whenever the distance is already small
  have hfire : ∀ xs x1 : K, m ≤ x1 → x1 ≤ xs → (xs - m) * 100 < tol * m → converged x1 xs tol = true := by
    intro xs x1 h1 h2 hsm
    have hx1pos : 0 < x1 := lt_of_lt_of_le hmpos h1
    have htol : 0 < tol := by
      by_contra hneg
      push Not at hneg
      nlinarith
    rw [converged_iff]
    left
    refine ⟨ne_of_gt hx1pos, ?_⟩
    rw [abs_of_nonpos (by linarith), abs_of_pos hx1pos]
    nlinarith
  intro fuel
  induction fuel with
  | zero =>
    intro k xs hm hb
    obtain ⟨h1, h2, h3, h4⟩ := newton_update_right c hc rs m xs hm h hmem
    have hd : (derivative (C c * rootsProd rs)).eval xs ≠ 0 := by
      rcases lt_or_eq_of_le hm with hlt | heq
      · exact h4 hlt
      · rw [← heq]; exact hsimple
    rw [newtonLoop_evOf_succ _ _ _ _ _ _ hd]
    rw [pow_zero, mul_one] at hb
    rw [if_pos (hfire xs _ h1 h2 hb)]
    exact ⟨_, rfl⟩
  | succ fuel ih =>
    intro k xs hm hb
    obtain ⟨h1, h2, h3, h4⟩ := newton_update_right c hc rs m xs hm h hmem
    have hd : (derivative (C c * rootsProd rs)).eval xs ≠ 0 := by
      rcases lt_or_eq_of_le hm with hlt | heq
      · exact h4 hlt
      · rw [← heq]; exact hsimple
    rw [newtonLoop_evOf_succ _ _ _ _ _ _ hd]
    split_ifs with hconv
    · exact ⟨_, rfl⟩
    · apply ih (k + 1) _ h1
      set x1 := xs - (C c * rootsProd rs).eval xs / (derivative (C c * rootsProd rs)).eval xs with hx1
      -- x1 - m ≤ q (xs - m)
      have hstep : x1 - m ≤ (1 - 1 / (rs.length : K)) * (xs - m) := by
        have : (xs - m) / rs.length ≤ xs - x1 := by
          rw [div_le_iff₀ hlen]; linarith
        have e : (1 - 1 / (rs.length : K)) * (xs - m) = (xs - m) - (xs - m) / rs.length := by ring
        rw [e]; linarith
      have hpow : 0 ≤ (1 - 1 / (rs.length : K)) ^ fuel := pow_nonneg hq0 _
      calc (x1 - m) * 100 * (1 - 1 / (rs.length : K)) ^ fuel
          ≤ ((1 - 1 / (rs.length : K)) * (xs - m)) * 100 * (1 - 1 / (rs.length : K)) ^ fuel := by
            apply mul_le_mul_of_nonneg_right _ hpow
            linarith
        _ = (xs - m) * 100 * (1 - 1 / (rs.length : K)) ^ (fuel + 1) := by rw [pow_succ]; ring
        _ < tol * m := hb

/-! ### the mirror image `x ↦ −x` -/

/-- negate a returned value -/
def NRes.neg (r : NRes K) : NRes K :=
  ⟨match r.out with | .ok x => .ok (-x) | .err e => .err e | .panic => .panic, r.passes⟩

theorem converged_neg (x xo tol : K) : converged (-x) (-xo) tol = converged x xo tol := by
  rw [Bool.eq_iff_iff, converged_iff, converged_iff]
  have e1 : -x - -xo = -(x - xo) := by ring
  rw [e1, abs_neg, abs_neg, neg_ne_zero, neg_eq_zero, neg_eq_zero]

/-- Newton's iteration for `t ↦ g(−t)` (whose derivative is `t ↦ −g'(−t)`) from `−x0` is the mirror
image of the iteration for `g` from `x0` -/
theorem newtonLoop_neg (g g' : K → K) (tol : K) :
    ∀ (fuel k : Nat) (xs : K),
      newtonLoop (evOf fun t => g (-t)) (evOf fun t => -g' (-t)) tol fuel k (-xs) =
        (newtonLoop (evOf g) (evOf g') tol fuel k xs).neg := by
  intro fuel
  induction fuel with
  | zero =>
    intro k xs
    unfold newtonLoop
    rw [newtonStep_evOf, newtonStep_evOf]
    simp only [neg_neg, neg_eq_zero]
    split_ifs <;> rfl
  | succ fuel ih =>
    intro k xs
    unfold newtonLoop
    rw [newtonStep_evOf, newtonStep_evOf]
    simp only [neg_neg, neg_eq_zero]
    split_ifs with hd
    · rfl
    · have e : -xs - g xs / -g' xs = -(xs - g xs / g' xs) := by
        rw [div_neg]; ring
      simp only [e, converged_neg]
      split_ifs with hc
      · rfl
      · exact ih (k + 1) _

theorem rootsProd_comp_neg (rs : List K) :
    (rootsProd rs).comp (-X) = C ((-1 : K) ^ rs.length) * rootsProd (rs.map fun r => -r) := by
  induction rs with
  | nil => simp
  | cons r rs ih =>
    rw [rootsProd_cons, mul_comp, ih, List.map_cons, rootsProd_cons, List.length_cons, pow_succ]
    simp only [sub_comp, X_comp, C_comp, map_mul, map_neg, map_one]
    ring


/-- **Exit bound, mirror image.**  Started at or to the left of the smallest root `m` of
`c·Π(X − rᵢ)`, every value the loop returns lies in `[xs, m]` and within `(n−1)·tol/100·|x|` of `m`. -/
theorem newtonLoop_monotone_left (c : K) (hc : c ≠ 0) (rs : List K) (m tol : K)
    (h : ∀ r ∈ rs, m ≤ r) (hmem : m ∈ rs) (fuel k : Nat) (xs x : K) (hxs : xs ≤ m)
    (hout : (newtonLoop (evOf fun t => (C c * rootsProd rs).eval t)
        (evOf fun t => (derivative (C c * rootsProd rs)).eval t) tol fuel k xs).out = .ok x) :
    xs ≤ x ∧ x ≤ m ∧ m - x ≤ ((rs.length : K) - 1) * (tol / 100) * |x| := by
  set c' : K := c * (-1) ^ rs.length with hc'
  set rs' : List K := rs.map fun r => -r with hrs'
  have hcomp : (C c * rootsProd rs).comp (-X) = C c' * rootsProd rs' := by
    rw [mul_comp, C_comp, rootsProd_comp_neg, ← mul_assoc, ← C_mul]
  have hPt : ∀ t : K, (C c' * rootsProd rs').eval t = (C c * rootsProd rs).eval (-t) := by
    intro t; rw [← hcomp, eval_comp]; simp
  have hPt' : ∀ t : K, (derivative (C c' * rootsProd rs')).eval t
      = -(derivative (C c * rootsProd rs)).eval (-t) := by
    intro t
    rw [← hcomp, derivative_comp]
    simp [eval_comp]
  have hmirror := newtonLoop_neg (fun t => (C c * rootsProd rs).eval t)
    (fun t => (derivative (C c * rootsProd rs)).eval t) tol fuel k xs
  have e1 : (fun t : K => (fun s => (C c * rootsProd rs).eval s) (-t))
      = fun t => (C c' * rootsProd rs').eval t := by funext t; exact (hPt t).symm
  have e2 : (fun t : K => -(fun s => (derivative (C c * rootsProd rs)).eval s) (-t))
      = fun t => (derivative (C c' * rootsProd rs')).eval t := by funext t; exact (hPt' t).symm
  rw [e1, e2] at hmirror
  have hout' : (newtonLoop (evOf fun t => (C c' * rootsProd rs').eval t)
      (evOf fun t => (derivative (C c' * rootsProd rs')).eval t) tol fuel k (-xs)).out = .ok (-x) := by
    rw [hmirror]
    simp only [NRes.neg, hout]
  have hc0 : c' ≠ 0 := mul_ne_zero hc (pow_ne_zero _ (by norm_num))
  have hle : ∀ r ∈ rs', r ≤ -m := by
    intro r hr
    obtain ⟨q, hq, rfl⟩ := List.mem_map.mp hr
    exact neg_le_neg (h q hq)
  have hmem' : -m ∈ rs' := List.mem_map.mpr ⟨m, hmem, rfl⟩
  obtain ⟨a, b, d⟩ := newtonLoop_monotone c' hc0 rs' (-m) tol hle hmem' fuel k (-xs) (-x)
    (neg_le_neg hxs) hout'
  have hlen : rs'.length = rs.length := List.length_map _
  rw [hlen, abs_neg] at d
  exact ⟨by linarith, by linarith, by linarith⟩


theorem NRes.neg_out_ok {r : NRes K} {y : K} (h : r.neg.out = .ok y) : r.out = .ok (-y) := by
  unfold NRes.neg at h
  cases hr : r.out with
  | ok x => rw [hr] at h; simp only [Outcome.ok.injEq] at h; rw [← h, neg_neg]
  | err e => rw [hr] at h; cases h
  | panic => rw [hr] at h; cases h

/-- **Termination in the monotone case, simple largest root `m ≠ 0` of either sign.**  Once the
distance `e` to `m` is at most `|m|/2`, every later iterate has `|x| ≥ |m|/2`, and the relative
test fires as soon as `e·100 < tol·|m|/2`; `e` shrinks at least by `q = 1 − 1/n` per pass. -/
theorem newtonLoop_returns_ne (c : K) (hc : c ≠ 0) (rs : List K) (m tol : K) (hm0 : m ≠ 0)
    (h : ∀ r ∈ rs, r ≤ m) (hmem : m ∈ rs)
    (hsimple : (derivative (C c * rootsProd rs)).eval m ≠ 0) :
    ∀ (fuel k : Nat) (xs : K), m ≤ xs →
      (xs - m) * (1 - 1 / (rs.length : K)) ^ fuel * 100 < tol * (|m| / 2) →
      (xs - m) * (1 - 1 / (rs.length : K)) ^ fuel * 2 ≤ |m| →
      ∃ x, (newtonLoop (evOf fun t => (C c * rootsProd rs).eval t)
        (evOf fun t => (derivative (C c * rootsProd rs)).eval t) tol (fuel + 1) k xs).out = .ok x := by
  have hmabs : 0 < |m| := abs_pos.mpr hm0
  have hlen : (0 : K) < rs.length := by
    have : 0 < rs.length := List.length_pos_of_mem hmem
    exact_mod_cast this
  have hq0 : (0 : K) ≤ 1 - 1 / (rs.length : K) := by
    have : 1 ≤ rs.length := List.length_pos_of_mem hmem
    have h1 : (1 : K) ≤ rs.length := by exact_mod_cast this
    have : 1 / (rs.length : K) ≤ 1 := by rw [div_le_one hlen]; exact h1
    linarith
  -- the stopping test fires whenever the distance is already small
  have hfire : ∀ xs x1 : K, m ≤ x1 → x1 ≤ xs → (xs - m) * 100 < tol * (|m| / 2) → (xs - m) * 2 ≤ |m| →
      converged x1 xs tol = true := by
    intro xs x1 h1 h2 hsm hnear
    have hx1abs : |m| / 2 ≤ |x1| := by
      rcases lt_or_gt_of_ne hm0 with hneg | hpos
      · rw [abs_of_neg hneg] at hnear ⊢
        have : x1 < 0 := by linarith
        rw [abs_of_neg this]; linarith
      · rw [abs_of_pos hpos] at hnear ⊢
        have : 0 < x1 := by linarith
        rw [abs_of_pos this]; linarith
    have hx1pos : 0 < |x1| := by linarith
    have htol : 0 < tol := by
      by_contra hneg
      push Not at hneg
      have : tol * (|m| / 2) ≤ 0 := mul_nonpos_of_nonpos_of_nonneg hneg (by linarith)
      nlinarith
    rw [converged_iff]
    left
    refine ⟨abs_pos.mp hx1pos, ?_⟩
    rw [abs_of_nonpos (by linarith : x1 - xs ≤ 0)]
    have : tol * (|m| / 2) ≤ tol * |x1| := mul_le_mul_of_nonneg_left hx1abs (le_of_lt htol)
    nlinarith
  intro fuel
  induction fuel with
  | zero =>
    intro k xs hm hb hn
    obtain ⟨h1, h2, h3, h4⟩ := newton_update_right c hc rs m xs hm h hmem
    have hd : (derivative (C c * rootsProd rs)).eval xs ≠ 0 := by
      rcases lt_or_eq_of_le hm with hlt | heq
      · exact h4 hlt
      · rw [← heq]; exact hsimple
    rw [newtonLoop_evOf_succ _ _ _ _ _ _ hd]
    rw [pow_zero, mul_one] at hb hn
    rw [if_pos (hfire xs _ h1 h2 hb hn)]
    exact ⟨_, rfl⟩
  | succ fuel ih =>
    intro k xs hm hb hn
    obtain ⟨h1, h2, h3, h4⟩ := newton_update_right c hc rs m xs hm h hmem
    have hd : (derivative (C c * rootsProd rs)).eval xs ≠ 0 := by
      rcases lt_or_eq_of_le hm with hlt | heq
      · exact h4 hlt
      · rw [← heq]; exact hsimple
    rw [newtonLoop_evOf_succ _ _ _ _ _ _ hd]
    split_ifs with hconv
    · exact ⟨_, rfl⟩
    · set x1 := xs - (C c * rootsProd rs).eval xs / (derivative (C c * rootsProd rs)).eval xs with hx1
      have hstep : x1 - m ≤ (1 - 1 / (rs.length : K)) * (xs - m) := by
        have : (xs - m) / rs.length ≤ xs - x1 := by
          rw [div_le_iff₀ hlen]; linarith
        have e : (1 - 1 / (rs.length : K)) * (xs - m) = (xs - m) - (xs - m) / rs.length := by ring
        rw [e]; linarith
      have hpow : 0 ≤ (1 - 1 / (rs.length : K)) ^ fuel := pow_nonneg hq0 _
      have hkey : (x1 - m) * (1 - 1 / (rs.length : K)) ^ fuel
          ≤ (xs - m) * (1 - 1 / (rs.length : K)) ^ (fuel + 1) := by
        calc (x1 - m) * (1 - 1 / (rs.length : K)) ^ fuel
            ≤ ((1 - 1 / (rs.length : K)) * (xs - m)) * (1 - 1 / (rs.length : K)) ^ fuel :=
              mul_le_mul_of_nonneg_right hstep hpow
          _ = (xs - m) * (1 - 1 / (rs.length : K)) ^ (fuel + 1) := by rw [pow_succ]; ring
      apply ih (k + 1) _ h1
      · have := mul_le_mul_of_nonneg_right hkey (by norm_num : (0 : K) ≤ 100)
        linarith
      · have := mul_le_mul_of_nonneg_right hkey (by norm_num : (0 : K) ≤ 2)
        linarith

/-- **Termination, mirror image**: simple smallest root `m ≠ 0`, start at or left of it. -/
theorem newtonLoop_returns_left (c : K) (hc : c ≠ 0) (rs : List K) (m tol : K) (hm0 : m ≠ 0)
    (h : ∀ r ∈ rs, m ≤ r) (hmem : m ∈ rs)
    (hsimple : (derivative (C c * rootsProd rs)).eval m ≠ 0) (fuel k : Nat) (xs : K) (hxs : xs ≤ m)
    (hb : (m - xs) * (1 - 1 / (rs.length : K)) ^ fuel * 100 < tol * (|m| / 2))
    (hn : (m - xs) * (1 - 1 / (rs.length : K)) ^ fuel * 2 ≤ |m|) :
    ∃ x, (newtonLoop (evOf fun t => (C c * rootsProd rs).eval t)
        (evOf fun t => (derivative (C c * rootsProd rs)).eval t) tol (fuel + 1) k xs).out = .ok x := by
  set c' : K := c * (-1) ^ rs.length with hc'
  set rs' : List K := rs.map fun r => -r with hrs'
  have hcomp : (C c * rootsProd rs).comp (-X) = C c' * rootsProd rs' := by
    rw [mul_comp, C_comp, rootsProd_comp_neg, ← mul_assoc, ← C_mul]
  have hPt : ∀ t : K, (C c' * rootsProd rs').eval t = (C c * rootsProd rs).eval (-t) := by
    intro t; rw [← hcomp, eval_comp]; simp
  have hPt' : ∀ t : K, (derivative (C c' * rootsProd rs')).eval t
      = -(derivative (C c * rootsProd rs)).eval (-t) := by
    intro t
    rw [← hcomp, derivative_comp]
    simp [eval_comp]
  have hmirror := newtonLoop_neg (fun t => (C c * rootsProd rs).eval t)
    (fun t => (derivative (C c * rootsProd rs)).eval t) tol (fuel + 1) k xs
  have e1 : (fun t : K => (fun s => (C c * rootsProd rs).eval s) (-t))
      = fun t => (C c' * rootsProd rs').eval t := by funext t; exact (hPt t).symm
  have e2 : (fun t : K => -(fun s => (derivative (C c * rootsProd rs)).eval s) (-t))
      = fun t => (derivative (C c' * rootsProd rs')).eval t := by funext t; exact (hPt' t).symm
  rw [e1, e2] at hmirror
  have hc0 : c' ≠ 0 := mul_ne_zero hc (pow_ne_zero _ (by norm_num))
  have hle : ∀ r ∈ rs', r ≤ -m := by
    intro r hr
    obtain ⟨q, hq, rfl⟩ := List.mem_map.mp hr
    exact neg_le_neg (h q hq)
  have hmem' : -m ∈ rs' := List.mem_map.mpr ⟨m, hmem, rfl⟩
  have hlen : rs'.length = rs.length := List.length_map _
  have hsimple' : (derivative (C c' * rootsProd rs')).eval (-m) ≠ 0 := by
    rw [hPt', neg_neg]; exact neg_ne_zero.mpr hsimple
  have e : -xs - -m = m - xs := by ring
  obtain ⟨y, hy⟩ := newtonLoop_returns_ne c' hc0 rs' (-m) tol (neg_ne_zero.mpr hm0) hle hmem' hsimple'
    fuel k (-xs) (neg_le_neg hxs) (by rw [hlen, e, abs_neg]; exact hb) (by rw [hlen, e, abs_neg]; exact hn)
  rw [hmirror] at hy
  exact ⟨-y, NRes.neg_out_ok hy⟩




end loop


/-! ### from the polynomial entry point to the core loop -/
section bridge
open SV.C06 (evOf targetPoly SolveMode target)

variable (powf : K → K → K)

theorem newton_eq_core {p q dq : AnyPoly K} {mode : SolveMode} (hq : target p mode = .ok q)
    (hdq : q.derivUni = .ok dq) (x0 tol : K) (itermax : Nat) :
    newton powf p x0 tol itermax mode =
      newtonCore (q.evalUni powf) (dq.evalUni powf) x0 tol itermax := by
  unfold newton newtonCore
  rw [hq]
  simp only [hdq]

/-- a dense polynomial: the solver runs on `targetPoly cs mode` and its formal derivative -/
theorem newton_simple (cs : List K) (v : Option Char) (mode : SolveMode) (x0 tol : K) (itermax : Nat) :
    newton powf (.simple ⟨cs, v⟩) x0 tol itermax mode =
      newtonCore (evOf fun x => (targetPoly cs mode).eval x)
        (evOf fun x => (derivative (targetPoly cs mode)).eval x) x0 tol itermax := by
  cases mode
  · rw [newton_eq_core powf (q := .simple ⟨cs, v⟩) (dq := .simple ⟨simpleDeriv cs, v⟩) rfl rfl]
    have e1 : (AnyPoly.simple ⟨cs, v⟩).evalUni powf = evOf fun x => (ofCoeffs cs).eval x := by
      funext x; simp [AnyPoly.evalUni, evOf, evalSimple_eq]
    have e2 : (AnyPoly.simple ⟨simpleDeriv cs, v⟩).evalUni powf =
        evOf fun x => (derivative (ofCoeffs cs)).eval x := by
      funext x; simp [AnyPoly.evalUni, evOf, evalSimple_eq, ofCoeffs_simpleDeriv]
    rw [e1, e2]; rfl
  · rw [newton_eq_core powf (q := .simple ⟨simpleDeriv cs, v⟩)
      (dq := .simple ⟨simpleDeriv (simpleDeriv cs), v⟩) rfl rfl]
    have e1 : (AnyPoly.simple ⟨simpleDeriv cs, v⟩).evalUni powf =
        evOf fun x => (derivative (ofCoeffs cs)).eval x := by
      funext x; simp [AnyPoly.evalUni, evOf, evalSimple_eq, ofCoeffs_simpleDeriv]
    have e2 : (AnyPoly.simple ⟨simpleDeriv (simpleDeriv cs), v⟩).evalUni powf =
        evOf fun x => (derivative (derivative (ofCoeffs cs))).eval x := by
      funext x; simp [AnyPoly.evalUni, evOf, evalSimple_eq, ofCoeffs_simpleDeriv]
    rw [e1, e2]; rfl

end bridge

end SV.C07
