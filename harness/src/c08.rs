//! C08 — `gaussian_elimination` (every accepted container kind), `back_substitution`,
//! `forward_substitution`.
//!
//! Requests (numbers are `i<int>` for small integers or the decimal u64 of the f64 bit pattern):
//!   gauss <kind> <h> <w> a… <nb> b… <tol>
//!   gaussjag <kind> <rows> <len₀> a… <len₁> a… … <nb> b… <tol>      (nested Vec, any row lengths)
//!   back|forward <h> <w> a… <size> <nb> b… <ns>                      (ns = length of the solution slice)
//! Observations: `ok n f<bits>…` | `err nonsquare|numargs|singular|invalid|other` | `panic`.
//!
//! The harness's own verdict is the clause "identically for every accepted container type of the
//! same numbers": every other applicable container kind must give the same answer bit for bit.
//! The numerical clauses (backward error, singular ⇒ refused, well-conditioned ⇒ accepted, no
//! panic) are decided in exact rational arithmetic by tools/props/c08.py.
use crate::util::*;
use spindalis::solvers::{SolverError, gaussian_elimination};
use spindalis::utils::{Arr2D, back_substitution, forward_substitution};

// ---------------------------------------------------------------- wire

fn num(t: &mut Toks) -> f64 {
    let s = t.tok();
    match s.strip_prefix('i') {
        Some(r) => r.parse::<i64>().expect("int") as f64,
        None => f64::from_bits(s.parse::<u64>().expect("f64 bits")),
    }
}
fn show_num(x: f64) -> String {
    if x == x.trunc() && x.abs() <= 1e9 && (x != 0.0 || x.is_sign_positive()) {
        format!("i{}", x as i64)
    } else {
        format!("{}", x.to_bits())
    }
}
fn req_vec(xs: &[f64]) -> String {
    let mut s = format!("{}", xs.len());
    for x in xs {
        s.push(' ');
        s.push_str(&show_num(*x));
    }
    s
}

#[derive(Clone)]
struct Grid {
    h: usize,
    w: usize,
    v: Vec<f64>,
}
impl Grid {
    fn read(t: &mut Toks) -> Self {
        let h = t.usize();
        let w = t.usize();
        let v = (0..h * w).map(|_| num(t)).collect();
        Grid { h, w, v }
    }
    fn req(&self) -> String {
        let mut s = format!("{} {}", self.h, self.w);
        for x in &self.v {
            s.push(' ');
            s.push_str(&show_num(*x));
        }
        s
    }
    fn nested<T: Copy>(&self, f: impl Fn(f64) -> T) -> Vec<Vec<T>> {
        (0..self.h).map(|i| (0..self.w).map(|j| f(self.v[i * self.w + j])).collect()).collect()
    }
    fn arr<T: Copy>(&self, zero: T, f: impl Fn(f64) -> T) -> Arr2D<T> {
        let mut a = Arr2D::full(zero, self.h, self.w);
        for i in 0..self.h {
            for j in 0..self.w {
                a[(i, j)] = f(self.v[i * self.w + j]);
            }
        }
        a
    }
}
fn read_vec(t: &mut Toks) -> Vec<f64> {
    let n = t.usize();
    (0..n).map(|_| num(t)).collect()
}

fn fits_i32(x: f64) -> bool {
    x.abs() < 2e9 && ((x as i32) as f64).to_bits() == x.to_bits()
}
fn fits_f32(x: f64) -> bool {
    ((x as f32) as f64).to_bits() == x.to_bits()
}

fn show(r: Option<Result<Vec<f64>, SolverError>>) -> String {
    match r {
        None => "panic".into(),
        Some(Ok(x)) => format!("ok {}", fmt_vec_f(&x)),
        Some(Err(SolverError::NonSquareMatrix)) => "err nonsquare".into(),
        Some(Err(SolverError::NumArgumentsMismatch { .. })) => "err numargs".into(),
        Some(Err(SolverError::SingularMatrix)) => "err singular".into(),
        Some(Err(SolverError::InvalidVector(_))) => "err invalid".into(),
        Some(Err(_)) => "err other".into(),
    }
}

pub const KINDS: [&str; 7] = ["vf", "rvf", "raf", "rvi", "rai", "rvs", "ras"];

/// Call the real solver through the named container kind; `None` = this kind cannot hold the numbers.
/// The right-hand side travels as `&[i32]` / `&[f32]` with the integer / single-precision kinds
/// whenever it is representable, as `&[f64]` otherwise.
fn solve(kind: &str, g: &Grid, b: &[f64], tol: f64) -> Option<String> {
    let elem = kind.chars().last().unwrap();
    // nested Vec cannot express 0 x w (w > 0)
    if kind.contains('v') && g.h == 0 && g.w > 0 {
        return None;
    }
    match elem {
        'f' => {}
        'i' => {
            if !g.v.iter().all(|x| fits_i32(*x)) {
                return None;
            }
        }
        's' => {
            if !g.v.iter().all(|x| fits_f32(*x)) {
                return None;
            }
        }
        _ => panic!("kind"),
    }
    let bi: Option<Vec<i32>> = if b.iter().all(|x| fits_i32(*x)) { Some(b.iter().map(|x| *x as i32).collect()) } else { None };
    let bs: Option<Vec<f32>> = if b.iter().all(|x| fits_f32(*x)) { Some(b.iter().map(|x| *x as f32).collect()) } else { None };
    let r = match kind {
        "vf" => {
            let m = g.nested(|x| x);
            catch(move || gaussian_elimination(m, b, tol))
        }
        "rvf" => {
            let m = g.nested(|x| x);
            catch(|| gaussian_elimination(&m, b, tol))
        }
        "raf" => {
            let m = g.arr(0.0f64, |x| x);
            catch(|| gaussian_elimination(&m, b, tol))
        }
        "rvi" => {
            let m = g.nested(|x| x as i32);
            match &bi {
                Some(bi) => catch(|| gaussian_elimination(&m, bi, tol)),
                None => catch(|| gaussian_elimination(&m, b, tol)),
            }
        }
        "rai" => {
            let m = g.arr(0i32, |x| x as i32);
            match &bi {
                Some(bi) => catch(|| gaussian_elimination(&m, bi, tol)),
                None => catch(|| gaussian_elimination(&m, b, tol)),
            }
        }
        "rvs" => {
            let m = g.nested(|x| x as f32);
            match &bs {
                Some(bs) => catch(|| gaussian_elimination(&m, bs, tol)),
                None => catch(|| gaussian_elimination(&m, b, tol)),
            }
        }
        "ras" => {
            let m = g.arr(0f32, |x| x as f32);
            match &bs {
                Some(bs) => catch(|| gaussian_elimination(&m, bs, tol)),
                None => catch(|| gaussian_elimination(&m, b, tol)),
            }
        }
        _ => panic!("unknown container kind {kind}"),
    };
    Some(show(r))
}

pub fn run(line: &str) -> Obs {
    let mut t = Toks::new(line);
    let cmd = t.tok();
    match cmd {
        "gauss" => {
            let kind = t.tok();
            let g = Grid::read(&mut t);
            let b = read_vec(&mut t);
            let tol = num(&mut t);
            let obs = solve(kind, &g, &b, tol).expect("requested container kind cannot hold these numbers");
            let mut verdict = Ok(());
            for k in KINDS {
                if k == kind {
                    continue;
                }
                if let Some(o) = solve(k, &g, &b, tol) {
                    if o != obs {
                        verdict = Err(format!("container kind {k} answers `{o}` but {kind} answers `{obs}` for the same numbers"));
                        break;
                    }
                }
            }
            Obs::with(obs, verdict)
        }
        "gaussjag" => {
            let kind = t.tok();
            let rows = t.usize();
            let m: Vec<Vec<f64>> = (0..rows).map(|_| read_vec(&mut t)).collect();
            let b = read_vec(&mut t);
            let tol = num(&mut t);
            let r = match kind {
                "vf" => {
                    let mm = m.clone();
                    catch(|| gaussian_elimination(mm, &b, tol))
                }
                _ => catch(|| gaussian_elimination(&m, &b, tol)),
            };
            Obs::plain(show(r))
        }
        "back" | "forward" => {
            let g = Grid::read(&mut t);
            let size = t.usize();
            let b = read_vec(&mut t);
            let ns = t.usize();
            let a = g.arr(0.0f64, |x| x);
            let is_back = cmd == "back";
            let r = catch(move || {
                // pre-filled with NaN: the routines must write every entry they are responsible for
                let mut sol = vec![f64::NAN; ns];
                if is_back {
                    back_substitution(&a, size, &b, &mut sol);
                } else {
                    forward_substitution(&a, size, &b, &mut sol);
                }
                sol
            });
            Obs::plain(match r {
                None => "panic".into(),
                Some(s) => format!("ok {}", fmt_vec_f(&s)),
            })
        }
        _ => panic!("unknown C08 request {cmd}"),
    }
}

// ---------------------------------------------------------------- generators

fn pow2(e: i64) -> f64 {
    2f64.powi(e as i32)
}

struct Gen<'a> {
    rng: Rng,
    emit: &'a mut dyn FnMut(String),
    count: usize,
}

impl<'a> Gen<'a> {
    /// emit one gauss request; the kind rotates over those that can hold the numbers
    fn gauss(&mut self, g: &Grid, b: &[f64], tol: f64) {
        let ints = g.v.iter().all(|x| fits_i32(*x));
        let singles = g.v.iter().all(|x| fits_f32(*x));
        let mut kinds: Vec<&str> = vec!["vf", "rvf", "raf"];
        if ints {
            kinds.extend(["rvi", "rai"]);
        }
        if singles {
            kinds.extend(["rvs", "ras"]);
        }
        if g.h == 0 && g.w > 0 {
            kinds.retain(|k| !k.contains('v'));
        }
        let kind = kinds[self.count % kinds.len()];
        self.count += 1;
        (self.emit)(format!("gauss {kind} {} {} {}", g.req(), req_vec(b), show_num(tol)));
    }
    fn tol(&mut self) -> f64 {
        *self.rng.pick(&[1e-12, 1e-9])
    }
    fn scaled_rows(&mut self, g: &mut Grid, b: &mut [f64], emax: i64) {
        for i in 0..g.h {
            let s = pow2(self.rng.range(-emax, emax));
            for j in 0..g.w {
                g.v[i * g.w + j] *= s;
            }
            if i < b.len() {
                b[i] *= s;
            }
        }
    }
    fn rhs(&mut self, n: usize) -> Vec<f64> {
        match self.rng.below(8) {
            0 => vec![0.0; n],
            1 => (0..n).map(|_| self.rng.range(-3, 3) as f64).collect(),
            _ => (0..n).map(|_| self.rng.uniform(-4.0, 4.0)).collect(),
        }
    }
}

fn small_rhs(rng: &mut Rng, n: usize) -> Vec<f64> {
    (0..n).map(|_| rng.range(-3, 3) as f64).collect()
}

pub fn generate(seed: u64, thorough: bool, emit: &mut dyn FnMut(String)) {
    let mut gn = Gen { rng: Rng::new(seed ^ 0xC08), emit, count: 0 };

    // --- shapes: every h x w in 0..4 with every rhs length 0..4 (non-square, mismatched, empty)
    for h in 0..=4usize {
        for w in 0..=4usize {
            for nb in 0..=4usize {
                let v: Vec<f64> = (0..h * w).map(|k| if k % (w + 1) == 0 { 3.0 } else { ((k * 7 + 1) % 5) as f64 - 2.0 }).collect();
                let g = Grid { h, w, v };
                let b: Vec<f64> = (0..nb).map(|k| (k as f64) - 1.0).collect();
                gn.gauss(&g, &b, 1e-12);
            }
        }
    }
    // jagged nested Vecs
    for (k, lens) in [vec![2usize, 1], vec![1, 2], vec![3, 3, 2], vec![0, 1], vec![2, 2, 2], vec![2, 2], vec![], vec![0], vec![3, 0, 3]].iter().enumerate() {
        let mut s = format!("gaussjag {} {}", if k % 2 == 0 { "vf" } else { "rvf" }, lens.len());
        for (r, l) in lens.iter().enumerate() {
            let row: Vec<f64> = (0..*l).map(|c| if c == r { 4.0 } else { 1.0 }).collect();
            s.push(' ');
            s.push_str(&req_vec(&row));
        }
        let b: Vec<f64> = (0..lens.len()).map(|k| k as f64 + 1.0).collect();
        (gn.emit)(format!("{s} {} {}", req_vec(&b), show_num(1e-12)));
    }

    // --- 1 x 1 systems and tolerance corners
    for a in [0.0, -0.0, 1.0, -3.0, 1e-20, -1e20, 1e-300, 1e300, 0.1] {
        for tol in [1e-12, 1e-9, 0.0, -1.0, 1e-300, 0.5, 1.0, 2.0] {
            for b in [0.0, 1.0, -2.5] {
                gn.gauss(&Grid { h: 1, w: 1, v: vec![a] }, &[b], tol);
            }
        }
    }

    // --- exhaustive: all 2 x 2 matrices with entries -2..2, four right-hand sides, both tolerances
    for code in 0..625usize {
        let mut c = code;
        let v: Vec<f64> = (0..4).map(|_| { let e = (c % 5) as f64 - 2.0; c /= 5; e }).collect();
        let g = Grid { h: 2, w: 2, v };
        for b in [[1.0, 1.0], [1.0, -2.0], [0.0, 0.0], [3.0, 2.0]] {
            for tol in [1e-12, 1e-9] {
                gn.gauss(&g, &b, tol);
            }
        }
        // tolerance corners on the same matrices (correspondence only below rounding level)
        let tol = *gn.rng.pick(&[0.0, 1e-300, -1.0, 0.3, 1.0]);
        gn.gauss(&g, &[1.0, 2.0], tol);
    }

    // --- all (thorough) / a sample (quick) of the 3 x 3 matrices with entries -2..2
    let total3 = 1_953_125usize;
    let n3 = if thorough { total3 } else { 30_000 };
    for idx in 0..n3 {
        let code = if thorough { idx } else { gn.rng.below(total3 as u64) as usize };
        let mut c = code;
        let v: Vec<f64> = (0..9).map(|_| { let e = (c % 5) as f64 - 2.0; c /= 5; e }).collect();
        let g = Grid { h: 3, w: 3, v };
        let b = match code % 4 {
            0 => vec![1.0, 1.0, 1.0],
            1 => vec![1.0, -2.0, 3.0],
            2 => vec![0.0, 0.0, 0.0],
            _ => small_rhs(&mut gn.rng, 3),
        };
        let tol = if (code / 4) % 2 == 0 { 1e-12 } else { 1e-9 };
        gn.gauss(&g, &b, tol);
    }

    let reps = if thorough { 10 } else { 1 };

    // --- random real matrices, n <= 10, rows scaled by 2^-30..2^30
    for _ in 0..1500 * reps {
        let n = gn.rng.range(1, 10) as usize;
        let v: Vec<f64> = (0..n * n).map(|_| gn.rng.uniform(-1.0, 1.0)).collect();
        let mut g = Grid { h: n, w: n, v };
        let mut b = gn.rhs(n);
        gn.scaled_rows(&mut g, &mut b, 30);
        let tol = if gn.rng.chance(1, 10) { *gn.rng.pick(&[1e-6, 1e-15, 0.0, 1e-3]) } else { gn.tol() };
        gn.gauss(&g, &b, tol);
    }
    // --- well-conditioned by construction: strictly diagonally dominant rows (factor 2), scaled
    for _ in 0..600 * reps {
        let n = gn.rng.range(1, 10) as usize;
        let mut v: Vec<f64> = (0..n * n).map(|_| gn.rng.uniform(-1.0, 1.0)).collect();
        for i in 0..n {
            let off: f64 = (0..n).filter(|j| *j != i).map(|j| v[i * n + j].abs()).sum();
            let d = 2.0 * off + gn.rng.uniform(0.25, 1.0);
            v[i * n + i] = if gn.rng.chance(1, 2) { -d } else { d };
        }
        let mut g = Grid { h: n, w: n, v };
        let mut b = gn.rhs(n);
        gn.scaled_rows(&mut g, &mut b, 30);
        let tol = *gn.rng.pick(&[1e-12, 1e-9, 1e-6]);
        gn.gauss(&g, &b, tol);
    }
    // --- small-integer matrices (n <= 3, entries -2..2) with scaled rows: invertible ones must be accepted
    for _ in 0..600 * reps {
        let n = gn.rng.range(1, 3) as usize;
        let v: Vec<f64> = (0..n * n).map(|_| gn.rng.range(-2, 2) as f64).collect();
        let mut g = Grid { h: n, w: n, v };
        let mut b = small_rhs(&mut gn.rng, n);
        gn.scaled_rows(&mut g, &mut b, 30);
        let tol = *gn.rng.pick(&[1e-12, 1e-9, 1e-6]);
        gn.gauss(&g, &b, tol);
    }
    // --- exactly singular by construction (all arithmetic below is exact: small dyadic entries,
    //     power-of-two factors): zero row/column, repeated row/column, row = sum of two rows,
    //     product of thin integer factors
    for _ in 0..900 * reps {
        let n = gn.rng.range(2, 10) as usize;
        let mut v: Vec<f64> = (0..n * n).map(|_| gn.rng.dyadic(64, 4)).collect();
        let i = gn.rng.below(n as u64) as usize;
        let mut j = gn.rng.below(n as u64) as usize;
        if j == i {
            j = (i + 1) % n;
        }
        let f = pow2(gn.rng.range(-3, 3)) * if gn.rng.chance(1, 2) { -1.0 } else { 1.0 };
        match gn.rng.below(6) {
            0 => (0..n).for_each(|c| v[i * n + c] = 0.0),
            1 => (0..n).for_each(|r| v[r * n + i] = 0.0),
            2 => (0..n).for_each(|c| v[i * n + c] = f * v[j * n + c]),
            3 => (0..n).for_each(|r| v[r * n + i] = f * v[r * n + j]),
            4 if n >= 3 => {
                let l = (0..n).find(|l| *l != i && *l != j).unwrap();
                (0..n).for_each(|c| v[i * n + c] = v[j * n + c] + f * v[l * n + c]);
            }
            _ => {
                // (n x (n-1)) . ((n-1) x n) with entries -2..2
                let p: Vec<i64> = (0..n * (n - 1)).map(|_| gn.rng.range(-2, 2)).collect();
                let q: Vec<i64> = (0..n * (n - 1)).map(|_| gn.rng.range(-2, 2)).collect();
                for r in 0..n {
                    for c in 0..n {
                        v[r * n + c] = (0..n - 1).map(|k| p[r * (n - 1) + k] * q[k * n + c]).sum::<i64>() as f64;
                    }
                }
            }
        }
        let mut g = Grid { h: n, w: n, v };
        let mut b = gn.rhs(n);
        if gn.rng.chance(1, 2) {
            gn.scaled_rows(&mut g, &mut b, 30);
        }
        let tol = gn.tol();
        gn.gauss(&g, &b, tol);
    }
    // --- pivot ties: +-1 matrices, small integers, equal scaled ratios after row scaling
    for _ in 0..900 * reps {
        let n = gn.rng.range(2, 7) as usize;
        let style = gn.rng.below(3);
        let v: Vec<f64> = (0..n * n)
            .map(|_| match style {
                0 => if gn.rng.chance(1, 2) { 1.0 } else { -1.0 },
                1 => gn.rng.range(-3, 3) as f64,
                _ => gn.rng.range(-1, 1) as f64,
            })
            .collect();
        let mut g = Grid { h: n, w: n, v };
        let mut b = small_rhs(&mut gn.rng, n);
        if gn.rng.chance(1, 2) {
            gn.scaled_rows(&mut g, &mut b, 30);
        }
        let tol = gn.tol();
        gn.gauss(&g, &b, tol);
    }

    // --- triangular substitution
    for _ in 0..1200 * reps {
        let back = gn.rng.chance(1, 2);
        let n = gn.rng.range(1, 10) as usize;
        let garbage = gn.rng.chance(1, 2);
        let mut v = vec![0.0; n * n];
        for i in 0..n {
            let s = pow2(gn.rng.range(-30, 30));
            for j in 0..n {
                let in_tri = if back { j >= i } else { j <= i };
                let x = if i == j {
                    gn.rng.uniform(0.5, 2.0) * if gn.rng.chance(1, 2) { -1.0 } else { 1.0 }
                } else if in_tri || garbage {
                    gn.rng.uniform(-1.0, 1.0)
                } else {
                    0.0
                };
                v[i * n + j] = x * s;
            }
        }
        let b = gn.rhs(n);
        let ns = if gn.rng.chance(1, 6) { n + gn.rng.below(3) as usize } else { n };
        (gn.emit)(format!("{} {} {} {} {}", if back { "back" } else { "forward" }, Grid { h: n, w: n, v }.req(), n, req_vec(&b), ns));
    }
    // small-integer triangular systems, leading sub-systems (size < dimension), zero diagonal,
    // and the calls that panic (size 0 for back, size beyond a dimension, short slices)
    for _ in 0..400 * reps {
        let back = gn.rng.chance(1, 2);
        let h = gn.rng.range(0, 4) as usize;
        let w = if gn.rng.chance(3, 4) { h } else { gn.rng.range(0, 4) as usize };
        let v: Vec<f64> = (0..h * w).map(|k| if k % (w + 1) == 0 && !gn.rng.chance(1, 12) { *gn.rng.pick(&[1.0, -1.0, 2.0, -4.0, 0.5]) } else { gn.rng.range(-3, 3) as f64 }).collect();
        let size = if gn.rng.chance(2, 3) { h.min(w) } else { gn.rng.range(0, 5) as usize };
        let nb = if gn.rng.chance(3, 4) { size } else { gn.rng.range(0, 5) as usize };
        let ns = if gn.rng.chance(3, 4) { size } else { gn.rng.range(0, 5) as usize };
        let b = small_rhs(&mut gn.rng, nb);
        (gn.emit)(format!("{} {} {} {} {}", if back { "back" } else { "forward" }, Grid { h, w, v }.req(), size, req_vec(&b), ns));
    }
}
