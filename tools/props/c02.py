"""C02 plug-in.  K: the model's `parse` answer carries exact decimal expressions (Text.Num) that are
evaluated in binary64 and must equal the implementation's f64 results exactly.  S: acceptance, canonical
form and meaning against the intended term list (exact rationals; variable values are r^12 with small
dyadic r and all generated exponents have denominators dividing 12, so every power is an exact rational)."""
from fractions import Fraction
from oracle_util import *

RULE = ("texts rendered from random term lists of the multivariate grammar (1-5 terms, 0-4 distinct variables per term in random "
        "order, coefficient forms '', n, n.d, .d, a/b, exponent forms n, -n, n.d, a/b, -a/b, random Unicode white space) through "
        "both entry points, evaluated under full and incomplete assignments; univariate texts through both parsers; random "
        "term structures through eval_multivariate. Non-trivial = an accepted text/structure with at least one variable; "
        "distinct = distinct request lines")

def _parse_inter(tokens, numconv):
    """tokens after 'ok I' -> (terms, variables); numconv converts a number token"""
    i = 0
    nt = int(tokens[i]); i += 1
    terms = []
    for _ in range(nt):
        c = numconv(tokens[i]); i += 1
        nv = int(tokens[i]); i += 1
        vs = []
        for _ in range(nv):
            name, i = read_string(tokens, i)
            e = numconv(tokens[i]); i += 1
            vs.append((name, e))
        terms.append((c, vs))
    m = int(tokens[i]); i += 1
    names = []
    for _ in range(m):
        name, i = read_string(tokens, i)
        names.append(name)
    return terms, names

def compare(req, impl, model):
    from __main__ import default_compare
    r = req.split()
    if r[0] in ("pe", "both"):
        return None
    if r[0] == "parse" and model.startswith("ok I") and impl.startswith("ok I"):
        try:
            ti, ni = _parse_inter(impl.split()[2:], tok_float)
            tm, nm = _parse_inter(model.split()[2:], num_float)
        except Exception as e:  # malformed answer
            return f"unreadable answer: {e}"
        if ni != nm:
            return f"variable lists differ: impl {ni} model {nm}"
        if len(ti) != len(tm):
            return "different number of terms"
        for k, ((ci, vi), (cm, vm)) in enumerate(zip(ti, tm)):
            if not same_float(ci, cm):
                return f"term {k}: coefficient impl {ci!r} model {cm!r}"
            if [v for v, _ in vi] != [v for v, _ in vm]:
                return f"term {k}: variables impl {vi} model {vm}"
            for (v, ei), (_, em) in zip(vi, vm):
                if not same_float(ei, em):
                    return f"term {k}: exponent of {v} impl {ei!r} model {em!r}"
        return None
    return default_compare(req, impl, model)

def _num(neg, m, s, dm, ds):
    v = Fraction(m, 10 ** s)
    if dm:
        v = v / Fraction(dm, 10 ** ds)
    return -v if neg else v

def _intended(extra):
    i = 0
    n = int(extra[i]); i += 1
    terms = []
    for _ in range(n):
        neg, cm, cs, dm, ds = (int(v) for v in extra[i:i + 5]); i += 5
        c = _num(neg, cm, cs, dm, ds)
        nv = int(extra[i]); i += 1
        vs = []
        for _ in range(nv):
            cp, eneg, em, es, fm, fs = (int(v) for v in extra[i:i + 6]); i += 6
            vs.append((chr(cp), _num(eneg, em, es, fm, fs)))
        terms.append((c, vs))
    return terms

def _exact_pow(x, e):
    """x = r^12 exactly (r rational), e with denominator dividing 12 -> exact rational x^e"""
    if e.denominator == 1:
        return x ** int(e) if (x != 0 or e >= 0) else None
    # 12th root of x
    def iroot(n):
        r = round(n ** (1.0 / 12))
        for c in (r - 1, r, r + 1):
            if c >= 0 and c ** 12 == n:
                return c
        return None
    a, b = iroot(x.numerator), iroot(x.denominator)
    if a is None or b is None or 12 % e.denominator:
        return None
    r = Fraction(a, b)
    k = e * 12
    return r ** int(k)

def _value(terms, env):
    total = Fraction(0); scale = Fraction(0)
    for c, vs in terms:
        v = c
        for name, e in vs:
            if name not in env:
                return ("missing", name), None
            p = _exact_pow(env[name], e)
            if p is None:
                return ("unknown", name), None
            v *= p
        total += v; scale += abs(v)
    return total, scale

def oracle(req, impl):
    head, extra = split_req(req)
    cmd = head[0]
    if cmd in ("parse", "pe", "both") and not extra:
        return None  # no intended meaning attached (corpus lines of rejected texts): K only
    t = impl.split()
    if cmd == "parse":
        want = _intended(extra)
        if t[:2] != ["ok", "I"]:
            return f"a string of the documented grammar was not accepted: {impl}"
        terms, names = _parse_inter(t[2:], tok_frac)
        if len(terms) != len(want):
            return f"{len(terms)} terms returned, the string has {len(want)}"
        used = set()
        for k, ((c, vs), (wc, wvs)) in enumerate(zip(terms, want)):
            if c is None or abs(c - wc) > 4 * U * abs(wc):
                return f"term {k}: coefficient {c} but the string says {wc}"
            got_names = [v for v, _ in vs]
            if got_names != sorted(got_names):
                return f"term {k}: variables not sorted by name: {got_names}"
            if len(set(got_names)) != len(got_names):
                return f"term {k}: repeated variable {got_names}"
            wd = dict(wvs)
            if set(got_names) != set(wd):
                return f"term {k}: variables {got_names}, the string has {sorted(wd)}"
            for v, e in vs:
                if e is None or abs(e - wd[v]) > 4 * U * abs(wd[v]):
                    return f"term {k}: exponent of {v} is {e}, the string says {wd[v]}"
            used |= set(got_names)
        if names != sorted(used):
            return f"variable list {names} is not the sorted set of variables used {sorted(used)}"
        return None
    if cmd == "pe":
        want = _intended(extra)
        text, i = read_string(head, 1)
        nb = int(head[i]); i += 1
        env = {}
        for _ in range(nb):
            name, i = read_string(head, i)
            env[name] = frac_of_bits(head[i]); i += 1
        val, scale = _value(want, env)
        if isinstance(val, tuple):
            if val[0] == "missing":
                if t[:2] != ["err", "VariableNotFound"]:
                    return f"variable {val[1]} is unbound but the answer is {impl}"
            return None
        if t[0] != "ok":
            return f"parse+eval of a grammatical string failed: {impl}"
        got = tok_frac(t[1])
        if got is None:
            return "value is not finite"
        tol = 64 * U * (len(extra) + 4) * scale + Fraction(1, 2 ** 1000)
        if abs(got - val) > tol:
            return f"value {float(got)!r}, the string means {float(val)!r}"
        return None
    if cmd == "both":
        # intended in C01's format: n { neg mant scale pow }
        n = int(extra[0]); dense = {}; absd = {}
        for j in range(n):
            neg, mant, scale, pw = (int(v) for v in extra[1 + 4 * j: 5 + 4 * j])
            v = Fraction(mant, 10 ** scale)
            dense[pw] = dense.get(pw, 0) + (-v if neg else v); absd[pw] = absd.get(pw, 0) + v
        text, i = read_string(head, 1)
        x = frac_of_bits(head[i])
        if t[0] != "ok" or t[2] != "ok":
            return f"a univariate string was not accepted/evaluated by both parsers: {impl}"
        a, b = tok_frac(t[1]), tok_frac(t[3])
        want = sum(c * x ** k for k, c in dense.items())
        scale = sum(absd[k] * abs(x) ** k for k in absd)
        tol = 64 * U * (n + 4) * scale + Fraction(1, 2 ** 1000)
        if a is None or b is None or abs(a - want) > tol or abs(b - want) > tol:
            return f"representations disagree with the string's value {float(want)!r}: univariate {a and float(a)!r}, multivariate {b and float(b)!r}"
        return None
    if cmd == "evalm":
        # missing variable must be an error, never a number: recompute which names are used/bound
        toks = head[1:]
        assert toks[0] == "I"
        terms, names = _parse_inter(toks[1:], lambda b: frac_of_bits(b))
        # position after the polynomial
        def skip(tokens):
            i = 0
            nt = int(tokens[i]); i += 1
            for _ in range(nt):
                i += 1
                nv = int(tokens[i]); i += 1
                for _ in range(nv):
                    _, i = read_string(tokens, i); i += 1
            m = int(tokens[i]); i += 1
            for _ in range(m):
                _, i = read_string(tokens, i)
            return i
        i = skip(toks[1:]) + 1
        nb = int(toks[i]); i += 1
        env = {}
        for _ in range(nb):
            name, i = read_string(toks, i)
            env[name] = frac_of_bits(toks[i]); i += 1
        val, scale = _value(terms, env)
        if isinstance(val, tuple):
            if val[0] == "missing" and t[:2] != ["err", "VariableNotFound"]:
                return f"variable {val[1]} is unbound but the answer is {impl}"
            return None
        if t[0] != "ok":
            return f"evaluation with all variables bound failed: {impl}"
        got = tok_frac(t[1])
        if got is None:
            return None  # overflow / 0^negative: outside the natural domain
        tol = 64 * U * (len(toks) + 4) * scale + Fraction(1, 2 ** 1000)
        if abs(got - val) > tol:
            return f"value {float(got)!r}, sum of coefficient * prod value^exponent is {float(val)!r}"
        return None
    return None

def nontrivial(req, model):
    r = req.split()
    if r[0] == "parse":
        return model.startswith("ok I") and " 1 1" in model or " 1 " in model
    return r[0] in ("pe", "both", "evalm")

def tag(req, model):
    r = req.split(); m = model.split()
    return r[0] + ":" + (m[0] if m else "empty") + (":" + m[1] if m and m[0] == "err" else "")
