//! C14 — Hessenberg reduction: `hess <h> <w> <bits…>` → `ok <H> <Q>` | `err nonsquare` | `panic`.
//!
//! The observation carries the bit patterns of H and Q; the property's oracle (exact rationals from
//! those bits: QᵀQ = I, Q H Qᵀ = A, zeros below the first sub-diagonal, n ≤ 2 unchanged) lives in
//! tools/props/c14.py.  The verdicts decided here are the ones about the outcome kind, plus: the borrowed input is
//! unchanged after the call and a second call on it returns the same bits (no state between calls).
use crate::util::*;
use spindalis::reduction::matrix::hessenberg_reduction;
use spindalis::solvers::SolverError;
use spindalis::utils::Arr2D;

fn to_arr(h: usize, w: usize, v: &[f64]) -> Arr2D<f64> {
    let mut a = Arr2D::full(0.0f64, h, w);
    for i in 0..h {
        for j in 0..w {
            a[(i, j)] = v[i * w + j];
        }
    }
    a
}

fn show(a: &Arr2D<f64>) -> String {
    let mut s = format!("{} {}", a.height, a.width);
    for i in 0..a.height {
        for j in 0..a.width {
            s.push(' ');
            s.push_str(&fbits(a[(i, j)]));
        }
    }
    s
}

pub fn run(line: &str) -> Obs {
    let mut t = Toks::new(line);
    let cmd = t.tok();
    assert_eq!(cmd, "hess", "unknown C14 request {cmd}");
    let (h, w, v) = t.mat_f64();
    let a = to_arr(h, w, &v);
    match catch(|| hessenberg_reduction(&a)) {
        None => Obs::with("panic".into(), Err("hessenberg_reduction panicked".into())),
        Some(Ok((hm, q))) => {
            let first = format!("ok {} {}", show(&hm), show(&q));
            // the input is borrowed: it must still be what was passed, and a second call on it must give the same
            // bits (no state carried from one call to the next)
            let untouched = (0..h).all(|i| (0..w).all(|j| a[(i, j)].to_bits() == v[i * w + j].to_bits()));
            let again = match catch(|| hessenberg_reduction(&a)) {
                Some(Ok((h2, q2))) => format!("ok {} {}", show(&h2), show(&q2)),
                _ => "different outcome".into(),
            };
            let verdict = if h != w {
                Err(format!("non-square {h}x{w} input accepted"))
            } else if !untouched {
                Err("the borrowed input matrix was modified".into())
            } else if again != first {
                Err("a second call on the same input returned a different result".into())
            } else {
                Ok(())
            };
            Obs::with(first, verdict)
        }
        Some(Err(SolverError::NonSquareMatrix)) => {
            let verdict = if h == w { Err(format!("square {h}x{w} input rejected")) } else { Ok(()) };
            Obs::with("err nonsquare".into(), verdict)
        }
        // "non-square input is rejected": the statement names no error kind, so any `Err` is a rejection
        Some(Err(e)) => {
            let verdict = if h == w { Err(format!("square {h}x{w} input rejected: {e:?}")) } else { Ok(()) };
            Obs::with(format!("err other {e:?}"), verdict)
        }
    }
}

// ------------------------------------------------------------------------------------ generators

fn emit_mat(emit: &mut dyn FnMut(String), h: usize, w: usize, v: &[f64]) {
    emit(format!("hess {}", req_mat_f(h, w, v)));
}

/// one random entry of the given flavour
fn entry(rng: &mut Rng, flavour: u64) -> f64 {
    match flavour {
        0 => rng.uniform(-1.0, 1.0),
        1 => rng.dyadic(64, 4),
        2 => rng.range(-5, 5) as f64,
        _ => rng.uniform(-10.0, 10.0),
    }
}

fn dense(rng: &mut Rng, n: usize, flavour: u64) -> Vec<f64> {
    (0..n * n).map(|_| entry(rng, flavour)).collect()
}

fn scale(v: &mut [f64], e: i32) {
    let s = 2f64.powi(e);
    for x in v.iter_mut() {
        *x *= s;
    }
}

/// the structured families of the quantifier; `kind` selects one
fn family(rng: &mut Rng, n: usize, kind: u64) -> Vec<f64> {
    let fl = rng.below(4);
    let mut a = dense(rng, n, fl);
    let at = |i: usize, j: usize| i * n + j;
    match kind {
        0 => {} // dense
        1 => {
            // sparse with exact zeros (some of them negative zeros)
            let p = rng.range(3, 8) as u64;
            for x in a.iter_mut() {
                if rng.below(10) < p {
                    *x = if rng.chance(1, 6) { -0.0 } else { 0.0 };
                }
            }
        }
        2 => {
            // some (or all) columns already in Hessenberg form
            let all = rng.chance(1, 3);
            for j in 0..n {
                if all || rng.chance(1, 2) {
                    for i in j + 2..n {
                        a[at(i, j)] = 0.0;
                    }
                }
            }
        }
        3 => {
            // block upper triangular: the sub-column at the block boundary stays exactly zero through
            // the earlier reflectors (their v has exact zeros there), so the skip branch is taken at k > 0
            if n > 0 {
                let cuts = 1 + rng.below(2);
                for _ in 0..cuts {
                    let b = rng.below(n as u64) as usize; // columns 0..=b, rows b+1.. are zero
                    for i in b + 1..n {
                        for j in 0..=b {
                            a[at(i, j)] = 0.0;
                        }
                    }
                }
            }
        }
        4 => {
            // zero sub-columns in isolated columns (the first one is skipped for sure)
            for j in 0..n {
                if j == 0 || rng.chance(1, 3) {
                    for i in j + 1..n {
                        a[at(i, j)] = 0.0;
                    }
                }
            }
        }
        5 => {
            // symmetric
            for i in 0..n {
                for j in 0..i {
                    a[at(i, j)] = a[at(j, i)];
                }
            }
        }
        6 => {
            // leading entry of the first sub-columns negative, zero or negative zero
            for j in 0..n.saturating_sub(1) {
                let x = a[at(j + 1, j)].abs();
                a[at(j + 1, j)] = match rng.below(4) {
                    0 => 0.0,
                    1 => -0.0,
                    2 => -x,
                    _ => -1.0,
                };
            }
        }
        7 => {
            // upper triangular / diagonal / zero: every column is skipped
            let which = rng.below(3);
            for i in 0..n {
                for j in 0..n {
                    if (which == 0 && i > j) || (which == 1 && i != j) || which == 2 {
                        a[at(i, j)] = 0.0;
                    }
                }
            }
        }
        8 => {
            // integer columns with exact norms (3,4 | 5,12 | 8,15 | 2,3,6 | 1,4,8): exact cancellations
            let pat: [&[f64]; 5] = [&[3.0, 4.0], &[5.0, 12.0], &[8.0, 15.0], &[2.0, 3.0, 6.0], &[1.0, 4.0, 8.0]];
            for x in a.iter_mut() {
                *x = (*x * 4.0).round();
            }
            for j in 0..n {
                let p = *rng.pick(&pat);
                for i in j + 1..n {
                    let t = i - j - 1;
                    let s = if rng.chance(1, 2) { -1.0 } else { 1.0 };
                    a[at(i, j)] = if t < p.len() { s * p[t] } else { 0.0 };
                }
            }
        }
        9 => {
            // a single non-zero below the diagonal in each column (permutation-like)
            for j in 0..n {
                let keep = if j + 1 < n { j + 1 + rng.below((n - j - 1) as u64) as usize } else { n };
                for i in j + 1..n {
                    if i != keep {
                        a[at(i, j)] = 0.0;
                    }
                }
            }
        }
        10 | 11 => {
            // graded, nearly reduced columns: the tail of the sub-column is 10^-e (kind 10) or exactly 2^-k (kind 11,
            // k around 26: sqrt(head^2 + tail^2) rounds to |head|, or misses it by one ulp) of its head, both signs of
            // the head.  The columns before the first graded one are exactly reduced (skipped: identity steps), so
            // the graded column reaches its step with exactly the entries chosen here.  A skip test that also fires
            // when the computed norm equals |head| leaves these tails (far above n u |A|) in H.
            if n >= 3 {
                let j0 = rng.below((n - 2) as u64) as usize;
                for j in 0..j0 {
                    for i in j + 2..n {
                        a[at(i, j)] = 0.0;
                    }
                }
                let all_later = rng.chance(1, 2);
                for j in j0..n - 2 {
                    if j > j0 && !(all_later || rng.chance(1, 3)) {
                        continue;
                    }
                    let mag = match rng.below(4) {
                        0 => 1.0,
                        1 => rng.uniform(0.5, 8.0),
                        2 => 2f64.powi(rng.range(-20, 20) as i32),
                        _ => rng.range(1, 9) as f64,
                    };
                    let head = if rng.chance(1, 2) { -mag } else { mag };
                    a[at(j + 1, j)] = head;
                    let single = rng.chance(1, 3);
                    let pos = j + 2 + rng.below((n - j - 2) as u64) as usize;
                    let rel = if kind == 10 {
                        10f64.powi(-*rng.pick(&[6, 7, 8, 9, 9, 10, 11, 12, 12, 14, 16, 20, 30, 100, 170]))
                    } else {
                        2f64.powi(-(rng.range(20, 30) as i32))
                    };
                    for i in j + 2..n {
                        let t = if kind == 10 { rel * rng.uniform(0.5, 1.0) } else { rel };
                        let sg = if rng.chance(1, 2) { -1.0 } else { 1.0 };
                        a[at(i, j)] = if single && i != pos { 0.0 } else { sg * t * mag };
                    }
                }
            }
        }
        _ => {
            // graded matrix D A D^-1 with D = diag(2^(g i)): entries of very different sizes in one matrix
            // (exact scaling, so the quantities the code compares are the same up to powers of two)
            let gs: Vec<i32> = [-12i32, -5, -2, 2, 5, 12].iter().cloned().filter(|g| g.abs() as usize * n <= 100).collect();
            let g = if gs.is_empty() { 1 } else { *rng.pick(&gs) };
            for i in 0..n {
                for j in 0..n {
                    a[at(i, j)] *= 2f64.powi(g * (i as i32 - j as i32));
                }
            }
        }
    }
    a
}

const KINDS: u64 = 13;

pub fn generate(seed: u64, thorough: bool, emit: &mut dyn FnMut(String)) {
    let mut rng = Rng::new(seed ^ 0xC14);
    // non-square shapes (all of 0..5 x 0..5, plus a few larger)
    for h in 0..=5usize {
        for w in 0..=5usize {
            if h != w {
                let v: Vec<f64> = (0..h * w).map(|_| entry(&mut rng, 1)).collect();
                emit_mat(emit, h, w, &v);
            }
        }
    }
    for (h, w) in [(10usize, 9usize), (9, 10), (1, 10), (10, 1), (3, 2), (2, 3), (0, 7), (7, 0)] {
        let v: Vec<f64> = (0..h * w).map(|_| entry(&mut rng, 0)).collect();
        emit_mat(emit, h, w, &v);
    }
    // every family at every size, unscaled and scaled.  The statement's bounds are relative to |A|, so every scale
    // at which neither the squares of the entries nor their sums leave the binary64 range is inside it: 2^+-40 as
    // in the quantifier, and far beyond (2^-70, 2^60, 2^+-200, 2^+-300, 2^+-450, random) for thresholds in absolute units
    let reps = if thorough { 800 } else { 12 };
    for n in 0..=10usize {
        for kind in 0..KINDS {
            for r in 0..reps {
                let mut a = family(&mut rng, n, kind);
                rescale(&mut rng, &mut a, r, kind != 12);
                emit_mat(emit, n, n, &a);
            }
        }
    }
    // sizes just beyond: every n = 11..40 (blocked / unrolled loops of 4, 8, 16; "the 9th element" is covered above)
    let per_n = if thorough { 3 * KINDS as usize } else { 3 };
    for n in 11..=40usize {
        for r in 0..per_n {
            let kind = if thorough { (r as u64) % KINDS } else { *rng.pick(&[0u64, 0, 1, 3, 5, 6, 10, 10, 11, 12]) };
            let mut a = family(&mut rng, n, kind);
            rescale(&mut rng, &mut a, r + n, kind != 12);
            emit_mat(emit, n, n, &a);
        }
    }
}

/// `extreme`: the entries are within 2^-24..2^24 of 1, so 2^+-450 keeps every square and sum of squares in range
fn rescale(rng: &mut Rng, a: &mut [f64], r: usize, extreme: bool) {
    match r % 12 {
        1 => scale(a, 40),
        2 => scale(a, -40),
        3 => {
            let e = rng.range(-40, 40) as i32;
            scale(a, e)
        }
        5 => scale(a, 60),
        6 => scale(a, -70),
        7 => {
            let e = rng.range(-300, 300) as i32;
            scale(a, e)
        }
        9 => scale(a, *rng.pick(&[200, 300, -200, -300])),
        10 => {
            let e = rng.range(-120, 120) as i32;
            scale(a, e)
        }
        11 if extreme => scale(a, if rng.chance(1, 2) { -450 } else { 450 }),
        _ => {}
    }
}
