import SV.Model.Wire
/-!
Model of `hessenberg_reduction` (spindalis/src/reduction/matrix/hessenberg.rs), generic in the
scalar; `sqrt` is an explicit parameter (the driver passes `Float.sqrt`).

One pass of the outer loop (`for k in 0..n-2`) is `step`:

* `x += h[(i,k)] * h[(i,k)]` for `i = k+1 .. n-1` from `0.0`           → `colNormSq`
* `norm_x = x.sqrt()`; `if norm_x == 0.0 { continue }`                  → the skip branch
* `sign`, `u1`, `v[0] = 1`, `v[i] = h[(k+1+i,k)] / u1`, `tau = -sign * u1 / norm_x`
* three in-place phases, each one `Mat.tab` of a closure over the previous matrix:
  - left  (`for col in k..n`):  rows `k+1..` of the columns `k..`; every column is read (its
    `dot`) before it is written and no column reads another one, so the phase is the tabulation
    of `h[i][col] - tau*v[i-(k+1)]*dot(col)` over the old matrix;
  - right (`for row in 0..n`):  columns `k+1..`; every row is read before it is written;
  - the same right phase on `q`.
  Floating-point order is the code's: `dot` accumulates from `0.0` for `i = 0, 1, …`
  (`sumFrom`), the update is `h - ((tau * v[i]) * dot)`.
-/
namespace SV.C14
open SV

inductive HErr where
  | nonSquare
deriving Repr, DecidableEq

variable {S : Type} [Inhabited S] [Add S] [Sub S] [Mul S] [Div S] [Neg S] [OfNat S 0] [OfNat S 1]
  [LE S] [DecidableRel (α := S) (· ≤ ·)] [BEq S]

/-- `x` of the code: the squared norm of the sub-column `h[k+1..n, k]` -/
def colNormSq (n k : Nat) (H : Mat S) : S :=
  sumFrom 0 (k + 1) n fun i => H.get i k * H.get i k

/-- `sign = if h_first >= 0.0 { -1.0 } else { 1.0 }` -/
def signOf (hf : S) : S := if hf ≥ 0 then -1 else 1

/-- the vector `v` of the code as a function of its index: `v[0] = 1`, `v[t] = h[(k+1+t,k)]/u1` -/
def vvec (k : Nat) (H : Mat S) (u1 : S) (t : Nat) : S :=
  if t = 0 then 1 else H.get (k + 1 + t) k / u1

/-- `H_k * A`: rows `k+1..n` of the columns `k..n` -/
def leftPhase (n k : Nat) (tau : S) (v : Nat → S) (H : Mat S) : Mat S :=
  Mat.tab n n fun i j =>
    if k + 1 ≤ i ∧ k ≤ j then
      H.get i j - tau * v (i - (k + 1)) * sumFrom 0 0 (n - (k + 1)) fun t => v t * H.get (k + 1 + t) j
    else H.get i j

/-- `A * H_k`: columns `k+1..n` of every row (used for `h` and for `q`) -/
def rightPhase (n k : Nat) (tau : S) (v : Nat → S) (H : Mat S) : Mat S :=
  Mat.tab n n fun i j =>
    if k + 1 ≤ j then
      H.get i j - tau * v (j - (k + 1)) * sumFrom 0 0 (n - (k + 1)) fun t => v t * H.get i (k + 1 + t)
    else H.get i j

/-- the quantities the code computes for column `k` before touching the matrices -/
structure Refl (S : Type) where
  norm : S
  sign : S
  u1 : S
  tau : S

def reflOf (sqrt : S → S) (n k : Nat) (H : Mat S) : Refl S :=
  let norm := sqrt (colNormSq n k H)
  let hf := H.get (k + 1) k
  let sign := signOf hf
  let u1 := hf - sign * norm
  { norm := norm, sign := sign, u1 := u1, tau := (-sign) * u1 / norm }

/-- one pass of `for k in 0..n-2` on the pair `(h, q)` -/
def step (sqrt : S → S) (n k : Nat) (s : Mat S × Mat S) : Mat S × Mat S :=
  let r := reflOf sqrt n k s.1
  if r.norm == 0 then s
  else
    let v := vvec k s.1 r.u1
    (rightPhase n k r.tau v (leftPhase n k r.tau v s.1), rightPhase n k r.tau v s.2)

/-- `hessenberg_reduction`: returns `(H, Q)` -/
def hessenberg (sqrt : S → S) (A : Mat S) : Except HErr (Mat S × Mat S) :=
  if A.h ≠ A.w then .error .nonSquare
  else if A.h ≤ 2 then .ok (A, Mat.ident A.h)
  else .ok ((List.range (A.h - 2)).foldl (fun s k => step sqrt A.h k s) (A, Mat.ident A.h))

end SV.C14

/-! ### driver -/
namespace SV.C14.Driver
open SV SV.Wire SV.C14

def handle (line : String) : String :=
  let p : P String := do
    let cmd ← tok
    match cmd with
    | "hess" => do
      let a ← mat Wire.float
      return match hessenberg Float.sqrt a with
        | .ok (h, q) => "ok " ++ fmtMat fmtF h ++ " " ++ fmtMat fmtF q
        | .error .nonSquare => "err nonsquare"
    | _ => fail
  match run p line with
  | some s => s
  | none => "bad-request"

end SV.C14.Driver
