#!/bin/bash
# eval_benign.sh <Cxx> <patch.diff> <notes.md> <id> [<verif-copy>]: run the check against a
# property-PRESERVING change (false-alarm measurement).  Uses a private scratch worktree of /repo and
# a private copy of /verif (so registered evidence and the registered harness build stay untouched).
set -u
P=$1; PATCH=$2; NOTES=$3; ID=$4; V=${5:-/tmp/vsel}
W=/tmp/benrun/$ID
export CARGO_NET_OFFLINE=true
mkdir -p /tmp/benrun
git -C /repo worktree add --detach -q $W HEAD || exit 2
cd $W
if ! git apply "$PATCH"; then echo "patch does not apply"; cd /; git -C /repo worktree remove --force $W; exit 2; fi
SUITE=$(cargo test --workspace --no-fail-fast --offline 2>&1 | grep -E "^test result" | awk '{p+=$4; f+=$6} END {print p" passed "f" failed"}')
rm -rf $W/target
cd $V
OUT=$(VERIF_REPO=$W ./check $P 2>&1 | tail -6)
ALARM=$(echo "$OUT" | grep -c "^VIOLATION")
REPLAY=$(echo "$OUT" | grep "^VIOLATION" | head -1 | sed 's/.*replay=\([^ ]*\).*/\1/')
mkdir -p /verif/seeded/$ID
cp "$PATCH" /verif/seeded/$ID/patch.diff; cp "$NOTES" /verif/seeded/$ID/notes.md 2>/dev/null
[ -n "$REPLAY" ] && [ -f "$REPLAY" ] && cp "$REPLAY" /verif/seeded/$ID/replay.json
python3 - "$P" "$ID" "$SUITE" "$ALARM" "$OUT" <<'PY'
import sys, json
P, ID, suite, alarm, out = sys.argv[1:6]
json.dump({"property": P, "id": ID, "kind": "benign (property-preserving change; an alarm here is a false alarm unless it names no failing input and the correspondence really moved)",
  "suite_with_change": suite, "check_quick": {"alarm": alarm != "0", "no_failing_input": "no-failing-input-found" in out, "tail": out[-900:]},
  "ran": ["cargo test --workspace --no-fail-fast --offline (with the change)", f"VERIF_REPO=<worktree> ./check {P}"]},
  open(f"/verif/seeded/{ID}/meta.json", "w"), indent=1)
print(ID, "suite:", suite, "alarm:", alarm != "0", "nfi:", "no-failing-input-found" in out)
PY
cd /; git -C /repo worktree remove --force $W
