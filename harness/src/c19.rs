//! C19 — expression parser: total, conventional precedence, sound folding and display.
//!
//!   lex <text>                 lexer on arbitrary text → token words (numbers as f<bits>)
//!   toks <n> <token words>     implied-multiplication pass + parse_expr + leftover check (= `parser` without
//!                              folding), fold_operations, Display, and lexer+parser on the displayed text:
//!                              `U <tree> | F <folded> | D <text> | R <re-parsed folded tree>` or `err Kind`
//!   str <text> [| <intended>]  the same starting from text; <intended> = the generator's own tree
//!   enum <maxlen> <n> <words>  every token sequence over the 15 token kinds extending the prefix:
//!                              `<sequences> <accepted> <fnv64 of the answers>`
//!
//! Token words: `N<decimal>` `V<name>` `O<Name>` `F<name>` `C<name>` `LP` `RP`.
//! Trees: `n:<number> | v:<name> | c:<name> | f:<name> <t> | pre:<Op> <t> | post:<Op> <t> | b:<Op>:<paren> <l> <r>`.
//!
//! The private pipeline is reached through the `cfg(spindalis_verif)` hooks; the harness composes the
//! unfolded pipeline itself and checks on every case that `fold(unfolded)` equals what `parser` returns.
//!
//! Oracle: (1) a reference reader with conventional precedence (independent of the parser under test) gives
//! the same function (values at 4 points); (2) folding keeps every finite value; (3) the displayed text parses
//! again to the same function; (4) no panic.
//!
//! For `str` requests the reference reader starts from the SOURCE TEXT: the harness's own tokeniser (`ref_lex`) names
//! the words - a run of letters spelling a function / constant in any case is that name, every other letter is the
//! variable of exactly that letter (`XY` = X times Y) - and variables are bound case-sensitively (X and x differ).
use crate::util::*;
use spindalis_core::polynomials::advanced::verif_hooks as hk;
use spindalis_core::polynomials::advanced::{Constants, Expr, Functions, Operators, Token};
use spindalis_core::polynomials::PolynomialError;

// ------------------------------------------------------------------ wire

fn op_name(o: &Operators) -> &'static str {
    match o {
        Operators::Add => "Add",
        Operators::Sub => "Sub",
        Operators::Div => "Div",
        Operators::Mul => "Mul",
        Operators::CDot => "CDot",
        Operators::Rem => "Rem",
        Operators::Caret => "Caret",
        Operators::Fac => "Fac",
    }
}
fn op_of(s: &str) -> Operators {
    match s {
        "Add" => Operators::Add,
        "Sub" => Operators::Sub,
        "Div" => Operators::Div,
        "Mul" => Operators::Mul,
        "CDot" => Operators::CDot,
        "Rem" => Operators::Rem,
        "Caret" => Operators::Caret,
        "Fac" => Operators::Fac,
        _ => panic!("operator {s}"),
    }
}
fn fn_name(f: &Functions) -> &'static str {
    match f {
        Functions::Sin => "sin",
        Functions::Cos => "cos",
        Functions::Tan => "tan",
        Functions::Cot => "cot",
        Functions::Log => "log",
        Functions::Ln => "ln",
    }
}
fn fn_of(s: &str) -> Functions {
    match s {
        "sin" => Functions::Sin,
        "cos" => Functions::Cos,
        "tan" => Functions::Tan,
        "cot" => Functions::Cot,
        "log" => Functions::Log,
        "ln" => Functions::Ln,
        _ => panic!("function {s}"),
    }
}
fn const_name(c: &Constants) -> &'static str {
    match c {
        Constants::Pi => "pi",
        Constants::E => "e",
        Constants::Tau => "tau",
        Constants::Phi => "phi",
    }
}
fn const_of(s: &str) -> Constants {
    match s {
        "pi" => Constants::Pi,
        "e" => Constants::E,
        "tau" => Constants::Tau,
        "phi" => Constants::Phi,
        _ => panic!("constant {s}"),
    }
}

fn tok_of_word(w: &str) -> Token {
    if w == "LP" {
        return Token::LParen;
    }
    if w == "RP" {
        return Token::RParen;
    }
    let (k, r) = w.split_at(1);
    match k {
        "N" => Token::Number(r.parse::<f64>().expect("number word")),
        "V" => Token::Variable(r.to_string()),
        "O" => Token::Operator(op_of(r)),
        "F" => Token::Function(fn_of(r)),
        "C" => Token::Constant(const_of(r)),
        _ => panic!("token word {w}"),
    }
}
fn word_of_tok(t: &Token, bits: bool) -> String {
    match t {
        Token::Number(x) => {
            if bits {
                format!("N{}", fbits(*x))
            } else {
                format!("N{x}")
            }
        }
        Token::Variable(s) => format!("V{s}"),
        Token::Operator(o) => format!("O{}", op_name(o)),
        Token::Function(f) => format!("F{}", fn_name(f)),
        Token::Constant(c) => format!("C{}", const_name(c)),
        Token::LParen => "LP".into(),
        Token::RParen => "RP".into(),
    }
}

fn sexpr(e: &Expr) -> String {
    match e {
        Expr::Number(x) => format!("n:{x}"),
        Expr::Variable(s) => format!("v:{s}"),
        Expr::Constant(c) => format!("c:{}", const_name(c)),
        Expr::Function { func, inner } => format!("f:{} {}", fn_name(func), sexpr(inner)),
        Expr::UnaryOpPrefix { op, value } => format!("pre:{} {}", op_name(op), sexpr(value)),
        Expr::UnaryOpPostfix { op, value } => format!("post:{} {}", op_name(op), sexpr(value)),
        Expr::BinaryOp { op, lhs, rhs, paren } => {
            format!("b:{}:{} {} {}", op_name(op), *paren as u8, sexpr(lhs), sexpr(rhs))
        }
    }
}

fn err_kind(e: &PolynomialError) -> &'static str {
    crate::polyio::err_kind(e)
}

// ------------------------------------------------------------------ the pipeline under test

struct Piped {
    unfolded: Expr,
    folded: Expr,
    text: String,
    back: Result<Expr, PolynomialError>,
    drift: Option<String>,
}

fn unfolded(tokens: &[Token]) -> Result<Expr, PolynomialError> {
    let mut ts = tokens.to_vec();
    hk::implied_multiplication_pass(&mut ts);
    let mut stream = ts.into_iter().peekable();
    let e = hk::parse_expr(&mut stream, 0.0)?;
    if let Some(token) = stream.next() {
        return Err(PolynomialError::UnexpectedToken { token });
    }
    Ok(e)
}

fn pipe(tokens: &[Token]) -> Result<Piped, PolynomialError> {
    let u = unfolded(tokens);
    let real = hk::parser(tokens.to_vec());
    let u = match (u, &real) {
        (Ok(u), Ok(_)) => u,
        (Err(e), Err(_)) => return Err(e),
        (Ok(_), Err(e)) => {
            return Err(PolynomialError::InvalidNumber { num: format!("pipeline-drift: parser failed {e:?}") });
        }
        (Err(e), Ok(_)) => {
            return Err(PolynomialError::InvalidNumber { num: format!("pipeline-drift: parser succeeded, composition failed {e:?}") });
        }
    };
    let real = real.unwrap();
    let folded = hk::fold_operations(u.clone());
    let mut drift = None;
    if real.expr() != &folded {
        drift = Some(format!("parser returned {} but fold(unfolded) is {}", sexpr(real.expr()), sexpr(&folded)));
    }
    let text = format!("{folded}");
    if format!("{real}") != text {
        drift = Some("Display of Polynomial differs from Display of its tree".into());
    }
    let back = hk::lexer(&text).and_then(hk::parser).map(|p| p.expr().clone());
    Ok(Piped { unfolded: u, folded, text, back, drift })
}

fn show_piped(r: &Result<Piped, PolynomialError>) -> String {
    match r {
        Err(PolynomialError::InvalidNumber { num }) if num.starts_with("pipeline-drift") => num.clone(),
        Err(e) => format!("err {}", err_kind(e)),
        Ok(p) => {
            let back = match &p.back {
                Ok(e) => sexpr(e),
                Err(e) => format!("err {}", err_kind(e)),
            };
            format!("U {} | F {} | D {} | R {}", sexpr(&p.unfolded), sexpr(&p.folded), req_string(&p.text), back)
        }
    }
}

// ------------------------------------------------------------------ evaluation (uninterpreted `!` as a fixed map)

fn env(k: usize, name: &str) -> f64 {
    // points 0..3 are positive (every clause); 4..6 are used by the folding clause only: negative values and 0, where a
    // rewrite such as (x^2)^0.5 -> x or x^1 handling differs from the unfolded expression
    let pts = [[1.3, 0.7], [0.45, 2.2], [2.6, 1.9], [0.8, 0.35], [-3.0, -0.5], [-0.75, 2.5], [0.0, 0.0]];
    let other = 0.6 + (name.bytes().map(|b| b as f64).sum::<f64>() * 0.173 + k as f64 * 0.31) % 1.7;
    match name {
        "x" => pts[k][0],
        "y" => pts[k][1],
        _ if k == 4 => -other,
        _ if k == 5 => if name.len() % 2 == 0 { -other } else { other },
        _ if k == 6 => 0.0,
        _ => other,
    }
}
fn constant(c: &str) -> f64 {
    match c {
        "pi" => std::f64::consts::PI,
        "e" => std::f64::consts::E,
        "tau" => std::f64::consts::TAU,
        _ => 1.618033988749895,
    }
}
fn func(f: &str, v: f64) -> f64 {
    match f {
        "sin" => v.sin(),
        "cos" => v.cos(),
        "tan" => v.tan(),
        "cot" => 1.0 / v.tan(),
        "log" => v.log10(),
        _ => v.ln(),
    }
}
fn fact(v: f64) -> f64 {
    v * 1.5 + 0.25
}
fn binop(op: &str, a: f64, b: f64) -> f64 {
    match op {
        "Add" => a + b,
        "Sub" => a - b,
        "Mul" | "CDot" => a * b,
        "Div" => a / b,
        "Rem" => a % b,
        "Caret" => a.powf(b),
        _ => f64::NAN,
    }
}

/// value and the largest magnitude met (both evaluations round at that scale)
fn eval(e: &Expr, k: usize, big: &mut f64) -> f64 {
    let v = match e {
        Expr::Number(x) => *x,
        Expr::Variable(s) => env(k, s),
        Expr::Constant(c) => constant(const_name(c)),
        Expr::Function { func: f, inner } => func(fn_name(f), eval(inner, k, big)),
        Expr::UnaryOpPrefix { value, .. } => -eval(value, k, big),
        Expr::UnaryOpPostfix { value, .. } => fact(eval(value, k, big)),
        Expr::BinaryOp { op, lhs, rhs, .. } => binop(op_name(op), eval(lhs, k, big), eval(rhs, k, big)),
    };
    if !(v.abs() <= *big) {
        *big = if v.is_nan() { f64::INFINITY } else { v.abs() };
    }
    v
}

// ------------------------------------------------------------------ evaluation with a running error bound
//
// Two trees that denote the same function may associate a sum differently (`a + (b + c)` written without parentheses
// is read `(a + b) + c`); when the sum cancels and the result is then divided by, the two binary64 evaluations differ
// by far more than any tolerance relative to the magnitudes met.  The comparison therefore also accepts a difference
// that first-order error propagation explains: every node returns its value and a bound of the absolute error
// accumulated so far (u = 2^-52 per operation; infinite where the node is not differentiable or not defined nearby).

const U: f64 = 2.220446049250313e-16;

fn lit_e(v: f64) -> (f64, f64) {
    (v, U * v.abs())
}
fn func_e(f: &str, (a, ea): (f64, f64)) -> (f64, f64) {
    let v = func(f, a);
    let d = match f {
        "sin" | "cos" => ea,
        "tan" | "cot" => (1.0 + v * v) * ea,
        "log" => if a.abs() > 2.0 * ea { ea / ((a.abs() - ea) * std::f64::consts::LN_10) } else { f64::INFINITY },
        _ => if a.abs() > 2.0 * ea { ea / (a.abs() - ea) } else { f64::INFINITY },
    };
    (v, d + 4.0 * U * v.abs() + if f == "tan" || f == "cot" { 4.0 * U * (1.0 + v * v) * a.abs() } else { 0.0 })
}
fn fact_e((a, ea): (f64, f64)) -> (f64, f64) {
    let v = fact(a);
    (v, 1.5 * ea + 2.0 * U * v.abs())
}
fn binop_e(op: &str, (a, ea): (f64, f64), (b, eb): (f64, f64)) -> (f64, f64) {
    let v = binop(op, a, b);
    let e = match op {
        "Add" | "Sub" => ea + eb,
        "Mul" | "CDot" => a.abs() * eb + b.abs() * ea + ea * eb,
        "Div" => {
            if b.abs() > 2.0 * eb { ea / (b.abs() - eb) + a.abs() * eb / (b.abs() * (b.abs() - eb)) } else { f64::INFINITY }
        }
        "Rem" => {
            // piecewise a - b*trunc(a/b): safe only away from the jumps
            let q = a / b;
            let jump = (q - q.round()).abs() * b.abs();
            let e = ea + eb * q.abs().ceil();
            if b.abs() > 2.0 * eb && jump > 4.0 * e { e } else { f64::INFINITY }
        }
        "Caret" => {
            if a == 0.0 || !(a.abs() > 2.0 * ea) {
                if ea == 0.0 && eb == 0.0 { 0.0 } else { f64::INFINITY }
            } else if a < 0.0 && eb > 0.0 {
                f64::INFINITY
            } else {
                v.abs() * (b.abs() * ea / (a.abs() - ea) + a.abs().ln().abs() * eb) * 2.0
            }
        }
        _ => f64::INFINITY,
    };
    (v, e + 4.0 * U * v.abs())
}

fn eval_e(e: &Expr, k: usize) -> (f64, f64) {
    match e {
        Expr::Number(x) => lit_e(*x),
        Expr::Variable(s) => lit_e(env(k, s)),
        Expr::Constant(c) => lit_e(constant(const_name(c))),
        Expr::Function { func: f, inner } => func_e(fn_name(f), eval_e(inner, k)),
        Expr::UnaryOpPrefix { value, .. } => {
            let (v, e) = eval_e(value, k);
            (-v, e)
        }
        Expr::UnaryOpPostfix { value, .. } => fact_e(eval_e(value, k)),
        Expr::BinaryOp { op, lhs, rhs, .. } => binop_e(op_name(op), eval_e(lhs, k), eval_e(rhs, k)),
    }
}

// ------------------------------------------------------------------ reference reader (conventional precedence)

#[derive(Debug, Clone)]
pub enum R {
    Num(f64),
    Var(String),
    Const(String),
    Fn(String, Box<R>),
    Neg(Box<R>),
    Fact(Box<R>),
    Bin(&'static str, Box<R>, Box<R>),
}

fn reval(e: &R, k: usize, big: &mut f64) -> f64 {
    let v = match e {
        R::Num(x) => *x,
        R::Var(s) => env(k, s),
        R::Const(c) => constant(c),
        R::Fn(f, a) => func(f, reval(a, k, big)),
        R::Neg(a) => -reval(a, k, big),
        R::Fact(a) => fact(reval(a, k, big)),
        R::Bin(op, a, b) => binop(op, reval(a, k, big), reval(b, k, big)),
    };
    if !(v.abs() <= *big) {
        *big = if v.is_nan() { f64::INFINITY } else { v.abs() };
    }
    v
}

fn reval_e(e: &R, k: usize) -> (f64, f64) {
    match e {
        R::Num(x) => lit_e(*x),
        R::Var(s) => lit_e(env(k, s)),
        R::Const(c) => lit_e(constant(c)),
        R::Fn(f, a) => func_e(f, reval_e(a, k)),
        R::Neg(a) => {
            let (v, e) = reval_e(a, k);
            (-v, e)
        }
        R::Fact(a) => fact_e(reval_e(a, k)),
        R::Bin(op, a, b) => binop_e(op, reval_e(a, k), reval_e(b, k)),
    }
}

/// the difference is explained by the rounding errors of the two evaluations (64-fold margin on the first-order bound)
fn explained(got: (f64, f64), want: (f64, f64)) -> bool {
    let e = got.1 + want.1;
    e.is_finite() && got.0.is_finite() && want.0.is_finite() && (got.0 - want.0).abs() <= 64.0 * e
}

enum Reading {
    Tree(R),
    /// an unparenthesised chain of powers: the statement does not fix its association
    Ambiguous,
    None,
}

struct Reader<'a> {
    t: &'a [Token],
    i: usize,
    ambiguous: bool,
}

impl<'a> Reader<'a> {
    fn peek(&self) -> Option<&Token> {
        self.t.get(self.i)
    }
    fn is_op(&self, o: Operators) -> bool {
        matches!(self.peek(), Some(Token::Operator(p)) if *p == o)
    }
    // expr := term (('+'|'-') term)*
    fn expr(&mut self) -> Option<R> {
        let mut l = self.term()?;
        loop {
            let op = if self.is_op(Operators::Add) {
                "Add"
            } else if self.is_op(Operators::Sub) {
                "Sub"
            } else {
                break;
            };
            self.i += 1;
            let r = self.term()?;
            l = R::Bin(op, Box::new(l), Box::new(r));
        }
        Some(l)
    }
    // term := jux (('*'|'/'|'%') jux)*        left associative
    fn term(&mut self) -> Option<R> {
        let mut l = self.jux()?;
        loop {
            let op = if self.is_op(Operators::Mul) {
                "Mul"
            } else if self.is_op(Operators::Div) {
                "Div"
            } else {
                break;
            };
            self.i += 1;
            let r = self.jux()?;
            l = R::Bin(op, Box::new(l), Box::new(r));
        }
        Some(l)
    }
    // jux := unary (power)*       juxtaposition binds tighter than * and /
    fn jux(&mut self) -> Option<R> {
        let mut l = self.unary()?;
        while matches!(
            self.peek(),
            Some(Token::Number(_) | Token::Variable(_) | Token::Constant(_) | Token::Function(_) | Token::LParen)
        ) {
            let r = self.power()?;
            l = R::Bin("Mul", Box::new(l), Box::new(r));
        }
        Some(l)
    }
    // unary := '-' unary | power          (-x^2 = -(x^2))
    fn unary(&mut self) -> Option<R> {
        if self.is_op(Operators::Sub) {
            self.i += 1;
            return Some(R::Neg(Box::new(self.unary()?)));
        }
        self.power()
    }
    // power := postfix ('^' exponent)?     a second '^' makes the reading ambiguous
    fn power(&mut self) -> Option<R> {
        let base = self.postfix()?;
        if self.is_op(Operators::Caret) {
            self.i += 1;
            let e = self.exponent()?;
            // a chain of powers without parentheses: consume it, but the statement does not fix its association
            while self.is_op(Operators::Caret) {
                self.ambiguous = true;
                self.i += 1;
                self.exponent()?;
            }
            return Some(R::Bin("Caret", Box::new(base), Box::new(e)));
        }
        Some(base)
    }
    fn exponent(&mut self) -> Option<R> {
        if self.is_op(Operators::Sub) {
            self.i += 1;
            return Some(R::Neg(Box::new(self.exponent()?)));
        }
        self.postfix()
    }
    // postfix := atom '!'*
    fn postfix(&mut self) -> Option<R> {
        let mut a = self.atom()?;
        while self.is_op(Operators::Fac) {
            self.i += 1;
            a = R::Fact(Box::new(a));
        }
        Some(a)
    }
    fn atom(&mut self) -> Option<R> {
        match self.peek().cloned() {
            Some(Token::Number(x)) => {
                self.i += 1;
                Some(R::Num(x))
            }
            Some(Token::Variable(s)) => {
                self.i += 1;
                Some(R::Var(s))
            }
            Some(Token::Constant(c)) => {
                self.i += 1;
                Some(R::Const(const_name(&c).to_string()))
            }
            Some(Token::LParen) => {
                self.i += 1;
                let e = self.expr()?;
                if matches!(self.peek(), Some(Token::RParen)) {
                    self.i += 1;
                    Some(e)
                } else {
                    None
                }
            }
            Some(Token::Function(f)) => {
                self.i += 1;
                if !matches!(self.peek(), Some(Token::LParen)) {
                    return None;
                }
                self.i += 1;
                let e = self.expr()?;
                if matches!(self.peek(), Some(Token::RParen)) {
                    self.i += 1;
                    Some(R::Fn(fn_name(&f).to_string(), Box::new(e)))
                } else {
                    None
                }
            }
            _ => None,
        }
    }
}

fn reading(tokens: &[Token]) -> Reading {
    if tokens.iter().any(|t| matches!(t, Token::Operator(Operators::Rem | Operators::CDot))) {
        return Reading::Ambiguous; // % and · are outside the statement's operator list
    }
    let mut rd = Reader { t: tokens, i: 0, ambiguous: false };
    match rd.expr() {
        Some(e) if rd.i == tokens.len() => {
            if rd.ambiguous {
                Reading::Ambiguous
            } else {
                Reading::Tree(e)
            }
        }
        _ => Reading::None,
    }
}

// ------------------------------------------------------------------ reference tokeniser of source text
//
// The words of a source text as the statement's vocabulary names them (written from the documented reading, not from the
// lexer under test): a number is a run of digits with at most one point; a run of ASCII letters that spells a function or
// a constant name IN ANY CASE is that name (`PI`, `Sin`, `tAU`); in every other run each letter stands for itself - `e` and
// `E` for Euler's constant, every other letter for the single-letter variable OF EXACTLY THAT LETTER: `XY` is X times Y
// and `xY` is x times Y, never x times y.  `π τ ϕ` are the constants as `Display` prints them.  Blanks (U+0020) separate
// nothing; a blank BETWEEN two letters or two digits would glue two words into one when removed - the reading of such a
// text is not decided here (`None`), nor that of a text with any other character or a malformed number.
fn ref_lex(text: &str) -> Option<Vec<Token>> {
    // characters without the blanks; glued[i] = a blank was removed directly in front of character i
    let mut cs: Vec<char> = Vec::new();
    let mut glued: Vec<bool> = Vec::new();
    let mut blank = false;
    for c in text.chars() {
        if c == ' ' {
            blank = true;
        } else {
            cs.push(c);
            glued.push(blank);
            blank = false;
        }
    }
    let mut out = Vec::new();
    let mut i = 0;
    while i < cs.len() {
        let c = cs[i];
        if c.is_ascii_digit() || c == '.' {
            let st = i;
            let (mut dots, mut digits) = (0, 0);
            while i < cs.len() && (cs[i].is_ascii_digit() || cs[i] == '.') {
                if i > st && glued[i] {
                    return None;
                }
                if cs[i] == '.' {
                    dots += 1;
                } else {
                    digits += 1;
                }
                i += 1;
            }
            if dots > 1 || digits == 0 {
                return None;
            }
            let word: String = cs[st..i].iter().collect();
            out.push(Token::Number(word.parse::<f64>().ok()?));
        } else if c.is_ascii_alphabetic() {
            let st = i;
            while i < cs.len() && cs[i].is_ascii_alphabetic() {
                if i > st && glued[i] {
                    return None;
                }
                i += 1;
            }
            let word: String = cs[st..i].iter().collect();
            let lower = word.to_ascii_lowercase();
            match lower.as_str() {
                "sin" | "cos" | "tan" | "cot" | "log" | "ln" => out.push(Token::Function(fn_of(&lower))),
                "pi" | "e" | "tau" | "phi" => out.push(Token::Constant(const_of(&lower))),
                _ => {
                    for l in word.chars() {
                        if l == 'e' || l == 'E' {
                            out.push(Token::Constant(Constants::E));
                        } else {
                            out.push(Token::Variable(l.to_string()));
                        }
                    }
                }
            }
        } else {
            out.push(match c {
                'π' => Token::Constant(Constants::Pi),
                'τ' => Token::Constant(Constants::Tau),
                'ϕ' => Token::Constant(Constants::Phi),
                '(' => Token::LParen,
                ')' => Token::RParen,
                '+' => Token::Operator(Operators::Add),
                '-' => Token::Operator(Operators::Sub),
                '*' => Token::Operator(Operators::Mul),
                '/' => Token::Operator(Operators::Div),
                '^' => Token::Operator(Operators::Caret),
                '!' => Token::Operator(Operators::Fac),
                '%' => Token::Operator(Operators::Rem),
                '·' => Token::Operator(Operators::CDot),
                _ => return None,
            });
            i += 1;
        }
    }
    Some(out)
}

fn close(a: f64, b: f64, big: f64) -> bool {
    if !b.is_finite() || big > 1e100 {
        return true;
    }
    a.is_finite() && (a - b).abs() <= 1e-9 * big.max(1.0)
}

/// the property's oracle on one accepted token sequence.  `source` = the words of the SOURCE TEXT as the harness's own
/// reference tokeniser reads them (`ref_lex`): when present, the conventional reading is taken from them and not from what
/// the lexer under test made of the text, so that a lexer that renames, drops or merges a word is seen by the oracle.
/// Variables are bound CASE-SENSITIVELY (`X` and `x` are different variables with different values).
fn judge(tokens: &[Token], p: &Piped, intended: Option<&R>, source: Option<&[Token]>) -> Result<(), String> {
    if let Some(d) = &p.drift {
        return Err(format!("harness: {d}"));
    }
    // (1) conventional reading
    let reference = match (intended, source) {
        (Some(r), _) => Reading::Tree(r.clone()),
        (None, Some(src)) => reading(src),
        (None, None) => reading(tokens),
    };
    let of_what = if intended.is_none() && source.is_some() { " of the source text" } else { "" };
    match &reference {
        Reading::None => return Err(format!("accepted a token sequence that has no conventional reading{of_what}")),
        Reading::Ambiguous => {}
        Reading::Tree(r) => {
            for k in 0..4 {
                let mut big = 0.0;
                let want = reval(r, k, &mut big);
                let got = eval(&p.unfolded, k, &mut big);
                if !close(got, want, big) && !explained(eval_e(&p.unfolded, k), reval_e(r, k)) {
                    return Err(format!("parsed tree gives {got:?} at point {k}, the conventional reading{of_what} gives {want:?}"));
                }
            }
        }
    }
    // (2) folding
    for k in 0..7 {
        let mut big = 0.0;
        let want = eval(&p.unfolded, k, &mut big);
        if want.is_finite() {
            let got = eval(&p.folded, k, &mut big);
            // the folding rules only remove operations that are exact in binary64 (x+0, x-0, 0-x, x/1, x^0, 0*x for a
            // finite x, 0^n), so folded and unfolded values agree exactly — no scale-dependent tolerance here
            if !(got == want || (got - want).abs() <= 1e-14 * want.abs()) {
                if !big.is_finite() {
                    // the finite unfolded value was reached THROUGH an infinite intermediate: a division by a zero whose sign
                    // the rule 0*x -> 0 does not keep (0 * x is -0 for a negative finite x, the folded literal is +0), e.g.
                    // n^(1/(0*pi*X)) at X < 0.  Classed separately (known finding F-C19-signed-zero) so that every other
                    // change of a finite value stays an ordinary failure.
                    return Err(format!("folding changed the value at point {k}: {want:?} became {got:?} (signed zero: the unfolded evaluation passes through an infinite intermediate value)"));
                }
                return Err(format!("folding changed the value at point {k}: {want:?} became {got:?}"));
            }
        }
    }
    // (3) display and parse again
    match &p.back {
        Err(e) => return Err(format!("the displayed text {:?} does not parse again: {}", p.text, err_kind(e))),
        Ok(b) => {
            for k in 0..4 {
                let mut big = 0.0;
                let want = eval(&p.folded, k, &mut big);
                let got = eval(b, k, &mut big);
                if !close(got, want, big) && !explained(eval_e(b, k), eval_e(&p.folded, k)) {
                    return Err(format!(
                        "the displayed text {:?} denotes another function: {got:?} instead of {want:?} at point {k}",
                        p.text
                    ));
                }
            }
        }
    }
    Ok(())
}

// ------------------------------------------------------------------ requests

fn read_toks(t: &mut Toks) -> Vec<Token> {
    let n = t.usize();
    (0..n).map(|_| tok_of_word(t.tok())).collect()
}

fn run_tokens(tokens: &[Token], intended: Option<&R>, source: Option<&[Token]>) -> (String, Result<(), String>) {
    match catch(|| pipe(tokens)) {
        None => ("panic".into(), Err("the parser pipeline panicked".into())),
        Some(r) => {
            let shown = show_piped(&r);
            let verdict = match &r {
                Ok(p) => judge(tokens, p, intended, source),
                Err(PolynomialError::InvalidNumber { num }) if num.starts_with("pipeline-drift") => Err(num.clone()),
                Err(_) => Ok(()),
            };
            (shown, verdict)
        }
    }
}

pub fn alphabet() -> Vec<Token> {
    vec![
        Token::Number(2.5),
        Token::Number(0.0),
        Token::Number(1.0),
        Token::Variable("x".into()),
        Token::Variable("y".into()),
        Token::Constant(Constants::Pi),
        Token::Function(Functions::Sin),
        Token::Operator(Operators::Add),
        Token::Operator(Operators::Sub),
        Token::Operator(Operators::Mul),
        Token::Operator(Operators::Div),
        Token::Operator(Operators::Caret),
        Token::Operator(Operators::Fac),
        Token::LParen,
        Token::RParen,
    ]
}

fn fnv_str(mut h: u64, s: &str) -> u64 {
    for b in s.bytes().chain(std::iter::once(10u8)) {
        h = (h ^ b as u64).wrapping_mul(0x100000001b3);
    }
    h
}

struct Acc {
    n: u64,
    ok: u64,
    h: u64,
    first_fail: Option<(Vec<Token>, String)>,
}

fn enum_from(alpha: &[Token], budget: usize, ts: &mut Vec<Token>, acc: &mut Acc) {
    let (a, v) = run_tokens(ts, None, None);
    acc.n += 1;
    if a.starts_with('U') {
        acc.ok += 1;
    }
    acc.h = fnv_str(acc.h, &a);
    if let Err(e) = v {
        if acc.first_fail.as_ref().map(|(t, _)| ts.len() < t.len()).unwrap_or(true) {
            acc.first_fail = Some((ts.clone(), e));
        }
    }
    if budget > 0 {
        for t in alpha {
            ts.push(t.clone());
            enum_from(alpha, budget - 1, ts, acc);
            ts.pop();
        }
    }
}

fn words(ts: &[Token]) -> String {
    let mut s = format!("{}", ts.len());
    for t in ts {
        s.push(' ');
        s.push_str(&word_of_tok(t, false));
    }
    s
}

/// the generator's own tree, prefix notation after `|`
fn read_intended(t: &mut std::str::SplitAsciiWhitespace) -> R {
    let w = t.next().expect("intended tree truncated");
    match w {
        "num" => R::Num(t.next().unwrap().parse().unwrap()),
        "var" => R::Var(t.next().unwrap().to_string()),
        "const" => R::Const(t.next().unwrap().to_string()),
        "fn" => {
            let f = t.next().unwrap().to_string();
            R::Fn(f, Box::new(read_intended(t)))
        }
        "neg" => R::Neg(Box::new(read_intended(t))),
        "fact" => R::Fact(Box::new(read_intended(t))),
        "add" | "sub" | "mul" | "div" | "pow" | "jux" => {
            let l = read_intended(t);
            let r = read_intended(t);
            let op = match w {
                "add" => "Add",
                "sub" => "Sub",
                "div" => "Div",
                "pow" => "Caret",
                _ => "Mul",
            };
            R::Bin(op, Box::new(l), Box::new(r))
        }
        _ => panic!("intended tree word {w}"),
    }
}

pub fn run(line: &str) -> Obs {
    let (head, extra) = match line.split_once(" | ") {
        Some((a, b)) => (a, Some(b)),
        None => (line, None),
    };
    let mut t = Toks::new(head);
    match t.tok() {
        "lex" => {
            let text = t.string();
            match catch(|| hk::lexer(&text)) {
                None => Obs::with("panic".into(), Err("the lexer panicked".into())),
                Some(Ok(ts)) => {
                    let mut s = format!("ok {}", ts.len());
                    for tk in &ts {
                        s.push(' ');
                        s.push_str(&word_of_tok(tk, true));
                    }
                    Obs::with(s, Ok(()))
                }
                Some(Err(e)) => Obs::with(format!("err {}", err_kind(&e)), Ok(())),
            }
        }
        "toks" => {
            let ts = read_toks(&mut t);
            let (a, v) = run_tokens(&ts, None, None);
            Obs::with(a, v)
        }
        "str" => {
            let text = t.string();
            let intended = extra.map(|e| read_intended(&mut e.split_ascii_whitespace()));
            match catch(|| hk::lexer(&text)) {
                None => Obs::with("panic".into(), Err("the lexer panicked".into())),
                Some(Err(e)) => {
                    let v = if intended.is_some() { Err(format!("a well-formed expression was rejected by the lexer: {}", err_kind(&e))) } else { Ok(()) };
                    Obs::with(format!("err {}", err_kind(&e)), v)
                }
                Some(Ok(ts)) => {
                    // the words of the source text, read by the harness itself (None: the text is outside what the
                    // reference tokeniser decides; the lexer's own tokens are read then, as for `toks`)
                    let source = ref_lex(&text);
                    let (a, mut v) = run_tokens(&ts, intended.as_ref(), source.as_deref());
                    if intended.is_some() && a.starts_with("err") && v.is_ok() {
                        v = Err(format!("a well-formed expression was rejected: {a}"));
                    }
                    Obs::with(a, v)
                }
            }
        }
        "enum" => {
            let maxlen = t.usize();
            let mut prefix = read_toks(&mut t);
            let alpha = alphabet();
            let mut acc = Acc { n: 0, ok: 0, h: 0xcbf29ce484222325, first_fail: None };
            let budget = maxlen.saturating_sub(prefix.len());
            enum_from(&alpha, budget, &mut prefix, &mut acc);
            let verdict = match acc.first_fail {
                None => Ok(()),
                Some((ts, e)) => Err(format!("on [{}]: {e}", words(&ts))),
            };
            Obs::with(format!("{} {} {}", acc.n, acc.ok, acc.h), verdict)
        }
        other => panic!("unknown C19 request {other}"),
    }
}

// ------------------------------------------------------------------ generators: random conventional expressions

#[derive(Clone)]
enum G {
    Num(String),
    Var(char),
    Const(&'static str),
    Fn(&'static str, Box<G>),
    Neg(Box<G>),
    Fact(Box<G>),
    Bin(char, Box<G>, Box<G>), // + - * / ^
    Jux(Box<G>, Box<G>),       // number next to a variable / power / parenthesis / function
    /// a constant in one fixed spelling (`π`, `E`, `Tau` ...)
    Sym(&'static str, String),
    /// a juxtaposed run `2XY`, `xY^2z`, `X2Y`, `aBc(x + 1)`: the product of its items, left to right
    Run(Vec<G>),
}

fn gen_num(rng: &mut Rng) -> String {
    // literals of every magnitude: a value test with a tolerance instead of `== 0` / `== 1` only shows there
    if rng.chance(1, 12) {
        return match rng.below(4) {
            0 => format!("0.{}{}", "0".repeat(15 + rng.below(12) as usize), rng.range(1, 9)),
            1 => format!("{}{}", rng.range(1, 9), "0".repeat(15 + rng.below(6) as usize)),
            2 => format!("0.{}", "9".repeat(1 + rng.below(14) as usize)),
            _ => format!("1.{}1", "0".repeat(1 + rng.below(12) as usize)),
        };
    }
    match rng.below(8) {
        0 => "0".into(),
        1 => "1".into(),
        2 => format!("{}", rng.range(2, 99)),
        3 => format!("{}.5", rng.range(0, 9)),
        4 => format!("0.{}", rng.range(1, 9)),
        5 => format!("{}.25", rng.range(1, 20)),
        _ => format!("{}", rng.range(2, 9)),
    }
}

fn gen_atom(rng: &mut Rng) -> G {
    match rng.below(8) {
        0 | 1 => G::Num(gen_num(rng)),
        2 | 3 => G::Var(*rng.pick(&['x', 'y'])),
        4 => G::Var(*rng.pick(&['a', 'z', 'k'])),
        5 => G::Const(*rng.pick(&["pi", "e", "tau", "phi"])),
        _ => G::Var('x'),
    }
}

fn gen_tree(rng: &mut Rng, depth: u32) -> G {
    if depth == 0 || rng.chance(1, 6) {
        return gen_atom(rng);
    }
    match rng.below(14) {
        0 | 1 => G::Bin('+', Box::new(gen_tree(rng, depth - 1)), Box::new(gen_tree(rng, depth - 1))),
        2 | 3 => G::Bin('-', Box::new(gen_tree(rng, depth - 1)), Box::new(gen_tree(rng, depth - 1))),
        4 | 5 => G::Bin('*', Box::new(gen_tree(rng, depth - 1)), Box::new(gen_tree(rng, depth - 1))),
        6 | 7 => G::Bin('/', Box::new(gen_tree(rng, depth - 1)), Box::new(gen_tree(rng, depth - 1))),
        8 => G::Bin('^', Box::new(gen_tree(rng, depth - 1)), Box::new(gen_tree(rng, depth.min(2) - 1))),
        9 => G::Neg(Box::new(gen_tree(rng, depth - 1))),
        10 => G::Fn(*rng.pick(&["sin", "cos", "tan", "ln", "log", "cot"]), Box::new(gen_tree(rng, depth - 1))),
        11 => G::Fact(Box::new(gen_tree(rng, depth - 1))),
        _ => {
            // coefficient juxtaposition: number followed by variable, power of a variable, parenthesis or function
            let n = G::Num(gen_num(rng));
            let r = match rng.below(4) {
                0 => G::Var(*rng.pick(&['x', 'y', 'z'])),
                1 => G::Bin('^', Box::new(G::Var(*rng.pick(&['x', 'y']))), Box::new(G::Num(format!("{}", rng.range(2, 5))))),
                2 => G::Fn("sin", Box::new(gen_tree(rng, depth - 1))),
                _ => G::Bin('+', Box::new(gen_tree(rng, depth - 1)), Box::new(gen_atom(rng))),
            };
            G::Jux(Box::new(n), Box::new(r))
        }
    }
}

/// conventional precedence levels: 1 sum, 2 product, 3 juxtaposition, 4 unary minus, 5 power, 6 postfix/atom
fn level(g: &G) -> u32 {
    match g {
        G::Bin('+', ..) | G::Bin('-', ..) => 1,
        G::Bin('*', ..) | G::Bin('/', ..) => 2,
        G::Jux(..) | G::Run(..) => 3,
        G::Neg(..) => 4,
        G::Bin(..) => 5,
        _ => 6,
    }
}

fn render_at(rng: &mut Rng, g: &G, need: u32, redundant: bool, out: &mut String) {
    let wrap = level(g) < need || (redundant && rng.chance(1, 5));
    if wrap {
        out.push('(');
    }
    let sp = |rng: &mut Rng, out: &mut String| {
        if rng.chance(1, 3) {
            out.push(' ');
        }
    };
    match g {
        G::Num(s) => out.push_str(s),
        G::Var(c) => out.push(*c),
        G::Const(c) => out.push_str(&respell(rng, c, true)),
        G::Sym(_, spelling) => out.push_str(spelling),
        G::Run(items) => {
            for (j, it) in items.iter().enumerate() {
                if j > 0 && rng.chance(1, 6) {
                    out.push(' ');
                }
                match it {
                    G::Num(..) | G::Var(..) | G::Sym(..) | G::Fn(..) => render_at(rng, it, 6, false, out),
                    G::Bin('^', ..) => render_at(rng, it, 5, false, out),
                    _ => {
                        out.push('(');
                        render_at(rng, it, 0, redundant, out);
                        out.push(')');
                    }
                }
            }
        }
        G::Fn(f, a) => {
            out.push_str(&respell(rng, f, false));
            out.push('(');
            render_at(rng, a, 0, redundant, out);
            out.push(')');
        }
        G::Neg(a) => {
            out.push('-');
            // the operand of a sign: a power, a postfix, an atom, a juxtaposition or another sign
            render_at(rng, a, 3, redundant, out);
        }
        G::Fact(a) => {
            render_at(rng, a, 6, redundant, out);
            out.push('!');
        }
        G::Bin(op, l, r) => {
            let (ln, rn) = match op {
                '+' => (1, 1),
                '-' => (1, 2),
                '*' => (2, 3),
                '/' => (2, 3),
                // nested powers always parenthesised; a signed exponent is fine
                _ => (6, 6),
            };
            if *op == '^' {
                render_at(rng, l, ln, redundant, out);
                out.push('^');
                // exponent: atom / postfix, or a sign in front of one
                match &**r {
                    G::Neg(a) if level(a) >= 6 => {
                        out.push('-');
                        render_at(rng, a, 6, redundant, out);
                    }
                    _ => render_at(rng, r, rn, redundant, out),
                }
            } else {
                // a sum's or product's left operand may carry a sign: "-a * b" reads as (-a) * b
                let lneed = if matches!(**l, G::Neg(..)) && ln <= 2 { 0 } else { ln };
                render_at(rng, l, lneed, redundant, out);
                sp(rng, out);
                out.push(*op);
                sp(rng, out);
                // right operands: a sign after an operator is read with its operand
                let rneed = if matches!(**r, G::Neg(..)) { 0 } else { rn };
                render_at(rng, r, rneed, redundant, out);
            }
        }
        G::Jux(n, r) => {
            render_at(rng, n, 6, false, out);
            match &**r {
                G::Bin('^', ..) | G::Var(..) | G::Fn(..) => render_at(rng, r, 5, false, out),
                _ => {
                    out.push('(');
                    render_at(rng, r, 0, redundant, out);
                    out.push(')');
                }
            }
        }
    }
    if wrap {
        out.push(')');
    }
}

/// another spelling of a function / constant name: upper case, mixed case, or (constants) the symbol `Display` prints
fn respell(rng: &mut Rng, name: &str, constant: bool) -> String {
    match rng.below(8) {
        0 => name.to_ascii_uppercase(),
        1 => name.chars().enumerate().map(|(i, c)| if (i + rng.below(2) as usize) % 2 == 0 { c.to_ascii_uppercase() } else { c }).collect(),
        2 if constant => match name {
            "pi" => "π".to_string(),
            "tau" => "τ".to_string(),
            "phi" => "ϕ".to_string(),
            _ => "E".to_string(),
        },
        _ => name.to_string(),
    }
}

fn intended(g: &G, out: &mut String) {
    match g {
        G::Num(s) => out.push_str(&format!("num {s} ")),
        G::Var(c) => out.push_str(&format!("var {c} ")),
        G::Const(c) | G::Sym(c, _) => out.push_str(&format!("const {c} ")),
        G::Run(items) => {
            // left-associated product of the items
            for _ in 1..items.len() {
                out.push_str("jux ");
            }
            for it in items {
                intended(it, out);
            }
        }
        G::Fn(f, a) => {
            out.push_str(&format!("fn {f} "));
            intended(a, out);
        }
        G::Neg(a) => {
            out.push_str("neg ");
            intended(a, out);
        }
        G::Fact(a) => {
            out.push_str("fact ");
            intended(a, out);
        }
        G::Bin(op, l, r) => {
            out.push_str(match op {
                '+' => "add ",
                '-' => "sub ",
                '*' => "mul ",
                '/' => "div ",
                _ => "pow ",
            });
            intended(l, out);
            intended(r, out);
        }
        G::Jux(l, r) => {
            out.push_str("jux ");
            intended(l, out);
            intended(r, out);
        }
    }
}

fn random_text(rng: &mut Rng) -> String {
    let n = rng.below(200) as usize;
    let pool: Vec<char> = "xyzabe0123456789.+-*/^!()% ·πτϕsincotlgpahuE#@,\t\n".chars().collect();
    (0..n)
        .map(|_| match rng.below(12) {
            0 => char::from_u32(rng.range(32, 126) as u32).unwrap(),
            1 => char::from_u32(rng.range(0xa0, 0x3ff) as u32).unwrap_or('x'),
            _ => *rng.pick(&pool),
        })
        .collect()
}

pub fn generate(seed: u64, thorough: bool, emit: &mut dyn FnMut(String)) {
    let mut rng = Rng::new(seed ^ 0xC19);
    let alpha = alphabet();
    // exhaustive token sequences: one enum request per 2-token prefix, plus the short sequences themselves
    let maxlen = if thorough { 6 } else { 5 };
    emit("toks 0".into());
    for a in &alpha {
        emit(format!("toks {}", words(&[a.clone()])));
        for b in &alpha {
            emit(format!("enum {maxlen} {}", words(&[a.clone(), b.clone()])));
        }
    }
    // longer token sequences than the exhaustive space reaches (6..9 tokens), biased towards the tokens whose
    // printed forms can run into each other: literals, `*`, `^`, `!`, juxtaposition
    let stress: Vec<Token> = vec![
        Token::Number(2.0), Token::Number(3.0), Token::Number(2.5), Token::Number(0.0), Token::Number(1.0),
        Token::Variable("x".into()), Token::Variable("y".into()), Token::Constant(Constants::Pi),
        Token::Operator(Operators::Mul), Token::Operator(Operators::Mul), Token::Operator(Operators::Caret),
        Token::Operator(Operators::Caret), Token::Operator(Operators::Fac), Token::Operator(Operators::Sub),
        Token::Operator(Operators::Div), Token::Operator(Operators::Add), Token::LParen, Token::RParen,
        Token::Function(Functions::Sin),
    ];
    let k = if thorough { 400_000 } else { 30_000 };
    for _ in 0..k {
        let len = 6 + rng.below(4) as usize;
        let mut ts: Vec<Token> = Vec::with_capacity(len);
        for j in 0..len {
            // start with something that can start an expression most of the time
            let t = loop {
                let t = rng.pick(&stress).clone();
                let starts = matches!(t, Token::Number(_) | Token::Variable(_) | Token::Constant(_) | Token::LParen | Token::Function(_) | Token::Operator(Operators::Sub));
                let prev_operand = j > 0 && matches!(ts[j - 1], Token::Number(_) | Token::Variable(_) | Token::Constant(_) | Token::RParen | Token::Operator(Operators::Fac));
                // after an operand prefer an operator, after an operator prefer an operand (3 times out of 4)
                if j == 0 && !starts {
                    continue;
                }
                if j > 0 && rng.chance(3, 4) && prev_operand == starts && !matches!(t, Token::Operator(Operators::Fac)) {
                    continue;
                }
                break t;
            };
            ts.push(t);
        }
        emit(format!("toks {}", words(&ts)));
    }
    // random conventional expressions, minimal and redundant parentheses
    let n = if thorough { 100_000 } else { 4000 };
    for i in 0..n {
        let depth = 1 + rng.below(6) as u32;
        let g = gen_tree(&mut rng, depth);
        let mut text = String::new();
        render_at(&mut rng, &g, 0, i % 2 == 1, &mut text);
        let mut want = String::new();
        intended(&g, &mut want);
        emit(format!("str {} | {}", req_string(&text), want.trim_end()));
    }
    // value tests of the folder at the edges: products with a tiny (non-zero) factor, divisors and exponents next to
    // 1 and 0
    for z in [15usize, 16, 17, 20, 25] {
        let tiny = format!("0.{}1", "0".repeat(z));
        let huge = format!("1{}", "0".repeat(z + 1));
        for text in [
            format!("{tiny} * {huge}"), format!("{huge} * {tiny}"), format!("{tiny}x * {huge}"), format!("({tiny} + 0) * {huge}"),
            format!("x ^ {tiny} * 2"), format!("{tiny} ^ 0"), format!("0 ^ {tiny}"), format!("x / 1.{}1", "0".repeat(z.min(14))),
            format!("x / 0.{}", "9".repeat(z.min(15))), format!("x + {tiny}"), format!("{tiny} - x"), format!("x - {tiny}"),
        ] {
            emit(format!("str {}", req_string(&text)));
        }
    }
    // arbitrary strings: totality of lexer and parser
    let m = if thorough { 50_000 } else { 3000 };
    for i in 0..m {
        let text = random_text(&mut rng);
        if i % 2 == 0 {
            emit(format!("lex {}", req_string(&text)));
        } else {
            emit(format!("str {}", req_string(&text)));
        }
    }
    generate_hardening(seed, thorough, emit);
    generate_case_family(seed, thorough, emit);
}

// ------------------------------------------------------------------ hardening families

/// the whole vocabulary: every function, constant and operator (`%` and `·` included), several literals and variables
fn full_pool() -> Vec<Token> {
    let mut v = vec![
        Token::Number(2.0), Token::Number(3.0), Token::Number(2.5), Token::Number(0.0), Token::Number(1.0), Token::Number(0.5),
        Token::Number(10.0), Token::Variable("x".into()), Token::Variable("y".into()), Token::Variable("z".into()),
        Token::Variable("x".into()), Token::LParen, Token::LParen, Token::RParen, Token::RParen, Token::RParen,
    ];
    for c in [Constants::Pi, Constants::E, Constants::Tau, Constants::Phi] {
        v.push(Token::Constant(c));
    }
    for f in [Functions::Sin, Functions::Cos, Functions::Tan, Functions::Cot, Functions::Log, Functions::Ln] {
        v.push(Token::Function(f));
    }
    for o in [
        Operators::Add, Operators::Sub, Operators::Sub, Operators::Mul, Operators::Mul, Operators::Div, Operators::Div, Operators::Caret,
        Operators::Caret, Operators::Fac, Operators::Rem, Operators::Rem, Operators::CDot, Operators::CDot,
    ] {
        v.push(Token::Operator(o));
    }
    v
}

fn generate_hardening(seed: u64, thorough: bool, emit: &mut dyn FnMut(String)) {
    let mut rng = Rng::new(seed ^ 0xC19_5CA1E);
    // ---- (1) biased token sequences of 4..14 tokens over the WHOLE vocabulary: cos tan cot log ln, e tau phi, % and ·
    //      (the conventional-reading clause abstains on % and · and on unparenthesised power chains; folding, display
    //      and re-parsing are judged for all of them; model comparison for all)
    let pool = full_pool();
    let k = if thorough { 300_000 } else { 24_000 };
    for _ in 0..k {
        let len = 4 + rng.below(11) as usize;
        let mut ts: Vec<Token> = Vec::with_capacity(len + 2);
        let mut open = 0usize;
        while ts.len() < len {
            let j = ts.len();
            let t = rng.pick(&pool).clone();
            let starts = matches!(t, Token::Number(_) | Token::Variable(_) | Token::Constant(_) | Token::LParen | Token::Function(_) | Token::Operator(Operators::Sub));
            let prev_operand = j > 0 && matches!(ts[j - 1], Token::Number(_) | Token::Variable(_) | Token::Constant(_) | Token::RParen | Token::Operator(Operators::Fac));
            if j == 0 && !starts {
                continue;
            }
            // after an operand prefer an operator, after an operator prefer an operand (5 times out of 6); juxtaposition
            // (operand after operand) is still reached
            if j > 0 && rng.chance(5, 6) && prev_operand == starts && !matches!(t, Token::Operator(Operators::Fac)) {
                continue;
            }
            // a closing parenthesis mostly where one is open and an operand precedes
            if matches!(t, Token::RParen) && rng.chance(7, 8) && (open == 0 || !prev_operand) {
                continue;
            }
            match &t {
                Token::LParen => open += 1,
                Token::RParen => open = open.saturating_sub(1),
                _ => {}
            }
            let is_fn = matches!(t, Token::Function(_));
            ts.push(t);
            // a function is followed by its parenthesis 7 times out of 8
            if is_fn && rng.chance(7, 8) {
                ts.push(Token::LParen);
                open += 1;
            }
        }
        // close what is open, most of the time
        if rng.chance(4, 5) {
            let prev_operand = matches!(ts[ts.len() - 1], Token::Number(_) | Token::Variable(_) | Token::Constant(_) | Token::RParen | Token::Operator(Operators::Fac));
            if !prev_operand {
                ts.push(rng.pick(&[Token::Variable("x".into()), Token::Number(2.0), Token::Constant(Constants::E)]).clone());
            }
            for _ in 0..open {
                ts.push(Token::RParen);
            }
        }
        emit(format!("toks {}", words(&ts)));
    }
    // ---- (2) every function and constant name in every spelling the lexer may meet: lower, upper, mixed case, symbols,
    //      glued to letters and digits
    let names = ["sin", "cos", "tan", "cot", "log", "ln", "pi", "e", "tau", "phi"];
    for name in names {
        let up = name.to_ascii_uppercase();
        let cap: String = name.chars().enumerate().map(|(i, c)| if i == 0 { c.to_ascii_uppercase() } else { c }).collect();
        let alt: String = name.chars().enumerate().map(|(i, c)| if i % 2 == 1 { c.to_ascii_uppercase() } else { c }).collect();
        for sp in [name.to_string(), up, cap, alt] {
            for text in [
                sp.clone(), format!("{sp}(x)"), format!("2{sp}(x)"), format!("{sp}(x)^2"), format!("x{sp}"), format!("{sp}x"), format!("{sp}2"),
                format!("2{sp}"), format!("{sp}{sp}"), format!("{sp} (x + 1)!"), format!("-{sp}(-x)"), format!("{sp}^2"), format!("({sp})"),
                format!("y*{sp}(x)/{sp}(y)"), format!("{sp}(x){sp}(y)"), format!("x % {sp}(y)"), format!("2·{sp}(x)"), format!("{sp}(2x^2)"),
            ] {
                emit(format!("str {}", req_string(&text)));
                emit(format!("lex {}", req_string(&text)));
            }
        }
    }
    for text in [
        "π", "τ", "ϕ", "φ", "Π", "2π", "πx", "π^2", "2πx", "τ/2", "ϕ^2 - ϕ - 1", "eE", "Ee", "ee", "xe", "ex", "e^x", "E^x", "2e", "e2", "pie", "epi", "PIE",
        "pipi", "sinx", "sin", "sinsin(x)", "sin(sin(x))", "lnx", "ln(e)", "LOG(10)", "logx(2)", "taun", "tan", "cotx", "x·y", "x%y", "x % y % z", "x·y·z",
        "x % y * z", "x * y % z", "x / y % z", "x % y ^ 2", "-x % y", "x % -y", "2x % 3y", "x!%y", "2·3", "x×y", "x÷y", "1.", ".5", ".", "..", "1.2.3", "00",
        "007", "1.0", "1.00", "0.0", "0.", ".0", "-0", "1e5", "2E3", "1e", "1e-5", "x.y", "x.5", "5.x", "0x10", "1_000", "1,5", "x^y^z", "x^-y^-z", "2^3^2",
        "(x)(y)", "(x)2", "2(x)", "x(2)", "(2)(3)", "x!y", "x!!", "x!(y)", "(x)!", "-x!", "-(x!)", "(-x)!", "2!x", "x y", " x ", "", " ", "()", "(())", ")(",
    ] {
        emit(format!("str {}", req_string(text)));
        emit(format!("lex {}", req_string(text)));
    }
    // ---- (3) very deep nesting: totality must not depend on the depth (500 levels; 2000 in the thorough tier)
    let mut depths = vec![200usize, 500];
    if thorough {
        depths.push(2000);
    }
    for n in depths {
        let texts = [
            format!("{}x{}", "(".repeat(n), ")".repeat(n)),
            format!("{}x", "-".repeat(n)),
            format!("{}x{}", "sin(".repeat(n), ")".repeat(n)),
            format!("{}x{}", "2^(".repeat(n), ")".repeat(n)),
            format!("{}x{}", "-(1+".repeat(n), ")".repeat(n)),
            format!("{}x{}", "(y*".repeat(n), ")".repeat(n)),
            format!("x{}", "!".repeat(n)),
            format!("x{}", "^2".repeat(n)),
            format!("x{}", "+y".repeat(n)),
            format!("x{}", "*2/y".repeat(n)),
            "(".repeat(n),
            ")".repeat(n),
            format!("{}x{}", "(".repeat(n), ")".repeat(n - 1)),
            format!("{}x{}", "(".repeat(n - 1), ")".repeat(n)),
            format!("{}x", "sin(".repeat(n)),
            "2x".repeat(n),
            "xy".repeat(n),
        ];
        for text in texts {
            emit(format!("str {}", req_string(&text)));
        }
    }
    // ---- (4) literals with 17 and more significant digits, halfway cases of the decimal-to-binary rounding, literals at
    //      the ends of the binary64 range (lexer only: the tree printer spells numbers in shortest form)
    let z = |n: usize| "0".repeat(n);
    let long_literals = [
        "0.1234567890123456789".to_string(), "12345678901234567890.5".to_string(), "3.14159265358979323846264338327950288x".to_string(),
        "9007199254740993".to_string(), "9007199254740992.5".to_string(), "9007199254740993.0000000000000000000001".to_string(),
        "0.1000000000000000055511151231257827021181583404541015625".to_string(), "1.00000000000000011102230246251565404236316680908203125".to_string(),
        "1.00000000000000011102230246251565404236316680908203124".to_string(), "1.00000000000000011102230246251565404236316680908203126".to_string(),
        "0.30000000000000004".to_string(), "0.299999999999999988897769753748".to_string(), "123456789012345678".to_string(), "0.99999999999999994".to_string(),
        "0.99999999999999995".to_string(), "179769313486231570000".to_string(), format!("17976931348623157{}", z(292)), format!("17976931348623158{}", z(292)),
        format!("17976931348623159{}", z(292)), format!("1{}", z(309)), format!("0.{}1", z(322)), format!("0.{}2", z(323)), format!("0.{}3", z(323)),
        format!("0.{}24703282292062327", z(323)), format!("0.{}24703282292062328", z(323)), format!("0.{}1", z(400)), format!("0.{}22250738585072014", z(307)),
        format!("0.{}22250738585072011", z(307)), format!("2.5 + 0.{}7x - 1{}.25y", z(17), z(20)), "00000000000000000000000001.5".to_string(),
        format!("1.{}", z(40)), format!("1.{}1", z(40)), "4.35".to_string(), "4.349999999999999644728632".to_string(), "8.41".to_string(),
    ];
    for text in long_literals {
        emit(format!("lex {}", req_string(&text)));
        emit(format!("lex {}", req_string(&format!("x^{text} - {text}y"))));
    }
    let m = if thorough { 20_000 } else { 1500 };
    for _ in 0..m {
        // random literals of 16..40 significant digits, with and without a point
        let nd = 16 + rng.below(25) as usize;
        let mut digits: String = (0..nd).map(|_| char::from(b'0' + rng.below(10) as u8)).collect();
        if digits.starts_with('0') {
            digits.replace_range(0..1, "7");
        }
        let text = match rng.below(4) {
            0 => digits.clone(),
            1 => format!("0.{}{digits}", z(rng.below(20) as usize)),
            2 => {
                let p = 1 + rng.below(nd as u64 - 1) as usize;
                format!("{}.{}", &digits[..p], &digits[p..])
            }
            _ => format!("{digits}{}", z(rng.below(30) as usize)),
        };
        emit(format!("lex {}", req_string(&format!("{text}x + sin({text})"))));
    }
    // ---- (5) the value tests of the folder next to 0 and 1 at every distance (literals of at most 15 significant digits
    //      are spelled by the printer exactly as written, so the whole pipeline is compared)
    let mut ks: Vec<usize> = (1..=14).collect();
    ks.extend([20, 30, 100, 300, 318]);
    for k in ks {
        let tiny = format!("0.{}1", z(k));
        let mut lits = vec![tiny.clone()];
        if k <= 14 {
            lits.push(format!("1.{}1", z(k - 1)));
            lits.push(format!("0.{}", "9".repeat(k)));
        }
        if k <= 300 {
            lits.push(format!("1{}", z(k)));
        }
        for l in lits {
            for text in [
                format!("x / {l}"), format!("x ^ {l}"), format!("{l} ^ x"), format!("{l} * x"), format!("x * {l}"), format!("{l}x"), format!("x + {l}"),
                format!("{l} + x"), format!("x - {l}"), format!("{l} - x"), format!("{l} ^ 0"), format!("0 ^ {l}"), format!("0 * {l}"), format!("{l} / 1"),
                format!("{l} / {l}"), format!("({l} - {l}) * x"), format!("x ^ ({l} * 0)"), format!("sin({l}) + 0 * cos({l})"), format!("-{l} * 0 + y"),
                format!("y % {l}"), format!("{l}y^{l}"),
            ] {
                emit(format!("str {}", req_string(&text)));
            }
        }
    }
}

// ------------------------------------------------------------------ hardening: case-sensitive variables in source text
//
// "Variables": the statement's vocabulary has single letters; nothing in it identifies `X` with `x`.  The families above
// wrote every variable in lower case and never two letters side by side, so a lexer that folds the case of a letter inside
// a run (`XY` read as x times y while `X` alone stays X) went through unseen by the oracle.  Here random conventional
// trees are written with variables of both cases standing side by side (`XY`, `xY`, `aBc`, `2XY`, `X2Y`, `xY^2z`,
// `2πX`, `XE`), next to function and constant names in every case (whose case-insensitive lookup is documented), and the
// parsed tree is judged against the generator's own tree under case-sensitive bindings.

const CASE_LETTERS: &[char] = &[
    'x', 'y', 'X', 'Y', 'x', 'X', 'y', 'Y', 'a', 'B', 'c', 'Z', 'k', 'K', 'P', 'I', 'p', 'i', 'N', 'n', 'S', 's', 'T', 't', 'A', 'u', 'U', 'L', 'l',
    'G', 'g', 'o', 'O', 'C', 'h', 'H', 'q', 'Q', 'w', 'M', 'z', 'b', 'D', 'r', 'V', 'j', 'F',
];

fn case_var(rng: &mut Rng) -> G {
    G::Var(*rng.pick(CASE_LETTERS))
}

fn case_sym(rng: &mut Rng) -> G {
    match rng.below(5) {
        0 => G::Sym("pi", "π".into()),
        1 => G::Sym("tau", "τ".into()),
        2 => G::Sym("phi", "ϕ".into()),
        3 => G::Sym("e", "e".into()),
        _ => G::Sym("e", "E".into()),
    }
}

fn run_num(rng: &mut Rng) -> G {
    G::Num(match rng.below(10) {
        0 => "0".into(),
        1 => "1".into(),
        2 => "2.5".into(),
        3 => "0.5".into(),
        4 => "10".into(),
        _ => format!("{}", rng.range(2, 9)),
    })
}

/// a juxtaposed run of 2..6 items obeying what may stand next to what without an operator: a number only at the start or
/// after a letter; a function call or a parenthesis only at the end; a name of several letters never next to a letter
fn gen_run(rng: &mut Rng, depth: u32) -> G {
    #[derive(PartialEq, Clone, Copy)]
    enum P {
        Start,
        Num,
        Letter,
        PowNum,
    }
    let want = 2 + rng.below(5) as usize;
    let mut items: Vec<G> = Vec::new();
    let mut prev = P::Start;
    while items.len() < want {
        match rng.below(12) {
            0 | 1 if prev == P::Start || prev == P::Letter => {
                items.push(run_num(rng));
                prev = P::Num;
            }
            2..=6 => {
                items.push(case_var(rng));
                prev = P::Letter;
            }
            7 | 8 => {
                items.push(G::Bin('^', Box::new(case_var(rng)), Box::new(G::Num(format!("{}", rng.range(2, 5))))));
                prev = P::PowNum;
            }
            9 => {
                items.push(case_sym(rng));
                prev = P::Letter;
            }
            10 if prev != P::Start && items.len() + 1 >= want => {
                // the closing item: a parenthesised expression (after anything), a function call (not after a letter)
                if prev != P::Letter && rng.chance(1, 2) {
                    items.push(G::Fn(*rng.pick(&["sin", "cos", "tan", "ln", "log", "cot"]), Box::new(gen_case_tree(rng, depth.saturating_sub(1)))));
                } else {
                    items.push(G::Bin('+', Box::new(gen_case_tree(rng, depth.saturating_sub(1))), Box::new(case_var(rng))));
                }
                break;
            }
            11 if prev == P::Num && items.len() + 1 >= want => {
                // a constant by name, in any case, directly after the coefficient and at the end of the run: `2PI`, `3Tau`
                items.push(G::Const(*rng.pick(&["pi", "tau", "phi"])));
                break;
            }
            _ => {}
        }
    }
    if items.len() == 1 {
        return items.pop().unwrap();
    }
    G::Run(items)
}

fn gen_case_tree(rng: &mut Rng, depth: u32) -> G {
    if depth == 0 || rng.chance(1, 6) {
        return match rng.below(8) {
            0 => G::Num(gen_num(rng)),
            1 => G::Const(*rng.pick(&["pi", "e", "tau", "phi"])),
            2 | 3 => gen_run(rng, 0),
            _ => case_var(rng),
        };
    }
    let sub = |rng: &mut Rng| Box::new(gen_case_tree(rng, depth - 1));
    // the same sub-expression twice: `t op t`, `t op u op t` (a later operand exactly equal to an earlier one) - code that
    // compares operands by VALUE where their POSITION matters only shows on such inputs
    if rng.chance(1, 7) {
        let t = sub(rng);
        let op = *rng.pick(&['+', '-', '*', '/']);
        return if rng.chance(1, 2) {
            G::Bin(op, t.clone(), t)
        } else {
            let op2 = *rng.pick(&['+', '-', '*', '/']);
            if rng.chance(1, 2) {
                G::Bin(op2, Box::new(G::Bin(op, t.clone(), sub(rng))), t)
            } else {
                G::Bin(op2, t.clone(), Box::new(G::Bin(op, sub(rng), t)))
            }
        };
    }
    match rng.below(14) {
        0 | 1 => G::Bin('+', sub(rng), sub(rng)),
        2 | 3 => G::Bin('-', sub(rng), sub(rng)),
        4 => G::Bin('*', sub(rng), sub(rng)),
        5 | 6 => G::Bin('/', sub(rng), sub(rng)),
        7 => G::Bin('^', sub(rng), Box::new(gen_case_tree(rng, depth.min(2) - 1))),
        8 => G::Neg(sub(rng)),
        9 => G::Fn(*rng.pick(&["sin", "cos", "tan", "ln", "log", "cot"]), sub(rng)),
        10 => G::Fact(sub(rng)),
        _ => gen_run(rng, depth),
    }
}

/// the named leaves of a generated tree in writing order: `v:<letter>`, `c:<constant>`, `f:<function>`
fn leaves(g: &G, out: &mut Vec<String>) {
    match g {
        G::Num(_) => {}
        G::Var(c) => out.push(format!("v:{c}")),
        G::Const(c) | G::Sym(c, _) => out.push(format!("c:{c}")),
        G::Fn(f, a) => {
            out.push(format!("f:{f}"));
            leaves(a, out);
        }
        G::Neg(a) | G::Fact(a) => leaves(a, out),
        G::Bin(_, l, r) | G::Jux(l, r) => {
            leaves(l, out);
            leaves(r, out);
        }
        G::Run(items) => items.iter().for_each(|it| leaves(it, out)),
    }
}

/// the written text says what the tree means, word for word: the reference tokeniser finds exactly the tree's letters and
/// names in it (a run of variables that happens to spell a name - `Pi`, `lN`, `tAU` - or a name glued to a letter is not
/// what was meant; such a rendering is not used)
fn faithful(text: &str, g: &G) -> bool {
    let Some(ts) = ref_lex(text) else { return false };
    let found: Vec<String> = ts
        .iter()
        .filter_map(|t| match t {
            Token::Variable(v) => Some(format!("v:{v}")),
            Token::Constant(c) => Some(format!("c:{}", const_name(c))),
            Token::Function(f) => Some(format!("f:{}", fn_name(f))),
            _ => None,
        })
        .collect();
    let mut meant = Vec::new();
    leaves(g, &mut meant);
    found == meant
}

fn generate_case_family(seed: u64, thorough: bool, emit: &mut dyn FnMut(String)) {
    let mut rng = Rng::new(seed ^ 0xC19_CA5E);
    // ---- (6) random trees with variables of both cases side by side, against the generator's own tree
    let n = if thorough { 60_000 } else { 3000 };
    let mut made = 0;
    while made < n {
        let depth = 1 + rng.below(5) as u32;
        let g = if rng.chance(1, 3) { gen_run(&mut rng, depth) } else { gen_case_tree(&mut rng, depth) };
        let mut text = String::new();
        render_at(&mut rng, &g, 0, made % 3 == 1, &mut text);
        if !faithful(&text, &g) {
            continue;
        }
        let mut want = String::new();
        intended(&g, &mut want);
        emit(format!("str {} | {}", req_string(&text), want.trim_end()));
        made += 1;
    }
    // ---- (7) every ordered pair of letters of either case side by side (52 x 52 in the thorough tier, a sample in the quick
    //      one), alone and inside the shapes a run occurs in; read by the reference tokeniser (no generator tree: pairs
    //      that spell `pi` or `ln` are those names)
    let l52: Vec<char> = ('a'..='z').chain('A'..='Z').collect();
    let mut pairs: Vec<(char, char)> = Vec::new();
    if thorough {
        for a in &l52 {
            for b in &l52 {
                pairs.push((*a, *b));
            }
        }
    } else {
        for a in &l52 {
            // the same letter in the other case, a fixed partner of each case, a random partner
            pairs.push((*a, char::from_u32(*a as u32 ^ 0x20).unwrap()));
            pairs.push((*a, 'Y'));
            pairs.push(('X', *a));
            pairs.push((*a, *rng.pick(&l52)));
        }
    }
    for (j, (a, b)) in pairs.iter().enumerate() {
        let shapes = [
            format!("{a}{b}"),
            format!("2{a}{b}"),
            format!("{a}2{b}"),
            format!("4{a}{b} - {a}^2"),
            format!("{a}{b}^2 + {b}{a}"),
            format!("{a} {b}"),
            format!("1/{a}{b}"),
            format!("-{a}{b}x"),
            format!("sin({a}{b})"),
            format!("({a}{b})^2"),
            format!("{a}{b}!"),
            format!("x{a}{b}y"),
            format!("{a}{b}{a}"),
            format!("{a}π{b}"),
            format!("{a}{b}(x + 1)"),
            format!("{b}^{a}{b}"),
        ];
        if thorough {
            for t in shapes {
                emit(format!("str {}", req_string(&t)));
            }
        } else {
            // four of the sixteen shapes per pair, every shape once per four pairs
            for t in shapes.iter().skip(j % 4).step_by(4) {
                emit(format!("str {}", req_string(t)));
            }
        }
    }
    // ---- (8) runs of three to six letters of mixed case, and names in every case pattern glued to letters, digits, symbols
    for text in [
        "XY", "xY", "Xy", "aBc", "AbC", "2XY", "X2Y", "XY2", "4XY - X^2", "XYZ + xyz", "xX", "Xx", "XxX", "xXx^2", "Xx^2 - xX^2", "-XY", "1/XY", "XY/xy",
        "X^2Y", "XY^2", "X^2Y^2", "x^2Y^3x", "2X^2Y", "sin(XY)", "SIN(XY)", "Sin(xY)cos", "2Xsin(Y)", "X2sin(Y)", "XE", "EX", "Ex", "eX", "xEy", "XEY", "EE",
        "2EX", "PIX", "XPI", "xPi", "piX", "Pix", "2PI", "2Pi", "2pI", "2PI(X)", "PI(X)", "PI X", "P I", "Pi^2", "pI^X", "TAUX", "XTAU", "Tau", "tAU", "2tAu",
        "PHI", "Phi", "pHi", "PHIX", "XπY", "πXY", "XYπ", "2πXY", "τX", "Xτ", "ϕXϕ", "LN(X)", "Ln(X)", "lN(X)", "LNX", "XLN(X)", "LOG(XY)", "LogX", "COT(X)Y",
        "Tan(X) * Y", "X Y", "X Y Z", "2 X Y", "X  Y", "X ^ 2 Y", "XY!", "(XY)!", "X!Y", "X! * Y", "XY + YX", "XY - YX", "XY - xy", "Xy - xY", "(X + x)(Y + y)",
        "X(Y)", "X(y)Z", "2X(Y + y)", "XY(X + Y)", "A + B + C + a + b + c", "ABC - abc", "aA + bB", "IJ", "Ij", "iJ", "IN", "In", "iN", "NaN", "Inf", "INF", "iNf",
    ] {
        emit(format!("str {}", req_string(text)));
        emit(format!("lex {}", req_string(text)));
    }
    // ---- (9) token sequences with variables of both cases and repeated variables through the parser, the folder and the
    //      printer (the displayed text must read back to the same function under case-sensitive bindings)
    let pool: Vec<Token> = {
        let mut v: Vec<Token> = ["X", "Y", "x", "y", "X", "x", "A", "a", "P", "I", "n", "S"].iter().map(|s| Token::Variable(s.to_string())).collect();
        v.extend([Token::Number(2.0), Token::Number(0.0), Token::Number(1.0), Token::Number(2.5), Token::Constant(Constants::Pi), Token::Constant(Constants::E)]);
        v.extend([Token::LParen, Token::RParen, Token::RParen, Token::Function(Functions::Sin), Token::Function(Functions::Ln)]);
        for o in [Operators::Add, Operators::Sub, Operators::Sub, Operators::Mul, Operators::Mul, Operators::Div, Operators::Div, Operators::Caret, Operators::Fac] {
            v.push(Token::Operator(o));
        }
        v
    };
    let k = if thorough { 60_000 } else { 4000 };
    for _ in 0..k {
        let len = 2 + rng.below(9) as usize;
        let mut ts: Vec<Token> = Vec::with_capacity(len + 4);
        let mut open = 0usize;
        while ts.len() < len {
            let j = ts.len();
            let t = rng.pick(&pool).clone();
            let starts = matches!(t, Token::Number(_) | Token::Variable(_) | Token::Constant(_) | Token::LParen | Token::Function(_) | Token::Operator(Operators::Sub));
            let prev_operand = j > 0 && matches!(ts[j - 1], Token::Number(_) | Token::Variable(_) | Token::Constant(_) | Token::RParen | Token::Operator(Operators::Fac));
            if j == 0 && !starts {
                continue;
            }
            // juxtaposition (operand after operand) one time in three here: runs of variables are the point
            if j > 0 && rng.chance(2, 3) && prev_operand == starts && !matches!(t, Token::Operator(Operators::Fac)) {
                continue;
            }
            if matches!(t, Token::RParen) && (open == 0 || !prev_operand) {
                continue;
            }
            match &t {
                Token::LParen => open += 1,
                Token::RParen => open -= 1,
                _ => {}
            }
            let is_fn = matches!(t, Token::Function(_));
            ts.push(t);
            if is_fn {
                ts.push(Token::LParen);
                open += 1;
            }
        }
        let prev_operand = matches!(ts[ts.len() - 1], Token::Number(_) | Token::Variable(_) | Token::Constant(_) | Token::RParen | Token::Operator(Operators::Fac));
        if !prev_operand {
            ts.push(rng.pick(&[Token::Variable("X".into()), Token::Variable("x".into()), Token::Number(2.0)]).clone());
        }
        for _ in 0..open {
            ts.push(Token::RParen);
        }
        emit(format!("toks {}", words(&ts)));
    }
    // ---- (10) identity baits: expressions on which a plausible but unsound algebraic simplification could fire (power of a
    //      power whose exponents multiply to 1 / 2 / 0.5, cancelling quotients and differences, products of powers, powers of
    //      products, unary minus under a power); the folding clause evaluates folded and unfolded at positive, negative and
    //      zero points, so a rewrite that is only valid for positive operands (sqrt(x^2) = x) or away from 0 (x/x = 1) is seen
    let bases = ["x", "y", "(x - y)", "(x + 1)", "(-x)", "(x y)", "(2 x)", "sin(x)", "(x - 1.3)", "2", "pi"];
    let exps: [(&str, &str); 14] = [("2", "0.5"), ("0.5", "2"), ("4", "0.25"), ("0.25", "4"), ("2", "2"), ("3", "2"), ("2", "1.5"), ("8", "0.125"),
        ("1", "1"), ("2", "1"), ("1", "2"), ("10", "0.1"), ("0.2", "5"), ("2.5", "0.4")];
    for b in bases {
        for (m, n) in exps {
            for text in [format!("{b}^{m}^{n}"), format!("({b}^{m})^{n}"), format!("{b}^({m}^{n})"), format!("{b}^{m} * {b}^{n}"), format!("{b}^{m} / {b}^{n}"),
                format!("({b}^{m})^{n} - {b}"), format!("-{b}^{m}^{n}"), format!("y + {b}^{m}^{n} * 2")] {
                emit(format!("str {}", req_string(&text)));
            }
        }
        for text in [format!("{b} / {b}"), format!("{b} - {b}"), format!("{b} + {b}"), format!("{b} * {b}"), format!("0 / {b}"), format!("{b} ^ 1"), format!("1 ^ {b}"),
            format!("{b} % {b}"), format!("{b} * 1 / {b}"), format!("({b} * y) / y"), format!("({b} + y) - y"), format!("({b} y)^2"), format!("(-{b})^2"), format!("-{b}^2"),
            format!("{b}^2^0.5 + {b}"), format!("({b}^2)^0.5 / {b}"), format!("{b} * {b}^-1"), format!("{b}^-1^-1"), format!("0^{b}"), format!("{b}^0"), format!("0 * {b}"),
            format!("{b} - 0"), format!("0 - {b}"), format!("{b} / 1"), format!("1 * {b}"), format!("{b}^0.5^2"), format!("({b}^0.5)^2")] {
            emit(format!("str {}", req_string(&text)));
        }
    }
}
