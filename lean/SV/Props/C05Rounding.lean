import SV.Model.C05
import SV.Lemmas.C05
import SV.Lemmas.Rounding
import SV.Lemmas.RoundingNearest
import SV.Lemmas.RoundingC05
import SV.Props.C05
/-!
# C05, rounding half — "composite Simpson is exact **(to rounding)** for degree ≤ 3", as a theorem

`SV.Props.C05.simpson_exact_cubic` proves over every field of characteristic 0 that
`definite_integral` returns the integral of a cubic for every `n ≥ 2` (rounding error 0).  Here
**the same definitions** `SV.C05.definiteIntegral` / `definiteIntegralP` (the model of
`definite_integral`, `simpson13`, `simpson38`, operation by operation in the order of the source)
are run at the rounding scalar `Fl M` of `SV.Lemmas.Rounding`, where every `+ − × ÷` and every
`usize as f64` / literal is the exact real operation followed by a rounding of relative error `≤ u`.

## What is proved

Notation: `H = (b − a)/n` the exact width, `ĥ = hFl a b n` the computed one (3 roundings);
`node13 ĥ a k`, `mid13 ĥ a k`, `node38 ĥ b j` the abscissae **as the code computes them** — the
running `xi += 2_f64*h`, the midpoints `xi − h`, and `end − h*3, end − h*2, end − h*1, end` —
(`SV.Lemmas.RoundingC05`); `simpsonSum n H F13 Fmid F38` the composite rule as `definite_integral`
arranges it for the segment count `n` (even: 1/3 rule; odd: 3/8 rule on the last three segments,
1/3 rule on the rest; `n = 3`: 3/8 rule alone) as a real expression in the sample values.

* `simpson_rule_rounding` — **rounding envelope of the rule, arbitrary integrand.**  For any
  integrand `g : Fl M → Fl M` (a floating-point routine that cannot fail) and every `n ≥ 2`:
  `|computed − rule(H; g at the computed abscissae)| ≤ γ_m·rule(|H|; |g| at those abscissae)`,
  `m = ⌊n/2⌋ + 13` — i.e. `|computed − (H/3)Σ wᵢfᵢ| ≤ γ_m·(|H|/3)Σ wᵢ|fᵢ|` for the sample values
  `fᵢ` the code obtained.  Count: a sample takes part in at most 3 roundings inside its panel
  (`4_f64*f`: cast and product, one addition), at most `n/2` additions of the running sum, the 6
  roundings of `h*sum/3_f64` (three of them in `h`), and the final `sum += …` (`0.0 + …` is charged);
  in the 3/8 panel 5 + 8 + 2.  Literals are charged one rounding each (the model assumes nothing
  about `rnd` except its relative accuracy; in IEEE small integers are exact, so the true constant
  is smaller by 3 or 4 units).
* `simpson_rule_rounding_eval_error` — the same against a real function `F` that `g` approximates
  pointwise (`|g(x̂) − F(x̂)| ≤ ε`): one more term `ε·|b − a|`.
* `simpson_rule_rounding_lipschitz` — **abscissa rounding included**: if `F` is `Λ`-Lipschitz the
  computed value is compared with the rule at the **exact** abscissae `a + i·H`; the price is
  `Λ·D·|b − a|`, `D = 4·γ_{⌊n/2⌋+6}·max(|a|,|b|)` the proved bound of the drift of every abscissa
  (`xi` after `k` passes is a rounded sum of `a` and `k` copies of `2H`: `γ_{k+5}(|a| + 2k|H|)`).
* `simpson_cubic_rounding` — **the clause of the property**: a cubic `SimplePolynomial` (coefficient
  list `cs`, `len ≤ 4`, evaluated by the model's own `evalSimple`, i.e. `powi` and the left-to-right
  sum, `SV.Props.C01Rounding`), every interval, every `n ≥ 2`, any antiderivative `P`; with
  `X = max(|a|,|b|)`, `D` as above, `X̂ = X + D`:
  `|definite_integral − (P(b) − P(a))| ≤ |b−a|·(γ_{⌊n/2⌋+len+14}·Σ|c_k|X̂^k + D·Σ k|c_k|X̂^{k−1})`.
  Everything is rounded: abscissae, evaluations, weighted sum — no exactness hypothesis.
* `simpson_cubic_rounding_clean` — the same in one term:
  `≤ γ_{⌊n/2⌋+len+14}·|b−a|·Σ_k (4k+1)|c_k|X̂^k`.
* `simpson_cubic_oracle_allowance` — if `(⌊n/2⌋+18)·u ≤ 1/64`,
  `|definite_integral − ∫| ≤ 32·(n+8)·u·|b−a|·Σ_k (k+1)|c_k|X^k`: **the rounding allowance of the
  oracle `tools/props/c05.py` (`32(n+8)u·W·B`) is a theorem** for cubic `SimplePolynomial`s
  (`…_binary64`: for every `n ≤ 2⁴⁰`).
* `simpson_cubic_rounding_ideal` — with `u = 0` the bound collapses to the exactness theorem.

NOT covered: `n = 1` (trapezoid), `IntermediatePolynomial`s (evaluated through `powf`), Romberg,
degrees above 3 (add the truncation term of `simpson_error_bound` to the envelope of
`simpson_rule_rounding_lipschitz`); overflow, underflow, NaN/∞, and the decimal→binary conversion
of the inputs — see the header of `SV.Lemmas.Rounding`.
-/
namespace SV.Props.C05Rounding
open SV SV.Poly SV.C05 Finset Polynomial

variable {M : FlModel}

/-- the model elaborates at the rounding scalar with no change -/
noncomputable example (powf : Fl M → Fl M → Fl M) (p : AnyPoly (Fl M)) (a b : Fl M) (n : ℕ) :
    Except IErr (Fl M) := definiteIntegralP powf p a b n

/-! ## the rule, arbitrary integrand -/

/-- **Rounding envelope of the composite rule.**  `g` is any floating-point integrand that cannot
fail, `n ≥ 2`, `(⌊n/2⌋+13)·u < 1`.  The value `definite_integral` computes differs from the rule
applied (with the exact width `H = (b−a)/n` and exact weights) to the sample values it obtained at
the abscissae it formed, by at most `γ_{⌊n/2⌋+13}` times the rule applied to their absolute values:
`|computed − (H/3)Σwᵢfᵢ| ≤ γ_m·(|H|/3)Σwᵢ|fᵢ|`. -/
theorem simpson_rule_rounding (f : Fl M → Except PErr (Fl M)) (g : Fl M → Fl M)
    (hf : ∀ x, f x = .ok (g x)) (a b : Fl M) (n : ℕ) (hn : 2 ≤ n)
    (hu : ((n / 2 + 13 : ℕ) : ℝ) * M.u < 1) :
    ∃ v, definiteIntegral f a b n = .ok v ∧
      |v.val - simpsonSum n ((b.val - a.val) / n)
          (fun k => (g (node13 (hFl a b n) a k)).val) (fun k => (g (mid13 (hFl a b n) a k)).val)
          (fun j => (g (node38 (hFl a b n) b j)).val)|
        ≤ M.gamma (n / 2 + 13) * simpsonSum n |(b.val - a.val) / n|
          (fun k => |(g (node13 (hFl a b n) a k)).val|)
          (fun k => |(g (mid13 (hFl a b n) a k)).val|)
          (fun j => |(g (node38 (hFl a b n) b j)).val|) := by
  obtain ⟨v, hv, hA⟩ := definiteIntegral_approx (T := fun x => [(g x).val]) (mf := 0) hf
    (fun x => FlModel.Approx.single _) a b n hn
  refine ⟨v, hv, ?_⟩
  rw [Nat.zero_add] at hA
  have hB := hA.abs_sub_le hu
  rw [ruleTerms_abs, ruleTerms_sum, ruleTerms_sum] at hB
  simpa using hB

/-- … against a real function `F` the integrand approximates: if `|g(x̂) − F(x̂)| ≤ ε` at every
floating-point argument, one more term `ε·|b − a|`. -/
theorem simpson_rule_rounding_eval_error (f : Fl M → Except PErr (Fl M)) (g : Fl M → Fl M)
    (hf : ∀ x, f x = .ok (g x)) (F : ℝ → ℝ) (ε : ℝ) (hε : ∀ x, |(g x).val - F x.val| ≤ ε)
    (a b : Fl M) (n : ℕ) (hn : 2 ≤ n) (hu : ((n / 2 + 13 : ℕ) : ℝ) * M.u < 1) :
    ∃ v, definiteIntegral f a b n = .ok v ∧
      |v.val - simpsonSum n ((b.val - a.val) / n)
          (fun k => F (node13 (hFl a b n) a k).val) (fun k => F (mid13 (hFl a b n) a k).val)
          (fun j => F (node38 (hFl a b n) b j).val)|
        ≤ M.gamma (n / 2 + 13) * simpsonSum n |(b.val - a.val) / n|
            (fun k => |(g (node13 (hFl a b n) a k)).val|)
            (fun k => |(g (mid13 (hFl a b n) a k)).val|)
            (fun j => |(g (node38 (hFl a b n) b j)).val|)
          + ε * |b.val - a.val| := by
  obtain ⟨v, hv, hB⟩ := simpson_rule_rounding f g hf a b n hn hu
  refine ⟨v, hv, ?_⟩
  have hn0 : (n : ℝ) ≠ 0 := by exact_mod_cast (by omega : n ≠ 0)
  have hnH : (n : ℝ) * |(b.val - a.val) / (n : ℝ)| = |b.val - a.val| := by
    rw [abs_div, Nat.abs_cast]; field_simp
  have hS := simpsonSum_abs_le n hn ((b.val - a.val) / n)
    (fun k => (g (node13 (hFl a b n) a k)).val - F (node13 (hFl a b n) a k).val)
    (fun k => (g (mid13 (hFl a b n) a k)).val - F (mid13 (hFl a b n) a k).val)
    (fun j => (g (node38 (hFl a b n) b j)).val - F (node38 (hFl a b n) b j).val) ε
    (fun k _ => hε _) (fun k _ => hε _) (fun _ j _ => hε _)
  rw [simpsonSum_sub, hnH] at hS
  have := abs_sub_le v.val
    (simpsonSum n ((b.val - a.val) / n)
      (fun k => (g (node13 (hFl a b n) a k)).val) (fun k => (g (mid13 (hFl a b n) a k)).val)
      (fun j => (g (node38 (hFl a b n) b j)).val))
    (simpsonSum n ((b.val - a.val) / n)
      (fun k => F (node13 (hFl a b n) a k).val) (fun k => F (mid13 (hFl a b n) a k).val)
      (fun j => F (node38 (hFl a b n) b j).val))
  linarith

/-- **… with the rounding of the abscissae included.**  If moreover `F` is `Λ`-Lipschitz, the
computed value is compared with the composite rule at the **exact** abscissae `a + 2kH`,
`a + (2k+1)H`, `b − (3−j)H`: every abscissa the code forms is within
`D = 4·γ_{⌊n/2⌋+6}·max(|a|,|b|)` of the exact one, which costs `Λ·D·|b − a|`. -/
theorem simpson_rule_rounding_lipschitz (f : Fl M → Except PErr (Fl M)) (g : Fl M → Fl M)
    (hf : ∀ x, f x = .ok (g x)) (F : ℝ → ℝ) (ε Λ : ℝ) (hε : ∀ x, |(g x).val - F x.val| ≤ ε)
    (hΛ : ∀ x y, |F x - F y| ≤ Λ * |x - y|)
    (a b : Fl M) (n : ℕ) (hn : 2 ≤ n) (hu : ((n / 2 + 13 : ℕ) : ℝ) * M.u < 1) :
    ∃ v, definiteIntegral f a b n = .ok v ∧
      |v.val - simpsonSum n ((b.val - a.val) / n)
          (fun k => F (a.val + (k : ℝ) * (2 * ((b.val - a.val) / n))))
          (fun k => F (a.val + ((k : ℝ) + 1) * (2 * ((b.val - a.val) / n))
            - (b.val - a.val) / n))
          (fun j => F (b.val - ((3 - j : ℕ) : ℝ) * ((b.val - a.val) / n)))|
        ≤ M.gamma (n / 2 + 13) * simpsonSum n |(b.val - a.val) / n|
            (fun k => |(g (node13 (hFl a b n) a k)).val|)
            (fun k => |(g (mid13 (hFl a b n) a k)).val|)
            (fun j => |(g (node38 (hFl a b n) b j)).val|)
          + (ε + Λ * drift M n (max |a.val| |b.val|)) * |b.val - a.val| := by
  obtain ⟨v, hv, hB⟩ := simpson_rule_rounding_eval_error f g hf F ε hε a b n hn hu
  refine ⟨v, hv, ?_⟩
  have hu6 : ((n / 2 + 6 : ℕ) : ℝ) * M.u < 1 := M.hyp_mono (by omega) hu
  obtain ⟨N13, Nmid, N38⟩ := nodes_near a b n hn hu6
  have hn0 : (n : ℝ) ≠ 0 := by exact_mod_cast (by omega : n ≠ 0)
  have hnH : (n : ℝ) * |(b.val - a.val) / (n : ℝ)| = |b.val - a.val| := by
    rw [abs_div, Nat.abs_cast]; field_simp
  have hΛ0 : 0 ≤ Λ := by
    have := hΛ 1 0
    simp only [sub_zero, abs_one, mul_one] at this
    exact (abs_nonneg _).trans this
  have step : ∀ xh x : ℝ, |xh - x| ≤ drift M n (max |a.val| |b.val|) →
      |F xh - F x| ≤ Λ * drift M n (max |a.val| |b.val|) :=
    fun xh x h => (hΛ xh x).trans (mul_le_mul_of_nonneg_left h hΛ0)
  have hS := simpsonSum_abs_le n hn ((b.val - a.val) / n)
    (fun k => F (node13 (hFl a b n) a k).val
      - F (a.val + (k : ℝ) * (2 * ((b.val - a.val) / n))))
    (fun k => F (mid13 (hFl a b n) a k).val
      - F (a.val + ((k : ℝ) + 1) * (2 * ((b.val - a.val) / n)) - (b.val - a.val) / n))
    (fun j => F (node38 (hFl a b n) b j).val
      - F (b.val - ((3 - j : ℕ) : ℝ) * ((b.val - a.val) / n)))
    (Λ * drift M n (max |a.val| |b.val|))
    (fun k hk => step _ _ (N13 k hk).1) (fun k hk => step _ _ (Nmid k hk).1)
    (fun hodd j hj => step _ _ (N38 hodd j hj).1)
  rw [simpsonSum_sub, hnH] at hS
  have := abs_sub_le v.val
    (simpsonSum n ((b.val - a.val) / n)
      (fun k => F (node13 (hFl a b n) a k).val) (fun k => F (mid13 (hFl a b n) a k).val)
      (fun j => F (node38 (hFl a b n) b j).val))
    (simpsonSum n ((b.val - a.val) / n)
      (fun k => F (a.val + (k : ℝ) * (2 * ((b.val - a.val) / n))))
      (fun k => F (a.val + ((k : ℝ) + 1) * (2 * ((b.val - a.val) / n))
        - (b.val - a.val) / n))
      (fun j => F (b.val - ((3 - j : ℕ) : ℝ) * ((b.val - a.val) / n))))
  linarith

/-- the drift bound used above, on its own: every abscissa `definite_integral` evaluates at is
within `4·γ_{⌊n/2⌋+6}·max(|a|,|b|)` of the exact abscissa `a + i·H` -/
theorem abscissa_drift (a b : Fl M) (n : ℕ) (hn : 2 ≤ n) (hu6 : ((n / 2 + 6 : ℕ) : ℝ) * M.u < 1) :
    (∀ k, k ≤ n / 2 →
      |(node13 (hFl a b n) a k).val - (a.val + (k : ℝ) * (2 * ((b.val - a.val) / n)))|
        ≤ 4 * M.gamma (n / 2 + 6) * max |a.val| |b.val|) ∧
    (∀ k, k < n / 2 →
      |(mid13 (hFl a b n) a k).val
          - (a.val + ((k : ℝ) + 1) * (2 * ((b.val - a.val) / n)) - (b.val - a.val) / n)|
        ≤ 4 * M.gamma (n / 2 + 6) * max |a.val| |b.val|) ∧
    (n % 2 = 1 → ∀ j, j < 4 →
      |(node38 (hFl a b n) b j).val - (b.val - ((3 - j : ℕ) : ℝ) * ((b.val - a.val) / n))|
        ≤ 4 * M.gamma (n / 2 + 6) * max |a.val| |b.val|) := by
  obtain ⟨N13, Nmid, N38⟩ := nodes_near a b n hn hu6
  exact ⟨fun k hk => (N13 k hk).1, fun k hk => (Nmid k hk).1, fun h j hj => (N38 h j hj).1⟩

/-! ## cubics: "exact to rounding" -/

/-- **Composite Simpson is exact to rounding for degree ≤ 3** — everything rounded: the width, the
running abscissae, the evaluations of the polynomial (`evalSimple`: `powi` and the left-to-right
sum), the weighted sum and the final scaling.  `cs` is the coefficient list of a `SimplePolynomial`
of degree ≤ 3 (`len ≤ 4`), `P` any antiderivative of the polynomial with those coefficients, the
interval is arbitrary (reversed, empty), `n ≥ 2` (even, odd, 3) and `(⌊n/2⌋+len+14)·u < 1`.  With
`X = max(|a|,|b|)`, `D = 4·γ_{⌊n/2⌋+6}·X` (abscissa drift) and `X̂ = X + D`:

`|definite_integral(p, a, b, n) − (P(b) − P(a))|
   ≤ |b−a|·( γ_{⌊n/2⌋+len+14}·Σ_k |c_k|·X̂^k  +  D·Σ_k k·|c_k|·X̂^{k−1} )`. -/
theorem simpson_cubic_rounding (powf : Fl M → Fl M → Fl M) (cs : List (Fl M))
    (var : Option Char) (hlen : cs.length ≤ 4) (P : ℝ[X])
    (hP : derivative P = ofCoeffs (cs.map Fl.val)) (a b : Fl M) (n : ℕ) (hn : 2 ≤ n)
    (hu : ((n / 2 + cs.length + 14 : ℕ) : ℝ) * M.u < 1) :
    ∃ v, definiteIntegralP powf (.simple ⟨cs, var⟩) a b n = .ok v ∧
      |v.val - (P.eval b.val - P.eval a.val)|
        ≤ |b.val - a.val| *
          (M.gamma (n / 2 + cs.length + 14)
              * ∑ k ∈ range cs.length, |(cs.getD k 0).val|
                  * (max |a.val| |b.val| + 4 * M.gamma (n / 2 + 6) * max |a.val| |b.val|) ^ k
            + 4 * M.gamma (n / 2 + 6) * max |a.val| |b.val|
              * ∑ k ∈ range cs.length, (k : ℝ) * |(cs.getD k 0).val|
                  * (max |a.val| |b.val| + 4 * M.gamma (n / 2 + 6) * max |a.val| |b.val|)
                      ^ (k - 1)) :=
  definiteIntegral_cubic_core cs hlen P hP a b n hn hu

/-- The same in one term: `≤ γ_{⌊n/2⌋+len+14}·|b−a|·Σ_k (4k+1)·|c_k|·X̂^k`. -/
theorem simpson_cubic_rounding_clean (powf : Fl M → Fl M → Fl M) (cs : List (Fl M))
    (var : Option Char) (hlen : cs.length ≤ 4) (P : ℝ[X])
    (hP : derivative P = ofCoeffs (cs.map Fl.val)) (a b : Fl M) (n : ℕ) (hn : 2 ≤ n)
    (hu : ((n / 2 + cs.length + 14 : ℕ) : ℝ) * M.u < 1) :
    ∃ v, definiteIntegralP powf (.simple ⟨cs, var⟩) a b n = .ok v ∧
      |v.val - (P.eval b.val - P.eval a.val)|
        ≤ M.gamma (n / 2 + cs.length + 14) * |b.val - a.val| *
          ∑ k ∈ range cs.length, (4 * (k : ℝ) + 1) * |(cs.getD k 0).val|
            * (max |a.val| |b.val| + 4 * M.gamma (n / 2 + 6) * max |a.val| |b.val|) ^ k :=
  definiteIntegral_cubic_clean cs hlen P hP a b n hn hu

/-- **The oracle's rounding allowance is a theorem.**  If `(⌊n/2⌋+18)·u ≤ 1/64` then, with
`W = |b−a|`, `X = max(|a|,|b|)`, `B = Σ_k (k+1)|c_k|X^k` as in the docstring of
`tools/props/c05.py`: `|definite_integral − ∫| ≤ 32·(n+8)·u·W·B` for every cubic
`SimplePolynomial`, every interval and every `n ≥ 2`. -/
theorem simpson_cubic_oracle_allowance (powf : Fl M → Fl M → Fl M) (cs : List (Fl M))
    (var : Option Char) (hlen : cs.length ≤ 4) (P : ℝ[X])
    (hP : derivative P = ofCoeffs (cs.map Fl.val)) (a b : Fl M) (n : ℕ) (hn : 2 ≤ n)
    (hu : ((n / 2 + 18 : ℕ) : ℝ) * M.u ≤ 1 / 64) :
    ∃ v, definiteIntegralP powf (.simple ⟨cs, var⟩) a b n = .ok v ∧
      |v.val - (P.eval b.val - P.eval a.val)|
        ≤ 32 * ((n : ℝ) + 8) * M.u * |b.val - a.val| *
          ∑ k ∈ range cs.length, ((k : ℝ) + 1) * |(cs.getD k 0).val| * (max |a.val| |b.val|) ^ k :=
  definiteIntegral_cubic_allowance cs hlen P hP a b n hn hu

/-- With exact arithmetic (`u = 0`) the bound collapses to
`SV.Props.C05.simpson_exact_cubic`: the rounding theorem is a genuine extension of it. -/
theorem simpson_cubic_rounding_ideal (powf : Fl FlModel.ideal → Fl FlModel.ideal → Fl FlModel.ideal)
    (cs : List (Fl FlModel.ideal)) (var : Option Char) (hlen : cs.length ≤ 4) (P : ℝ[X])
    (hP : derivative P = ofCoeffs (cs.map Fl.val)) (a b : Fl FlModel.ideal) (n : ℕ)
    (hn : 2 ≤ n) :
    ∃ v, definiteIntegralP powf (.simple ⟨cs, var⟩) a b n = .ok v ∧
      v.val = P.eval b.val - P.eval a.val := by
  obtain ⟨v, hv, hB⟩ := simpson_cubic_oracle_allowance powf cs var hlen P hP a b n hn
    (by simp [FlModel.ideal])
  refine ⟨v, hv, ?_⟩
  have hu0 : FlModel.ideal.u = 0 := rfl
  rw [hu0, mul_zero, zero_mul, zero_mul] at hB
  exact sub_eq_zero.mp (abs_nonpos_iff.mp hB)

/-- **binary64, numerically.**  For round-to-nearest with a 53-bit significand
(`FlModel.binary64`, no exponent limits) and every `2 ≤ n ≤ 2⁴⁰`:
`|definite_integral − ∫| ≤ 32·(n+8)·2⁻⁵³·|b−a|·Σ_k (k+1)|c_k|·max(|a|,|b|)^k` — the allowance of
the oracle. -/
theorem simpson_cubic_oracle_allowance_binary64
    (powf : Fl FlModel.binary64 → Fl FlModel.binary64 → Fl FlModel.binary64)
    (cs : List (Fl FlModel.binary64)) (var : Option Char) (hlen : cs.length ≤ 4) (P : ℝ[X])
    (hP : derivative P = ofCoeffs (cs.map Fl.val)) (a b : Fl FlModel.binary64) (n : ℕ)
    (hn : 2 ≤ n) (hn' : n ≤ 2 ^ 40) :
    ∃ v, definiteIntegralP powf (.simple ⟨cs, var⟩) a b n = .ok v ∧
      |v.val - (P.eval b.val - P.eval a.val)|
        ≤ 32 * ((n : ℝ) + 8) * (2⁻¹ : ℝ) ^ 53 * |b.val - a.val| *
          ∑ k ∈ range cs.length, ((k : ℝ) + 1) * |(cs.getD k 0).val| * (max |a.val| |b.val|) ^ k := by
  have h := simpson_cubic_oracle_allowance powf cs var hlen P hP a b n hn (by
    rw [FlModel.binary64_u]
    have h1 : ((n / 2 + 18 : ℕ) : ℝ) ≤ 2 ^ 40 := by
      have : n / 2 + 18 ≤ 2 ^ 40 := by omega
      exact_mod_cast this
    calc ((n / 2 + 18 : ℕ) : ℝ) * (2⁻¹ : ℝ) ^ 53 ≤ 2 ^ 40 * (2⁻¹ : ℝ) ^ 53 :=
          mul_le_mul_of_nonneg_right h1 (by positivity)
      _ ≤ 1 / 64 := by norm_num)
  rw [FlModel.binary64_u] at h
  exact h

/-- the rule envelope for binary64: `γ_{⌊n/2⌋+13} ≤ (⌊n/2⌋+13)·2⁻⁵²` -/
theorem simpson_rule_rounding_binary64 (f : Fl FlModel.binary64 → Except PErr (Fl FlModel.binary64))
    (g : Fl FlModel.binary64 → Fl FlModel.binary64) (hf : ∀ x, f x = .ok (g x))
    (a b : Fl FlModel.binary64) (n : ℕ) (hn : 2 ≤ n) (hn' : n / 2 + 13 ≤ 2 ^ 52) :
    ∃ v, definiteIntegral f a b n = .ok v ∧
      |v.val - simpsonSum n ((b.val - a.val) / n)
          (fun k => (g (node13 (hFl a b n) a k)).val) (fun k => (g (mid13 (hFl a b n) a k)).val)
          (fun j => (g (node38 (hFl a b n) b j)).val)|
        ≤ ((n / 2 + 13 : ℕ) : ℝ) * (2⁻¹ : ℝ) ^ 52 * simpsonSum n |(b.val - a.val) / n|
          (fun k => |(g (node13 (hFl a b n) a k)).val|)
          (fun k => |(g (mid13 (hFl a b n) a k)).val|)
          (fun j => |(g (node38 (hFl a b n) b j)).val|) := by
  obtain ⟨hu, hg⟩ := FlModel.binary64_gamma_le hn'
  obtain ⟨v, hv, hB⟩ := simpson_rule_rounding f g hf a b n hn hu
  refine ⟨v, hv, hB.trans (mul_le_mul_of_nonneg_right hg ?_)⟩
  exact simpsonSum_abs_nonneg n _ _ _ _

/-! ## non-vacuity -/

/-- the hypotheses of `simpson_cubic_rounding` are satisfiable in a model with `u > 0` whose rounding
is not the identity (an antiderivative exists: the library's own `indefinite_integral`), and there
the computed integral really differs from the exact one, so the bounds are not `0 ≤ 0`: the
constant `1` over `[0, 2]` with two segments and `rnd t = t·(1 + 1/64)` (`u = 1/32`, `16·u < 1`) -/
example : ∃ (M : FlModel) (powf : Fl M → Fl M → Fl M) (cs : List (Fl M)) (P : ℝ[X]) (v : Fl M),
    0 < M.u ∧ cs.length ≤ 4 ∧ derivative P = ofCoeffs (cs.map Fl.val) ∧
    ((2 / 2 + cs.length + 14 : ℕ) : ℝ) * M.u < 1 ∧
    definiteIntegralP powf (.simple ⟨cs, none⟩) 0 ⟨2⟩ 2 = .ok v ∧
    v.val ≠ P.eval 2 - P.eval 0 := by
  have h32 : (0 : ℝ) ≤ 1 / 32 ∧ (1 / 32 : ℝ) < 1 := by norm_num
  refine ⟨FlModel.skew (1 / 32) h32, fun x _ => x, [1], ofCoeffs (simpleInteg [1]), _,
    by norm_num [FlModel.skew], by simp, derivative_ofCoeffs_simpleInteg _,
    by norm_num [FlModel.skew], rfl, ?_⟩
  rw [← evalSimple_eq, ← evalSimple_eq]
  norm_num [definiteIntegral, simpson13, s13Loop, AnyPoly.evalUni, evalSimple,
    evalSimpleFrom, powi, powiLoop, lit, FlModel.skew, simpleInteg, integFrom, -Nat.cast_ofNat]

/-- … and with three segments (the 3/8 panel alone) -/
example : ∃ (M : FlModel) (powf : Fl M → Fl M → Fl M) (v : Fl M), 0 < M.u ∧
    ((3 / 2 + [(1 : Fl M)].length + 14 : ℕ) : ℝ) * M.u < 1 ∧
    definiteIntegralP powf (.simple ⟨[1], none⟩) 0 ⟨3⟩ 3 = .ok v ∧ v.val ≠ 3 := by
  have h32 : (0 : ℝ) ≤ 1 / 32 ∧ (1 / 32 : ℝ) < 1 := by norm_num
  refine ⟨FlModel.skew (1 / 32) h32, fun x _ => x, _, by norm_num [FlModel.skew],
    by norm_num [FlModel.skew], rfl, ?_⟩
  norm_num [definiteIntegral, simpson38, AnyPoly.evalUni, evalSimple,
    evalSimpleFrom, powi, powiLoop, lit, FlModel.skew, -Nat.cast_ofNat]

end SV.Props.C05Rounding
