import SV.Model.C15
import SV.Lemmas.C15
/-!
# C15 — every regressor returns the least-squares optimum and its own fit statistics

Property theorems only (helper lemmas and the vocabulary `sse`, `NormalEqs`, `sst`, `r2Spec`,
`stdErrSpec`, `SolveSound`, `lsD/lsSlope/lsIntercept`, `energy`, `stepErr` live in
`SV.Lemmas.C15`).  `K` is any linearly ordered field (`Field` alone where no order is used).
The same `SV.C15.lsFit`, `polyFit`, `gdFit`, `predict` run at `Float` in the driver and are compared
bit for bit with `LeastSquaresRegression::fit`, `PolynomialRegression::fit`,
`GradientDescentRegression::fit` and `LinearModel::predict` on every run of the check.

Reading guide.  Data are two lists `x y`; sums run over `x.zip y` exactly as in the code.
`sse c x y = Σ (yᵢ − p_c(xᵢ))²`, `NormalEqs c x y = ∀ j < c.length, Σ (yᵢ − p_c(xᵢ)) xᵢ^j = 0`,
`p_c = predict c` (`predict_is_eval`: `Σ_k c_k t^k`).  The polynomial fit takes the linear solver as
a parameter; `SolveSound solve` (an answer solves the system) is the hypothesis C08 discharges.
`none`/`Outcome.panic` are the model's explicit outcomes for divisions by zero (NaN/±∞ in IEEE
arithmetic) and for the `unwrap` of a refused system.
-/
set_option linter.unusedSectionVars false

namespace SV.Props.C15
open SV SV.C15 SV.C18 Finset

variable {K : Type} [Field K] [LinearOrder K] [IsStrictOrderedRing K] [Inhabited K]

/-! ### prediction -/

/-- `predict` evaluates exactly the coefficient polynomial -/
theorem predict_is_eval (c : List K) (t : K) :
    predict c t = ∑ k ∈ range c.length, c.getD k 0 * t ^ k :=
  predict_eq_eval c t

/-! ### the closed-form line fit -/

/-- the line fit is defined exactly when there is a point and `D = n Σx² − (Σx)² ≠ 0` -/
theorem ls_defined_iff (sqrt : K → K) (x y : List K) :
    lsFit sqrt x y = none ↔ (x.length = 0 ∨ lsD x = 0) := by
  rw [lsFit_eq]
  by_cases h0 : x.length = 0
  · simp [h0]
  · by_cases hD : lsD x = 0
    · simp [h0, hD]
    · simp [h0, hD]

/-- the returned coefficients are the closed forms (intercept first) -/
theorem ls_coeffs (sqrt : K → K) (x y : List K) (f : Fit K) (h : lsFit sqrt x y = some f) :
    x.length ≠ 0 ∧ lsD x ≠ 0 ∧ f.coeffs = [lsIntercept x y, lsSlope x y] := by
  rw [lsFit_eq] at h
  by_cases h0 : x.length = 0
  · rw [if_pos h0] at h; cases h
  · rw [if_neg h0] at h
    by_cases hD : lsD x = 0
    · rw [if_pos hD] at h; cases h
    · rw [if_neg hD] at h
      cases h
      exact ⟨h0, hD, rfl⟩

/-- with `D ≠ 0` the closed-form `(intercept, slope)` satisfy `Σ rᵢ = 0 ∧ Σ rᵢ xᵢ = 0` -/
theorem ls_normal_eqs (sqrt : K → K) (x y : List K) (hxy : x.length = y.length) (f : Fit K)
    (h : lsFit sqrt x y = some f) :
    ∃ a b, f.coeffs = [a, b] ∧
      ((x.zip y).map fun p => p.2 - (a + b * p.1)).sum = 0 ∧
      ((x.zip y).map fun p => (p.2 - (a + b * p.1)) * p.1).sum = 0 := by
  obtain ⟨hn, hD, hc⟩ := ls_coeffs sqrt x y f h
  refine ⟨_, _, hc, ?_, ?_⟩
  all_goals
    have hx : ((x.zip y).map fun p => p.1).sum = x.sum := by
      have := map_zip_fst x y (fun t => t) (le_of_eq hxy)
      simp only [List.map_id'] at this
      rw [this]
    have hy : ((x.zip y).map fun p => p.2).sum = y.sum := by
      have := map_zip_snd x y (fun t => t) (le_of_eq hxy.symm)
      simp only [List.map_id'] at this
      rw [this]
    have hxx : ((x.zip y).map fun p => p.1 ^ 2).sum = (x.map fun xi => xi ^ 2).sum := by
      rw [map_zip_fst x y (fun t => t ^ 2) (le_of_eq hxy)]
    have hlen : ((x.zip y).length : K) = (x.length : K) := by
      rw [List.length_zip, hxy, min_self]
    have hnK : (x.length : K) ≠ 0 := Nat.cast_ne_zero.mpr hn
  · rw [res_sum, hx, hy, hlen]
    unfold lsIntercept lsSlope
    unfold lsD at hD ⊢
    generalize (x.length : K) = N at *
    generalize x.sum = X at *
    generalize y.sum = Y at *
    generalize ((x.zip y).map fun p => p.1 * p.2).sum = XY at *
    generalize (x.map fun xi => xi ^ 2).sum = XX at *
    have hD' : N * XX - X ^ 2 ≠ 0 := by rwa [pow_two]
    field_simp
    ring
  · rw [res_x_sum, hx, hxx]
    unfold lsIntercept lsSlope
    unfold lsD at hD ⊢
    generalize (x.length : K) = N at *
    generalize x.sum = X at *
    generalize y.sum = Y at *
    generalize ((x.zip y).map fun p => p.1 * p.2).sum = XY at *
    generalize (x.map fun xi => xi ^ 2).sum = XX at *
    have hD' : N * XX - X ^ 2 ≠ 0 := by rwa [pow_two]
    field_simp
    ring

/-- hence the line fit satisfies the normal equations of order 1 -/
theorem ls_fit_normalEqs (sqrt : K → K) (x y : List K) (hxy : x.length = y.length) (f : Fit K)
    (h : lsFit sqrt x y = some f) : NormalEqs f.coeffs x y := by
  obtain ⟨a, b, hc, h0, h1⟩ := ls_normal_eqs sqrt x y hxy f h
  rw [hc]
  intro j hj
  simp only [List.length_cons, List.length_nil] at hj
  have hj' : j = 0 ∨ j = 1 := by omega
  rcases hj' with rfl | rfl
  · simpa [predict_pair] using h0
  · simpa [predict_pair] using h1

/-! ### optimality -/

/-- any coefficient list whose residual is orthogonal to `1, x, …, x^m` minimises the sum of squares
over all coefficient lists of that length: `SSE(c') = SSE(c) + Σ (p_c' − p_c)(xᵢ)² ≥ SSE(c)` -/
theorem normal_eqs_optimal (c c' : List K) (x y : List K) (hne : NormalEqs c x y)
    (hlen : c'.length = c.length) :
    sse c' x y = sse c x y + ((x.zip y).map fun p => (predict c' p.1 - predict c p.1) ^ 2).sum ∧
    sse c x y ≤ sse c' x y := by
  have h := sse_decomp c c' x y hne hlen
  refine ⟨h, ?_⟩
  rw [h]
  have : 0 ≤ ((x.zip y).map fun p => (predict c' p.1 - predict c p.1) ^ 2).sum := by
    apply List.sum_nonneg
    intro v hv
    obtain ⟨p, _, rfl⟩ := List.mem_map.mp hv
    exact sq_nonneg _
  linarith

/-- the same against every coefficient list that is not longer (lower order): pad with zeros -/
theorem normal_eqs_optimal_le (c c' : List K) (x y : List K) (hne : NormalEqs c x y)
    (hlen : c'.length ≤ c.length) : sse c x y ≤ sse c' x y := by
  have hpad : sse (c' ++ List.replicate (c.length - c'.length) 0) x y = sse c' x y := by
    unfold sse
    congr 1
    apply List.map_congr_left
    intro p _
    rw [predict_append_zeros]
  rw [← hpad]
  apply (normal_eqs_optimal c _ x y hne _).2
  rw [List.length_append, List.length_replicate]
  omega

/-! ### the polynomial fit -/

/-- the fit panics exactly when the solver refuses the moment system (the `unwrap`) -/
theorem poly_fit_panic_iff (sqrt : K → K) (solve : Mat K → List K → Option (List K)) (order : Nat)
    (x y : List K) :
    polyFit sqrt solve order x y = .panic ↔
      solve (momentMatrix order x) (momentRhs order x y) = none := by
  rw [polyFit_eq]
  cases solve (momentMatrix order x) (momentRhs order x y) <;> simp

/-- when the solve succeeds the returned `order + 1` coefficients satisfy the normal equations -/
theorem poly_fit_normal_eqs (sqrt : K → K) (solve : Mat K → List K → Option (List K))
    (hs : SolveSound solve) (order : Nat) (x y : List K) (hxy : x.length = y.length) (f : Fit K)
    (h : polyFit sqrt solve order x y = .ok f) :
    f.coeffs.length = order + 1 ∧ NormalEqs f.coeffs x y := by
  rw [polyFit_eq] at h
  cases hsol : solve (momentMatrix order x) (momentRhs order x y) with
  | none => rw [hsol] at h; cases h
  | some c =>
    rw [hsol] at h
    simp only [Outcome.ok.injEq] at h
    subst h
    obtain ⟨hl, hrow⟩ := hs _ _ _ hsol
    have hl' : c.length = order + 1 := hl
    exact ⟨hl', normalEqs_of_moment_solution order x y c hxy hl' hrow⟩

/-- so no coefficient list of that order (or lower) has a smaller sum of squares -/
theorem poly_fit_optimal (sqrt : K → K) (solve : Mat K → List K → Option (List K))
    (hs : SolveSound solve) (order : Nat) (x y : List K) (hxy : x.length = y.length) (f : Fit K)
    (h : polyFit sqrt solve order x y = .ok f) (c' : List K) (hc' : c'.length ≤ order + 1) :
    sse f.coeffs x y ≤ sse c' x y := by
  obtain ⟨hl, hne⟩ := poly_fit_normal_eqs sqrt solve hs order x y hxy f h
  exact normal_eqs_optimal_le f.coeffs c' x y hne (by rw [hl]; exact hc')

/-- and so does the line fit -/
theorem ls_fit_optimal (sqrt : K → K) (x y : List K) (hxy : x.length = y.length) (f : Fit K)
    (h : lsFit sqrt x y = some f) (c' : List K) (hc' : c'.length ≤ 2) :
    sse f.coeffs x y ≤ sse c' x y := by
  have hne := ls_fit_normalEqs sqrt x y hxy f h
  obtain ⟨_, _, hc⟩ := ls_coeffs sqrt x y f h
  exact normal_eqs_optimal_le f.coeffs c' x y hne (by rw [hc]; exact hc')

/-- raising the order never increases the residual -/
theorem higher_order_not_worse (sqrt : K → K) (solve : Mat K → List K → Option (List K))
    (hs : SolveSound solve) (m m' : Nat) (hm : m ≤ m') (x y : List K) (hxy : x.length = y.length)
    (f f' : Fit K) (h : polyFit sqrt solve m x y = .ok f) (h' : polyFit sqrt solve m' x y = .ok f') :
    sse f'.coeffs x y ≤ sse f.coeffs x y := by
  obtain ⟨hl, _⟩ := poly_fit_normal_eqs sqrt solve hs m x y hxy f h
  exact poly_fit_optimal sqrt solve hs m' x y hxy f' h' f.coeffs (by omega)

/-- an order-1 polynomial fit equals the line fit (uniqueness comes from `D ≠ 0`, which the line
fit's being defined provides) -/
theorem order1_eq_line_fit (sqrt : K → K) (solve : Mat K → List K → Option (List K))
    (hs : SolveSound solve) (x y : List K) (hxy : x.length = y.length) (f g : Fit K)
    (hp : polyFit sqrt solve 1 x y = .ok f) (hl : lsFit sqrt x y = some g) :
    f.coeffs = g.coeffs := by
  obtain ⟨hlen, hne⟩ := poly_fit_normal_eqs sqrt solve hs 1 x y hxy f hp
  obtain ⟨hn, hD, hc⟩ := ls_coeffs sqrt x y g hl
  rw [hc]
  -- f.coeffs = [c0, c1]
  obtain ⟨c0, c1, hf⟩ : ∃ c0 c1, f.coeffs = [c0, c1] := by
    match hfc : f.coeffs, hlen with
    | [c0, c1], _ => exact ⟨c0, c1, rfl⟩
  rw [hf] at hne ⊢
  have e0 := hne 0 (by simp)
  have e1 := hne 1 (by simp)
  simp only [predict_pair, pow_zero, mul_one, pow_one] at e0 e1
  rw [res_sum] at e0
  rw [res_x_sum] at e1
  have hx : ((x.zip y).map fun p => p.1).sum = x.sum := by
    have := map_zip_fst x y (fun t => t) (le_of_eq hxy)
    simp only [List.map_id'] at this
    rw [this]
  have hy : ((x.zip y).map fun p => p.2).sum = y.sum := by
    have := map_zip_snd x y (fun t => t) (le_of_eq hxy.symm)
    simp only [List.map_id'] at this
    rw [this]
  have hxx : ((x.zip y).map fun p => p.1 ^ 2).sum = (x.map fun xi => xi ^ 2).sum := by
    rw [map_zip_fst x y (fun t => t ^ 2) (le_of_eq hxy)]
  have hlen' : ((x.zip y).length : K) = (x.length : K) := by
    rw [List.length_zip, hxy, min_self]
  rw [hx, hy, hlen'] at e0
  rw [hx, hxx] at e1
  have hnK : (x.length : K) ≠ 0 := Nat.cast_ne_zero.mpr hn
  unfold lsIntercept lsSlope
  unfold lsD at hD ⊢
  generalize (x.length : K) = N at *
  generalize x.sum = X at *
  generalize y.sum = Y at *
  generalize ((x.zip y).map fun p => p.1 * p.2).sum = XY at *
  generalize (x.map fun xi => xi ^ 2).sum = XX at *
  have hD' : N * XX - X ^ 2 ≠ 0 := by rwa [pow_two]
  have hc1 : c1 = (N * XY - X * Y) / (N * XX - X * X) := by
    rw [eq_div_iff hD]
    linear_combination (-N) * e1 + X * e0
  have hc0 : c0 = Y / N - c1 * (X / N) := by
    field_simp
    linear_combination (-1 : K) * e0
  rw [hc0, hc1]

/-! ### the reported statistics -/

/-- line fit: `r2`, `std_err` are the textbook functions of the returned coefficients -/
theorem stats_are_functions_of_coeffs_ls (sqrt : K → K) (x y : List K) (hxy : x.length = y.length)
    (f : Fit K) (h : lsFit sqrt x y = some f) :
    f.r2 = r2Spec f.coeffs x y ∧ f.stdErr = stdErrSpec sqrt f.coeffs x y := by
  rw [lsFit_eq] at h
  by_cases h0 : x.length = 0
  · rw [if_pos h0] at h; cases h
  · rw [if_neg h0] at h
    by_cases hD : lsD x = 0
    · rw [if_pos hD] at h; cases h
    · rw [if_neg hD] at h
      simp only [Option.some.injEq] at h
      rw [hxy, mkFit_spec sqrt _ _ x y (fun t => (predict_pair _ _ t).symm)] at h
      subst h
      exact ⟨rfl, rfl⟩

/-- polynomial fit: the same -/
theorem stats_are_functions_of_coeffs_poly (sqrt : K → K)
    (solve : Mat K → List K → Option (List K)) (order : Nat) (x y : List K) (f : Fit K)
    (h : polyFit sqrt solve order x y = .ok f) :
    f.r2 = r2Spec f.coeffs x y ∧ f.stdErr = stdErrSpec sqrt f.coeffs x y := by
  rw [polyFit_eq] at h
  cases hsol : solve (momentMatrix order x) (momentRhs order x y) with
  | none => rw [hsol] at h; cases h
  | some c =>
    rw [hsol] at h
    simp only [Outcome.ok.injEq] at h
    subst h
    exact ⟨rfl, rfl⟩

/-- gradient descent: the same -/
theorem stats_are_functions_of_coeffs_gd (sqrt : K → K) (steps : Nat) (α : K) (x y : List K)
    (f : Fit K) (h : gdFit sqrt steps α x y = some f) :
    f.r2 = r2Spec f.coeffs x y ∧ f.stdErr = stdErrSpec sqrt f.coeffs x y := by
  rw [gdFit_eq] at h
  by_cases h0 : y.length = 0
  · rw [if_pos h0] at h; cases h
  · rw [if_neg h0] at h
    simp only [Option.some.injEq] at h
    subst h
    exact ⟨rfl, rfl⟩

/-! ### gradient descent (extension) -/

/-- gradient descent is defined exactly for a non-empty response list, starts at `(mean y, 0)` and
returns the weights after `steps` passes of `gdStep` -/
theorem gd_coeffs (sqrt : K → K) (steps : Nat) (α : K) (x y : List K) (f : Fit K)
    (h : gdFit sqrt steps α x y = some f) :
    y.length ≠ 0 ∧
      f.coeffs = [(gdLoop α x y steps (y.sum / (y.length : K), 0)).1,
                  (gdLoop α x y steps (y.sum / (y.length : K), 0)).2] := by
  rw [gdFit_eq] at h
  by_cases h0 : y.length = 0
  · rw [if_pos h0] at h; cases h
  · rw [if_neg h0] at h
    simp only [Option.some.injEq] at h
    subst h
    exact ⟨h0, rfl⟩

/-- one gradient step maps the error `e = w − w*` (`w* = (a, b)` any solution of the normal
equations) by `I − αH`, `H = [[1, mean x], [mean x, mean x²]]` -/
theorem gd_step_affine (α : K) (x y : List K) (hxy : x.length = y.length) (hn : y.length ≠ 0)
    (a b : K) (h0 : ((x.zip y).map fun p => p.2 - (a + b * p.1)).sum = 0)
    (h1 : ((x.zip y).map fun p => (p.2 - (a + b * p.1)) * p.1).sum = 0) (w : K × K) :
    ((gdStep α x y w).1 - a, (gdStep α x y w).2 - b)
      = stepErr α (x.sum / (y.length : K)) ((x.map fun xi => xi ^ 2).sum / (y.length : K))
          (w.1 - a, w.2 - b) := by
  obtain ⟨g0, g1⟩ := grad_sums x y hxy a b h0 h1 w
  rw [gdStep_eq, g0, g1]
  have hnK : (y.length : K) ≠ 0 := Nat.cast_ne_zero.mpr hn
  unfold stepErr
  simp only [Prod.mk.injEq]
  constructor
  · field_simp
    ring
  · field_simp
    ring

/-- one step contracts the error energy `eᵀHe` by `τ = 1 − αμ(2 − αL)` whenever `μI ≤ H ≤ LI`
(written as the 2×2 determinant conditions, which are decidable in exact arithmetic) and
`0 ≤ α ≤ 2/L` -/
theorem gd_energy_contracts (α mx q L μ : K) (hL : 1 ≤ L) (hLq : q ≤ L)
    (hLdet : mx ^ 2 ≤ (L - 1) * (L - q)) (h0 : 0 ≤ μ) (h1 : μ ≤ 1) (hq : μ ≤ q)
    (hμdet : mx ^ 2 ≤ (1 - μ) * (q - μ)) (hα : 0 ≤ α) (hαL : α * L ≤ 2) (e : K × K) :
    energy mx q (stepErr α mx q e) ≤ (1 - α * μ * (2 - α * L)) * energy mx q e :=
  energy_contracts α mx q L μ hL hLq hLdet h0 h1 hq hμdet hα hαL e

/-- contraction of the model's loop towards the least-squares optimum, in the energy norm: after
`k` passes `E(w_k − w*) ≤ τ^k E(w_0 − w*)`.  Partial with respect to the property: the rate is
`τ = 1 − αμ(2 − αL) ≥ max(|1 − αμ|, |1 − αL|)²` (the optimal one is not proved), in the energy norm,
with the spectral bounds `μ`, `L` of `H` as hypotheses. -/
theorem gd_contracts_partial (α : K) (x y : List K) (hxy : x.length = y.length)
    (hn : y.length ≠ 0) (a b : K)
    (hne0 : ((x.zip y).map fun p => p.2 - (a + b * p.1)).sum = 0)
    (hne1 : ((x.zip y).map fun p => (p.2 - (a + b * p.1)) * p.1).sum = 0)
    (L μ : K) (hL : 1 ≤ L) (hLq : (x.map fun xi => xi ^ 2).sum / (y.length : K) ≤ L)
    (hLdet : (x.sum / (y.length : K)) ^ 2
      ≤ (L - 1) * (L - (x.map fun xi => xi ^ 2).sum / (y.length : K)))
    (h0 : 0 ≤ μ) (h1 : μ ≤ 1) (hq : μ ≤ (x.map fun xi => xi ^ 2).sum / (y.length : K))
    (hμdet : (x.sum / (y.length : K)) ^ 2
      ≤ (1 - μ) * ((x.map fun xi => xi ^ 2).sum / (y.length : K) - μ))
    (hα : 0 ≤ α) (hαL : α * L ≤ 2) (k : Nat) (w : K × K) :
    energy (x.sum / (y.length : K)) ((x.map fun xi => xi ^ 2).sum / (y.length : K))
        ((gdLoop α x y k w).1 - a, (gdLoop α x y k w).2 - b)
      ≤ (1 - α * μ * (2 - α * L)) ^ k
        * energy (x.sum / (y.length : K)) ((x.map fun xi => xi ^ 2).sum / (y.length : K))
            (w.1 - a, w.2 - b) := by
  have hτ := tau_nonneg α L μ hL h0 h1 hα hαL
  induction k generalizing w with
  | zero => simp [gdLoop]
  | succ k ih =>
    rw [gdLoop]
    refine le_trans (ih (gdStep α x y w)) ?_
    rw [gd_step_affine α x y hxy hn a b hne0 hne1 w, pow_succ]
    have step := energy_contracts α _ _ L μ hL hLq hLdet h0 h1 hq hμdet hα hαL (w.1 - a, w.2 - b)
    exact le_of_le_of_eq (mul_le_mul_of_nonneg_left step (pow_nonneg hτ k)) (by ring)

/-- the energy is the excess mean squared error over the optimum: `n·E(w − w*) = SSE(w) − SSE(w*)`
— so the contraction above is a statement about the sum of squares the property speaks of -/
theorem gd_energy_is_excess_sse (x y : List K) (hxy : x.length = y.length) (hn : y.length ≠ 0)
    (a b : K) (hne : NormalEqs [a, b] x y) (w : K × K) :
    sse [w.1, w.2] x y - sse [a, b] x y
      = (y.length : K) * energy (x.sum / (y.length : K))
          ((x.map fun xi => xi ^ 2).sum / (y.length : K)) (w.1 - a, w.2 - b) := by
  rw [(normal_eqs_optimal [a, b] [w.1, w.2] x y hne rfl).1, add_sub_cancel_left]
  have e : ((x.zip y).map fun p => (predict [w.1, w.2] p.1 - predict [a, b] p.1) ^ 2)
      = (x.zip y).map fun p =>
          ((w.1 - a) ^ 2 + (2 * (w.1 - a) * (w.2 - b)) * p.1) + (w.2 - b) ^ 2 * p.1 ^ 2 := by
    apply List.map_congr_left
    intro p _
    rw [predict_pair, predict_pair]
    ring
  have hx : ((x.zip y).map fun p => p.1).sum = x.sum := by
    have := map_zip_fst x y (fun t => t) (le_of_eq hxy)
    simp only [List.map_id'] at this
    rw [this]
  have hxx : ((x.zip y).map fun p => p.1 ^ 2).sum = (x.map fun xi => xi ^ 2).sum := by
    rw [map_zip_fst x y (fun t => t ^ 2) (le_of_eq hxy)]
  have hlen : ((x.zip y).length : K) = (y.length : K) := by
    rw [List.length_zip, hxy, min_self]
  rw [e, sum_map_add', sum_map_add', sum_map_const, hlen,
    sum_map_mul_left' (x.zip y) (fun p => p.1) (2 * (w.1 - a) * (w.2 - b)),
    sum_map_mul_left' (x.zip y) (fun p => p.1 ^ 2) ((w.2 - b) ^ 2), hx, hxx]
  have hnK : (y.length : K) ≠ 0 := Nat.cast_ne_zero.mpr hn
  unfold energy
  field_simp

/-! ### non-vacuity -/

/-- `SolveSound` is satisfiable by a solver that does answer: division for 1×1 systems -/
example : SolveSound (fun (M : Mat ℚ) (r : List ℚ) =>
    if M.h = 1 ∧ M.w = 1 ∧ M.get 0 0 ≠ 0 then some [r.getD 0 0 / M.get 0 0] else none) := by
  intro M r c h
  simp only at h
  by_cases hc : M.h = 1 ∧ M.w = 1 ∧ M.get 0 0 ≠ 0
  · rw [if_pos hc] at h
    cases h
    obtain ⟨hh, hw, h00⟩ := hc
    refine ⟨by simp [hw], ?_⟩
    intro i hi
    have : i = 0 := by omega
    subst this
    rw [hw]
    simp only [Finset.sum_range_one, List.getD_cons_zero]
    field_simp
  · rw [if_neg hc] at h; cases h

/-- the line through (0,1), (1,3), (2,5) is recovered: intercept 1, slope 2, r² = 1, std_err = sqrt 0 -/
example (sqrt : ℚ → ℚ) :
    lsFit sqrt [0, 1, 2] [1, 3, 5]
      = some { coeffs := [1, 2], stdErr := some (sqrt 0), r2 := some 1 } := by
  simp [lsFit, mkFit, sqTotal, sqResidual, stdErrOf, r2Of, fsum, powi, powiGo]
  norm_num

/-- repeated abscissae only: `D = 0`, the code divides by zero, the model says undefined -/
example (sqrt : ℚ → ℚ) : lsFit sqrt [2, 2, 2] [1, 3, 5] = none := by
  simp [lsFit, fsum, powi, powiGo]
  norm_num

/-- the normal equations are satisfiable and the optimum is strict against another line -/
example : NormalEqs ([1, 2] : List ℚ) [0, 1, 2] [1, 3, 5] ∧
    sse ([1, 2] : List ℚ) [0, 1, 2] [1, 3, 5] < sse ([0, 2] : List ℚ) [0, 1, 2] [1, 3, 5] := by
  constructor
  · intro j hj
    simp only [List.length_cons, List.length_nil] at hj
    have : j = 0 ∨ j = 1 := by omega
    rcases this with rfl | rfl <;> simp [predict_pair] <;> norm_num
  · simp [sse, predict_pair]
    norm_num

/-- a polynomial fit with a solver that answers: order 0 on constant data, solved by division -/
example (sqrt : ℚ → ℚ) :
    polyFit sqrt (fun M r => some [r.getD 0 0 / M.get 0 0]) 0 [1, 2, 3] [4, 4, 4]
      = .ok { coeffs := [4], stdErr := some (sqrt 0), r2 := none } := by
  simp [polyFit, momentMatrix, momentRhs, mkFit, sqTotal, sqResidual, stdErrOf, r2Of, fsum, powi,
    powiGo, predict, terms, Mat.get, Mat.tab]
  norm_num

/-- a refused system is the panic of `unwrap` -/
example (sqrt : ℚ → ℚ) : polyFit sqrt (fun _ _ => none) 2 [1, 2, 3] [4, 4, 4] = .panic := rfl

/-- the spectral hypotheses of the contraction theorem are satisfiable with a rate below 1:
`mx = 0`, `q = 1` (`H = I`), `μ = L = 1`, `α = 1`: `τ = 0` -/
example : (1 : ℚ) - 1 * 1 * (2 - 1 * 1) = 0 ∧ (0 : ℚ) ^ 2 ≤ (1 - 1) * (1 - 1) := by norm_num

/-- gradient descent on the data above with `x` centred: one step of size 1 lands on the optimum -/
example (sqrt : ℚ → ℚ) :
    (gdFit sqrt 1 1 [-1, 0, 1] [1, 3, 5]).map (·.coeffs) = some [3, 4 / 3] := by
  simp [gdFit, gdLoop, gdStep, mkFit, fsum]
  norm_num

end SV.Props.C15
