namespace SP
/-- `str::split('+')` on a char list. -/
def splitPlus : List Char → List (List Char)
  | [] => [[]]
  | c :: cs =>
    if c = '+' then [] :: splitPlus cs
    else match splitPlus cs with
      | p :: ps => (c :: p) :: ps
      | [] => [[c]]

/-- `.replace("-", "+-")` -/
def dashToPlusDash (s : List Char) : List Char :=
  s.flatMap fun c => if c = '-' then ['+', '-'] else [c]

def stripWs (isWs : Char → Bool) (s : List Char) : List Char := s.filter (fun c => !isWs c)

theorem splitPlus_ne_nil (s : List Char) : splitPlus s ≠ [] := by
  induction s with
  | nil => simp [splitPlus]
  | cons c cs ih =>
    unfold splitPlus
    split
    · simp
    · split <;> simp

theorem splitPlus_noplus (q : List Char) (h : '+' ∉ q) : splitPlus q = [q] := by
  induction q with
  | nil => rfl
  | cons c cs ih =>
    have hc : c ≠ '+' := by intro e; apply h; simp [e]
    have hcs : '+' ∉ cs := by intro e; apply h; simp [e]
    simp [splitPlus, hc, ih hcs]

theorem splitPlus_append (q r : List Char) (h : '+' ∉ q) :
    splitPlus (q ++ '+' :: r) = q :: splitPlus r := by
  induction q with
  | nil => simp [splitPlus]
  | cons c cs ih =>
    have hc : c ≠ '+' := by intro e; apply h; simp [e]
    have hcs : '+' ∉ cs := by intro e; apply h; simp [e]
    simp [splitPlus, hc, ih hcs]

/-- joining '+'-free pieces with a leading '+' each, then splitting, gives "" :: pieces -/
theorem splitPlus_join (qs : List (List Char)) (h : ∀ q ∈ qs, '+' ∉ q) :
    splitPlus (qs.flatMap fun q => '+' :: q) = [] :: qs ∨ qs = [] := by
  induction qs with
  | nil => right; rfl
  | cons q qs ih =>
    left
    have hq : '+' ∉ q := h q (by simp)
    have hqs : ∀ q ∈ qs, '+' ∉ q := fun q' hq' => h q' (by simp [hq'])
    simp only [List.flatMap_cons, List.cons_append]
    rcases ih hqs with ih | rfl
    · rw [splitPlus]; simp only [↓reduceIte]
      cases hflat : (qs.flatMap fun q => '+' :: q) with
      | nil =>
        cases qs with
        | nil => simp [splitPlus_noplus q hq]
        | cons a as => simp at hflat
      | cons a as =>
        have ha : a = '+' := by
          cases qs with
          | nil => simp at hflat
          | cons b bs => simp at hflat; exact hflat.1.symm
        subst ha
        rw [splitPlus_append q as hq]
        rw [hflat] at ih
        simp [splitPlus] at ih
        simp [ih]
    · simp [splitPlus, splitPlus_noplus q hq]

end SP
