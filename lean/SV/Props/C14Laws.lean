import SV.Model.C14
import SV.Lemmas.C14
import SV.Props.C14
import Mathlib.Algebra.Order.Field.Basic
import Mathlib.Analysis.Real.Sqrt
/-!
# C14 — the Hessenberg reduction on already reduced input; the skip test is an exact zero test

The skip test of the code (`x = Σ_{i=k+1}^{n-1} h[i][k]²`, `norm_x = x.sqrt()`,
`if norm_x == 0.0 { continue }`) looks at the WHOLE sub-column from row `k+1` on — the sub-diagonal
entry `h[k+1][k]` included.  So the class of inputs on which every pass is skipped is not "upper
Hessenberg" but "every column `k < n-2` is zero below the diagonal" (upper triangular, except that the
last sub-diagonal entry `A[n-1][n-2]` is free — no pass looks at it).  For that class the reduction
returns `(A, I)` exactly (`hessenberg_of_triangular`).  For an upper Hessenberg input with a non-zero
sub-diagonal entry the reflector IS applied (it flips the sign of that entry — see the `ℚ` example),
so `(A, I)` is NOT what the code returns there; idempotence holds on the triangular class only
(`hessenberg_idem_of_triangular`).

The last examples are the `ℚ` witness that the skip test is an exact zero test: a sub-column
`(0, 10⁻¹²)ᵀ` is not skipped.
-/
set_option linter.unusedSectionVars false

namespace SV.Props.C14Laws
open SV SV.C14 Finset

variable {K : Type} [Field K] [LinearOrder K] [IsStrictOrderedRing K] [Inhabited K]

/-- the hypothesis `sqrt 0 = 0` follows from the hypothesis on `sqrt` the other C14 theorems use -/
theorem sqrt_zero_of_isSqrt (sqrt : K → K)
    (hs : ∀ x : K, 0 ≤ x → sqrt x * sqrt x = x ∧ 0 ≤ sqrt x) : sqrt 0 = 0 :=
  mul_self_eq_zero.mp (hs 0 le_rfl).1

/-- the squared norm of a sub-column that is zero from row `k+1` on is `0` (exactly) -/
theorem colNormSq_zero (n k : Nat) (H : Mat K)
    (hz : ∀ i, k < i → i < n → H.get i k = 0) : colNormSq n k H = 0 := by
  rw [colNormSq_eq]
  apply Finset.sum_eq_zero
  intro t ht
  have := Finset.mem_range.mp ht
  rw [hz (k + 1 + t) (by omega) (by omega), mul_zero]

/-- **One pass on a column that is zero below the diagonal takes the skip branch**: the state
`(h, q)` is returned unchanged, whatever `q` is.  Only `sqrt 0 = 0` is used of `sqrt`. -/
theorem step_of_zero_subcol (sqrt : K → K) (h0 : sqrt 0 = 0) (n k : Nat) (s : Mat K × Mat K)
    (hz : ∀ i, k < i → i < n → s.1.get i k = 0) : step sqrt n k s = s := by
  apply SV.Props.C14.step_skip
  show sqrt (colNormSq n k s.1) = 0
  rw [colNormSq_zero n k s.1 hz, h0]

private theorem foldl_fix {α β : Type} (f : α → β → α) (s : α) (l : List β)
    (h : ∀ k ∈ l, f s k = s) : l.foldl f s = s := by
  induction l with
  | nil => rfl
  | cons a l ih =>
    rw [List.foldl_cons, h a (by simp)]
    exact ih fun k hk => h k (by simp [hk])

/-- **The reduction is the identity on already reduced input, with `Q = I` exactly.**  If `A` is
square and every column `k < n-2` is zero below the diagonal (`A[i][k] = 0` for `k < i < n`; this is
what the code's skip test reads: the whole sub-column from row `k+1`), then every pass of the loop
is skipped and `hessenberg` returns `(A, I)` — the very same buffer, no entry recomputed. -/
theorem hessenberg_of_triangular (sqrt : K → K) (h0 : sqrt 0 = 0) (A : Mat K) (hsq : A.h = A.w)
    (hz : ∀ i k, k + 2 < A.h → k < i → i < A.h → A.get i k = 0) :
    hessenberg sqrt A = .ok (A, Mat.ident A.h) := by
  unfold hessenberg
  rw [if_neg (not_not.mpr hsq)]
  by_cases h2 : A.h ≤ 2
  · rw [if_pos h2]
  · rw [if_neg h2, foldl_fix]
    intro k hk
    have hk' : k < A.h - 2 := List.mem_range.mp hk
    exact step_of_zero_subcol sqrt h0 A.h k _ fun i hi hin => hz i k (by omega) hi hin

/-- the same for upper TRIANGULAR input (`A[i][j] = 0` whenever `j < i`) -/
theorem hessenberg_of_upper_triangular (sqrt : K → K) (h0 : sqrt 0 = 0) (A : Mat K)
    (hsq : A.h = A.w) (hz : ∀ i j, j < i → i < A.h → A.get i j = 0) :
    hessenberg sqrt A = .ok (A, Mat.ident A.h) :=
  hessenberg_of_triangular sqrt h0 A hsq fun i k _ hi hin => hz i k hi hin

/-- **Idempotence on the class the skip test supports**: if a run returned `(H, Q)` and `H` is
square with zero columns below the diagonal (for `k < n-2`), a second run on `H` returns `(H, I)`. -/
theorem hessenberg_idem_of_triangular (sqrt : K → K) (h0 : sqrt 0 = 0) (A H Q : Mat K)
    (_hr : hessenberg sqrt A = .ok (H, Q)) (hsq : H.h = H.w)
    (hz : ∀ i k, k + 2 < H.h → k < i → i < H.h → H.get i k = 0) :
    hessenberg sqrt H = .ok (H, Mat.ident H.h) :=
  hessenberg_of_triangular sqrt h0 H hsq hz

/-- **A run on such an input, run again on its own result, is the same result** -/
theorem hessenberg_twice_of_triangular (sqrt : K → K) (h0 : sqrt 0 = 0) (A : Mat K)
    (hsq : A.h = A.w) (hz : ∀ i k, k + 2 < A.h → k < i → i < A.h → A.get i k = 0) :
    (hessenberg sqrt A).bind (fun r => hessenberg sqrt r.1) = hessenberg sqrt A := by
  rw [hessenberg_of_triangular sqrt h0 A hsq hz]
  exact hessenberg_of_triangular sqrt h0 A hsq hz

/-! ### non-vacuity and the witnesses, evaluated by the kernel over `ℚ` -/

/-- a rational "square root" exact on `0`, `9` and `10⁻²⁴` -/
private def sq (x : Rat) : Rat :=
  if x = 9 then 3 else if x = 1 / 10 ^ 24 then 1 / 10 ^ 12 else 0

/-- an upper triangular 4×4 matrix, except for the free entry `T[3][2] = 7` -/
private def T : Mat Rat := ⟨4, 4, #[1, 2, 3, 4, 0, 5, 6, 7, 0, 0, 8, 9, 0, 0, 7, 1]⟩

/-- `T` is returned unchanged with `Q = I` (an instance of the theorem) -/
example : hessenberg sq T = .ok (T, Mat.ident 4) :=
  hessenberg_of_triangular sq (by decide +kernel) T rfl fun i k hk hi hin =>
    (by decide +kernel : ∀ i < 4, ∀ k < 2, k < i → T.get i k = 0) i hin k
      (by have : k + 2 < 4 := hk; omega) hi

/-- the theorem at `ℝ` with `Real.sqrt` -/
example (A : Mat ℝ) (hsq : A.h = A.w) (hz : ∀ i j, j < i → i < A.h → A.get i j = 0) :
    hessenberg Real.sqrt A = .ok (A, Mat.ident A.h) :=
  hessenberg_of_upper_triangular Real.sqrt Real.sqrt_zero A hsq hz

/-- **"Upper Hessenberg" is NOT enough**: the 3×3 upper Hessenberg matrix with first column
`(1, 3, 0)ᵀ` is not skipped (the test reads `h[1][0]` too, `norm_x = 3`); the reflector flips the
sign of the sub-diagonal entry, `H[1][0] = -3`, and `Q ≠ I` (`Q[1][1] = -1`). -/
example : (match hessenberg sq (⟨3, 3, #[1, 2, 3, 3, 1, 0, 0, 0, 1]⟩ : Mat Rat) with
    | .ok (H, Q) => H.get 1 0 == -3 && H.get 2 0 == 0 && Q.get 1 1 == -1 | _ => false) = true := by
  decide +kernel

/-- **The skip test is an EXACT zero test**: the sub-column `(0, 10⁻¹²)ᵀ` (`norm_x = 10⁻¹²`, far
below any absolute tolerance such as `1e-10`) is NOT skipped: the reflector is applied, `H[2][0] = 0`
and `H[1][0] = -10⁻¹²` afterwards, and `Q` is not the identity (`Q[1][1] = 0`, `Q[1][2] = -1`) — so the result differs from the `(A, I)` a
skipping implementation would return. -/
example : (match hessenberg sq (⟨3, 3, #[1, 2, 3, 0, 1, 0, 1 / 10 ^ 12, 0, 1]⟩ : Mat Rat) with
    | .ok (H, Q) => H.get 2 0 == 0 && H.get 1 0 == -1 / 10 ^ 12 && Q.get 1 1 == 0 && Q.get 1 2 == -1
        && Q.a != (Mat.ident 3 : Mat Rat).a
    | _ => false) = true := by
  decide +kernel

end SV.Props.C14Laws
