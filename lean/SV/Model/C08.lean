import SV.Model.Wire
import SV.Model.Subst
/-!
Model of `gaussian_elimination`, `forward_elimination`, `partial_pivot`
(spindalis/src/solvers/gaussian_elim.rs), generic in the scalar.

The state of the elimination is the triple the Rust code mutates: coefficient matrix, right-hand
side, scale vector.  One outer iteration `k` of `forward_elimination` is `partialPivot` followed by
`elimStep`, each one tabulation over the previous state.  That is faithful to the in-place loops
because, within step `k`, the code reads only row `k` (which it does not write) and the entries
`a[i][k]`, `a[i][j]`, `b[i]` of the row `i > k` it is about to overwrite, before overwriting them
(`a[i][k]` itself is never overwritten: the inner loop starts at `j = k+1`).

Like the code, `elimStep` changes only the columns `j > k` of the rows `i > k`; the entries below
the diagonal keep whatever they held ("garbage"), and back substitution never reads them.
-/
namespace SV.C08
open SV

/-- the error kinds `gaussian_elimination` can return for a converted matrix -/
inductive GaussErr where
  | nonSquare
  | numArgs (rows rhs : Nat)
  | singular
deriving Repr, DecidableEq

/-- `coeff_matrix`, `rhs_vector`, `scale_factor` -/
structure St (S : Type) where
  m : Mat S
  r : Array S
  s : Array S

variable {S : Type} [Inhabited S] [Add S] [Sub S] [Mul S] [Div S] [Neg S] [OfNat S 0]
  [LT S] [DecidableRel (α := S) (· < ·)] [BEq S]

/-- `scale_factor[i]`: starts at `|a[i][0]|`, replaced by `|a[i][j]|` (j = 1..n-1) when that is
strictly greater -/
def rowScale (A : Mat S) (n i : Nat) : S :=
  (List.range' 1 (n - 1)).foldl
    (fun sc j => if sc < sabs (A.get i j) then sabs (A.get i j) else sc)
    (sabs (A.get i 0))

/-- the search of `partial_pivot`: `(p, big)` starts at `(k, |a[k][k]/s[k]|)`; row `ii` replaces it
when `|a[ii][k]/s[ii]| > big` (strict: the first maximum wins) -/
def pivotSearch (M : Mat S) (s : Array S) (n k : Nat) : Nat × S :=
  (List.range' (k + 1) (n - (k + 1))).foldl
    (fun (pb : Nat × S) ii =>
      let temp := sabs (M.get ii k / vget s ii)
      if pb.2 < temp then (ii, temp) else pb)
    (k, sabs (M.get k k / vget s k))

/-- `slice.swap(p, q)` -/
def vswap (v : Array S) (p q : Nat) : Array S :=
  vtab v.size fun i => if i = p then vget v q else if i = q then vget v p else vget v i

/-- `partial_pivot`: when `p ≠ k`, rows `p` and `k` of the matrix, of the right-hand side and of the
scale vector are exchanged -/
def partialPivot (st : St S) (n k : Nat) : St S :=
  let p := (pivotSearch st.m st.s n k).1
  if p = k then st
  else { m := st.m.swapRows p k, r := vswap st.r p k, s := vswap st.s p k }

/-- the elimination loops of step `k`:
`factor = a[i][k]/a[k][k]; a[i][j] -= factor*a[k][j]` (j > k); `b[i] -= factor*b[k]`, for i > k -/
def elimStep (st : St S) (n k : Nat) : St S :=
  { m := Mat.tab n n fun i j =>
      if k < i ∧ k < j then st.m.get i j - st.m.get i k / st.m.get k k * st.m.get k j
      else st.m.get i j
    r := vtab n fun i =>
      if k < i then vget st.r i - st.m.get i k / st.m.get k k * vget st.r k else vget st.r i
    s := st.s }

/-- the scaled-pivot test `|a[k][k]/s[k]| < tol` -/
def pivotSmall (st : St S) (tol : S) (k : Nat) : Bool :=
  sabs (st.m.get k k / vget st.s k) < tol

/-- `for k in k..k+t` of `forward_elimination`; `none` = `error_flag = -1; return` -/
def feLoop (tol : S) (n : Nat) : Nat → Nat → St S → Option (St S)
  | 0, _, st => some st
  | t + 1, k, st =>
    let st1 := partialPivot st n k
    if pivotSmall st1 tol k then none
    else feLoop tol n t (k + 1) (elimStep st1 n k)

/-- `forward_elimination` (for `n ≥ 1`): steps `k = 0..n-2`, then the test on the last diagonal
entry; `none` = flagged -/
def forwardElim (tol : S) (n : Nat) (st : St S) : Option (St S) :=
  match feLoop tol n (n - 1) 0 st with
  | none => none
  | some st' => if pivotSmall st' tol (n - 1) then none else some st'

/-- `gaussian_elimination` after the conversion of the container to `Arr2D<f64>` -/
def gaussSolve (A : Mat S) (b : Array S) (tol : S) : Outcome GaussErr (Array S) :=
  if A.h ≠ A.w then .err .nonSquare
  else if A.h ≠ b.size then .err (.numArgs A.h b.size)
  else if A.h = 0 then .err (.numArgs 0 0)
  else
    let n := A.h
    let s := vtab n (rowScale A n)
    if (List.range n).any (fun i => vget s i == 0) then .err .singular
    else
      match forwardElim tol n { m := A, r := b, s := s } with
      | none => .err .singular
      | some st =>
        match Subst.backSubst st.m n st.r (vtab n fun _ => 0) with
        | .ok x => .ok x
        | _ => .panic

end SV.C08

/-! ### driver -/
namespace SV.C08.Driver
open SV SV.Wire SV.C08

def fmtGauss : Outcome GaussErr (Array Float) → String
  | .ok x => "ok " ++ fmtList fmtF x.toList
  | .err .nonSquare => "err nonsquare"
  | .err (.numArgs _ _) => "err numargs"
  | .err .singular => "err singular"
  | .panic => "panic"

def fmtSubst : Outcome Empty (Array Float) → String
  | .ok x => "ok " ++ fmtList fmtF x.toList
  | .err e => nomatch e
  | .panic => "panic"

/-- a number token: `i<int>` (a small integer, converted exactly) or the decimal `u64` of the bits -/
def num : P Float := fun ts => match ts with
  | [] => none
  | t :: r =>
    if t.startsWith "i" then
      match (t.drop 1).toInt? with
      | some k => some (Float.ofInt k, r)
      | none => none
    else
      match t.toNat? with
      | some n => some (Float.ofBits n.toUInt64, r)
      | none => none

/-- `TryFrom<Vec<Vec<T>>>` / `TryFrom<&Vec<Vec<T>>>`: width = length of the first row; a row of another
length is `InconsistentRowLengths`; no rows = the 0×0 array -/
def ofRows (rows : List (List Float)) : Option (Mat Float) :=
  match rows with
  | [] => some ⟨0, 0, #[]⟩
  | r0 :: _ =>
    if rows.all (fun r => r.length == r0.length) then
      some ⟨rows.length, r0.length, (rows.flatten).toArray⟩
    else none

/-- requests
* `gauss <kind> <h> <w> a… <nb> b… <tol>` — the container kind only selects the Rust entry point
* `gaussjag <kind> <rows> <len₀> a… <len₁> a… … <nb> b… <tol>` — a nested `Vec` with any row lengths
* `back <h> <w> a… <size> <nb> b… <ns>` / `forward …` — `ns` = length of the (zeroed) solution slice
-/
def handle (line : String) : String :=
  let p : P String := do
    let cmd ← tok
    match cmd with
    | "gauss" => do
      let _kind ← tok
      let a ← mat num
      let b ← vec num
      let tol ← num
      return fmtGauss (gaussSolve a b.toArray tol)
    | "gaussjag" => do
      let _kind ← tok
      let nrows ← nat
      let rows ← many nrows (vec num)
      let b ← vec num
      let tol ← num
      return match ofRows rows with
        | some a => fmtGauss (gaussSolve a b.toArray tol)
        | none => "err invalid"
    | "back" => do
      let a ← mat num
      let n ← nat
      let b ← vec num
      let ns ← nat
      return fmtSubst (Subst.backSubst a n b.toArray (vtab ns fun _ => (0.0 : Float) / 0.0))
    | "forward" => do
      let a ← mat num
      let n ← nat
      let b ← vec num
      let ns ← nat
      return fmtSubst (Subst.forwardSubst a n b.toArray (vtab ns fun _ => (0.0 : Float) / 0.0))
    | _ => fail
  match run p line with
  | some s => s
  | none => "bad-request"

end SV.C08.Driver
