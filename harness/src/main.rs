//! svharness — runs the real spindalis code in-process on request lines.
//!
//!   svharness <prop> gen <seed> <quick|thorough>   print generated request lines
//!   svharness <prop> run                           read request lines on stdin; for each print
//!                                                  `<observation>\t<oracle verdict>`
//!
//! The observation is the canonicalised behaviour of the implementation (compared with the Lean
//! model's response by ./check); the oracle verdict (`-`, `ok`, or `FAIL <reason>`) is the
//! property's own oracle evaluated on the implementation's output, independent of the model.
mod util;
#[macro_use]
mod polyio;
mod polyops;

mod c01;
mod c02;
mod c11;
mod c10;
mod c07;
mod c06;
mod c05;
mod c14;
mod c13;
mod c04;
mod c03;
mod c09;
mod c12;
mod c18;
mod c15;
mod c08;
mod c16;
mod c17;
mod c19;
mod c20;

use std::io::{BufRead, Write};
use util::Obs;

type GenFn = fn(u64, bool, &mut dyn FnMut(String));
type RunFn = fn(&str) -> Obs;

fn table(prop: &str) -> Option<(GenFn, RunFn)> {
    match prop {
        "C01" => Some((c01::generate, c01::run)),
        "C02" => Some((c02::generate, c02::run)),
        "C11" => Some((c11::generate, c11::run)),
        "C10" => Some((c10::generate, c10::run)),
        "C07" => Some((c07::generate, c07::run)),
        "C06" => Some((c06::generate, c06::run)),
        "C05" => Some((c05::generate, c05::run)),
        "C14" => Some((c14::generate, c14::run)),
        "C13" => Some((c13::generate, c13::run)),
        "C04" => Some((c04::generate, c04::run)),
        "C03" => Some((c03::generate, c03::run)),
        "C09" => Some((c09::generate, c09::run)),
        "C12" => Some((c12::generate, c12::run)),
        "C18" => Some((c18::generate, c18::run)),
        "C15" => Some((c15::generate, c15::run)),
        "C08" => Some((c08::generate, c08::run)),
        "C16" => Some((c16::generate, c16::run)),
        "C17" => Some((c17::generate, c17::run)),
        "C19" => Some((c19::generate, c19::run)),
        "C20" => Some((c20::generate, c20::run)),
        "POLY" => Some((polyops::generate, polyops::run)),
        _ => None,
    }
}

fn main() {
    let args: Vec<String> = std::env::args().collect();
    if args.len() < 3 {
        eprintln!("usage: svharness <prop> gen <seed> <tier> | svharness <prop> run");
        std::process::exit(2);
    }
    let Some((generate, run)) = table(&args[1]) else {
        eprintln!("unknown property {}", args[1]);
        std::process::exit(2);
    };
    let stdout = std::io::stdout();
    let mut out = std::io::BufWriter::new(stdout.lock());
    match args[2].as_str() {
        "gen" => {
            let seed: u64 = args.get(3).and_then(|s| s.parse().ok()).unwrap_or(0);
            let thorough = args.get(4).map(|s| s == "thorough").unwrap_or(false);
            let mut emit = |line: String| {
                writeln!(out, "{line}").unwrap();
            };
            generate(seed, thorough, &mut emit);
        }
        "run" if args[1] == "C20" => {
            // needs a compiler in the loop: the whole batch goes into one generated crate
            util::silence_panics();
            let lines: Vec<String> = std::io::stdin().lock().lines().map(|l| l.unwrap()).filter(|l| !l.trim().is_empty()).collect();
            for o in c20::run_batch(&lines) {
                let oracle = match o.oracle {
                    None => "-".to_string(),
                    Some(Ok(())) => "ok".to_string(),
                    Some(Err(e)) => format!("FAIL {e}"),
                };
                writeln!(out, "{}\t{}", o.obs, oracle).unwrap();
            }
        }
        "run" => {
            util::silence_panics();
            let stdin = std::io::stdin();
            for line in stdin.lock().lines() {
                let line = line.unwrap();
                if line.trim().is_empty() {
                    continue;
                }
                let r = util::catch(|| run(&line));
                let (obs, oracle) = match r {
                    Some(o) => (
                        o.obs,
                        match o.oracle {
                            None => "-".to_string(),
                            Some(Ok(())) => "ok".to_string(),
                            Some(Err(e)) => format!("FAIL {e}"),
                        },
                    ),
                    None => ("harness-panic".to_string(), "-".to_string()),
                };
                writeln!(out, "{obs}\t{oracle}").unwrap();
            }
        }
        other => {
            eprintln!("unknown mode {other}");
            std::process::exit(2);
        }
    }
    out.flush().unwrap();
}
