import SV.Model.C16
/-!
C20 driver: the compile-time macros call the runtime parsers on the token text of their input, so the
model of a macro invocation is the parser model on that text:

    m1 <text> / bad1 <text>   → answer of the univariate parser model
    m2 <text> / bad2 <text>   → answer of the multivariate parser model
-/
namespace SV.C20
open SV SV.Wire SV.Text

/-- the macro as a function of the text it receives from the token printer `tp` -/
def macroSimple (cc : CharClass) (cap : Nat) (tp : List Char → List Char) (s : List Char) :=
  C01.parse cc cap (tp s)

def macroInter (cc : CharClass) (tp : List Char → List Char) (s : List Char) :=
  C02.parse cc (tp s)

/-- Driver only.  The request carries the SOURCE text of the invocation.  Rust's tokenizer drops its white space
(Pattern_White_Space: U+0009..U+000D, U+0020, U+0085, U+200E, U+200F, U+2028, U+2029) and the token printer writes a plain
space or a line break between tokens, so - as far as a parser that ignores white space can tell - the text the macro
receives is the source with each of these characters turned into `' '`. -/
def isPatternWs (c : Char) : Bool :=
  c = '\t' || c = '\n' || c = '\x0B' || c = '\x0C' || c = '\r' || c = ' ' || c = '\u0085' ||
  c = '\u200e' || c = '\u200f' || c = '\u2028' || c = '\u2029'

def tokenText (s : List Char) : List Char := s.map fun c => if isPatternWs c then ' ' else c

def handle (line : String) : String :=
  let p : P String := do
    let cmd ← tok
    let s ← chars
    match cmd with
    | "m1" | "bad1" => return C16.answer1 Num.show (tokenText s)
    | "m2" | "bad2" => return C16.answer2 Num.show (tokenText s)
    | _ => fail
  match run p line with
  | some s => s
  | none => "bad-request"

end SV.C20
