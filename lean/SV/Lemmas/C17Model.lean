import SV.Lemmas.C17Simple
/-!
Lemmas for the print / parse round trips of C17, part 3: `modelString`
(`LinearModel::to_polynomial_string`: ascending powers, signed `{:.5}` texts, the parts joined by
`" + "`, then `"+ -"` rewritten to `"- "`) against the univariate parser model `SV.C01.parse`.

* `replacePlusMinus`        structural lemmas of the rewrite
* `stripWs_joined`          for ANY well-formed term list: the parts `renderPart` joined by `" + "`,
                            rewritten, without white space, are `render v false ts`
* `modelTerms`, `stripWs_modelString`, `modelTerms_sum`, `parse_modelString`
-/
namespace SV.C17
open SV SV.Text SV.C01

/-! ### `replacePlusMinus` -/

theorem rpm_cons_ne {c : Char} (hc : c ≠ '+') (rest : List Char) :
    replacePlusMinus (c :: rest) = c :: replacePlusMinus rest := by
  rw [replacePlusMinus.eq_2]
  intro _ h _
  exact hc h

theorem rpm_append {a : List Char} (ha : '+' ∉ a) (rest : List Char) :
    replacePlusMinus (a ++ rest) = a ++ replacePlusMinus rest := by
  induction a with
  | nil => rfl
  | cons c a ih =>
    have hc : c ≠ '+' := by intro e; apply ha; simp [e]
    have ha' : '+' ∉ a := by intro e; apply ha; simp [e]
    rw [List.cons_append, rpm_cons_ne hc, ih ha', List.cons_append]

theorem rpm_plus_dash (rest : List Char) :
    replacePlusMinus ('+' :: ' ' :: '-' :: rest) = '-' :: ' ' :: replacePlusMinus rest :=
  replacePlusMinus.eq_1 rest

theorem rpm_plus_other {c : Char} (hc : c ≠ '-') (rest : List Char) :
    replacePlusMinus ('+' :: ' ' :: c :: rest) = '+' :: ' ' :: replacePlusMinus (c :: rest) := by
  rw [replacePlusMinus.eq_2, rpm_cons_ne (by decide)]
  intro r _ h
  simp only [List.cons.injEq, true_and] at h
  exact hc h.1

/-! ### parts joined by `" + "` -/

theorem intercalate_cons (sep p : List Char) (ps : List (List Char)) :
    sep.intercalate (p :: ps) = p ++ ps.flatMap fun q => sep ++ q := by
  induction ps generalizing p with
  | nil => simp [List.intercalate]
  | cons q qs ih =>
    have := ih q
    simp only [List.intercalate, List.intersperse_cons_cons, List.flatten_cons, List.flatMap_cons] at this ⊢
    rw [this]
    simp

/-- the rewrite on the later parts: a part that starts with `-` takes the operator `" - "` -/
theorem rpm_tail {cap : Nat} {v : Char} (hv : VarOK v) (ts : List TermSyn) (hts : WellFormed cap ts) :
    replacePlusMinus (ts.flatMap fun t => [' ', '+', ' '] ++ t.renderPart v) =
      ts.flatMap fun t => (if t.neg then [' ', '-', ' '] else [' ', '+', ' ']) ++ t.renderAbs v := by
  induction ts with
  | nil => rfl
  | cons t ts ih =>
    have ht : t.WF cap := hts t (by simp)
    have hts' : WellFormed cap ts := fun t' h' => hts t' (by simp [h'])
    have hplus := plus_not_mem_renderAbs ht hv
    have hdash := dash_not_mem_renderAbs ht hv
    rw [List.flatMap_cons, List.flatMap_cons, ← ih hts']
    unfold TermSyn.renderPart
    cases hn : t.neg with
    | true =>
      simp only [if_true, List.cons_append, List.nil_append]
      rw [rpm_cons_ne (by decide), rpm_plus_dash, rpm_append hplus]
    | false =>
      rcases ha : t.renderAbs v with _ | ⟨c, a⟩
      · exact absurd ha (renderAbs_ne_nil ht v)
      · have hc : c ≠ '-' := by
          intro e; apply hdash; rw [ha, e]; simp
        rw [ha] at hplus
        simp only [Bool.false_eq_true, if_false, List.cons_append, List.nil_append]
        rw [rpm_cons_ne (by decide), rpm_plus_other hc, ← List.cons_append, rpm_append hplus]
        rfl

theorem stripWs_renderPart {cc : CharClass} (hcc : cc.Sane) {cap : Nat} {v : Char}
    (hv : cc.isAlpha v = true) {t : TermSyn} (ht : t.WF cap) :
    stripWs cc (t.renderPart v) = t.renderPart v := by
  unfold TermSyn.renderPart
  rw [stripWs_append, stripWs_renderAbs hcc hv ht]
  congr 1
  cases t.neg
  · rfl
  · simp [stripWs, hcc.sym_not_ws.2.2.1]

theorem stripWs_tail {cc : CharClass} (hcc : cc.Sane) (hsp : cc.isWs ' ' = true) {cap : Nat}
    {v : Char} (hv : cc.isAlpha v = true) (ts : List TermSyn) (hts : WellFormed cap ts) :
    stripWs cc (ts.flatMap fun t =>
        (if t.neg then [' ', '-', ' '] else [' ', '+', ' ']) ++ t.renderAbs v) = renderTail v ts := by
  induction ts with
  | nil => rfl
  | cons t ts ih =>
    have ht : t.WF cap := hts t (by simp)
    have hts' : WellFormed cap ts := fun t' h' => hts t' (by simp [h'])
    rw [List.flatMap_cons, stripWs_append, ih hts', stripWs_append, stripWs_renderAbs hcc hv ht]
    simp only [renderTail, List.flatMap_cons]
    cases t.neg
    · simp [stripWs_plus hcc hsp]
    · simp [stripWs_minus hcc hsp]

/-- **For every well-formed term list**: the parts joined by `" + "`, after the `"+ -" → "- "` rewrite
and without white space, are the rendering of the terms. -/
theorem stripWs_joined {cc : CharClass} (hcc : cc.Sane) (hsp : cc.isWs ' ' = true) {cap : Nat}
    {v : Char} (hv : cc.isAlpha v = true) (t : TermSyn) (ts : List TermSyn)
    (hts : WellFormed cap (t :: ts)) :
    stripWs cc (replacePlusMinus ([' ', '+', ' '].intercalate ((t :: ts).map (TermSyn.renderPart v)))) =
      render v false (t :: ts) := by
  have ht : t.WF cap := hts t (by simp)
  have hts' : WellFormed cap ts := fun t' h' => hts t' (by simp [h'])
  have hvok := VarOK.of_alpha hcc hv
  rw [List.map_cons, intercalate_cons, List.flatMap_map, rpm_append (plus_not_mem_renderPart ht hvok),
    rpm_tail hvok ts hts', stripWs_append, stripWs_renderPart hcc hv ht, stripWs_tail hcc hsp hv ts hts',
    render_cons]
  rfl

/-! ### the term list of a model string -/

/-- the text of a signed number without its sign -/
def absText (it : Item) : List Char := if it.sign = .neg then it.text.drop 1 else it.text

/-- **formatter hypothesis for a signed text** (`{:.5}` of the value): a `-` exactly if the number is
negative, then a plain decimal spelling with an integer digit -/
def SignedSpelled (it : Item) : Prop :=
  ∃ b, IsSpelling b ∧ it.text = (if it.sign = .neg then ['-'] else []) ++ b

theorem SignedSpelled.absText {it : Item} (h : SignedSpelled it) :
    IsSpelling (absText it) ∧ it.text = (if it.sign = .neg then ['-'] else []) ++ absText it := by
  obtain ⟨b, hb, ht⟩ := h
  have : C17.absText it = b := by
    unfold C17.absText
    rw [ht]
    split <;> simp
  rw [this]
  exact ⟨hb, ht⟩

/-- the term a non-zero item at position `p.1` is printed as -/
def mtermOf (p : Nat × Item) : TermSyn :=
  ⟨decide (p.2.sign = .neg),
    if p.2.isOne = true ∧ p.1 ≠ 0 then none else some (udecOf (absText p.2)),
    bodyOf p.1⟩

/-- the part of the model string for one item, as the model computes it -/
def partOf (p : Nat × Item) : List Char :=
  match p.1 with
  | 0 => p.2.text
  | 1 => if p.2.isOne then (if p.2.sign = .neg then "-x".toList else "x".toList) else p.2.text ++ ['x']
  | _ => if p.2.isOne then (if p.2.sign = .neg then "-x^".toList else "x^".toList) ++ natText p.1
         else p.2.text ++ "x^".toList ++ natText p.1

theorem modelString_eq (items : List Item) :
    modelString items =
      (let parts := ((List.range items.length).zip items).filterMap fun p =>
          if p.2.sign = .zero then none else some (partOf p)
       if parts = [] then ['0'] else replacePlusMinus ([' ', '+', ' '].intercalate parts)) := rfl

theorem partOf_eq {p : Nat × Item} (h : SignedSpelled p.2) :
    partOf p = (mtermOf p).renderPart 'x' := by
  obtain ⟨hb, ht⟩ := h.absText
  have hr : (udecOf (absText p.2)).render = absText p.2 := hb.udecOf.2.2
  rcases p with ⟨i, it⟩
  simp only at ht hr
  unfold partOf TermSyn.renderPart TermSyn.renderAbs mtermOf
  simp only [decide_eq_true_eq]
  rcases i with _ | _ | i
  · simp [bodyOf, Body.render, renderCoef, hr, ← ht]
  · cases hone : it.isOne with
    | true => by_cases hn : it.sign = .neg <;> simp [bodyOf, Body.render, renderCoef, hn]
    | false =>
      simp only [Bool.false_eq_true, false_and, if_false, renderCoef, hr, bodyOf, Body.render]
      rw [← List.append_assoc, ← ht]
  · cases hone : it.isOne with
    | true => by_cases hn : it.sign = .neg <;> simp [bodyOf, Body.render, renderCoef, hn]
    | false =>
      simp only [Bool.false_eq_true, false_and, if_false, renderCoef, hr, bodyOf, Body.render]
      rw [← List.append_assoc, ← ht]
      simp

def mtermsOf (l : List (Nat × Item)) : List TermSyn :=
  l.filterMap fun p => if p.2.sign = .zero then none else some (mtermOf p)

/-- the terms of the model string, lowest power first -/
def modelTerms (items : List Item) : List TermSyn :=
  match mtermsOf ((List.range items.length).zip items) with
  | [] => [zeroTerm]
  | ts => ts

/-- every non-zero item is spelled as a signed plain decimal -/
def ItemsSignedSpelled (items : List Item) : Prop :=
  ∀ it ∈ items, it.sign ≠ .zero → SignedSpelled it

theorem mem_pairs' {items : List Item} {p : Nat × Item}
    (h : p ∈ (List.range items.length).zip items) : p.1 < items.length ∧ p.2 ∈ items := by
  rcases p with ⟨i, it⟩
  have := List.of_mem_zip h
  exact ⟨List.mem_range.1 this.1, this.2⟩

theorem parts_eq {items : List Item} (h : ItemsSignedSpelled items) :
    (((List.range items.length).zip items).filterMap fun p =>
        if p.2.sign = .zero then none else some (partOf p)) =
      (mtermsOf ((List.range items.length).zip items)).map (TermSyn.renderPart 'x') := by
  unfold mtermsOf
  rw [List.map_filterMap]
  apply List.filterMap_congr
  intro p hp
  by_cases hz : p.2.sign = .zero
  · simp [hz]
  · simp only [hz, if_false, Option.map_some, Option.some.injEq]
    exact partOf_eq (h p.2 (mem_pairs' hp).2 hz)

theorem mtermOf_pow (p : Nat × Item) : (mtermOf p).pow = p.1 := bodyOf_pow p.1

theorem mtermOf_wf {cap : Nat} {p : Nat × Item} (ht : SignedSpelled p.2) (hp : p.1 ≤ cap) :
    (mtermOf p).WF cap := by
  rcases p with ⟨i, it⟩
  refine ⟨?_, ?_, ?_⟩
  · intro u hu
    simp only [mtermOf] at hu
    split at hu
    · simp at hu
    · simp only [Option.some.injEq] at hu
      subst hu
      exact ht.absText.1.udecOf.1
  · intro hb
    have hi : i = 0 := by
      have := bodyOf_pow i
      simp only [mtermOf] at hb
      rw [hb] at this
      exact this.symm
    simp [mtermOf, hi]
  · intro ds hb
    simp only [mtermOf] at hb
    rcases i with _ | _ | i
    · simp [bodyOf] at hb
    · simp [bodyOf] at hb
    · simp only [bodyOf, Body.varPow.injEq] at hb
      subst hb
      exact ⟨natText_ne_nil _, natText_digits _, by rw [digitsVal_natText]; exact hp⟩

theorem mtermsOf_wf {cap : Nat} {items : List Item} (hlen : items.length ≤ cap + 1)
    (h : ItemsSignedSpelled items) :
    WellFormed cap (mtermsOf ((List.range items.length).zip items)) := by
  intro t ht
  simp only [mtermsOf, List.mem_filterMap] at ht
  obtain ⟨p, hp, hpt⟩ := ht
  split at hpt
  · simp at hpt
  · rename_i hz
    simp only [Option.some.injEq] at hpt
    subst hpt
    obtain ⟨h1, h2⟩ := mem_pairs' hp
    exact mtermOf_wf (h p.2 h2 hz) (by omega)

theorem modelTerms_wf {cap : Nat} {items : List Item} (hlen : items.length ≤ cap + 1)
    (h : ItemsSignedSpelled items) : WellFormed cap (modelTerms items) := by
  have := mtermsOf_wf hlen h
  unfold modelTerms
  split
  · intro t ht
    simp only [List.mem_cons, List.not_mem_nil, or_false] at ht
    subst ht
    exact zeroTerm_wf cap
  · exact this

/-- **the model string without its white space is the rendering of `modelTerms`** -/
theorem stripWs_modelString {cc : CharClass} (hcc : cc.Sane) (hsp : cc.isWs ' ' = true) {cap : Nat}
    (hx : cc.isAlpha 'x' = true) {items : List Item} (hlen : items.length ≤ cap + 1)
    (h : ItemsSignedSpelled items) :
    stripWs cc (modelString items) = render 'x' false (modelTerms items) := by
  have hwf := mtermsOf_wf hlen h
  rw [modelString_eq]
  simp only
  rw [parts_eq h]
  unfold modelTerms
  rcases hm : mtermsOf ((List.range items.length).zip items) with _ | ⟨t, ts⟩
  · have : cc.isWs '0' = false := hcc.digit_not_ws '0' (by decide)
    simp [render, zeroTerm, TermSyn.renderAbs, renderCoef, UDec.render, Body.render, stripWs, this]
  · rw [hm] at hwf
    rw [if_neg (by simp)]
    exact stripWs_joined hcc hsp hx t ts hwf

/-! ### values -/

/-- the coefficient read back for item `p.1` of a model string -/
def rvM (p : Nat × Item) : ℚ :=
  match p.2.sign with
  | .zero => 0
  | .pos => if p.2.isOne = true ∧ p.1 ≠ 0 then 1 else textValue (absText p.2)
  | .neg => -(if p.2.isOne = true ∧ p.1 ≠ 0 then 1 else textValue (absText p.2))

def readBackM (items : List Item) (k : Nat) : ℚ :=
  match items[k]? with
  | some it => rvM (k, it)
  | none => 0

theorem mtermOf_value {p : Nat × Item} (hz : p.2.sign ≠ .zero) : (mtermOf p).value = rvM p := by
  rcases p with ⟨i, it⟩
  have hc : coefValue (mtermOf (i, it)).coef =
      if it.isOne = true ∧ i ≠ 0 then 1 else textValue (absText it) := by
    simp only [mtermOf]
    split <;> rfl
  unfold TermSyn.value
  rw [hc]
  simp only [mtermOf, rvM]
  cases hs : it.sign with
  | zero => exact absurd hs hz
  | pos => simp
  | neg => by_cases hP : (it.isOne = true ∧ i ≠ 0) <;> simp [hP]

theorem mtermsOf_sum (k : Nat) (l : List (Nat × Item)) :
    (((mtermsOf l).filter fun t => decide (t.pow = k)).map TermSyn.value).sum =
      (l.map fun p => if p.1 = k then rvM p else 0).sum := by
  induction l with
  | nil => rfl
  | cons p rest ih =>
    rw [List.map_cons, List.sum_cons, ← ih]
    by_cases hz : p.2.sign = .zero
    · have e : mtermsOf (p :: rest) = mtermsOf rest := by simp [mtermsOf, hz]
      have : rvM p = 0 := by simp [rvM, hz]
      rw [e]
      simp [this]
    · have e : mtermsOf (p :: rest) = mtermOf p :: mtermsOf rest := by simp [mtermsOf, hz]
      rw [e, List.filter_cons, mtermOf_pow]
      have hval := mtermOf_value hz
      by_cases hk : p.1 = k
      · simp [hk, hval]
      · simp [hk]

/-- **the terms of power `k` sum to the read-back value of item `k`** -/
theorem modelTerms_sum (items : List Item) (k : Nat) :
    (((modelTerms items).filter fun t => decide (t.pow = k)).map TermSyn.value).sum =
      readBackM items k := by
  have hsum := mtermsOf_sum k ((List.range items.length).zip items)
  rw [List.range_eq_range', zip_range'_sum rvM k items 0] at hsum
  simp only [Nat.sub_zero, Nat.zero_le, if_true] at hsum
  have hz : ((([zeroTerm] : List TermSyn).filter fun t => decide (t.pow = k)).map TermSyn.value).sum = 0 := by
    have : zeroTerm.value = 0 := by
      simp [zeroTerm, TermSyn.value, coefValue, UDec.value, UDec.mant, digitsVal, digitVal]
    rw [List.filter_cons]
    split <;> simp [this]
  unfold modelTerms readBackM
  rw [← List.range_eq_range'] at hsum
  split
  · rename_i hnil
    rw [hnil] at hsum
    rw [hz]
    exact hsum
  · exact hsum

/-! ### the parser on the model string -/

theorem parse_modelString {cc : CharClass} (hcc : cc.Sane) (hsp : cc.isWs ' ' = true) (cap : Nat)
    (hx : cc.isAlpha 'x' = true) {items : List Item} (hlen : items.length ≤ cap + 1)
    (h : ItemsSignedSpelled items) :
    ∃ p, parse cc cap (modelString items) = .ok p ∧
      p.var = (if writesVar (modelTerms items) then some 'x' else none) ∧
      p.coeffs.length = maxPow (modelTerms items) + 1 ∧
      ∀ k, (p.coeffs.getD k Num.zero).val = readBackM items k := by
  obtain ⟨p, hp, hvar, hl, hval⟩ := parse_render_spec hcc (VarOK.of_alpha hcc hx)
    (modelTerms_wf hlen h) (fun _ => hx) (stripWs_modelString hcc hsp hx hlen h)
  exact ⟨p, hp, hvar, hl, fun k => by rw [hval k, modelTerms_sum items k]⟩

/-! ### items that describe a rational coefficient vector -/

/-- **Formatter hypothesis for one coefficient of a fitted model**: sign class and unit flag as in the
code (`coef == 0.0` skipped, `coef == ±1.0` elided), and for `c ≠ 0` the text is `-` (iff `c < 0`)
followed by a plain decimal spelling within half a unit of the `d`-th decimal of `|c|` (the code prints
`{:.5}`) -/
structure MItemOK (d : Nat) (it : Item) (c : ℚ) : Prop where
  sign : it.sign = signOfQ c
  one : it.isOne = true → |c| = 1
  spelled : c ≠ 0 → SignedSpelled it
  value : c ≠ 0 → |textValue (absText it) - abs c| ≤ 1 / 2 * (1 / 10 : ℚ) ^ d

def MItemsOK (d : Nat) (items : List Item) (cs : List ℚ) : Prop :=
  items.length = cs.length ∧ ∀ k it, items[k]? = some it → MItemOK d it (cs.getD k 0)

theorem MItemsOK.nil (d : Nat) : MItemsOK d [] [] :=
  ⟨rfl, fun k it hk => by simp at hk⟩

theorem MItemsOK.cons {d : Nat} {it : Item} {c : ℚ} {items : List Item} {cs : List ℚ}
    (h : MItemOK d it c) (hs : MItemsOK d items cs) : MItemsOK d (it :: items) (c :: cs) := by
  refine ⟨by simp [hs.1], fun k it' hk => ?_⟩
  cases k with
  | zero =>
    simp only [List.getElem?_cons_zero, Option.some.injEq] at hk
    subst hk
    simpa using h
  | succ k =>
    simp only [List.getElem?_cons_succ] at hk
    simpa using hs.2 k it' hk

theorem MItemsOK.spelled {d : Nat} {items : List Item} {cs : List ℚ}
    (h : MItemsOK d items cs) : ItemsSignedSpelled items := by
  intro it hit hz
  obtain ⟨k, hk, rfl⟩ := List.mem_iff_getElem.1 hit
  have hok := h.2 k items[k] (List.getElem?_eq_getElem hk)
  apply hok.spelled
  intro hc
  exact hz (by rw [hok.sign]; exact signOfQ_zero.2 hc)

theorem MItemOK.rv {it : Item} {c : ℚ} {d : Nat} (h : MItemOK d it c) (k : Nat) :
    |rvM (k, it) - c| ≤ 1 / 2 * (1 / 10 : ℚ) ^ d := by
  have hb : (0 : ℚ) ≤ 1 / 2 * (1 / 10 : ℚ) ^ d := by
    apply mul_nonneg (by norm_num) (pow_nonneg (by norm_num) _)
  unfold rvM
  simp only
  cases hs : it.sign with
  | zero =>
    rw [h.sign] at hs
    rw [signOfQ_zero.1 hs, sub_self, abs_zero]
    exact hb
  | pos =>
    rw [h.sign] at hs
    have hc : 0 < c := signOfQ_pos.1 hs
    have hv := h.value (ne_of_gt hc)
    rw [abs_of_pos hc] at hv
    dsimp only
    split
    · rename_i hone
      have := h.one hone.1
      rw [abs_of_pos hc] at this
      rw [this, sub_self, abs_zero]; exact hb
    · exact hv
  | neg =>
    rw [h.sign] at hs
    have hc : c < 0 := signOfQ_neg.1 hs
    have hv := h.value (ne_of_lt hc)
    rw [abs_of_neg hc] at hv
    dsimp only
    split
    · rename_i hone
      have := h.one hone.1
      rw [abs_of_neg hc] at this
      have e : (-1 : ℚ) - c = 0 := by rw [← this]; ring
      rw [e, abs_zero]; exact hb
    · have e : -textValue (absText it) - c = -(textValue (absText it) - -c) := by ring
      rw [e, abs_neg]; exact hv

theorem readBackM_prec {items : List Item} {cs : List ℚ} {d : Nat} (h : MItemsOK d items cs)
    (k : Nat) : |readBackM items k - cs.getD k 0| ≤ 1 / 2 * (1 / 10 : ℚ) ^ d := by
  unfold readBackM
  cases hk : items[k]? with
  | none =>
    have : cs.length ≤ k := by rw [← h.1]; exact List.getElem?_eq_none_iff.1 hk
    have hb : (0 : ℚ) ≤ 1 / 2 * (1 / 10 : ℚ) ^ d := by
      apply mul_nonneg (by norm_num) (pow_nonneg (by norm_num) _)
    rw [List.getD, List.getElem?_eq_none this, Option.getD_none, sub_self, abs_zero]
    exact hb
  | some it => exact (h.2 k it hk).rv k

end SV.C17

namespace SV.C17
open SV SV.Text SV.C01

/-- the read-back vector is not longer than the coefficient vector (one entry for an empty one) -/
theorem maxPow_modelTerms_lt (items : List Item) : maxPow (modelTerms items) < max items.length 1 := by
  have hne : modelTerms items ≠ [] := by
    unfold modelTerms; split <;> simp_all
  obtain ⟨t, ht, hpow⟩ := maxPow_attained hne
  rw [← hpow]
  unfold modelTerms at ht
  split at ht
  · simp only [List.mem_cons, List.not_mem_nil, or_false] at ht
    subst ht
    exact lt_of_lt_of_le (by decide : zeroTerm.pow < 1) (le_max_right _ _)
  · simp only [mtermsOf, List.mem_filterMap] at ht
    obtain ⟨p, hp, hpt⟩ := ht
    split at hpt
    · simp at hpt
    · simp only [Option.some.injEq] at hpt
      subst hpt
      rw [mtermOf_pow]
      exact lt_of_lt_of_le (mem_pairs' hp).1 (le_max_left _ _)

end SV.C17
