import SV.Props.C03
import SV.Lemmas.C04Nat
/-!
# C03 on the natural domain — natural exponents, every real point

`SV.Props.C03.inter_deriv_correct` proves "the derivative evaluates to the derivative" for the sparse
type on `DerivDomain` (`x ≠ 0`, or power `≥ 1`): the set where *every* real power is differentiable.
The property's quantifier, however, speaks of "all evaluation points in the domain", and for the
common case of the sparse type — all exponents (of the differentiation variable) **natural numbers** —
the domain is the whole real line: such a polynomial is defined and differentiable at `0`, at negative
points, everywhere.  This file closes that gap:

* `inter_deriv_correct_ext`      the by-name theorem on the larger domain `DerivDomainExt`
                                 (`x ≠ 0`, or power `≥ 1`, **or power `= 0`**) — any real exponents
* `inter_deriv_correct_natural`  natural exponents of `v` ⇒ **no** hypothesis on the point
* `deriv_uni_correct_natural`    the univariate entry point, natural exponents, every real point
* `deriv_power_zero_model` / `deriv_power_zero_value`
                                 what the model does with a literal `v^0`, and why the statement at
                                 `x = 0` is true of the model but not of IEEE arithmetic (remark below)

Everything is about the same shared model (`SV.Model.Poly`: `partialDeriv`, `derivUni`, `evalTerms`,
`evalUni`) with `powf := Real.rpow`; on natural exponents `Real.rpow x n = x ^ n`
(`Real.rpow_natCast`, `SV.Props.C04Natural.evalUni_natural`), for every real `x` of either sign.

## Remark: the point `x = 0` with power `0` (DESIGN.md §12 row C03, "excluded")

For a term `c·v^0·…` `partial_derivative` returns `(c·0)·v^(-1)·…` (`deriv_power_zero_model`: the
multiplier is the power, `0`; the new power `-1` is not `0`, so the variable is kept).  In exact
arithmetic that term is `0` for **every** value the factor `v^(-1)` may have (`deriv_power_zero_value`
is stated for an arbitrary `powf`), and `0` is the true derivative of the constant `c·v^0·… = c·…`
(`t^0 = 1` for every real `t`, `0` included).  So the theorems below hold at `x = 0` too, and not
because of Mathlib's convention `Real.rpow 0 (-1) = 0`: only `0 · y = 0` is used.  That law is what
IEEE arithmetic lacks: `powf(0.0, -1.0) = +inf` and `0.0 * inf = NaN`, so the `Float` instance (and
the Rust code) returns `NaN` at this single combination, where the true derivative is `0`.  This is
the documented exclusion — a statement about the `Float` instance at `v = 0` with a literal `v^0`
cannot be derived from these theorems (measured on the model at `Float`: `partialDeriv [5·x^0] "x"`
is `[0·x^(-1)]` and `evalUni Float.pow` of it at `0.0` is `NaN`).  On natural exponents it is the only
such point: a natural power `≥ 1` is reduced to a natural power, and `0^n` is finite.
-/
namespace SV.Props.C03Natural
open SV SV.Poly SV.C03 SV.C04Nat SV.Props.C03

/-! ### the extended domain (any real exponents) -/

/-- `DerivDomain` plus the case "power `0`": every power `p` that `v` carries is differentiated away
from `0`, or `p ≥ 1`, or `p = 0`.  What remains excluded is `x = 0` with a power `p < 1`, `p ≠ 0`:
for `0 < p < 1` the function is not differentiable there, for `p < 0` it is not defined there
(`Real.rpow 0 p` is a convention). -/
def DerivDomainExt (ts : List (Term ℝ)) (v : String) (x : ℝ) : Prop :=
  ∀ t ∈ ts, ∀ p, (v, p) ∈ t.vars → x ≠ 0 ∨ 1 ≤ p ∨ p = 0

theorem derivDomainExt_of_derivDomain {ts : List (Term ℝ)} {v : String} {x : ℝ}
    (h : DerivDomain ts v x) : DerivDomainExt ts v x :=
  fun t ht p hp => (h t ht p hp).elim Or.inl (fun h1 => Or.inr (Or.inl h1))

/-- natural exponents of `v`: the extended domain is the whole real line -/
theorem derivDomainExt_of_natural {ts : List (Term ℝ)} {v : String} (h : NatIn ts v) (x : ℝ) :
    DerivDomainExt ts v x :=
  natIn_dom h x

/-- **`partial_derivative` / `derivate_multivariate` is the partial derivative on the extended
domain.**  Same statement as `SV.Props.C03.inter_deriv_correct` (well-formed terms, any variable name,
bindings of the other variables, evaluation through the model of `eval_intermediate_polynomial`), with
`DerivDomainExt` in place of `DerivDomain`: a literal `v^0` is admitted at `x = 0`. -/
theorem inter_deriv_correct_ext (p : IPoly ℝ) (hwf : TermsWF p.terms) (v : String)
    (bs : List (String × ℝ)) (hb : ∀ w ∈ termNames p.terms, w ≠ v → (lookup bs w).isSome)
    (x : ℝ) (hdom : DerivDomainExt p.terms v x) :
    ∃ (f : ℝ → ℝ) (d : ℝ),
      (∀ t, evalTerms Real.rpow p.terms (bs ++ [(v, t)]) = .ok (f t)) ∧
      evalTerms Real.rpow (partialDeriv p.terms v).terms (bs ++ [(v, x)]) = .ok d ∧
      HasDerivAt f d x := by
  have hbound : ∀ t w, w ∈ termNames p.terms → (lookup (bs ++ [(v, t)]) w).isSome := by
    intro t w hw
    rw [lookup_append_single]
    by_cases h : v = w
    · simp [h]
    · rw [if_neg h]; exact hb w hw (fun e => h e.symm)
  refine ⟨fun t => polyVal Real.rpow (Function.update (valuation bs) v t) p.terms,
    polyVal Real.rpow (Function.update (valuation bs) v x) (partialDeriv p.terms v).terms, ?_, ?_, ?_⟩
  · intro t
    rw [evalTerms_eq Real.rpow p.terms _ (hbound t), valuation_append_single]
  · rw [evalTerms_eq Real.rpow _ _ (fun w hw => hbound x w (partialDeriv_names p.terms v w hw)),
      valuation_append_single]
  · exact hasDerivAt_partialDeriv_ext (valuation bs) v x p.terms hwf hdom

/-! ### natural exponents: every real point -/

/-- **Natural exponents ⇒ the derivative is the derivative at every real point.**  For a sparse
polynomial with well-formed terms in which every power of the differentiation variable `v` is a
natural number (`∃ n : ℕ, q = n`; the other variables may carry any real powers), any bindings `bs`
of the other variables and **every** real `x` — zero, negative, positive: evaluating the source with
`v ↦ t` succeeds for every `t` (value `f t`), evaluating `partial_derivative(p, v)` at `v ↦ x`
succeeds (value `d`), and `f` has derivative `d` at `x`.  This is
`SV.Props.C03.inter_deriv_correct` without the domain hypothesis. -/
theorem inter_deriv_correct_natural (p : IPoly ℝ) (hwf : TermsWF p.terms) (v : String)
    (hnat : ∀ t ∈ p.terms, ∀ q, (v, q) ∈ t.vars → ∃ n : ℕ, q = n)
    (bs : List (String × ℝ)) (hb : ∀ w ∈ termNames p.terms, w ≠ v → (lookup bs w).isSome)
    (x : ℝ) :
    ∃ (f : ℝ → ℝ) (d : ℝ),
      (∀ t, evalTerms Real.rpow p.terms (bs ++ [(v, t)]) = .ok (f t)) ∧
      evalTerms Real.rpow (partialDeriv p.terms v).terms (bs ++ [(v, x)]) = .ok d ∧
      HasDerivAt f d x :=
  inter_deriv_correct_ext p hwf v bs hb x (derivDomainExt_of_natural hnat x)

/-- … with one function for all points: there is a single `f` (the value of the source as a
function of `v`) and a single `f'` (the value of the returned derivative) such that `f` has
derivative `f' x` at every real `x` — `f` is differentiable on the whole line and the code's
derivative is its derivative. -/
theorem inter_deriv_correct_natural_everywhere (p : IPoly ℝ) (hwf : TermsWF p.terms) (v : String)
    (hnat : ∀ t ∈ p.terms, ∀ q, (v, q) ∈ t.vars → ∃ n : ℕ, q = n)
    (bs : List (String × ℝ)) (hb : ∀ w ∈ termNames p.terms, w ≠ v → (lookup bs w).isSome) :
    ∃ (f f' : ℝ → ℝ),
      (∀ t, evalTerms Real.rpow p.terms (bs ++ [(v, t)]) = .ok (f t)) ∧
      (∀ x, evalTerms Real.rpow (partialDeriv p.terms v).terms (bs ++ [(v, x)]) = .ok (f' x)) ∧
      ∀ x, HasDerivAt f (f' x) x := by
  have hbound : ∀ t w, w ∈ termNames p.terms → (lookup (bs ++ [(v, t)]) w).isSome := by
    intro t w hw
    rw [lookup_append_single]
    by_cases h : v = w
    · simp [h]
    · rw [if_neg h]; exact hb w hw (fun e => h e.symm)
  refine ⟨fun t => polyVal Real.rpow (Function.update (valuation bs) v t) p.terms,
    fun x => polyVal Real.rpow (Function.update (valuation bs) v x) (partialDeriv p.terms v).terms,
    ?_, ?_, ?_⟩
  · intro t
    rw [evalTerms_eq Real.rpow p.terms _ (hbound t), valuation_append_single]
  · intro x
    rw [evalTerms_eq Real.rpow _ _ (fun w hw => hbound x w (partialDeriv_names p.terms v w hw)),
      valuation_append_single]
  · exact fun x => hasDerivAt_partialDeriv_ext (valuation bs) v x p.terms hwf (natIn_dom hnat x)

/-- **`derivate_univariate`, natural exponents, every real point**: for every usable polynomial with
at most one variable (constants included) all of whose exponents are natural numbers,
`derivate_univariate` returns `Ok q`, `eval_univariate` of the source and of `q` succeed at every
point, and the value of `q` at `x` is the derivative at `x` of the function the source evaluates to —
for every real `x`.  (`SV.Props.C03.deriv_uni_correct` without the domain hypothesis.) -/
theorem deriv_uni_correct_natural (p : IPoly ℝ) (h : UniOK p)
    (hnat : ∀ t ∈ p.terms, ∀ w q, (w, q) ∈ t.vars → ∃ n : ℕ, q = n) :
    ∃ (q : IPoly ℝ) (f f' : ℝ → ℝ), derivUni p = .ok q ∧
      (∀ t, evalUni Real.rpow p t = .ok (f t)) ∧ (∀ x, evalUni Real.rpow q x = .ok (f' x)) ∧
      ∀ x, HasDerivAt f (f' x) x := by
  obtain ⟨hu, h1⟩ := h
  -- the variable the wrapper differentiates in; every name in use is that variable
  obtain ⟨v, hv, hD, hvars⟩ : ∃ v, (∀ w ∈ termNames p.terms, w = v) ∧
      derivUni p = .ok ⟨(partialDeriv p.terms v).terms, p.variables⟩ ∧
      (p.variables = [] ∨ p.variables = [v]) := by
    cases hvs : p.variables with
    | nil =>
      exact ⟨"x", fun w hw => by have := hu.2.2 w hw; simp [hvs] at this, by simp [derivUni, hvs],
        Or.inl rfl⟩
    | cons w r =>
      rw [hvs] at h1
      have hr : r = [] := by cases r with | nil => rfl | cons _ _ => simp at h1
      subst hr
      exact ⟨w, fun u hmu => by have := hu.2.2 u hmu; rw [hvs] at this; simpa using this,
        by simp [derivUni, hvs], Or.inr rfl⟩
  set σ : String → ℝ := valuation [] with hσ
  have hqu : Usable (⟨(partialDeriv p.terms v).terms, p.variables⟩ : IPoly ℝ) :=
    ⟨(partialDeriv_wf p.terms v hu.1).1.1, hu.2.1,
      fun w hw => hu.2.2 w (partialDeriv_names p.terms v w hw)⟩
  refine ⟨_, fun t => polyVal Real.rpow (Function.update σ v t) p.terms,
    fun x => polyVal Real.rpow (Function.update σ v x) (partialDeriv p.terms v).terms, hD,
    fun t => evalUni_eq Real.rpow p hu h1 v hv t, fun x => ?_, fun x => ?_⟩
  · exact evalUni_eq Real.rpow _ hqu h1 v
      (fun w hw => hv w (partialDeriv_names p.terms v w hw)) x
  · exact hasDerivAt_partialDeriv_ext σ v x p.terms hu.1
      (natIn_dom (fun t ht q hq => hnat t ht v q hq) x)

/-! ### the literal `v^0`: what the model returns, and its value -/

/-- **What `partial_derivative` does with a literal `v^0`** (any ordered field): in a `NodupVars`
term containing `(v, 0)` the multiplier is `0` and the variable is *kept* at power `-1`; the other
variables are untouched.  (A power-1 variable, by contrast, is removed: `inter_deriv_term`.) -/
theorem deriv_power_zero_model {K : Type} [Field K] [LinearOrder K] (vs : List (String × K))
    (hnd : strictSorted (names vs) = true) (v : String) (h0 : (v, (0 : K)) ∈ vs) :
    ∃ vs', derivVars v vs = some (0, vs') ∧ (v, -1) ∈ vs' ∧
      (∀ q, (v, q) ∈ vs' → q = -1) ∧ ∀ w q, w ≠ v → ((w, q) ∈ vs' ↔ (w, q) ∈ vs) := by
  obtain ⟨pre, post, hvs, hpre, hpost, hd⟩ := derivVars_power_zero (strictSorted_nodup hnd) h0
  refine ⟨_, hd, by simp, fun q hq => power_unique hpre hpost hq, fun w q hw => ?_⟩
  rw [hvs]
  exact other_mem_iff hw

/-- **… and the value of that term is `0` under every power function** (exact arithmetic): the
derivative term `(c·0)·Π powf(σ w, q)` of a term with a literal `v^0` vanishes whatever
`powf (σ v) (-1)` is — in particular at `σ v = 0`, where the statement does not depend on Mathlib's
convention `Real.rpow 0 (-1) = 0`.  It uses `0 · y = 0`, which fails in IEEE arithmetic exactly for
`y = ±inf, NaN`: `powf(0.0, -1.0) = +inf`, so the Rust code and the `Float` instance of the model
return `NaN` there (DESIGN.md §12 row C03: "point x = 0 with power 0 excluded"). -/
theorem deriv_power_zero_value {K : Type} [Field K] [LinearOrder K] (powf : K → K → K)
    (σ : String → K) (t : Term K) (hnd : strictSorted (names t.vars) = true) (v : String)
    (h0 : (v, (0 : K)) ∈ t.vars) :
    ∃ t', derivTerms v [t] = [t'] ∧ t'.coef = 0 ∧ termVal powf σ t' = 0 ∧
      polyVal powf σ (partialDeriv [t] v).terms = 0 := by
  obtain ⟨pre, post, _, _, _, hd⟩ := derivVars_power_zero (strictSorted_nodup hnd) h0
  have hdt : derivTerms v [t] = [⟨t.coef * 0, pre ++ (v, -1) :: post⟩] := by
    simp [derivTerms, hd]
  refine ⟨_, hdt, by simp, by simp [termVal], ?_⟩
  unfold partialDeriv
  simp only [polyVal_sortVars]
  rw [hdt]
  simp [termVal]

/-! ### non-vacuity -/

/-- the hypotheses of `deriv_uni_correct_natural` are satisfiable: `3x^2 - x + 2`
(`SV.C04Nat.quad`, as `IntermediatePolynomial::parse` returns it), differentiable at
every real point — `0` and `-1` in particular — with the code's derivative as its derivative -/
example : ∃ (q : IPoly ℝ) (f f' : ℝ → ℝ), derivUni quad = .ok q ∧
    (∀ t, evalUni Real.rpow quad t = .ok (f t)) ∧ (∀ x, evalUni Real.rpow q x = .ok (f' x)) ∧
    HasDerivAt f (f' 0) 0 ∧ HasDerivAt f (f' (-1)) (-1) := by
  obtain ⟨q, f, f', h1, h2, h3, h4⟩ := deriv_uni_correct_natural quad quad_usable quad_natural
  exact ⟨q, f, f', h1, h2, h3, h4 0, h4 (-1)⟩

/-- a literal `x^0` at the point `0` is covered by the by-name theorem: `5·x^0·y^(-1)` in `x` at
`x = 0`, `y = 2` (the exponent of the *other* variable need not be natural) -/
example : ∃ (f : ℝ → ℝ) (d : ℝ),
    (∀ t, evalTerms Real.rpow [⟨5, [("x", 0), ("y", -1)]⟩] ([("y", 2)] ++ [("x", t)]) = .ok (f t)) ∧
    evalTerms Real.rpow (partialDeriv [(⟨5, [("x", 0), ("y", -1)]⟩ : Term ℝ)] "x").terms
      ([("y", 2)] ++ [("x", 0)]) = .ok d ∧ HasDerivAt f d 0 := by
  refine inter_deriv_correct_natural ⟨[⟨5, [("x", 0), ("y", -1)]⟩], ["x", "y"]⟩ ?_ "x" ?_
    [("y", 2)] ?_ 0
  · intro t ht
    simp only [List.mem_singleton] at ht
    subst ht
    decide
  · intro t ht q hq
    simp only [List.mem_singleton] at ht
    subst ht
    simp only [List.mem_cons, Prod.mk.injEq, List.not_mem_nil, or_false] at hq
    rcases hq with ⟨_, rfl⟩ | ⟨h, _⟩
    · exact ⟨0, by simp⟩
    · exact absurd h (by decide)
  · intro w hw hne
    simp only [termNames, names, List.flatMap_cons, List.flatMap_nil, List.map_cons, List.map_nil,
      List.append_nil, List.mem_cons, List.not_mem_nil, or_false] at hw
    rcases hw with rfl | rfl
    · exact absurd rfl hne
    · simp [lookup]

end SV.Props.C03Natural
