import SV.Lemmas.C19
/-!
Lemmas for C19: the tree returned by `parse_expr` is a *precedence reading* of exactly the tokens consumed.

`PR e ts k`: the tree `e` reads the token list `ts`, and holds together with (doubled) binding level `k`
(`top` for a primary expression).  The rules are the conventional grammar:

* atoms, a parenthesised reading, a function applied to a parenthesised reading, and `v!` for a primary `v`
  are primaries;
* unary minus takes an operand that holds together at least as tightly as `2M − 1` for some `M ≥ 3`
  (`SV.Gen.unaryMinPow`, strictly above `*` `/`), and then itself holds together at `2M − 1`;
* a binary node `l o r` needs `l` at least as tight as `o` and `r` strictly tighter (left associativity),
  and holds together at `2·bp o`.
-/
namespace SV.C19
variable {N : Type}

/-- level of a primary expression (above every `2 * bp o`) -/
def top : Nat := 1000

inductive PR : Expr N → List (Tok N) → Nat → Prop where
  | num (x : N) : PR (.num x) [.num x] top
  | var (s : String) : PR (.var s) [.var s] top
  | const (c : Const) : PR (.const c) [.const c] top
  | paren {e : Expr N} {ts : List (Tok N)} {k : Nat} : PR e ts k → PR (setParen e) (.lp :: ts ++ [.rp]) top
  | func (f : Func) {e : Expr N} {ts : List (Tok N)} {k : Nat} :
      PR e ts k → PR (.func f (setParen e)) (.func f :: .lp :: ts ++ [.rp]) top
  | post {v : Expr N} {ts : List (Tok N)} : PR v ts top → PR (.post .fac v) (ts ++ [.op .fac]) top
  | neg {v : Expr N} {ts : List (Tok N)} {kv : Nat} (M : Nat) :
      PR v ts kv → SV.Gen.unaryMinPow ≤ M → (kv = top ∨ 2 * M ≤ kv + 1) →
      PR (.pre .sub v) (.op .sub :: ts) (2 * M - 1)
  | bin {l r : Expr N} {tl tr : List (Tok N)} {kl kr : Nat} (o : Op) :
      PR l tl kl → PR r tr kr → o ≠ .fac → 2 * bp o ≤ kl → 2 * bp o < kr →
      PR (.bin (if o = .cdot then .mul else o) l r false) (tl ++ .op o :: tr) (2 * bp o)

theorem bp_le_five (o : Op) : bp o ≤ 5 := by cases o <;> decide

def HeadFac : List (Tok N) → Prop
  | .op .fac :: _ => True
  | _ => False

/-- the operator loop at minimum power `m` has stopped in front of `r` -/
def Stop (m : Nat) (r : List (Tok N)) : Prop := ∀ o tl, r = .op o :: tl → bp o < m

/-- level `k` may stand where `parse_expr` was called with minimum power `m` -/
def Fits (m k : Nat) : Prop := k = top ∨ 2 * m ≤ k + 1

theorem postfixLoop_pr {l : Expr N} {pl : List (Tok N)} (hl : PR l pl top) (ts : List (Tok N)) :
    ∃ p, ts = p ++ (postfixLoop l ts).2 ∧ PR (postfixLoop l ts).1 (pl ++ p) top ∧
      ¬ HeadFac (postfixLoop l ts).2 := by
  induction ts generalizing l pl with
  | nil =>
    rw [postfixLoop_not_fac _ _ (by simp)]
    exact ⟨[], rfl, by simpa using hl, fun h => h⟩
  | cons t ts ih =>
    by_cases h : t = .op .fac
    · subst h
      rw [postfixLoop_fac]
      obtain ⟨p, h1, h2, h3⟩ := ih (PR.post hl)
      refine ⟨.op .fac :: p, ?_, ?_, h3⟩
      · rw [List.cons_append, ← h1]
      · simpa using h2
    · rw [postfixLoop_not_fac _ _ (by intro r hr; exact h (List.cons.inj hr).1)]
      refine ⟨[], rfl, by simpa using hl, ?_⟩
      intro hf
      cases t with
      | op o => cases o <;> first | exact hf | exact h rfl
      | _ => exact hf

theorem R_pr {mode : Mode N} {ts : List (Tok N)} {m : Nat} {e : Expr N} {r : List (Tok N)}
    (h : R mode ts m e r) :
    match mode with
    | .pre => ∃ p k, ts = p ++ r ∧ PR e p k ∧
        (k = top ∨ (k + 1 = 2 * max SV.Gen.unaryMinPow m ∧ ¬ HeadFac r ∧ Stop (max SV.Gen.unaryMinPow m) r))
    | .full => ∃ p k, ts = p ++ r ∧ PR e p k ∧ Fits m k ∧ Stop m r ∧ ¬ HeadFac r
    | .loop l => ∀ pl kl, PR l pl kl → ¬ HeadFac ts → (∀ o tl, ts = .op o :: tl → 2 * bp o ≤ kl) → Fits m kl →
        ∃ p k, ts = p ++ r ∧ PR e (pl ++ p) k ∧ Fits m k ∧ Stop m r ∧ ¬ HeadFac r := by
  induction h with
  | num n rest m => exact ⟨[.num n], top, rfl, .num n, Or.inl rfl⟩
  | var s rest m => exact ⟨[.var s], top, rfl, .var s, Or.inl rfl⟩
  | const c rest m => exact ⟨[.const c], top, rfl, .const c, Or.inl rfl⟩
  | paren m h ih =>
    obtain ⟨p, k, h1, h2, -⟩ := ih
    exact ⟨.lp :: p ++ [.rp], top, by rw [h1]; simp, .paren h2, Or.inl rfl⟩
  | func f m h ih =>
    obtain ⟨p, k, h1, h2, -⟩ := ih
    exact ⟨.func f :: .lp :: p ++ [.rp], top, by rw [h1]; simp, .func f h2, Or.inl rfl⟩
  | @neg rest m v r h ih =>
    obtain ⟨p, k, h1, h2, h3, h4, h5⟩ := ih
    refine ⟨.op .sub :: p, 2 * max SV.Gen.unaryMinPow m - 1, by rw [h1]; rfl,
      .neg _ h2 (Nat.le_max_left _ _) h3, Or.inr ⟨?_, h5, h4⟩⟩
    have : 1 ≤ max SV.Gen.unaryMinPow m := Nat.le_trans (by decide) (Nat.le_max_left _ _)
    omega
  | @full ts m l r e r' h1 h2 ih1 ih2 =>
    obtain ⟨p, k, e1, hpr, hk⟩ := ih1
    rcases hk with rfl | ⟨hk, hnf, hstop⟩
    · obtain ⟨q, e2, hpost, hnf⟩ := postfixLoop_pr hpr r
      obtain ⟨p2, k2, e3, hpr2, hfit, hst, hnf2⟩ := ih2 _ _ hpost hnf
        (fun o tl _ => by have := bp_le_five o; unfold top; omega) (Or.inl rfl)
      refine ⟨p ++ q ++ p2, k2, ?_, by simpa using hpr2, hfit, hst, hnf2⟩
      rw [e1, List.append_assoc, List.append_assoc, ← e3, ← e2]
    · have hpf : postfixLoop l r = (l, r) :=
        postfixLoop_not_fac l r (by rintro r0 rfl; exact hnf trivial)
      obtain ⟨p2, k2, e3, hpr2, hfit, hst, hnf2⟩ := ih2 p k (by rw [hpf]; exact hpr) (by rw [hpf]; exact hnf)
        (fun o tl he => by rw [hpf] at he; have := hstop o tl he; omega)
        (Or.inr (by have := Nat.le_max_right SV.Gen.unaryMinPow m; omega))
      rw [hpf] at e3
      refine ⟨p ++ p2, k2, ?_, hpr2, hfit, hst, hnf2⟩
      rw [e1, List.append_assoc, ← e3]
  | stop l ts m h =>
    intro pl kl hpr hnf _ hfit
    exact ⟨[], kl, rfl, by simpa using hpr, hfit, fun o tl he => absurd he (h o tl), hnf⟩
  | low l o rest h =>
    intro pl kl hpr hnf _ hfit
    refine ⟨[], kl, rfl, by simpa using hpr, hfit, ?_, hnf⟩
    intro o' tl he
    cases he; exact h
  | @step l o rest m rhs r' e r h h1 h2 ih1 ih2 =>
    intro pl kl hpr hnf hop hfit
    obtain ⟨pr, kr, e1, hprr, hfitr, hstr, hnfr⟩ := ih1
    have ho : o ≠ .fac := by rintro rfl; exact hnf trivial
    have hkl := hop o rest rfl
    have hkr : 2 * bp o < kr := by
      rcases hfitr with rfl | h
      · have := bp_le_five o; unfold top; omega
      · omega
    have hnew := PR.bin o hpr hprr ho hkl hkr
    obtain ⟨p2, k2, e2, hpr2, hfit2, hst2, hnf2⟩ := ih2 _ _ hnew hnfr
      (fun o2 tl he => by have := hstr o2 tl he; omega) (Or.inr (by omega))
    refine ⟨.op o :: pr ++ p2, k2, ?_, by simpa using hpr2, hfit2, hst2, hnf2⟩
    rw [e1, e2]; simp

/-- the in-order listing of a tree's tokens without parentheses (`*` for both `*` and `·`) -/
def flat : Expr N → List (Tok N)
  | .num x => [.num x]
  | .var s => [.var s]
  | .const c => [.const c]
  | .func f i => .func f :: flat i
  | .pre o v => .op o :: flat v
  | .post o v => flat v ++ [.op o]
  | .bin o l r _ => flat l ++ .op o :: flat r

/-- drop the parentheses and read `·` as `*` -/
def stripParens : List (Tok N) → List (Tok N)
  | [] => []
  | .lp :: ts => stripParens ts
  | .rp :: ts => stripParens ts
  | .op .cdot :: ts => .op .mul :: stripParens ts
  | t :: ts => t :: stripParens ts

theorem stripParens_append (a b : List (Tok N)) : stripParens (a ++ b) = stripParens a ++ stripParens b := by
  induction a using stripParens.induct with
  | case1 => rfl
  | case2 ts ih => simpa [stripParens] using ih
  | case3 ts ih => simpa [stripParens] using ih
  | case4 ts ih => simpa [stripParens] using ih
  | case5 t ts h1 h2 h3 ih =>
    rw [List.cons_append, stripParens, stripParens, ih]
    · rfl
    all_goals assumption

theorem flat_setParen (e : Expr N) : flat (setParen e) = flat e := by cases e <;> rfl

theorem PR.flat_eq {e : Expr N} {ts : List (Tok N)} {k : Nat} (h : PR e ts k) : flat e = stripParens ts := by
  induction h with
  | num | var | const => rfl
  | paren h ih =>
    rw [flat_setParen, ih, List.cons_append, stripParens, stripParens_append]
    simp [stripParens]
  | func f h ih =>
    rw [flat, flat_setParen, ih]
    simp [stripParens, stripParens_append]
  | post h ih => rw [flat, ih, stripParens_append]; rfl
  | neg M h _ _ ih => rw [flat, ih]; rfl
  | bin o hl hr ho _ _ ihl ihr =>
    rw [flat, ihl, ihr, stripParens_append]
    cases o <;> first | rfl | exact absurd rfl ho

end SV.C19

namespace SV.C19
variable {N : Type}

theorem setParen_ne_unflagged (e : Expr N) (o : Op) (l r : Expr N) : setParen e ≠ .bin o l r false := by
  cases e <;> simp [setParen]

theorem setParen_eq_pre {e v : Expr N} {o : Op} (h : setParen e = .pre o v) : e = .pre o v := by
  cases e <;> simp_all [setParen]

/-- an unflagged binary node of a reading holds together exactly as its operator token does -/
theorem PR.unflagged_level {e : Expr N} {ts : List (Tok N)} {k : Nat} (h : PR e ts k)
    {o : Op} {l r : Expr N} (he : e = .bin o l r false) :
    ∃ o0, o0 ≠ .fac ∧ o = (if o0 = .cdot then .mul else o0) ∧ k = 2 * bp o0 := by
  cases h with
  | num | var | const | func | post | neg => cases he
  | paren h => exact absurd he (setParen_ne_unflagged _ _ _ _)
  | bin o0 hl hr ho _ _ =>
    simp only [Expr.bin.injEq] at he
    exact ⟨o0, ho, he.1.symm, rfl⟩

end SV.C19
