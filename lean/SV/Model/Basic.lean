/-!
Import-free executable kernel shared by the numerical models.

* `Mat S`      row-major matrix over any scalar (the shape of `Arr2D`)
* `Mat.tab`    tabulate; one outer iteration of an in-place Rust loop = one `tab`
* `sumFrom`    left-to-right accumulation from a start value (`sum += …` in the code)
* `Outcome`    `ok v | err e | panic` — Rust panics are an explicit constructor

Everything here is generic in the scalar so that the same definitions run at `Float`
(correspondence with the Rust code, bit for bit) and are reasoned about over fields.
-/
namespace SV

inductive Outcome (ε α : Type) where
  | ok (v : α)
  | err (e : ε)
  | panic
deriving Repr, DecidableEq

structure Mat (S : Type) where
  h : Nat
  w : Nat
  a : Array S
deriving Repr

variable {S : Type}

/-- Row-major read; out-of-range reads give `default` and are never relied on: every model
function reads inside the shape (proved where it matters) or produces `Outcome.panic` first. -/
def Mat.get [Inhabited S] (M : Mat S) (i j : Nat) : S := M.a.getD (i * M.w + j) default

def Mat.tab (h w : Nat) (f : Nat → Nat → S) : Mat S :=
  ⟨h, w, Array.ofFn (n := h * w) fun k => f (k.val / w) (k.val % w)⟩

/-- `acc += f j` for `j = lo, lo+1, …, hi-1`, starting from `init`. -/
def sumFrom [Add S] (init : S) (lo hi : Nat) (f : Nat → S) : S :=
  (List.range' lo (hi - lo)).foldl (fun acc j => acc + f j) init

section scalar
variable [Neg S] [OfNat S 0] [LT S] [DecidableRel (α := S) (· < ·)]

/-- `f64::abs` on non-NaN values (on `Float` it differs from `abs` only on `-0.0`, whose sign is
never observed by a comparison). -/
def sabs (x : S) : S := if x < 0 then -x else x

end scalar

def Mat.swapRows [Inhabited S] (M : Mat S) (p q : Nat) : Mat S :=
  Mat.tab M.h M.w fun i j => if i = p then M.get q j else if i = q then M.get p j else M.get i j

def Mat.transpose [Inhabited S] (M : Mat S) : Mat S :=
  Mat.tab M.w M.h fun i j => M.get j i

def Mat.ident [OfNat S 0] [OfNat S 1] (n : Nat) : Mat S :=
  Mat.tab n n fun i j => if i = j then 1 else 0

end SV
