import SV.Model.C05
import SV.Lemmas.C05
import Mathlib.Algebra.Order.Field.Basic
import Mathlib.Algebra.Order.Field.Rat
import Mathlib.Algebra.BigOperators.Intervals
import Mathlib.Tactic.Ring
import Mathlib.Tactic.FieldSimp
import Mathlib.Tactic.Linarith
import Mathlib.Tactic.NormNum
/-!
# C05 — structural laws of the quadrature rules (every integrand, interval, segment count)

The model's `trapezoid`, `simpson13`, `simpson38`, `definiteIntegral` take the integrand as a function
`f : S → Except PErr S`.  For a total integrand `tot F = fun x => .ok (F x)` over any linearly ordered
field (exact arithmetic) they satisfy

1. linearity in the integrand: `rule (αF + βG) = α·rule F + β·rule G`;
2. translation: `rule (F(· − t)) (a + t) (b + t) n = rule F a b n`;
3. reversal `rule F b a n = − rule F a b n` for the trapezoid rule (all `n`); for `definiteIntegral` it is
   FALSE for odd `n ≥ 5` (the 3/8 panel sits at the `end` of the interval) — witness over `ℚ`;
   it is TRUE for even `n` (`definiteIntegral_reverse_even`) and for `n = 1` (trapezoid);
4. the width enters only through `(b − a)/n`, and `(b − a)/n = b/n − a/n` exactly: a change of that form
   can only differ by rounding;
5. Romberg (`romberg`, the whole function with early exit, cap and panics) sees the integrand only through
   the trapezoid values and is homogeneous in them (`romberg_scaled`): hence `romberg (c·F) = c·romberg F`
   for `c ≠ 0`, `romberg F b a = −romberg F a b`, and translation invariance;
6. without the stopping test every Romberg table entry is a linear functional of the integrand
   (`rombergRow_linear`, `rombergFill_linear`); the result of `romberg` itself is not additive because the
   early exit tests a relative change;
7. the same for `definiteIntegralP` / `rombergP` on both polynomial types (via `Evaluates`).

Consequence: no special case depending on the particular integrand, on the position of the interval or
on an absolute size can be part of these rules.
-/
set_option linter.unusedSectionVars false

namespace SV.Props.C05Linear
open SV SV.Poly SV.C05 Finset Polynomial

variable {K : Type} [Field K] [LinearOrder K] [IsStrictOrderedRing K]

/-- a total integrand: evaluation never fails and returns `F x` -/
def tot (F : K → K) : K → Except PErr K := fun x => .ok (F x)

/-! ## 1. linearity in the integrand -/

private theorem trapLoop_lin (F G : K → K) (α β h : K) :
    ∀ (n : Nat) (xi sF sG : K), ∃ x' sF' sG',
      trapLoop (tot F) h n xi sF = .ok (x', sF') ∧
      trapLoop (tot G) h n xi sG = .ok (x', sG') ∧
      trapLoop (tot fun x => α * F x + β * G x) h n xi (α * sF + β * sG)
        = .ok (x', α * sF' + β * sG') := by
  intro n
  induction n with
  | zero => intro xi sF sG; exact ⟨xi, sF, sG, rfl, rfl, rfl⟩
  | succ n ih =>
    intro xi sF sG
    obtain ⟨x', sF', sG', h1, h2, h3⟩ :=
      ih (xi + h) (sF + lit 2 * F (xi + h)) (sG + lit 2 * G (xi + h))
    refine ⟨x', sF', sG', ?_, ?_, ?_⟩
    · simp only [trapLoop, tot]; exact h1
    · simp only [trapLoop, tot]; exact h2
    · simp only [trapLoop, tot]
      have e : α * sF + β * sG + lit 2 * (α * F (xi + h) + β * G (xi + h))
          = α * (sF + lit 2 * F (xi + h)) + β * (sG + lit 2 * G (xi + h)) := by ring
      rw [e]; exact h3

/-- **Trapezoid rule is linear in the integrand**: for total integrands `F`, `G`, every interval
(in either order, or empty) and every segment count (0 included), the rule applied to `αF + βG`
returns `α·(rule F) + β·(rule G)`, and none of the three fails. -/
theorem trapezoid_linear (F G : K → K) (α β a b : K) (n : Nat) :
    ∃ vF vG, trapezoid (tot F) a b n = .ok vF ∧ trapezoid (tot G) a b n = .ok vG ∧
      trapezoid (tot fun x => α * F x + β * G x) a b n = .ok (α * vF + β * vG) := by
  obtain ⟨x', sF', sG', h1, h2, h3⟩ :=
    trapLoop_lin F G α β ((b - a) / (n : K)) (n - 1) a (F a) (G a)
  refine ⟨(b - a) / (n : K) * (sF' + F b) / lit 2, (b - a) / (n : K) * (sG' + G b) / lit 2, ?_, ?_, ?_⟩
  · unfold trapezoid; simp only [tot] at h1 ⊢; rw [h1]
  · unfold trapezoid; simp only [tot] at h2 ⊢; rw [h2]
  · unfold trapezoid; simp only [tot] at h3 ⊢; rw [h3]
    simp only [Except.ok.injEq]
    ring

private theorem s13Loop_lin (F G : K → K) (α β h : K) :
    ∀ (n : Nat) (xi sF sG : K), ∃ x' sF' sG',
      s13Loop (tot F) h n xi sF = .ok (x', sF') ∧
      s13Loop (tot G) h n xi sG = .ok (x', sG') ∧
      s13Loop (tot fun x => α * F x + β * G x) h n xi (α * sF + β * sG)
        = .ok (x', α * sF' + β * sG') := by
  intro n
  induction n with
  | zero => intro xi sF sG; exact ⟨xi, sF, sG, rfl, rfl, rfl⟩
  | succ n ih =>
    intro xi sF sG
    obtain ⟨x', sF', sG', h1, h2, h3⟩ :=
      ih (xi + lit 2 * h)
        (sF + (lit 4 * F (xi + lit 2 * h - h) + lit 2 * F (xi + lit 2 * h)))
        (sG + (lit 4 * G (xi + lit 2 * h - h) + lit 2 * G (xi + lit 2 * h)))
    refine ⟨x', sF', sG', ?_, ?_, ?_⟩
    · simp only [s13Loop, tot]; exact h1
    · simp only [s13Loop, tot]; exact h2
    · simp only [s13Loop, tot]
      have e : α * sF + β * sG
            + (lit 4 * (α * F (xi + lit 2 * h - h) + β * G (xi + lit 2 * h - h))
              + lit 2 * (α * F (xi + lit 2 * h) + β * G (xi + lit 2 * h)))
          = α * (sF + (lit 4 * F (xi + lit 2 * h - h) + lit 2 * F (xi + lit 2 * h)))
            + β * (sG + (lit 4 * G (xi + lit 2 * h - h) + lit 2 * G (xi + lit 2 * h))) := by ring
      rw [e]; exact h3

/-- **Composite Simpson 1/3 is linear in the integrand** (any step `h`, start, segment count). -/
theorem simpson13_linear (F G : K → K) (α β h s : K) (m : Nat) :
    ∃ vF vG, simpson13 (tot F) h s m = .ok vF ∧ simpson13 (tot G) h s m = .ok vG ∧
      simpson13 (tot fun x => α * F x + β * G x) h s m = .ok (α * vF + β * vG) := by
  obtain ⟨x', sF', sG', h1, h2, h3⟩ := s13Loop_lin F G α β h (m / 2 - 1) s (F s) (G s)
  refine ⟨h * (sF' + (lit 4 * F (x' + lit 2 * h - h) + F (x' + lit 2 * h))) / lit 3,
    h * (sG' + (lit 4 * G (x' + lit 2 * h - h) + G (x' + lit 2 * h))) / lit 3, ?_, ?_, ?_⟩
  · unfold simpson13; simp only [tot] at h1 ⊢; rw [h1]
  · unfold simpson13; simp only [tot] at h2 ⊢; rw [h2]
  · unfold simpson13; simp only [tot] at h3 ⊢; rw [h3]
    simp only [Except.ok.injEq]
    ring

/-- **Simpson 3/8 is linear in the integrand** (any four points and step). -/
theorem simpson38_linear (F G : K → K) (α β h p0 p1 p2 p3 : K) :
    ∃ vF vG, simpson38 (tot F) h p0 p1 p2 p3 = .ok vF ∧ simpson38 (tot G) h p0 p1 p2 p3 = .ok vG ∧
      simpson38 (tot fun x => α * F x + β * G x) h p0 p1 p2 p3 = .ok (α * vF + β * vG) := by
  refine ⟨_, _, rfl, rfl, ?_⟩
  simp only [simpson38, tot, Except.ok.injEq]
  ring

/-- **`definite_integral` is linear in the integrand**: for total integrands `F`, `G`, every interval and
EVERY segment count (`n = 1` trapezoid, even `n` 1/3 panels, odd `n` 3/8 + 1/3 panels, `n = 0` too),
the rule applied to `αF + βG` returns `α·(rule F) + β·(rule G)`. -/
theorem definiteIntegral_linear (F G : K → K) (α β a b : K) (n : Nat) :
    ∃ vF vG, definiteIntegral (tot F) a b n = .ok vF ∧ definiteIntegral (tot G) a b n = .ok vG ∧
      definiteIntegral (tot fun x => α * F x + β * G x) a b n = .ok (α * vF + β * vG) := by
  unfold definiteIntegral
  by_cases h1 : n = 1
  · obtain ⟨vF, vG, e1, e2, e3⟩ := trapezoid_linear F G α β a b n
    exact ⟨vF, vG, by simp only [if_pos h1, e1, liftErr], by simp only [if_pos h1, e2, liftErr],
      by simp only [if_pos h1, e3, liftErr]⟩
  · simp only [if_neg h1]
    by_cases hodd : n % 2 ≠ 0
    · obtain ⟨uF, uG, e1, e2, e3⟩ := simpson38_linear F G α β ((b - a) / (n : K))
        (b - (b - a) / (n : K) * lit 3) (b - (b - a) / (n : K) * lit 2)
        (b - (b - a) / (n : K) * lit 1) b
      simp only [if_pos hodd, e1, e2, e3]
      by_cases hr : n - 3 > 1
      · obtain ⟨wF, wG, d1, d2, d3⟩ := simpson13_linear F G α β ((b - a) / (n : K)) a (n - 3)
        simp only [if_pos hr, d1, d2, d3]
        refine ⟨_, _, rfl, rfl, ?_⟩
        simp only [Except.ok.injEq]
        ring
      · simp only [if_neg hr]
        refine ⟨_, _, rfl, rfl, ?_⟩
        simp only [Except.ok.injEq]
        ring
    · simp only [if_neg hodd]
      by_cases hr : n > 1
      · obtain ⟨wF, wG, d1, d2, d3⟩ := simpson13_linear F G α β ((b - a) / (n : K)) a n
        simp only [if_pos hr, d1, d2, d3]
        refine ⟨_, _, rfl, rfl, ?_⟩
        simp only [Except.ok.injEq]
        ring
      · simp only [if_neg hr]
        refine ⟨_, _, rfl, rfl, ?_⟩
        simp only [Except.ok.injEq]
        ring

/-! ## 3. translation of the interval together with the integrand -/

private theorem trapLoop_shift (F : K → K) (t h : K) :
    ∀ (n : Nat) (xi s : K), ∃ x' s',
      trapLoop (tot F) h n xi s = .ok (x', s') ∧
      trapLoop (tot fun x => F (x - t)) h n (xi + t) s = .ok (x' + t, s') := by
  intro n
  induction n with
  | zero => intro xi s; exact ⟨xi, s, rfl, rfl⟩
  | succ n ih =>
    intro xi s
    obtain ⟨x', s', h1, h2⟩ := ih (xi + h) (s + lit 2 * F (xi + h))
    refine ⟨x', s', ?_, ?_⟩
    · simp only [trapLoop, tot]; exact h1
    · simp only [trapLoop, tot]
      have e1 : xi + t + h = xi + h + t := by ring
      have e2 : xi + h + t - t = xi + h := by ring
      rw [e1, e2]; exact h2

/-- **Trapezoid rule is translation invariant**: moving the interval by `t` and the integrand with it
(`x ↦ F (x − t)` on `[a + t, b + t]`) gives the same value as `F` on `[a, b]`, for every `n`. -/
theorem trapezoid_translate (F : K → K) (t a b : K) (n : Nat) :
    trapezoid (tot fun x => F (x - t)) (a + t) (b + t) n = trapezoid (tot F) a b n := by
  obtain ⟨x', s', h1, h2⟩ := trapLoop_shift F t ((b - a) / (n : K)) (n - 1) a (F a)
  have ew : b + t - (a + t) = b - a := by ring
  have ea : a + t - t = a := by ring
  have eb : b + t - t = b := by ring
  unfold trapezoid
  simp only [tot, ew, ea, eb] at h1 h2 ⊢
  rw [h1, h2]

private theorem s13Loop_shift (F : K → K) (t h : K) :
    ∀ (n : Nat) (xi s : K), ∃ x' s',
      s13Loop (tot F) h n xi s = .ok (x', s') ∧
      s13Loop (tot fun x => F (x - t)) h n (xi + t) s = .ok (x' + t, s') := by
  intro n
  induction n with
  | zero => intro xi s; exact ⟨xi, s, rfl, rfl⟩
  | succ n ih =>
    intro xi s
    obtain ⟨x', s', h1, h2⟩ := ih (xi + lit 2 * h)
      (s + (lit 4 * F (xi + lit 2 * h - h) + lit 2 * F (xi + lit 2 * h)))
    refine ⟨x', s', ?_, ?_⟩
    · simp only [s13Loop, tot]; exact h1
    · simp only [s13Loop, tot]
      have e1 : xi + t + lit 2 * h = xi + lit 2 * h + t := by ring
      have e2 : xi + lit 2 * h + t - t = xi + lit 2 * h := by ring
      have e3 : xi + lit 2 * h + t - h - t = xi + lit 2 * h - h := by ring
      rw [e1, e2, e3]; exact h2

/-- **Composite Simpson 1/3 is translation invariant** (start moved by `t`, integrand moved with it). -/
theorem simpson13_translate (F : K → K) (t h s : K) (m : Nat) :
    simpson13 (tot fun x => F (x - t)) h (s + t) m = simpson13 (tot F) h s m := by
  obtain ⟨x', s', h1, h2⟩ := s13Loop_shift F t h (m / 2 - 1) s (F s)
  have es : s + t - t = s := by ring
  have e2 : x' + t + lit 2 * h - t = x' + lit 2 * h := by ring
  have e3 : x' + t + lit 2 * h - h - t = x' + lit 2 * h - h := by ring
  unfold simpson13
  simp only [tot, es] at h1 h2 ⊢
  rw [h1, h2]
  simp only [e2, e3]

/-- **Simpson 3/8 is translation invariant** (the four points moved by `t`, integrand moved with it). -/
theorem simpson38_translate (F : K → K) (t h p0 p1 p2 p3 : K) :
    simpson38 (tot fun x => F (x - t)) h (p0 + t) (p1 + t) (p2 + t) (p3 + t)
      = simpson38 (tot F) h p0 p1 p2 p3 := by
  simp only [simpson38, tot, add_sub_cancel_right]

/-- **`definite_integral` is translation invariant**: `x ↦ F (x − t)` on `[a + t, b + t]` gives the same
result as `F` on `[a, b]`, for every interval and EVERY segment count: the rule cannot depend on where
the interval lies, only on the values of the integrand at the nodes. -/
theorem definiteIntegral_translate (F : K → K) (t a b : K) (n : Nat) :
    definiteIntegral (tot fun x => F (x - t)) (a + t) (b + t) n = definiteIntegral (tot F) a b n := by
  have ew : b + t - (a + t) = b - a := by ring
  have q3 : b + t - (b - a) / (n : K) * lit 3 = b - (b - a) / (n : K) * lit 3 + t := by ring
  have q2 : b + t - (b - a) / (n : K) * lit 2 = b - (b - a) / (n : K) * lit 2 + t := by ring
  have q1 : b + t - (b - a) / (n : K) * lit 1 = b - (b - a) / (n : K) * lit 1 + t := by ring
  unfold definiteIntegral
  simp only [ew, q3, q2, q1, trapezoid_translate, simpson38_translate, simpson13_translate]

/-! ## 2. reversal of the interval -/

/-- closed form of the trapezoid loop for a total integrand -/
private theorem trapLoop_closed (F : K → K) (h : K) :
    ∀ (n : Nat) (xi s : K),
      trapLoop (tot F) h n xi s
        = .ok (xi + (n : K) * h, s + 2 * ∑ i ∈ range n, F (xi + ((i : K) + 1) * h)) := by
  intro n
  induction n with
  | zero => intro xi s; simp [trapLoop]
  | succ n ih =>
    intro xi s
    simp only [trapLoop, tot]
    have := ih (xi + h) (s + lit 2 * F (xi + h))
    rw [this, sum_range_succ']
    simp only [lit, Nat.cast_ofNat, Nat.cast_add, Nat.cast_one, Nat.cast_zero, zero_add, one_mul]
    have e : ∀ i : ℕ, xi + h + ((i : K) + 1) * h = xi + ((i : K) + 1 + 1) * h := fun i => by ring
    simp only [e]
    congr 2
    · ring
    · ring

/-- **Closed form of the trapezoid rule**: `h·(F a + 2·Σ_{i=1}^{n−1} F (a + i h) + F b)/2`, `h = (b − a)/n`. -/
theorem trapezoid_closed (F : K → K) (a b : K) (n : Nat) :
    trapezoid (tot F) a b n
      = .ok ((b - a) / (n : K)
          * (F a + 2 * ∑ i ∈ range (n - 1), F (a + ((i : K) + 1) * ((b - a) / (n : K))) + F b) / 2) := by
  have := trapLoop_closed F ((b - a) / (n : K)) (n - 1) a (F a)
  unfold trapezoid
  simp only [tot, lit, Nat.cast_ofNat] at this ⊢
  rw [this]

/-- **Trapezoid rule is odd under reversal of the interval**: `rule F b a n = −(rule F a b n)` for every
total integrand, interval and segment count (the node set is the same, the step changes sign). -/
theorem trapezoid_reverse (F : K → K) (a b : K) (n : Nat) :
    ∃ v, trapezoid (tot F) a b n = .ok v ∧ trapezoid (tot F) b a n = .ok (-v) := by
  refine ⟨_, trapezoid_closed F a b n, ?_⟩
  rw [trapezoid_closed]
  by_cases hn : n = 0
  · subst hn; simp
  have hn0 : (n : K) ≠ 0 := by exact_mod_cast hn
  have hs : ∑ i ∈ range (n - 1), F (b + ((i : K) + 1) * ((a - b) / (n : K)))
      = ∑ i ∈ range (n - 1), F (a + ((i : K) + 1) * ((b - a) / (n : K))) := by
    rw [← sum_range_reflect]
    apply sum_congr rfl
    intro j hj
    have hj' : j + 1 ≤ n - 1 := by have := mem_range.mp hj; omega
    congr 1
    have c : ((n - 1 - 1 - j : ℕ) : K) = (n : K) - 1 - 1 - j := by
      rw [Nat.cast_sub (by omega), Nat.cast_sub (by omega), Nat.cast_sub (by omega)]; simp
    rw [c]
    field_simp
    ring
  rw [hs]
  simp only [Except.ok.injEq]
  have : (a - b) / (n : K) = -((b - a) / (n : K)) := by ring
  rw [this]
  ring

/-- **`definite_integral` with an EVEN segment count is odd under reversal of the interval**:
`rule F b a n = −(rule F a b n)` for every total integrand and interval (only 1/3 panels are used, and
the set of panels is the same in both directions). -/
theorem definiteIntegral_reverse_even (F : K → K) (a b : K) (n : Nat) (hn : n % 2 = 0) :
    ∃ v, definiteIntegral (tot F) a b n = .ok v ∧ definiteIntegral (tot F) b a n = .ok (-v) := by
  by_cases h0 : n = 0
  · subst h0; exact ⟨0, by simp [definiteIntegral], by simp [definiteIntegral]⟩
  have hn2 : 2 ≤ n := by omega
  obtain ⟨m, rfl⟩ : ∃ m, n = 2 * m := ⟨n / 2, by omega⟩
  have hm : 1 ≤ m := by omega
  have hm0 : (m : K) ≠ 0 := by exact_mod_cast (by omega : m ≠ 0)
  have hf : ∀ x, tot F x = .ok (F x) := fun _ => rfl
  have fwd := definiteIntegral_spec_sum hf a b (2 * m) hn2 (fun _ => 0)
    (fun x => (b - a) / ((2 * m : ℕ) : K) / 3 * (F x + 4 * F (x + (b - a) / ((2 * m : ℕ) : K))
      + F (x + 2 * ((b - a) / ((2 * m : ℕ) : K)))))
    (fun x => 3 * ((b - a) / ((2 * m : ℕ) : K)) / 8 * (F x + 3 * F (x + (b - a) / ((2 * m : ℕ) : K))
        + 3 * F (x + 2 * ((b - a) / ((2 * m : ℕ) : K))) + F (x + 3 * ((b - a) / ((2 * m : ℕ) : K)))))
    (fun x => by simp) (fun x => by simp)
  have bwd := definiteIntegral_spec_sum hf b a (2 * m) hn2 (fun _ => 0)
    (fun x => (a - b) / ((2 * m : ℕ) : K) / 3 * (F x + 4 * F (x + (a - b) / ((2 * m : ℕ) : K))
      + F (x + 2 * ((a - b) / ((2 * m : ℕ) : K)))))
    (fun x => 3 * ((a - b) / ((2 * m : ℕ) : K)) / 8 * (F x + 3 * F (x + (a - b) / ((2 * m : ℕ) : K))
        + 3 * F (x + 2 * ((a - b) / ((2 * m : ℕ) : K))) + F (x + 3 * ((a - b) / ((2 * m : ℕ) : K)))))
    (fun x => by simp) (fun x => by simp)
  rw [if_pos hn] at fwd bwd
  have hdiv : 2 * m / 2 = m := by omega
  rw [hdiv] at fwd bwd
  refine ⟨_, fwd, ?_⟩
  rw [bwd]
  simp only [Except.ok.injEq, sub_self, zero_add]
  have hh : (a - b) / ((2 * m : ℕ) : K) = -((b - a) / ((2 * m : ℕ) : K)) := by ring
  have hb : b = a + (m : K) * (2 * ((b - a) / ((2 * m : ℕ) : K))) := by
    push_cast; field_simp; ring
  rw [hh]
  generalize (b - a) / ((2 * m : ℕ) : K) = h at hb ⊢
  rw [← sum_neg_distrib, ← sum_range_reflect]
  apply sum_congr rfl
  intro j hj
  have hj' : j + 1 ≤ m := by have := mem_range.mp hj; omega
  have c : ((m - 1 - j : ℕ) : K) = (m : K) - 1 - j := by
    rw [Nat.cast_sub (by omega), Nat.cast_sub (by omega)]; simp
  rw [c]
  have p1 : b + ((m : K) - 1 - j) * (2 * -h) = a + (j : K) * (2 * h) + 2 * h := by
    linear_combination hb
  have q2 : a + (j : K) * (2 * h) + 2 * h + -h = a + (j : K) * (2 * h) + h := by ring
  have q3 : a + (j : K) * (2 * h) + 2 * h + 2 * -h = a + (j : K) * (2 * h) := by ring
  rw [p1, q2, q3]
  ring

/-- **Reversal is NOT a law of `definite_integral` for odd segment counts**: the 3/8 panel is always put at
the `end` argument, so with `n = 5` and `x⁵` on `[0, 5]` over `ℚ` the two directions give `10485/4` and
`−10465/4` (for odd `n` the placement of the 3/8 panel is part of the specified behaviour). -/
theorem definiteIntegral_reverse_odd_fails :
    definiteIntegral (tot fun x : ℚ => x ^ 5) 0 5 5 = .ok (10485 / 4) ∧
    definiteIntegral (tot fun x : ℚ => x ^ 5) 5 0 5 = .ok (-10465 / 4) := by
  constructor <;>
    norm_num [definiteIntegral, simpson38, simpson13, s13Loop, tot, lit]

/-! ## 4. the width enters only through `(b − a)/n` -/

/-- `(b − a)/n = b/n − a/n` in exact arithmetic: a rewrite of the step of that form changes nothing in any
field, so at `f64` it can only differ by rounding (which the oracle bounds). -/
theorem width_split (a b : K) (n : Nat) : (b - a) / (n : K) = b / (n : K) - a / (n : K) := sub_div b a _

/-! ## 5. Romberg: only the trapezoid values enter; translation, homogeneity, reversal -/

/-- the obvious map on `Outcome`: errors to the same errors, `panic` to `panic` -/
def mapOk {ε α β : Type} (f : α → β) : Outcome ε α → Outcome ε β
  | .ok v => .ok (f v)
  | .err e => .err e
  | .panic => .panic

/-- every entry of the Romberg table multiplied by `c` -/
def smulT (c : K) (T : Table K) : Table K := T.map fun row => row.map (c * ·)

/-- what scaling the table by `c` does to the result of one pass -/
def scalePass (c : K) : Pass K → Pass K
  | .done o => .done (mapOk (c * ·) o)
  | .more T => .more (smulT c T)

private theorem sabs_eq_abs (x : K) : sabs x = |x| := by
  unfold sabs
  split
  · rename_i h; rw [abs_of_neg h]
  · rename_i h; rw [abs_of_nonneg (not_lt.mp h)]

private theorem get?_smulT (c : K) (T : Table K) (i j : Nat) :
    (smulT c T).get? i j = (T.get? i j).map (c * ·) := by
  unfold Table.get? smulT
  rw [Array.getElem?_map]
  cases T[i]? with
  | none => rfl
  | some row => simp [Array.getElem?_map]

private theorem set?_smulT (c : K) (T : Table K) (i j : Nat) (v : K) :
    (smulT c T).set? i j (c * v) = (T.set? i j v).map (smulT c) := by
  unfold Table.set? smulT
  rw [Array.getElem?_map]
  cases T[i]? with
  | none => rfl
  | some row =>
    simp only [Option.map_some, Array.size_map]
    split
    · simp [Array.map_setIfInBounds]
    · rfl

private theorem zeros_smulT (c : K) (dim : Nat) : smulT c (Table.zeros dim : Table K) = Table.zeros dim := by
  simp [smulT, Table.zeros, Array.map_replicate]

private theorem rombergRow_smulT (c : K) (iter : Nat) :
    ∀ (n k : Nat) (T : Table K),
      rombergRow iter n k (smulT c T) = (rombergRow iter n k T).map (smulT c) := by
  intro n
  induction n with
  | zero => intro k T; rfl
  | succ n ih =>
    intro k T
    unfold rombergRow
    split
    · rfl
    · simp only [get?_smulT]
      cases hu : T.get? (2 + iter - k + 1) (k - 1) with
      | none => simp
      | some u =>
        cases hv : T.get? (2 + iter - k) (k - 1) with
        | none => simp
        | some v =>
          simp only [Option.map_some]
          have e : (((4 ^ (k - 1) : ℕ) : K) * (c * u) - c * v) / (((4 ^ (k - 1) : ℕ) : K) - lit 1)
              = c * ((((4 ^ (k - 1) : ℕ) : K) * u - v) / (((4 ^ (k - 1) : ℕ) : K) - lit 1)) := by
            ring
          rw [e, set?_smulT]
          cases T.set? (2 + iter - k) k
              ((((4 ^ (k - 1) : ℕ) : K) * u - v) / (((4 ^ (k - 1) : ℕ) : K) - lit 1)) with
          | none => rfl
          | some T' => simp only [Option.map_some]; exact ih (k + 1) T'

private theorem eqZero_mul {c : K} (hc : c ≠ 0) (x : K) : eqZero (c * x) = eqZero x := by
  have h1 : eqZero (c * x) = decide (c * x = 0) := by
    unfold eqZero
    rcases lt_trichotomy (c * x) 0 with h | h | h
    · simp [h, h.ne]
    · simp [h]
    · simp [h, h.ne']
  have h2 : eqZero x = decide (x = 0) := by
    unfold eqZero
    rcases lt_trichotomy x 0 with h | h | h
    · simp [h, h.ne]
    · simp [h]
    · simp [h, h.ne']
  rw [h1, h2]
  simp [hc]

private theorem rombergStop_smulT {c : K} (hc : c ≠ 0) (tol : K) (cap iter : Nat) (T : Table K) :
    rombergStop tol cap iter (smulT c T) = scalePass c (rombergStop tol cap iter T) := by
  unfold rombergStop
  simp only [get?_smulT]
  cases T.get? 1 (iter + 1) with
  | none => rfl
  | some x =>
    cases T.get? 2 iter with
    | none => rfl
    | some y =>
      simp only [Option.map_some]
      have e : sabs (sabs (c * x - c * y) / (c * x)) = sabs (sabs (x - y) / x) := by
        rw [← mul_sub]
        simp only [sabs_eq_abs, abs_div, abs_mul, abs_abs]
        rw [mul_div_mul_left _ _ (abs_ne_zero.mpr hc)]
      rw [e, eqZero_mul hc]
      split
      · split <;> rfl
      · rfl

/-- **Romberg sees the integrand only through the trapezoid values, and is homogeneous in them**: if for
every segment count the trapezoid value of `(f₂, a₂, b₂)` is `c` times the one of `(f₁, a₁, b₁)` with
`c ≠ 0`, then one pass of the loop from the `c`-scaled table gives the `c`-scaled pass — the Richardson
columns are linear, and the stopping test (relative change, `x == 0`) does not change. -/
theorem rombergPass_scaled {c : K} (hc : c ≠ 0) (f₁ f₂ : K → Except PErr K) (a₁ b₁ a₂ b₂ : K)
    (htr : ∀ n, ∃ v, trapezoid f₁ a₁ b₁ n = .ok v ∧ trapezoid f₂ a₂ b₂ n = .ok (c * v))
    (tol : K) (cap iter : Nat) (T : Table K) :
    rombergPass f₂ a₂ b₂ tol cap iter (smulT c T) = scalePass c (rombergPass f₁ a₁ b₁ tol cap iter T) := by
  unfold rombergPass
  split
  · rfl
  · obtain ⟨v, h1, h2⟩ := htr (2 ^ iter)
    rw [h1, h2]
    simp only
    rw [set?_smulT]
    cases T.set? (iter + 1) 1 v with
    | none => rfl
    | some T1 =>
      simp only [Option.map_some]
      rw [rombergRow_smulT]
      cases rombergRow iter iter 2 T1 with
      | none => rfl
      | some T2 => simp only [Option.map_some]; exact rombergStop_smulT hc tol cap iter T2

private theorem rombergLoop_scaled {c : K} (hc : c ≠ 0) (f₁ f₂ : K → Except PErr K) (a₁ b₁ a₂ b₂ : K)
    (htr : ∀ n, ∃ v, trapezoid f₁ a₁ b₁ n = .ok v ∧ trapezoid f₂ a₂ b₂ n = .ok (c * v))
    (tol : K) (cap : Nat) :
    ∀ (fuel iter0 : Nat) (T : Table K),
      rombergLoop f₂ a₂ b₂ tol cap fuel iter0 (smulT c T)
        = mapOk (c * ·) (rombergLoop f₁ a₁ b₁ tol cap fuel iter0 T) := by
  intro fuel
  induction fuel with
  | zero =>
    intro iter0 T
    unfold rombergLoop
    rw [rombergPass_scaled hc f₁ f₂ a₁ b₁ a₂ b₂ htr]
    cases rombergPass f₁ a₁ b₁ tol cap (iter0 + 1) T <;> rfl
  | succ fuel ih =>
    intro iter0 T
    unfold rombergLoop
    rw [rombergPass_scaled hc f₁ f₂ a₁ b₁ a₂ b₂ htr]
    cases rombergPass f₁ a₁ b₁ tol cap (iter0 + 1) T with
    | done o => rfl
    | more T' => exact ih (iter0 + 1) T'

/-- **Romberg is homogeneous in the trapezoid values** (whole `romberg_definite`, early exit, cap and
panics included): if every trapezoid value of `(f₂, a₂, b₂)` is `c ≠ 0` times the one of `(f₁, a₁, b₁)`, the
outcome is the same with the returned value multiplied by `c` — same error, same panic, same number of
passes.  No absolute threshold can be part of the algorithm. -/
theorem romberg_scaled {c : K} (hc : c ≠ 0) (f₁ f₂ : K → Except PErr K) (a₁ b₁ a₂ b₂ : K)
    (htr : ∀ n, ∃ v, trapezoid f₁ a₁ b₁ n = .ok v ∧ trapezoid f₂ a₂ b₂ n = .ok (c * v))
    (dim maxiter : Nat) (tol : K) :
    romberg dim f₂ a₂ b₂ maxiter tol = mapOk (c * ·) (romberg dim f₁ a₁ b₁ maxiter tol) := by
  unfold romberg
  split
  · rfl
  · obtain ⟨v, h1, h2⟩ := htr 1
    rw [h1, h2]
    simp only
    have := set?_smulT c (Table.zeros dim : Table K) 1 1 v
    rw [zeros_smulT] at this
    rw [this]
    cases (Table.zeros dim : Table K).set? 1 1 v with
    | none => rfl
    | some T =>
      simp only [Option.map_some]
      exact rombergLoop_scaled hc f₁ f₂ a₁ b₁ a₂ b₂ htr tol _ _ 0 T

/-- **Romberg is homogeneous of degree 1 in the integrand**: `romberg (c·F) = c · romberg F` for `c ≠ 0`
(same tolerance, same cap, same table size): the relative stopping test does not see the scale. -/
theorem romberg_smul (F : K → K) {c : K} (hc : c ≠ 0) (a b : K) (dim maxiter : Nat) (tol : K) :
    romberg dim (tot fun x => c * F x) a b maxiter tol
      = mapOk (c * ·) (romberg dim (tot F) a b maxiter tol) := by
  apply romberg_scaled hc
  intro n
  obtain ⟨vF, vG, e1, _, e3⟩ := trapezoid_linear F (fun _ => 0) c 0 a b n
  refine ⟨vF, e1, ?_⟩
  simp only [mul_zero, add_zero, zero_mul] at e3
  exact e3

/-- **Romberg is odd under reversal of the interval**: `romberg F b a = − romberg F a b` (the value is
negated; `MaxIterationsReached`, panics and the pass at which it stops are the same). -/
theorem romberg_reverse (F : K → K) (a b : K) (dim maxiter : Nat) (tol : K) :
    romberg dim (tot F) b a maxiter tol = mapOk (-1 * ·) (romberg dim (tot F) a b maxiter tol) := by
  apply romberg_scaled (by norm_num : (-1 : K) ≠ 0)
  intro n
  obtain ⟨v, e1, e2⟩ := trapezoid_reverse F a b n
  exact ⟨v, e1, by rw [e2]; simp⟩

/-- **Romberg is translation invariant**: `x ↦ F (x − t)` on `[a + t, b + t]` gives the same outcome as
`F` on `[a, b]`. -/
theorem romberg_translate (F : K → K) (t a b : K) (dim maxiter : Nat) (tol : K) :
    romberg dim (tot fun x => F (x - t)) (a + t) (b + t) maxiter tol
      = romberg dim (tot F) a b maxiter tol := by
  have hpass : ∀ cap iter T, rombergPass (tot fun x => F (x - t)) (a + t) (b + t) tol cap iter T
      = rombergPass (tot F) a b tol cap iter T := by
    intro cap iter T; unfold rombergPass; rw [trapezoid_translate]
  have hloop : ∀ cap fuel iter0 T,
      rombergLoop (tot fun x => F (x - t)) (a + t) (b + t) tol cap fuel iter0 T
        = rombergLoop (tot F) a b tol cap fuel iter0 T := by
    intro cap fuel
    induction fuel with
    | zero => intro iter0 T; unfold rombergLoop; rw [hpass]
    | succ fuel ih =>
      intro iter0 T; unfold rombergLoop; rw [hpass]
      cases rombergPass (tot F) a b tol cap (iter0 + 1) T with
      | done o => rfl
      | more T' => exact ih (iter0 + 1) T'
  unfold romberg
  rw [trapezoid_translate]
  simp only [hloop]

/-! ## 6. Romberg: the table (without the stopping test) is linear in the integrand -/

/-- three optional scalars: all absent, or all present with the third `α·first + β·second` -/
def Rel3 (α β : K) : Option K → Option K → Option K → Prop
  | some u, some v, some w => w = α * u + β * v
  | none, none, none => True
  | _, _, _ => False

/-- three Romberg tables of the same shape, the third entrywise `α·first + β·second` -/
def LinT (α β : K) (T₁ T₂ T₃ : Table K) : Prop :=
  ∀ i j, Rel3 α β (T₁.get? i j) (T₂.get? i j) (T₃.get? i j)

/-- three optional tables (`none` = the code panicked): all panicked, or all present and `LinT` -/
def LinOT (α β : K) : Option (Table K) → Option (Table K) → Option (Table K) → Prop
  | some T₁, some T₂, some T₃ => LinT α β T₁ T₂ T₃
  | none, none, none => True
  | _, _, _ => False

private theorem rel3_cases {α β : K} {o₁ o₂ o₃ : Option K} (h : Rel3 α β o₁ o₂ o₃) :
    (o₁ = none ∧ o₂ = none ∧ o₃ = none) ∨
      ∃ u v, o₁ = some u ∧ o₂ = some v ∧ o₃ = some (α * u + β * v) := by
  cases o₁ <;> cases o₂ <;> cases o₃ <;> simp only [Rel3] at h
  · exact Or.inl ⟨rfl, rfl, rfl⟩
  · exact Or.inr ⟨_, _, rfl, rfl, by rw [h]⟩

private theorem linOT_cases {α β : K} {o₁ o₂ o₃ : Option (Table K)} (h : LinOT α β o₁ o₂ o₃) :
    (o₁ = none ∧ o₂ = none ∧ o₃ = none) ∨
      ∃ T₁ T₂ T₃, o₁ = some T₁ ∧ o₂ = some T₂ ∧ o₃ = some T₃ ∧ LinT α β T₁ T₂ T₃ := by
  cases o₁ <;> cases o₂ <;> cases o₃ <;> simp only [LinOT] at h
  · exact Or.inl ⟨rfl, rfl, rfl⟩
  · exact Or.inr ⟨_, _, _, rfl, rfl, rfl, h⟩

private theorem set?_some_of_get? {T : Table K} {i j : Nat} {x : K} (h : T.get? i j = some x)
    (v : K) : ∃ T', T.set? i j v = some T' := by
  unfold Table.get? at h
  unfold Table.set?
  cases hr : T[i]? with
  | none => rw [hr] at h; cases h
  | some row =>
    rw [hr] at h
    simp only at h ⊢
    have : j < row.size := (Array.getElem?_eq_some_iff.mp h).1
    rw [if_pos this]
    exact ⟨_, rfl⟩

private theorem set?_none_of_get? {T : Table K} {i j : Nat} (h : T.get? i j = none)
    (v : K) : T.set? i j v = none := by
  unfold Table.get? at h
  unfold Table.set?
  cases hr : T[i]? with
  | none => rfl
  | some row =>
    rw [hr] at h
    simp only at h ⊢
    have : ¬ j < row.size := by
      have := Array.getElem?_eq_none_iff.mp h
      omega
    rw [if_neg this]

private theorem set?_lin {α β : K} {T₁ T₂ T₃ : Table K} (H : LinT α β T₁ T₂ T₃) (i j : Nat)
    (u v : K) :
    LinOT α β (T₁.set? i j u) (T₂.set? i j v) (T₃.set? i j (α * u + β * v)) := by
  rcases rel3_cases (H i j) with ⟨e1, e2, e3⟩ | ⟨x, y, e1, e2, e3⟩
  · rw [set?_none_of_get? e1, set?_none_of_get? e2, set?_none_of_get? e3]; trivial
  · obtain ⟨T₁', h1⟩ := set?_some_of_get? e1 u
    obtain ⟨T₂', h2⟩ := set?_some_of_get? e2 v
    obtain ⟨T₃', h3⟩ := set?_some_of_get? e3 (α * u + β * v)
    rw [h1, h2, h3]
    have s1 := Table.set?_spec h1
    have s2 := Table.set?_spec h2
    have s3 := Table.set?_spec h3
    intro i' j'
    by_cases hij : i' = i ∧ j' = j
    · obtain ⟨rfl, rfl⟩ := hij
      rw [s1.1, s2.1, s3.1]
      rfl
    · have hne : i' ≠ i ∨ j' ≠ j := by omega
      rw [s1.2 i' j' hne, s2.2 i' j' hne, s3.2 i' j' hne]
      exact H i' j'

/-- **The Richardson columns of Romberg are linear in the table**: from three tables of the same shape with
`T₃ = α·T₁ + β·T₂` entrywise, the inner `for k` loop panics on all three or on none, and the resulting
tables again satisfy `T₃' = α·T₁' + β·T₂'` entrywise. -/
theorem rombergRow_linear (α β : K) (iter : Nat) :
    ∀ (n k : Nat) (T₁ T₂ T₃ : Table K), LinT α β T₁ T₂ T₃ →
      LinOT α β (rombergRow iter n k T₁) (rombergRow iter n k T₂) (rombergRow iter n k T₃) := by
  intro n
  induction n with
  | zero => intro k T₁ T₂ T₃ H; exact H
  | succ n ih =>
    intro k T₁ T₂ T₃ H
    unfold rombergRow
    by_cases h32 : 32 ≤ k - 1
    · simp only [if_pos h32]; trivial
    · simp only [if_neg h32]
      rcases rel3_cases (H (2 + iter - k + 1) (k - 1)) with ⟨e1, e2, e3⟩ | ⟨u₁, u₂, e1, e2, e3⟩ <;>
      rcases rel3_cases (H (2 + iter - k) (k - 1)) with ⟨d1, d2, d3⟩ | ⟨v₁, v₂, d1, d2, d3⟩ <;>
      rw [e1, e2, e3, d1, d2, d3] <;> simp only
      · trivial
      · trivial
      · trivial
      · have e : (((4 ^ (k - 1) : ℕ) : K) * (α * u₁ + β * u₂) - (α * v₁ + β * v₂))
              / (((4 ^ (k - 1) : ℕ) : K) - lit 1)
            = α * ((((4 ^ (k - 1) : ℕ) : K) * u₁ - v₁) / (((4 ^ (k - 1) : ℕ) : K) - lit 1))
              + β * ((((4 ^ (k - 1) : ℕ) : K) * u₂ - v₂) / (((4 ^ (k - 1) : ℕ) : K) - lit 1)) := by
          ring
        rw [e]
        rcases linOT_cases (set?_lin H (2 + iter - k) k
          ((((4 ^ (k - 1) : ℕ) : K) * u₁ - v₁) / (((4 ^ (k - 1) : ℕ) : K) - lit 1))
          ((((4 ^ (k - 1) : ℕ) : K) * u₂ - v₂) / (((4 ^ (k - 1) : ℕ) : K) - lit 1)))
          with ⟨c1, c2, c3⟩ | ⟨T₁', T₂', T₃', c1, c2, c3, H'⟩
        · rw [c1, c2, c3]; trivial
        · rw [c1, c2, c3]; exact ih (k + 1) T₁' T₂' T₃' H'

/-- **One pass of Romberg without the stopping test is linear in the integrand**: from tables with
`T₃ = α·T₁ + β·T₂`, storing the new trapezoid value (`table[iter+1][1] = trapezoidal_rule(…, 2^iter)`) and
running the Richardson columns for `F`, `G` and `αF + βG` panics on all three or on none and gives tables
with `T₃' = α·T₁' + β·T₂'`: every table entry is a linear functional of the integrand.  (The result of
`romberg_definite` itself is not additive, because the early exit looks at a relative change; it is
homogeneous — `romberg_smul`.) -/
theorem rombergFill_linear (F G : K → K) (α β a b : K) (iter : Nat) (T₁ T₂ T₃ : Table K)
    (H : LinT α β T₁ T₂ T₃) :
    ∃ tF tG, trapezoid (tot F) a b (2 ^ iter) = .ok tF ∧ trapezoid (tot G) a b (2 ^ iter) = .ok tG ∧
      trapezoid (tot fun x => α * F x + β * G x) a b (2 ^ iter) = .ok (α * tF + β * tG) ∧
      LinOT α β ((T₁.set? (iter + 1) 1 tF).bind (rombergRow iter iter 2))
        ((T₂.set? (iter + 1) 1 tG).bind (rombergRow iter iter 2))
        ((T₃.set? (iter + 1) 1 (α * tF + β * tG)).bind (rombergRow iter iter 2)) := by
  obtain ⟨tF, tG, e1, e2, e3⟩ := trapezoid_linear F G α β a b (2 ^ iter)
  refine ⟨tF, tG, e1, e2, e3, ?_⟩
  rcases linOT_cases (set?_lin H (iter + 1) 1 tF tG) with ⟨c1, c2, c3⟩ | ⟨T₁', T₂', T₃', c1, c2, c3, H'⟩
  · rw [c1, c2, c3]; trivial
  · rw [c1, c2, c3]; exact rombergRow_linear α β iter iter 2 T₁' T₂' T₃' H'

/-- the table Romberg starts from (`vec![vec![0.0; dim]; dim]`) is its own linear combination -/
theorem zeros_linT (α β : K) (dim : Nat) :
    LinT α β (Table.zeros dim : Table K) (Table.zeros dim) (Table.zeros dim) := by
  intro i j
  cases h : (Table.zeros dim : Table K).get? i j with
  | none => trivial
  | some x =>
    have hx : x = 0 := by
      unfold Table.get? Table.zeros at h
      by_cases hi : i < dim
      · rw [Array.getElem?_replicate, if_pos hi] at h
        simp only at h
        by_cases hj : j < dim
        · rw [Array.getElem?_replicate, if_pos hj] at h
          cases h; rfl
        · rw [Array.getElem?_replicate, if_neg hj] at h; cases h
      · rw [Array.getElem?_replicate, if_neg hi] at h; cases h
    subst hx
    simp [Rel3]

/-! ## 7. the same laws for the two polynomial types of the library -/

private theorem evalUni_eq_tot {powf : K → K → K} {p : AnyPoly K} {q : K[X]}
    (h : Evaluates powf p q) : p.evalUni powf = tot fun x => q.eval x := funext h

/-- **`definite_integral` on polynomials is linear**: if `p₁`, `p₂`, `p₃` (of either polynomial type)
evaluate like `q₁`, `q₂` and `α·q₁ + β·q₂`, then for every interval and segment count the result for `p₃` is
`α·(result for p₁) + β·(result for p₂)`. -/
theorem definiteIntegralP_linear (powf : K → K → K) (p₁ p₂ p₃ : AnyPoly K) (q₁ q₂ : K[X]) (α β : K)
    (h₁ : Evaluates powf p₁ q₁) (h₂ : Evaluates powf p₂ q₂)
    (h₃ : Evaluates powf p₃ (C α * q₁ + C β * q₂)) (a b : K) (n : Nat) :
    ∃ v₁ v₂, definiteIntegralP powf p₁ a b n = .ok v₁ ∧ definiteIntegralP powf p₂ a b n = .ok v₂ ∧
      definiteIntegralP powf p₃ a b n = .ok (α * v₁ + β * v₂) := by
  unfold definiteIntegralP
  rw [evalUni_eq_tot h₁, evalUni_eq_tot h₂, evalUni_eq_tot h₃]
  simp only [eval_add, eval_mul, eval_C]
  exact definiteIntegral_linear _ _ α β a b n

/-- **`definite_integral` on polynomials is translation invariant**: if `p'` evaluates like `q(x − t)` and
`p` like `q`, then `p'` on `[a + t, b + t]` gives the same result as `p` on `[a, b]`. -/
theorem definiteIntegralP_translate (powf : K → K → K) (p p' : AnyPoly K) (q : K[X]) (t : K)
    (h : Evaluates powf p q) (h' : Evaluates powf p' (q.comp (X - C t))) (a b : K) (n : Nat) :
    definiteIntegralP powf p' (a + t) (b + t) n = definiteIntegralP powf p a b n := by
  unfold definiteIntegralP
  rw [evalUni_eq_tot h, evalUni_eq_tot h']
  simp only [eval_comp, eval_sub, eval_X, eval_C]
  exact definiteIntegral_translate (fun x => q.eval x) t a b n

/-- **`definite_integral` on polynomials, even `n`, is odd under reversal of the interval.** -/
theorem definiteIntegralP_reverse_even (powf : K → K → K) (p : AnyPoly K) (q : K[X])
    (h : Evaluates powf p q) (a b : K) (n : Nat) (hn : n % 2 = 0) :
    ∃ v, definiteIntegralP powf p a b n = .ok v ∧ definiteIntegralP powf p b a n = .ok (-v) := by
  unfold definiteIntegralP
  rw [evalUni_eq_tot h]
  exact definiteIntegral_reverse_even _ a b n hn

/-- **`romberg_definite` on polynomials is odd under reversal of the interval** (value negated, the same
error / panic outcome otherwise). -/
theorem rombergP_reverse (powf : K → K → K) (p : AnyPoly K) (q : K[X])
    (h : Evaluates powf p q) (a b : K) (maxiter : Nat) (tol : K) :
    rombergP powf p b a maxiter tol = mapOk (-1 * ·) (rombergP powf p a b maxiter tol) := by
  unfold rombergP
  rw [evalUni_eq_tot h]
  exact romberg_reverse _ a b _ maxiter tol

/-! ## Non-vacuity (over `ℚ`) -/

/-- the model really computes on `tot` integrands, and the linearity law is visible on numbers:
`x²`, `x` and `2x² + 3x` on `[0, 1]` with 5 segments (3/8 + 1/3 panels) -/
example : definiteIntegral (tot fun x : ℚ => x ^ 2) 0 1 5 = .ok (1 / 3) ∧
    definiteIntegral (tot fun x : ℚ => x) 0 1 5 = .ok (1 / 2) ∧
    definiteIntegral (tot fun x : ℚ => 2 * x ^ 2 + 3 * x) 0 1 5 = .ok (2 * (1 / 3) + 3 * (1 / 2)) := by
  refine ⟨?_, ?_, ?_⟩ <;> norm_num [definiteIntegral, simpson38, simpson13, s13Loop, tot, lit]

/-- an instance of the linearity theorem -/
example : ∃ vF vG, definiteIntegral (tot fun x : ℚ => x ^ 2) 0 1 5 = .ok vF ∧
    definiteIntegral (tot fun x : ℚ => x) 0 1 5 = .ok vG ∧
    definiteIntegral (tot fun x : ℚ => 2 * x ^ 2 + 3 * x) 0 1 5 = .ok (2 * vF + 3 * vG) :=
  definiteIntegral_linear _ _ 2 3 0 1 5

/-- translation and (even `n`) reversal on numbers: `x⁴` on `[0, 2]`, `(x − 3)⁴` on `[3, 5]`, and `x⁴` on
`[2, 0]`, 4 segments — a quartic, so the value `77/12` is not the integral `32/5` -/
example : definiteIntegral (tot fun x : ℚ => x ^ 4) 0 2 4 = .ok (77 / 12) ∧
    definiteIntegral (tot fun x : ℚ => (x - 3) ^ 4) (0 + 3) (2 + 3) 4 = .ok (77 / 12) ∧
    definiteIntegral (tot fun x : ℚ => x ^ 4) 2 0 4 = .ok (-(77 / 12)) := by
  refine ⟨?_, ?_, ?_⟩ <;> norm_num [definiteIntegral, simpson13, s13Loop, tot, lit]

/-- Romberg returns a value on a `tot` integrand, and the reversed interval returns its negative -/
example : romberg 10 (tot fun x : ℚ => x ^ 3) 0 2 5 1 = .ok 4 ∧
    romberg 10 (tot fun x : ℚ => x ^ 3) 2 0 5 1 = .ok (-4) := by
  constructor <;> decide +kernel

/-- the step `(b − a)/n` written as `b/n − a/n` is the same number -/
example : ((7 : ℚ) - 3) / (5 : ℕ) = 7 / (5 : ℕ) - 3 / (5 : ℕ) := width_split 3 7 5

end SV.Props.C05Linear
