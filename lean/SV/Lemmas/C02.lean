import SV.Model.C02
/-!
Lemmas for the canonical-form half of C02 (`parse_canonical`, `parse_ok_variables_ascii`):

* `addVar` never changes the names already present and adds the new name at most once, so the names
  collected by `scanVars` stay pairwise distinct and are all `String.singleton c` with `c` an ASCII letter;
* `List.mergeSort` with the name comparison yields a permutation that is sorted (core
  `List.pairwise_mergeSort`, `List.mergeSort_perm`), using only that `≤` on `String` is transitive and
  total (`String.le_trans`, `String.le_total` of core);
* `List.eraseDups` has the same members (core `List.mem_eraseDups`) and no duplicates (`nodup_eraseDups`,
  proved here).

Only core lemmas are used (no Mathlib import).
-/
namespace SV.C02
open SV SV.Text

/-- the names of a variable list -/
def names (vars : List (String × Num)) : List String := vars.map (·.1)

/-- a name produced by the parser: one ASCII letter -/
def IsLetterName (n : String) : Prop := ∃ c : Char, isAsciiLetter c = true ∧ n = String.singleton c

/-! ### `addVar` -/

theorem names_upd (name : String) (p : Num) (vars : List (String × Num)) :
    names (addVar.upd name p vars) = names vars := by
  induction vars with
  | nil => rfl
  | cons v vs ih =>
    obtain ⟨n, e⟩ := v
    unfold addVar.upd
    by_cases h : n = name
    · rw [if_pos h]; rfl
    · rw [if_neg h]
      simp only [names, List.map_cons] at ih ⊢
      rw [ih]

theorem any_name_iff (vars : List (String × Num)) (name : String) :
    vars.any (fun v => v.1 = name) = true ↔ name ∈ names vars := by
  simp only [names, List.any_eq_true, decide_eq_true_eq, List.mem_map]

theorem names_addVar (vars : List (String × Num)) (name : String) (p : Num) :
    names (addVar vars name p) = if name ∈ names vars then names vars else names vars ++ [name] := by
  unfold addVar
  by_cases h : name ∈ names vars
  · rw [if_pos ((any_name_iff vars name).2 h), if_pos h]
    exact names_upd name p vars
  · have h' : ¬ (vars.any (fun v => v.1 = name) = true) := fun e => h ((any_name_iff vars name).1 e)
    rw [if_neg h', if_neg h]
    simp [names]

/-- a fresh name is appended with its exponent -/
theorem addVar_fresh (vars : List (String × Num)) (name : String) (p : Num) (h : name ∉ names vars) :
    addVar vars name p = vars ++ [(name, p)] := by
  unfold addVar
  have h' : ¬ (vars.any (fun v => v.1 = name) = true) := fun e => h ((any_name_iff vars name).1 e)
  rw [if_neg h']

theorem nodup_names_addVar (vars : List (String × Num)) (name : String) (p : Num)
    (h : (names vars).Nodup) : (names (addVar vars name p)).Nodup := by
  rw [names_addVar]
  by_cases hm : name ∈ names vars
  · rw [if_pos hm]; exact h
  · rw [if_neg hm]
    refine List.nodup_append.2 ⟨h, by simp, ?_⟩
    intro a ha b hb
    have : b = name := by simpa using hb
    subst this
    intro e; subst e; exact hm ha

theorem mem_names_addVar {vars : List (String × Num)} {name : String} {p : Num} {n : String}
    (h : n ∈ names (addVar vars name p)) : n ∈ names vars ∨ n = name := by
  rw [names_addVar] at h
  by_cases hm : name ∈ names vars
  · rw [if_pos hm] at h; exact Or.inl h
  · rw [if_neg hm] at h
    rcases List.mem_append.1 h with h | h
    · exact Or.inl h
    · right; simpa using h

/-! ### the variable loop -/

/-- invariant of `scanVars`: names pairwise distinct, each a single ASCII letter -/
def VarsOK (vars : List (String × Num)) : Prop :=
  (names vars).Nodup ∧ ∀ n ∈ names vars, IsLetterName n

theorem varsOK_nil : VarsOK [] := ⟨List.Pairwise.nil, fun _ h => by simp [names] at h⟩

theorem varsOK_addVar {vars : List (String × Num)} (c : Char) (p : Num) (hc : isAsciiLetter c = true)
    (h : VarsOK vars) : VarsOK (addVar vars (String.singleton c) p) := by
  refine ⟨nodup_names_addVar _ _ _ h.1, ?_⟩
  intro n hn
  rcases mem_names_addVar hn with hn | rfl
  · exact h.2 n hn
  · exact ⟨c, hc, rfl⟩

theorem scanVars_ok (fuel : Nat) (s : List Char) (vars out : List (String × Num))
    (h : scanVars fuel s vars = .ok out) (hv : VarsOK vars) : VarsOK out := by
  induction fuel generalizing s vars with
  | zero =>
    unfold scanVars at h
    cases h; exact hv
  | succ fuel ih =>
    cases s with
    | nil =>
      unfold scanVars at h
      cases h; exact hv
    | cons c cs =>
      unfold scanVars at h
      by_cases hc : isAsciiLetter c = true
      · rw [if_pos hc] at h
        split at h
        · rename_i rest
          cases hs : scanExp rest with
          | mk pow rest' =>
            rw [hs] at h
            simp only at h
            cases he : expValue pow with
            | error e => rw [he] at h; cases h
            | ok p =>
              rw [he] at h
              exact ih _ _ h (varsOK_addVar c p hc hv)
        · exact ih _ _ h (varsOK_addVar c Num.one hc hv)
      · rw [if_neg hc] at h; cases h

/-! ### sorting by name -/

/-- the comparison `vars.sort_by(|a, b| a.0.cmp(&b.0))` -/
def leName (a b : String × Num) : Bool := decide (a.1 ≤ b.1)

theorem leName_trans (a b c : String × Num) (h1 : leName a b = true) (h2 : leName b c = true) :
    leName a c = true := by
  simp only [leName, decide_eq_true_eq] at *
  exact String.le_trans h1 h2

theorem leName_total (a b : String × Num) : (leName a b || leName b a) = true := by
  simp only [leName, Bool.or_eq_true, decide_eq_true_eq]
  exact String.le_total a.1 b.1

theorem names_sorted_mergeSort (vars : List (String × Num)) :
    (names (vars.mergeSort leName)).Pairwise (· ≤ ·) := by
  have h := List.pairwise_mergeSort leName_trans leName_total vars
  unfold names
  rw [List.pairwise_map]
  exact h.imp (fun {a b} hab => by simpa [leName] using hab)

theorem names_perm_mergeSort (vars : List (String × Num)) :
    (names (vars.mergeSort leName)).Perm (names vars) :=
  (List.mergeSort_perm vars leName).map _

theorem varsOK_mergeSort {vars : List (String × Num)} (h : VarsOK vars) :
    VarsOK (vars.mergeSort leName) := by
  have hp := names_perm_mergeSort vars
  exact ⟨hp.symm.nodup h.1, fun n hn => h.2 n (hp.mem_iff.1 hn)⟩

/-- sorted by `≤` without duplicates is strictly increasing (`String.le_antisymm` is not even needed:
`a < b` is `¬ b ≤ a`, and `b ≤ a` with `a ≤ b` and `a ≠ b` is excluded by antisymmetry) -/
theorem pairwise_lt_of_le_of_nodup {l : List String} (h1 : l.Pairwise (· ≤ ·)) (h2 : l.Nodup) :
    l.Pairwise (· < ·) := by
  induction l with
  | nil => exact List.Pairwise.nil
  | cons a l ih =>
    rw [List.pairwise_cons] at h1 ⊢
    have h2' := List.pairwise_cons.1 h2
    refine ⟨fun b hb => ?_, ih h1.2 h2'.2⟩
    have hab : a ≤ b := h1.1 b hb
    have hne : a ≠ b := h2'.1 b hb
    exact String.not_le.1 (fun hba => hne (String.le_antisymm hab hba))

/-! ### one part, all parts -/

/-- canonical form of one term -/
def TermOK (t : ITerm) : Prop :=
  (names t.vars).Pairwise (· ≤ ·) ∧ (names t.vars).Nodup ∧ ∀ n ∈ names t.vars, IsLetterName n

theorem parsePart_ok (cc : CharClass) (part : List Char) (t : ITerm) (h : parsePart cc part = .ok t) :
    TermOK t := by
  unfold parsePart at h
  cases hs : scanCoeff cc true part with
  | mk coeff rest =>
    rw [hs] at h
    simp only at h
    cases hc : coeffValue coeff with
    | error e => rw [hc] at h; cases h
    | ok c =>
      rw [hc] at h
      simp only at h
      cases hv : scanVars (rest.length + 1) rest [] with
      | error e => rw [hv] at h; cases h
      | ok vars =>
        rw [hv] at h
        simp only at h
        cases h
        have hok := scanVars_ok _ _ _ _ hv varsOK_nil
        have hm := varsOK_mergeSort hok
        exact ⟨names_sorted_mergeSort vars, hm.1, hm.2⟩

theorem parseParts_ok (cc : CharClass) (ps : List (List Char)) (ts : List ITerm)
    (h : parseParts cc ps = .ok ts) : ∀ t ∈ ts, TermOK t := by
  induction ps generalizing ts with
  | nil =>
    unfold parseParts at h
    cases h
    intro t ht; cases ht
  | cons p ps ih =>
    unfold parseParts at h
    cases hp : parsePart cc p with
    | error e => rw [hp] at h; cases h
    | ok t =>
      rw [hp] at h
      simp only at h
      cases hps : parseParts cc ps with
      | error e => rw [hps] at h; cases h
      | ok ts' =>
        rw [hps] at h
        simp only at h
        cases h
        intro u hu
        rcases List.mem_cons.1 hu with rfl | hu
        · exact parsePart_ok cc p _ hp
        · exact ih ts' hps u hu

/-! ### `eraseDups` -/

theorem nodup_eraseDups {α : Type} [BEq α] [LawfulBEq α] (l : List α) : l.eraseDups.Nodup := by
  generalize hn : l.length = n
  induction n using Nat.strongRecOn generalizing l with
  | _ n ih =>
    cases l with
    | nil => simp [List.Nodup]
    | cons a as =>
      rw [List.eraseDups_cons]
      have hlen : (as.filter fun b => !b == a).length < n := by
        have := List.length_filter_le (fun b => !b == a) as
        simp only [List.length_cons] at hn
        omega
      refine List.pairwise_cons.2 ⟨?_, ih _ hlen _ rfl⟩
      intro b hb
      rw [List.mem_eraseDups, List.mem_filter] at hb
      intro e
      subst e
      simp at hb

/-- what `parse` returns: the term list of `parseParts` and the sorted set of the names used -/
theorem parse_ok_iff (cc : CharClass) (s : List Char) (p : IParsed) (h : parse cc s = .ok p) :
    parseParts cc (parts (normalize cc s)) = .ok p.terms ∧
    p.variables = ((p.terms.flatMap fun t => t.vars.map (·.1)).eraseDups).mergeSort (fun a b => a ≤ b) := by
  unfold parse at h
  simp only at h
  split at h
  · cases h
  · cases hps : parseParts cc (parts (normalize cc s)) with
    | error e => rw [hps] at h; cases h
    | ok ts =>
      rw [hps] at h
      simp only at h
      cases h
      exact ⟨rfl, rfl⟩

theorem variables_sorted (l : List String) :
    (l.mergeSort (fun a b => decide (a ≤ b))).Pairwise (· ≤ ·) := by
  have h := List.pairwise_mergeSort (le := fun (a b : String) => decide (a ≤ b))
    (fun a b c h1 h2 => by
      simp only [decide_eq_true_eq] at *
      exact String.le_trans h1 h2)
    (fun a b => by
      simp only [Bool.or_eq_true, decide_eq_true_eq]
      exact String.le_total a b) l
  exact h.imp (fun {a b} hab => by simpa using hab)

end SV.C02
