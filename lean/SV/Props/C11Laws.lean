import SV.Props.C11
/-!
# C11 — the shape rule admits no data-dependent exception, and the product is bilinear

Companion of `SV.Props.C11`.  Statements "for every shape and every commutative semiring":

* `dot_nonconforming_is_error`, `row_times_column_mismatch_is_error`: unequal inner dimensions with no 1×1 operand give the
  shape error whatever the contents (no truncated sum is returned), and the `*` operator gives the empty array;
* `dot_outcome_depends_on_shapes_only`: ok / error (and which error, and the shape of the result) is a function of the four
  dimensions only;
* `dot_add_left`, `dot_add_right`, `dot_smul_left`: bilinearity on conforming shapes, as equalities of the returned arrays;
* `dot_zero_left`, `dot_zero_right`: a zero factor gives the zero matrix of the right shape.
-/
namespace SV.Props.C11Laws
open SV SV.C11 SV.Props.C11 Finset

variable {R : Type} [CommSemiring R] [Inhabited R]

/-- entrywise sum of two arrays (shape of the first) -/
def madd (a b : Mat R) : Mat R := Mat.tab a.h a.w fun i j => a.get i j + b.get i j

/-- the `h × w` array of zeros -/
def mzero (h w : Nat) : Mat R := Mat.tab h w fun _ _ => 0

/-- Unequal inner dimensions and no 1×1 operand: the checked product is the shape error carrying the two inner dimensions,
whatever the arrays contain, and the `*` operator returns the empty 0×0 array. -/
theorem dot_nonconforming_is_error (a b : Mat R) (hc : a.w ≠ b.h) (ha : ¬(a.h = 1 ∧ a.w = 1))
    (hb : ¬(b.h = 1 ∧ b.w = 1)) :
    dot a b = .error (.invalidDotShape a.w b.h) ∧ mulOp a b = ⟨0, 0, #[]⟩ := by
  have h := (dot_shape_table a b).2.2.2 hc ha hb
  exact ⟨h, by simp [mulOp, h]⟩

/-- A 1×k row times an l×1 column with `k ≠ l` (neither being 1×1) is the shape error: the code never returns a sum over
the shorter of the two lengths. -/
theorem row_times_column_mismatch_is_error (a b : Mat R) (_har : a.h = 1) (_hbc : b.w = 1)
    (hkl : a.w ≠ b.h) (hk : a.w ≠ 1) (hl : b.h ≠ 1) :
    dot a b = .error (.invalidDotShape a.w b.h) ∧ (∀ m, dot a b ≠ .ok m) ∧ mulOp a b = ⟨0, 0, #[]⟩ := by
  obtain ⟨h1, h2⟩ := dot_nonconforming_is_error a b hkl (fun h => hk h.2) (fun h => hl h.1)
  exact ⟨h1, fun m hm => (by rw [h1] at hm; cases hm), h2⟩

/-- Two pairs of arrays with the same four dimensions get the same kind of outcome: both succeed (with results of the same
shape) or both fail with the same error.  The contents cannot switch the shape rule on or off. -/
theorem dot_outcome_depends_on_shapes_only (a b a' b' : Mat R) (h1 : a.h = a'.h) (h2 : a.w = a'.w)
    (h3 : b.h = b'.h) (h4 : b.w = b'.w) :
    (∀ e, dot a b = .error e ↔ dot a' b' = .error e) ∧
    ((∃ m, dot a b = .ok m) ↔ (∃ m', dot a' b' = .ok m')) ∧
    (∀ m m', dot a b = .ok m → dot a' b' = .ok m' → m.h = m'.h ∧ m.w = m'.w) := by
  unfold dot
  rw [← h1, ← h2, ← h3, ← h4]
  by_cases ha : a.h = 1 ∧ a.w = 1
  · simp only [ha, and_self, if_true]
    refine ⟨fun e => by simp, by simp, ?_⟩
    intro m m' hm hm'
    cases hm; cases hm'; simp [h3, h4]
  · by_cases hb : b.h = 1 ∧ b.w = 1
    · simp only [ha, if_false, hb, and_self, if_true]
      refine ⟨fun e => by simp, by simp, ?_⟩
      intro m m' hm hm'
      cases hm; cases hm'; simp [h1, h2]
    · by_cases hc : a.w = b.h
      · have hc'' : ¬(a.w ≠ b.h) := not_not.mpr hc
        simp only [if_neg ha, if_neg hb, if_neg hc'']
        refine ⟨fun e => by simp, by simp, ?_⟩
        intro m m' hm hm'
        cases hm; cases hm'; simp [h1, h4]
      · have hc' : a.w ≠ b.h := hc
        simp only [if_neg ha, if_neg hb, if_pos hc']
        refine ⟨by simp, by simp, ?_⟩
        intro m m' hm
        cases hm

/-- shape facts for a successful conforming product -/
private theorem ok_shape (a b m : Mat R) (hc : a.w = b.h) (hm : dot a b = .ok m) :
    m.h = a.h ∧ m.w = b.w ∧ m.WF := by
  obtain ⟨m', hm', h1, h2, h3⟩ := (dot_shape_table a b).1 hc
  rw [hm] at hm'
  cases hm'
  exact ⟨h1, h2, h3⟩

/-- Additivity in the left factor on conforming shapes: `(a₁ + a₂)·b` is the entrywise sum of `a₁·b` and `a₂·b`, as an
equality of the returned arrays. -/
theorem dot_add_left (a₁ a₂ b m m₁ m₂ : Mat R) (hh : a₁.h = a₂.h) (hw : a₁.w = a₂.w) (hc : a₁.w = b.h)
    (hm : dot (madd a₁ a₂) b = .ok m) (hm₁ : dot a₁ b = .ok m₁) (hm₂ : dot a₂ b = .ok m₂) :
    m = madd m₁ m₂ := by
  have hc' : (madd a₁ a₂).w = b.h := hc
  have hc₂ : a₂.w = b.h := by rw [← hw]; exact hc
  obtain ⟨mh, mw, mwf⟩ := ok_shape _ _ m hc' hm
  obtain ⟨m1h, m1w, _⟩ := ok_shape _ _ m₁ hc hm₁
  have mh' : m.h = a₁.h := mh
  apply Mat.ext_get mwf (Mat.tab_WF _ _ _) (by simp [mh', m1h]) (by simp [mw, m1w])
  intro i j hi hj
  have hi' : i < a₁.h := by rw [mh'] at hi; exact hi
  have hj' : j < b.w := by rw [mw] at hj; exact hj
  rw [dot_entry _ _ m hc' hm i j hi' hj', madd,
    Mat.get_tab _ (by rw [m1h]; exact hi') (by rw [m1w]; exact hj'),
    dot_entry _ _ m₁ hc hm₁ i j hi' hj', dot_entry _ _ m₂ hc₂ hm₂ i j (by rw [← hh]; exact hi') hj',
    ← hw, ← Finset.sum_add_distrib]
  apply Finset.sum_congr rfl
  intro k hk
  have hk' : k < a₁.w := by simpa using hk
  show (Mat.tab a₁.h a₁.w fun i j => a₁.get i j + a₂.get i j).get i k * b.get k j = _
  rw [Mat.get_tab _ hi' hk', add_mul]

/-- Additivity in the right factor on conforming shapes. -/
theorem dot_add_right (a b₁ b₂ m m₁ m₂ : Mat R) (hh : b₁.h = b₂.h) (hw : b₁.w = b₂.w) (hc : a.w = b₁.h)
    (hm : dot a (madd b₁ b₂) = .ok m) (hm₁ : dot a b₁ = .ok m₁) (hm₂ : dot a b₂ = .ok m₂) :
    m = madd m₁ m₂ := by
  have hc' : a.w = (madd b₁ b₂).h := hc
  have hc₂ : a.w = b₂.h := by rw [← hh]; exact hc
  obtain ⟨mh, mw, mwf⟩ := ok_shape _ _ m hc' hm
  obtain ⟨m1h, m1w, _⟩ := ok_shape _ _ m₁ hc hm₁
  have mw' : m.w = b₁.w := mw
  apply Mat.ext_get mwf (Mat.tab_WF _ _ _) (by simp [mh, m1h]) (by simp [mw', m1w])
  intro i j hi hj
  have hi' : i < a.h := by rw [mh] at hi; exact hi
  have hj' : j < b₁.w := by rw [mw'] at hj; exact hj
  rw [dot_entry _ _ m hc' hm i j hi' hj', madd,
    Mat.get_tab _ (by rw [m1h]; exact hi') (by rw [m1w]; exact hj'),
    dot_entry _ _ m₁ hc hm₁ i j hi' hj', dot_entry _ _ m₂ hc₂ hm₂ i j hi' (by rw [← hw]; exact hj'),
    ← Finset.sum_add_distrib]
  apply Finset.sum_congr rfl
  intro k hk
  have hk' : k < b₁.h := by rw [← hc]; simpa using hk
  show a.get i k * (Mat.tab b₁.h b₁.w fun i j => b₁.get i j + b₂.get i j).get k j = _
  rw [Mat.get_tab _ hk' hj', mul_add]

/-- Homogeneity: scaling the left factor by `c` (the code's `&Arr2D * scalar`) scales the product by `c`, as an equality
of the returned arrays. -/
theorem dot_smul_left (a b m m₀ : Mat R) (c : R) (hc : a.w = b.h)
    (hm : dot (smul a c) b = .ok m) (hm₀ : dot a b = .ok m₀) : m = smul m₀ c := by
  have hc' : (smul a c).w = b.h := hc
  obtain ⟨mh, mw, mwf⟩ := ok_shape _ _ m hc' hm
  obtain ⟨m0h, m0w, _⟩ := ok_shape _ _ m₀ hc hm₀
  have mh' : m.h = a.h := mh
  apply Mat.ext_get mwf (Mat.tab_WF _ _ _) (by simp [mh', m0h]) (by simp [mw, m0w])
  intro i j hi hj
  have hi' : i < a.h := by rw [mh'] at hi; exact hi
  have hj' : j < b.w := by rw [mw] at hj; exact hj
  rw [dot_entry _ _ m hc' hm i j hi' hj', smul,
    Mat.get_tab _ (by rw [m0h]; exact hi') (by rw [m0w]; exact hj'),
    dot_entry _ _ m₀ hc hm₀ i j hi' hj', Finset.sum_mul]
  apply Finset.sum_congr rfl
  intro k hk
  have hk' : k < a.w := by simpa using hk
  show (Mat.tab a.h a.w fun i j => a.get i j * c).get i k * b.get k j = _
  rw [Mat.get_tab _ hi' hk', mul_right_comm]

/-- Homogeneity in the right factor: scaling the right factor by `c` scales the product by `c`. -/
theorem dot_smul_right (a b m m₀ : Mat R) (c : R) (hc : a.w = b.h)
    (hm : dot a (smul b c) = .ok m) (hm₀ : dot a b = .ok m₀) : m = smul m₀ c := by
  have hc' : a.w = (smul b c).h := hc
  obtain ⟨mh, mw, mwf⟩ := ok_shape _ _ m hc' hm
  obtain ⟨m0h, m0w, _⟩ := ok_shape _ _ m₀ hc hm₀
  have mw' : m.w = b.w := mw
  apply Mat.ext_get mwf (Mat.tab_WF _ _ _) (by simp [mh, m0h]) (by simp [mw', m0w])
  intro i j hi hj
  have hi' : i < a.h := by rw [mh] at hi; exact hi
  have hj' : j < b.w := by rw [mw'] at hj; exact hj
  rw [dot_entry _ _ m hc' hm i j hi' hj', smul,
    Mat.get_tab _ (by rw [m0h]; exact hi') (by rw [m0w]; exact hj'),
    dot_entry _ _ m₀ hc hm₀ i j hi' hj', Finset.sum_mul]
  apply Finset.sum_congr rfl
  intro k hk
  have hk' : k < b.h := by rw [← hc]; simpa using hk
  show a.get i k * (Mat.tab b.h b.w fun i j => b.get i j * c).get k j = _
  rw [Mat.get_tab _ hk' hj', mul_assoc]

/-- On conforming shapes all the products in the bilinearity statements do succeed, so those statements are not vacuous:
the sum of two arrays of the shape of `a` conforms with `b` exactly when `a` does. -/
theorem dot_add_left_ok (a₁ a₂ b : Mat R) (hc : a₁.w = b.h) : ∃ m, dot (madd a₁ a₂) b = .ok m := by
  obtain ⟨m, hm, _⟩ := (dot_shape_table (madd a₁ a₂) b).1 hc
  exact ⟨m, hm⟩

/-- A zero left factor of conforming shape gives the zero matrix of the shape of the product. -/
theorem dot_zero_left (h : Nat) (b m : Mat R) (hm : dot (mzero h b.h) b = .ok m) : m = mzero h b.w := by
  have hc : (mzero (R := R) h b.h).w = b.h := rfl
  obtain ⟨mh, mw, mwf⟩ := ok_shape _ _ m hc hm
  have mh' : m.h = h := mh
  apply Mat.ext_get mwf (Mat.tab_WF _ _ _) (by simp [mh']) (by simp [mw])
  intro i j hi hj
  have hi' : i < h := by rw [mh'] at hi; exact hi
  have hj' : j < b.w := by rw [mw] at hj; exact hj
  rw [dot_entry _ _ m hc hm i j hi' hj', mzero, Mat.get_tab _ hi' hj']
  apply Finset.sum_eq_zero
  intro k hk
  have hk' : k < b.h := by simpa using hk
  rw [Mat.get_tab _ hi' hk', zero_mul]

/-- A zero right factor of conforming shape gives the zero matrix of the shape of the product. -/
theorem dot_zero_right (a m : Mat R) (w : Nat) (hm : dot a (mzero a.w w) = .ok m) : m = mzero a.h w := by
  have hc : a.w = (mzero (R := R) a.w w).h := rfl
  obtain ⟨mh, mw, mwf⟩ := ok_shape _ _ m hc hm
  have mw' : m.w = w := mw
  apply Mat.ext_get mwf (Mat.tab_WF _ _ _) (by simp [mh]) (by simp [mw'])
  intro i j hi hj
  have hi' : i < a.h := by rw [mh] at hi; exact hi
  have hj' : j < w := by rw [mw'] at hj; exact hj
  rw [dot_entry _ _ m hc hm i j hi' hj', mzero, Mat.get_tab _ hi' hj']
  apply Finset.sum_eq_zero
  intro k hk
  have hk' : k < a.w := by simpa using hk
  rw [Mat.get_tab _ hk' hj', mul_zero]

/-- Non-vacuity (over `ℤ`): a 1×3 row times a 2×1 column is rejected, and the operator form is empty. -/
example : dot (⟨1, 3, #[1, 2, 3]⟩ : Mat Int) ⟨2, 1, #[4, 5]⟩ = .error (.invalidDotShape 3 2) :=
  (row_times_column_mismatch_is_error _ _ rfl rfl (by decide) (by decide) (by decide)).1
example : (mulOp (⟨1, 3, #[1, 2, 3]⟩ : Mat Int) ⟨2, 1, #[4, 5]⟩).a = #[] := by
  rw [(row_times_column_mismatch_is_error _ _ rfl rfl (by decide) (by decide) (by decide)).2.2]
/-- Non-vacuity: the hypotheses of `dot_add_left` are satisfiable (the three products succeed). -/
example : ∃ m m₁ m₂ : Mat Int,
    dot (madd ⟨2, 2, #[1, 2, 3, 4]⟩ ⟨2, 2, #[5, 6, 7, 8]⟩) ⟨2, 1, #[1, 1]⟩ = .ok m ∧
    dot ⟨2, 2, #[1, 2, 3, 4]⟩ ⟨2, 1, #[1, 1]⟩ = .ok m₁ ∧ dot ⟨2, 2, #[5, 6, 7, 8]⟩ ⟨2, 1, #[1, 1]⟩ = .ok m₂ :=
  ⟨_, _, _, rfl, rfl, rfl⟩

end SV.Props.C11Laws
