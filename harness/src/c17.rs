//! C17 — printed polynomials read back as the same polynomial, at every precision.
//!
//!   ds <prec|-> <var|-> <n> { <coef bits> <text> }*          Display for SimplePolynomial
//!   di <prec|-> <nterms> { <coef bits> <text> <nvars> { <name> <exp bits> <text> }* }*   Display for IntermediatePolynomial
//!   dt <coef bits> <text> <nvars> { <name> <exp bits> <text> }*   Display for Term
//!   dm <n> { <coef bits> <text> }*                           LinearModel::to_polynomial_string
//!
//! `<text>` is what Rust's formatter printed for that single number (`{}` / `{:.p}` of the magnitude for the
//! polynomial printers, of the signed value for Term and the model string) — the Lean model takes the
//! spelling of numbers as given and must reproduce the sign / spacing / elision / trimming rules.
//! Observation: `<printed text> # <the real parser's answer on the printed text>`; the Python oracle compares
//! the parse-back with the original exactly (default) or within half a unit of the last decimal.
use crate::util::*;
use spindalis::regressors::linear::LinearModel;
use spindalis_core::polynomials::structs::{IntermediatePolynomial, PolynomialTraits, SimplePolynomial};
use spindalis_core::polynomials::Term;

fn fmt_num(x: f64, prec: Option<usize>) -> String {
    match prec {
        Some(p) => format!("{:.*}", p, x),
        None => format!("{}", x),
    }
}

fn prec_tok(p: Option<usize>) -> String {
    match p {
        Some(p) => format!("{p}"),
        None => "-".into(),
    }
}

fn read_prec(t: &mut Toks) -> Option<usize> {
    t.tok().parse::<usize>().ok()
}

fn display_simple(p: &SimplePolynomial, prec: Option<usize>) -> String {
    match prec {
        Some(k) => format!("{:.*}", k, p),
        None => format!("{}", p),
    }
}
fn display_inter(p: &IntermediatePolynomial, prec: Option<usize>) -> String {
    match prec {
        Some(k) => format!("{:.*}", k, p),
        None => format!("{}", p),
    }
}

pub fn run(line: &str) -> Obs {
    let mut t = Toks::new(line);
    match t.tok() {
        "ds" => {
            let prec = read_prec(&mut t);
            let v = t.tok();
            let variable = v.parse::<u32>().ok().and_then(char::from_u32);
            let n = t.usize();
            let mut coefficients = Vec::new();
            for _ in 0..n {
                coefficients.push(t.f64());
                let _ = t.string();
            }
            let p = SimplePolynomial { coefficients, variable };
            match catch(|| {
                let text = display_simple(&p, prec);
                let back = SimplePolynomial::parse(&text);
                format!("{} # {}", req_string(&text), crate::c01::show_parsed(&back))
            }) {
                Some(s) => Obs::plain(s),
                None => Obs::with("panic".into(), Err("printing or parsing back panicked".into())),
            }
        }
        "di" => {
            let prec = read_prec(&mut t);
            let p = read_inter_items(&mut t);
            match catch(|| {
                let text = display_inter(&p, prec);
                let back = IntermediatePolynomial::parse(&text);
                format!("{} # {}", req_string(&text), crate::c02::show_parsed(&back))
            }) {
                Some(s) => Obs::plain(s),
                None => Obs::with("panic".into(), Err("printing or parsing back panicked".into())),
            }
        }
        "dt" => {
            let coefficient = t.f64();
            let _ = t.string();
            let nv = t.usize();
            let mut variables = Vec::new();
            for _ in 0..nv {
                let name = t.string();
                let e = t.f64();
                let _ = t.string();
                variables.push((name, e));
            }
            let term = Term { coefficient, variables };
            match catch(|| {
                let text = format!("{}", term);
                let back = IntermediatePolynomial::parse(&text);
                format!("{} # {}", req_string(&text), crate::c02::show_parsed(&back))
            }) {
                Some(s) => Obs::plain(s),
                None => Obs::with("panic".into(), Err("printing or parsing back panicked".into())),
            }
        }
        "dm" => {
            let n = t.usize();
            let mut coefficients = Vec::new();
            for _ in 0..n {
                coefficients.push(t.f64());
                let _ = t.string();
            }
            let m = LinearModel { coefficients, std_err: 0.0, r2: 1.0 };
            match catch(|| {
                let text = m.to_polynomial_string();
                let back = SimplePolynomial::parse(&text);
                format!("{} # {}", req_string(&text), crate::c01::show_parsed(&back))
            }) {
                Some(s) => Obs::plain(s),
                None => Obs::with("panic".into(), Err("printing or parsing back panicked".into())),
            }
        }
        other => panic!("unknown C17 request {other}"),
    }
}

fn read_inter_items(t: &mut Toks) -> IntermediatePolynomial {
    let n = t.usize();
    let mut terms = Vec::new();
    for _ in 0..n {
        let coefficient = t.f64();
        let _ = t.string();
        let nv = t.usize();
        let mut variables = Vec::new();
        for _ in 0..nv {
            let name = t.string();
            let e = t.f64();
            let _ = t.string();
            variables.push((name, e));
        }
        terms.push(Term { coefficient, variables });
    }
    let mut variables: Vec<String> = terms.iter().flat_map(|t| t.variables.iter().map(|v| v.0.clone())).collect();
    variables.sort();
    variables.dedup();
    IntermediatePolynomial { terms, variables }
}

// ------------------------------------------------------------------------------------ generators

fn gen_coef(rng: &mut Rng) -> f64 {
    let mag = match rng.below(12) {
        0 => 0.0,
        1 => 1.0,
        2 => rng.range(2, 999) as f64,
        3 => rng.dyadic(512, 6).abs(),
        4 => rng.uniform(0.0, 1.0),
        5 => rng.uniform(0.0, 1000.0),
        6 => rng.uniform(1.0, 9.0) * 1e21,
        7 => rng.uniform(1.0, 9.0) * 1e-21,
        8 => (rng.uniform(0.0, 100.0) * 100.0).round() / 100.0,
        9 => *rng.pick(&[10.0, 100.0, 1000.0, 0.5, 0.05, 0.005, 0.0049999, 0.995, 0.9999999, 1.0000001, 9.5, 99.5, 1e15, 123456789.125]),
        10 => {
            if rng.chance(1, 2) {
                f64::from_bits(rng.next() % 0x7fe0_0000_0000_0000).abs().min(1e300)
            } else {
                // next to 1, 0 and the powers of ten, at every distance 10^-1..10^-17 and on both sides (unit
                // elision, zero skipping and digit trimming must use exact tests, not tolerances)
                let base = *rng.pick(&[1.0f64, 1.0, 1.0, 0.0, 10.0, 0.1, 100.0]);
                let d = rng.uniform(0.3, 0.99) * 10f64.powi(-(rng.range(1, 17) as i32));
                (base + if rng.chance(1, 2) { d } else { -d }).abs()
            }
        }
        _ => rng.uniform(0.0, 10.0),
    };
    if rng.chance(2, 5) { -mag } else { mag }
}

fn gen_exp(rng: &mut Rng) -> f64 {
    match rng.below(10) {
        0 => 1.0,
        1 => 0.0,
        2 => -(rng.range(1, 12) as f64),
        3 => 0.5,
        4 => rng.range(1, 7) as f64 / rng.range(2, 9) as f64,
        5 => -(rng.range(1, 7) as f64) / rng.range(2, 9) as f64,
        6 => *rng.pick(&[10.0, 100.0, 20.0, 0.1 + 0.2, 2.5, 0.005, 0.995, -0.004]),
        7 => rng.uniform(-3.0, 3.0),
        _ => rng.range(2, 30) as f64,
    }
}

fn gen_prec(rng: &mut Rng, k: u64) -> Option<usize> {
    let c = k % 19;
    let _ = rng;
    if c == 0 { None } else { Some((c - 1) as usize) }
}

pub fn generate(seed: u64, thorough: bool, emit: &mut dyn FnMut(String)) {
    let mut rng = Rng::new(seed ^ 0xC17);
    let n = if thorough { 60_000 } else { 3000 };
    for i in 0..n as u64 {
        let prec = gen_prec(&mut rng, i);
        // univariate
        let len = rng.below(9) as usize;
        let cs: Vec<f64> = (0..len).map(|_| gen_coef(&mut rng)).collect();
        let var = if rng.chance(1, 8) { None } else { Some(*rng.pick(&['x', 'y', 't', 'z', 'é', 'λ'])) };
        let mut s = format!("ds {} {} {len}", prec_tok(prec), var.map(|c| format!("{}", c as u32)).unwrap_or("-".into()));
        for c in &cs {
            s.push_str(&format!(" {} {}", rbits(*c), req_string(&fmt_num(c.abs(), prec))));
        }
        emit(s);
        // multivariate
        let nt = rng.below(5) as usize;
        let mut s = format!("di {} {nt}", prec_tok(prec));
        let mut first_term = String::new();
        for k in 0..nt {
            let c = gen_coef(&mut rng);
            let mut letters = vec!['a', 'x', 'y', 'z'];
            letters.retain(|_| rng.chance(1, 2));
            let mut ts = format!(" {} {} {}", rbits(c), req_string(&fmt_num(c.abs(), prec)), letters.len());
            let mut tt = format!("{} {} {}", rbits(c), req_string(&fmt_num(c, None)), letters.len());
            for l in &letters {
                let e = gen_exp(&mut rng);
                ts.push_str(&format!(" {} {} {}", req_string(&l.to_string()), rbits(e), req_string(&fmt_num(e, prec))));
                tt.push_str(&format!(" {} {} {}", req_string(&l.to_string()), rbits(e), req_string(&fmt_num(e, None))));
            }
            s.push_str(&ts);
            if k == 0 {
                first_term = tt;
            }
        }
        emit(s);
        if !first_term.is_empty() && i % 3 == 0 {
            emit(format!("dt {first_term}"));
        }
        // fitted model string
        if i % 2 == 0 {
            let len = 1 + rng.below(6) as usize;
            let cs: Vec<f64> = (0..len)
                .map(|_| match rng.below(8) {
                    0 => 1.0,
                    1 => -1.0,
                    2 => 0.0,
                    3 => rng.uniform(-1e-5, 1e-5),
                    6 | 7 => {
                        // next to +-1: between a tenth of a unit and ten units of the fifth decimal
                        let d = rng.uniform(0.1, 9.9) * 1e-6 * if rng.chance(1, 2) { 1.0 } else { 10.0 };
                        let v = 1.0 + if rng.chance(1, 2) { d } else { -d };
                        if rng.chance(1, 2) { v } else { -v }
                    }
                    _ => gen_coef(&mut rng),
                })
                .collect();
            let mut s = format!("dm {len}");
            for c in &cs {
                s.push_str(&format!(" {} {}", rbits(*c), req_string(&format!("{:.5}", c))));
            }
            emit(s);
        }
    }
}
