import SV.Model.C07
import SV.Lemmas.C07
import SV.Lemmas.C06
import Mathlib.Algebra.Order.Field.Basic
import Mathlib.Tactic.Ring
import Mathlib.Tactic.FieldSimp
import Mathlib.Tactic.Linarith
/-!
# C07 — Newton–Raphson does not see a constant factor of the function

Multiplying the target function (and with it its derivative) by a constant `c ≠ 0` changes neither
the Newton update `x − g(x)/g'(x)` nor the stopping estimate, which looks at the iterates only:

  `newtonCore ev₂ dv₂ x0 tol itermax = newtonCore ev dv x0 tol itermax`

whenever `ev₂ x = c · ev x` and `dv₂ x = c · dv x` (errors of the evaluation carried over unchanged),
for every start, tolerance and cap, every field of the result (root / error kind / passes).
For the dense coefficient-list entry point: scaling the list by `c` leaves `newton` unchanged, in
both modes.

Consequence: no ABSOLUTE test on the function value or on the derivative (`|g'(x)| < ε`,
`|g(x)| < ε`, …) can be part of this algorithm — such a test is not invariant under `g ↦ c·g`, while
every test the algorithm makes (`g'(x) == 0`, the *relative* step `|Δ/x|·100 < tol`) is.
Two more sections: `bisection` — the bisection model (`SV.C06`) up to its residual gate is invariant
under `g ↦ c·g`, `c ≠ 0` (bracket sequence, passes, candidate), while the gate's verdict is not
(witness over ℚ); `rescale` — Newton's method is equivariant under `x ↦ s·x`, `s ≠ 0`, because its
step test is relative (an absolute step test is not: witness over ℚ).
-/
set_option linter.unusedSectionVars false

namespace SV.Props.C07Scale
open SV SV.Poly SV.C07 Polynomial
open SV.C06 (SolveMode SErr target evOf targetPoly)
open SV.C06 (BState Res bisectPass bisectLoop bisectCore bisection finish signTest signumS midpoint gate)

variable {K : Type} [Field K] [LinearOrder K] [IsStrictOrderedRing K]

/-- `ev₂` is `c` times `ev`: same evaluation errors, values multiplied by `c` -/
def ScaledBy (c : K) (ev₂ ev : K → Except PErr K) : Prop :=
  ∀ x, ev₂ x = (ev x).map (c * ·)

/-- the Newton update is the same for `(c·g, c·g')` and for `(g, g')`: same evaluation error, the
derivative vanishes at the same points, and `x − (c·g)/(c·g') = x − g/g'` -/
theorem newtonStep_scale {c : K} (hc : c ≠ 0) {ev₂ ev dv₂ dv : K → Except PErr K}
    (hev : ScaledBy c ev₂ ev) (hdv : ScaledBy c dv₂ dv) (xo : K) :
    newtonStep ev₂ dv₂ xo = newtonStep ev dv xo := by
  unfold newtonStep
  rw [hev xo, hdv xo]
  cases ev xo with
  | error e => rfl
  | ok gv =>
    cases dv xo with
    | error e => rfl
    | ok d =>
      simp only [Except.map, beq_iff_eq, mul_eq_zero, hc, false_or]
      rw [mul_div_mul_left _ _ hc]

/-- the loop, from any state of its counters -/
theorem newtonLoop_scale {c : K} (hc : c ≠ 0) {ev₂ ev dv₂ dv : K → Except PErr K}
    (hev : ScaledBy c ev₂ ev) (hdv : ScaledBy c dv₂ dv) (tol : K) (fuel k : Nat) (xo : K) :
    newtonLoop ev₂ dv₂ tol fuel k xo = newtonLoop ev dv tol fuel k xo := by
  induction fuel generalizing k xo with
  | zero => unfold newtonLoop; rw [newtonStep_scale hc hev hdv]
  | succ n ih =>
    unfold newtonLoop; rw [newtonStep_scale hc hev hdv]
    cases newtonStep ev dv xo with
    | fail e => rfl
    | poisoned => rfl
    | next x => simp only [ih]

/-- **Scale invariance of Newton's method, arbitrary evaluation functions.**  If the function and
its derivative are both multiplied by the same `c ≠ 0`, the whole result — the returned root or the
error kind, and the number of passes — is the same, for every start, tolerance and cap. -/
theorem newtonCore_scale {c : K} (hc : c ≠ 0) {ev₂ ev dv₂ dv : K → Except PErr K}
    (hev : ScaledBy c ev₂ ev) (hdv : ScaledBy c dv₂ dv) (x0 tol : K) (itermax : Nat) :
    newtonCore ev₂ dv₂ x0 tol itermax = newtonCore ev dv x0 tol itermax :=
  newtonLoop_scale hc hev hdv tol _ _ _

/-- **… for total functions**: `g₂ = c·g`, `g₂' = c·g'` pointwise. -/
theorem newtonCore_scale_fun {c : K} (hc : c ≠ 0) {g₂ g g₂' g' : K → K}
    (hg : ∀ x, g₂ x = c * g x) (hg' : ∀ x, g₂' x = c * g' x) (x0 tol : K) (itermax : Nat) :
    newtonCore (evOf g₂) (evOf g₂') x0 tol itermax = newtonCore (evOf g) (evOf g') x0 tol itermax :=
  newtonCore_scale hc (fun x => by simp [evOf, Except.map, hg]) (fun x => by simp [evOf, Except.map, hg'])
    x0 tol itermax

/-! ### the coefficient-list entry point -/

private theorem ofCoeffsFrom_map_mul (c : K) (k : ℕ) (cs : List K) :
    ofCoeffsFrom k (cs.map (c * ·)) = C c * ofCoeffsFrom k cs := by
  induction cs generalizing k with
  | nil => simp [ofCoeffsFrom]
  | cons a cs ih => simp only [List.map_cons, ofCoeffsFrom, ih, map_mul]; ring

private theorem targetPoly_map_mul (c : K) (cs : List K) (mode : SolveMode) :
    targetPoly (cs.map (c * ·)) mode = C c * targetPoly cs mode := by
  cases mode
  · exact ofCoeffsFrom_map_mul c 0 cs
  · show derivative (ofCoeffsFrom 0 (cs.map (c * ·))) = C c * derivative (ofCoeffsFrom 0 cs)
    rw [ofCoeffsFrom_map_mul, derivative_C_mul]

/-- **Scale invariance of `newton_raphson_method` on a dense polynomial.**  Multiplying every
coefficient by `c ≠ 0` changes nothing in the result (root / error kind / passes), in root mode and
in extrema mode, whatever `powf`, the variable name, the start, the tolerance and the cap. -/
theorem newton_scale_coeffs (powf : K → K → K) {c : K} (hc : c ≠ 0) (cs : List K) (v : Option Char)
    (x0 tol : K) (itermax : Nat) (mode : SolveMode) :
    newton powf (.simple ⟨cs.map (c * ·), v⟩) x0 tol itermax mode =
      newton powf (.simple ⟨cs, v⟩) x0 tol itermax mode := by
  rw [newton_simple, newton_simple]
  apply newtonCore_scale_fun hc
  · intro x; rw [targetPoly_map_mul, eval_mul, eval_C]
  · intro x; rw [targetPoly_map_mul, derivative_C_mul, eval_mul, eval_C]

/-- non-vacuity: `x² − 4` and `−7·(x² − 4)` from `5/2`, 10 % tolerance: the same root after the
same two passes -/
example : newton (fun _ _ => 0) (.simple ⟨[-4, 0, 1].map ((-7 : ℚ) * ·), none⟩) (5 / 2) 10 5 .root
    = ⟨.ok (3281 / 1640), 2⟩ := by
  rw [newton_scale_coeffs _ (by norm_num)]
  rw [newton_simple]
  norm_num [newtonCore, newtonLoop, newtonStep, evOf, converged, sabs, targetPoly, ofCoeffs,
    ofCoeffsFrom]

/-! ## bisection

The bisection model (`SV.C06`) looks at the function only through the SIGN of
`f(lower)·f(mid)` and through `f(lower) == 0`, both unchanged by `g ↦ c·g` for every `c ≠ 0`
(also negative `c`: the product picks up `c²`).  So each pass, hence the sequence of brackets and
midpoints, the number of passes, and the point handed to the residual gate are the same.  The gate
`|g(x)| < 1e-4` after the loop is an ABSOLUTE test on the function value and part of the property's
statement; it is the only place where `c` is seen, so the final `Ok(x)` / `NoConvergence` verdict is
NOT invariant (witness below). -/
section bisection

/-- one pass of bisection is the same for `c·g` and `g`, `c ≠ 0` -/
theorem bisectPass_scale {c : K} (hc : c ≠ 0) {ev₂ ev : K → Except PErr K}
    (hev : ScaledBy c ev₂ ev) (first : Bool) (st : BState K) :
    bisectPass ev₂ first st = bisectPass ev first st := by
  unfold bisectPass
  simp only [hev st.lower, hev (midpoint st.lower st.upper)]
  cases ev st.lower with
  | error e => rfl
  | ok fl =>
    cases ev (midpoint st.lower st.upper) with
    | error e => rfl
    | ok fm =>
      have hcc : 0 < c * c := mul_self_pos.mpr hc
      have hprod : c * fl * (c * fm) = (c * c) * (fl * fm) := by ring
      have h1 : signTest (c * fl) (c * fm) < 0 ↔ signTest fl fm < 0 := by
        rw [SV.C06.signTest_neg, SV.C06.signTest_neg, hprod]
        constructor
        · intro h
          rcases mul_neg_iff.mp h with ⟨_, h'⟩ | ⟨h', _⟩
          · exact h'
          · exact absurd hcc (not_lt.mpr (le_of_lt h'))
        · intro h; exact mul_neg_of_pos_of_neg hcc h
      have h2 : 0 < signTest (c * fl) (c * fm) ↔ 0 < signTest fl fm := by
        rw [SV.C06.signTest_pos, SV.C06.signTest_pos, hprod]
        exact ⟨fun h => (pos_iff_pos_of_mul_pos h).mp hcc, fun h => mul_pos hcc h⟩
      have h3 : (c * fl == 0) = (fl == 0) := by
        simp [hc]
      simp only [Except.map, h1, h2, h3]

/-- where the loop of `bisection` leaves: with a finished result (evaluation error, or the cap), or
with the state and pass count it hands to the residual gate (`finish`) -/
def bisectPre (ev : K → Except PErr K) (tol : K) : Nat → Nat → BState K → Res K ⊕ (BState K × Nat)
  | 0, k, st =>
    match bisectPass ev (k == 0) st with
    | .error e => .inl ⟨.err (.functionError e), k + 1, st.lower, st.upper⟩
    | .ok st' => .inl ⟨.err .maxIterationsReached, k + 1, st'.lower, st'.upper⟩
  | rem + 1, k, st =>
    match bisectPass ev (k == 0) st with
    | .error e => .inl ⟨.err (.functionError e), k + 1, st.lower, st.upper⟩
    | .ok st' =>
      if sabs st'.aerr < tol then .inr (st', k + 1)
      else bisectPre ev tol rem (k + 1) st'

/-- the model's loop is `bisectPre` followed by the residual gate -/
theorem bisectLoop_eq_pre (ev : K → Except PErr K) (tol : K) (rem k : Nat) (st : BState K) :
    bisectLoop ev tol rem k st =
      match bisectPre ev tol rem k st with
      | .inl r => r
      | .inr p => finish ev p.1 p.2 := by
  induction rem generalizing k st with
  | zero =>
    unfold bisectLoop bisectPre
    cases bisectPass ev (k == 0) st <;> rfl
  | succ n ih =>
    unfold bisectLoop bisectPre
    cases bisectPass ev (k == 0) st with
    | error e => rfl
    | ok st' =>
      simp only
      split_ifs
      · rfl
      · exact ih _ _

/-- **Bisection up to the gate is scale-invariant.**  For `c ≠ 0` (either sign), the loop run on
`c·g` makes the same passes as on `g`: it ends with the same error, or reaches the residual gate
after the same number of passes with the same bracket, the same candidate `x` and the same error
estimate. -/
theorem bisectPre_scale {c : K} (hc : c ≠ 0) {ev₂ ev : K → Except PErr K}
    (hev : ScaledBy c ev₂ ev) (tol : K) (rem k : Nat) (st : BState K) :
    bisectPre ev₂ tol rem k st = bisectPre ev tol rem k st := by
  induction rem generalizing k st with
  | zero => unfold bisectPre; rw [bisectPass_scale hc hev]
  | succ n ih =>
    unfold bisectPre; rw [bisectPass_scale hc hev]
    cases bisectPass ev (k == 0) st with
    | error e => rfl
    | ok st' => simp only [ih]

/-- the gate keeps the bookkeeping fields -/
private theorem finish_fields (ev : K → Except PErr K) (st : BState K) (p : Nat) :
    (finish ev st p).passes = p ∧ (finish ev st p).lower = st.lower ∧
      (finish ev st p).upper = st.upper := by
  unfold finish
  cases ev st.x with
  | error e => exact ⟨rfl, rfl, rfl⟩
  | ok v => simp only; split_ifs <;> exact ⟨rfl, rfl, rfl⟩

/-- the gate on `c·g` against the gate on `g`: same evaluation error; otherwise both verdicts are
about the same candidate, and the verdicts agree or are `Ok(x)` on one side and `NoConvergence` on
the other -/
private theorem finish_scale_out {c : K} {ev₂ ev : K → Except PErr K}
    (hev : ScaledBy c ev₂ ev) (st : BState K) (p : Nat) :
    (finish ev₂ st p).out = (finish ev st p).out ∨
      ((finish ev₂ st p).out = .ok st.x ∧ (finish ev st p).out = .err .noConvergence) ∨
      ((finish ev₂ st p).out = .err .noConvergence ∧ (finish ev st p).out = .ok st.x) := by
  unfold finish
  rw [hev st.x]
  cases ev st.x with
  | error e => exact Or.inl rfl
  | ok v =>
    simp only [Except.map]
    split_ifs
    · exact Or.inl rfl
    · exact Or.inr (Or.inl ⟨rfl, rfl⟩)
    · exact Or.inr (Or.inr ⟨rfl, rfl⟩)
    · exact Or.inl rfl

/-- **The bracket sequence of bisection is scale-invariant.**  For `c ≠ 0`, bisection on `c·g`
runs the same number of passes and ends with the same bracket as on `g`, for every start state,
tolerance and cap. -/
theorem bisectLoop_scale_bracket {c : K} (hc : c ≠ 0) {ev₂ ev : K → Except PErr K}
    (hev : ScaledBy c ev₂ ev) (tol : K) (rem k : Nat) (st : BState K) :
    (bisectLoop ev₂ tol rem k st).passes = (bisectLoop ev tol rem k st).passes ∧
    (bisectLoop ev₂ tol rem k st).lower = (bisectLoop ev tol rem k st).lower ∧
    (bisectLoop ev₂ tol rem k st).upper = (bisectLoop ev tol rem k st).upper := by
  rw [bisectLoop_eq_pre ev₂, bisectLoop_eq_pre ev, bisectPre_scale hc hev]
  cases bisectPre ev tol rem k st with
  | inl r => exact ⟨rfl, rfl, rfl⟩
  | inr q =>
    obtain ⟨a1, a2, a3⟩ := finish_fields ev₂ q.1 q.2
    obtain ⟨b1, b2, b3⟩ := finish_fields ev q.1 q.2
    simp only [a1, a2, a3, b1, b2, b3, and_self]

/-- **The outcome of bisection is scale-invariant except for the verdict of the absolute gate.**
For `c ≠ 0`, the outcomes on `c·g` and on `g` are equal, or they are `Ok(x)` on one side and
`NoConvergence` on the other (same candidate `x`, the gate `|g(x)| < 1e-4` decided differently). -/
theorem bisectLoop_scale_out_upToGate {c : K} (hc : c ≠ 0) {ev₂ ev : K → Except PErr K}
    (hev : ScaledBy c ev₂ ev) (tol : K) (rem k : Nat) (st : BState K) :
    (bisectLoop ev₂ tol rem k st).out = (bisectLoop ev tol rem k st).out ∨
      (∃ x, (bisectLoop ev₂ tol rem k st).out = .ok x ∧
        (bisectLoop ev tol rem k st).out = .err .noConvergence) ∨
      (∃ x, (bisectLoop ev₂ tol rem k st).out = .err .noConvergence ∧
        (bisectLoop ev tol rem k st).out = .ok x) := by
  rw [bisectLoop_eq_pre ev₂, bisectLoop_eq_pre ev, bisectPre_scale hc hev]
  cases bisectPre ev tol rem k st with
  | inl r => exact Or.inl rfl
  | inr q =>
    rcases finish_scale_out hev q.1 q.2 with h | h | h
    · exact Or.inl h
    · exact Or.inr (Or.inl ⟨_, h⟩)
    · exact Or.inr (Or.inr ⟨_, h⟩)

/-- **Shrinking the function keeps an `Ok`.**  For `0 < |c| ≤ 1`, every root returned for `g` is
returned for `c·g` too, with the whole result equal (the gate is passed a fortiori). -/
theorem bisectLoop_scale_ok_of_le_one {c : K} (hc : c ≠ 0) (hc1 : |c| ≤ 1)
    {ev₂ ev : K → Except PErr K} (hev : ScaledBy c ev₂ ev) (tol : K) (rem k : Nat) (st : BState K)
    (x : K) (h : (bisectLoop ev tol rem k st).out = .ok x) :
    bisectLoop ev₂ tol rem k st = bisectLoop ev tol rem k st := by
  rw [bisectLoop_eq_pre ev] at h
  rw [bisectLoop_eq_pre ev₂, bisectLoop_eq_pre ev, bisectPre_scale hc hev]
  cases hq : bisectPre ev tol rem k st with
  | inl r => rfl
  | inr q =>
    rw [hq] at h
    simp only at h ⊢
    unfold finish at h ⊢
    rw [hev q.1.x]
    cases hv : ev q.1.x with
    | error e => rw [hv] at h; cases h
    | ok v =>
      rw [hv] at h
      simp only [Except.map] at h ⊢
      by_cases hg : sabs v < (gate : K)
      · have : sabs (c * v) < (gate : K) := by
          rw [SV.C06.sabs_eq_abs] at hg ⊢
          rw [abs_mul]
          calc |c| * |v| ≤ 1 * |v| := mul_le_mul_of_nonneg_right hc1 (abs_nonneg v)
            _ = |v| := one_mul _
            _ < gate := hg
        rw [if_pos this, if_pos hg]
      · rw [if_neg hg] at h; cases h

/-- the entry point for arbitrary evaluation functions: passes and final bracket -/
theorem bisectCore_scale_bracket {c : K} (hc : c ≠ 0) {ev₂ ev : K → Except PErr K}
    (hev : ScaledBy c ev₂ ev) (lo init hi tol : K) (itermax : Nat) :
    (bisectCore ev₂ lo init hi tol itermax).passes = (bisectCore ev lo init hi tol itermax).passes ∧
    (bisectCore ev₂ lo init hi tol itermax).lower = (bisectCore ev lo init hi tol itermax).lower ∧
    (bisectCore ev₂ lo init hi tol itermax).upper = (bisectCore ev lo init hi tol itermax).upper := by
  unfold bisectCore
  split_ifs
  · exact ⟨rfl, rfl, rfl⟩
  · exact bisectLoop_scale_bracket hc hev tol _ _ _

/-- **The final verdict is NOT scale-invariant** (the gate is absolute).  `g(x) = (x − 1/3)/10⁵` on
`[0, 1]` with a 50 % tolerance stops after three passes at `x = 3/8` and returns it, because
`|g(3/8)| < 1e-4`; the same run on `10⁵·g = x − 1/3` reaches the same `x = 3/8` and answers
`NoConvergence`. -/
theorem bisect_gate_not_scale_invariant :
    (bisectCore (evOf fun x : ℚ => (x - 1 / 3) / 100000) 0 (1 / 2) 1 50 10).out = .ok (3 / 8) ∧
    (bisectCore (evOf fun x : ℚ => 100000 * ((x - 1 / 3) / 100000)) 0 (1 / 2) 1 50 10).out
      = .err .noConvergence := by
  constructor <;> decide +kernel

/-- **… on a dense polynomial**: multiplying every coefficient by `c ≠ 0` leaves the number of
passes and the final bracket of `bisection` unchanged, in both modes. -/
theorem bisection_scale_coeffs_bracket (powf : K → K → K) {c : K} (hc : c ≠ 0) (cs : List K)
    (v : Option Char) (lo init hi tol : K) (itermax : Nat) (mode : SolveMode) :
    (bisection powf (.simple ⟨cs.map (c * ·), v⟩) lo init hi tol itermax mode).passes =
      (bisection powf (.simple ⟨cs, v⟩) lo init hi tol itermax mode).passes ∧
    (bisection powf (.simple ⟨cs.map (c * ·), v⟩) lo init hi tol itermax mode).lower =
      (bisection powf (.simple ⟨cs, v⟩) lo init hi tol itermax mode).lower ∧
    (bisection powf (.simple ⟨cs.map (c * ·), v⟩) lo init hi tol itermax mode).upper =
      (bisection powf (.simple ⟨cs, v⟩) lo init hi tol itermax mode).upper := by
  rw [SV.C06.bisection_simple, SV.C06.bisection_simple]
  apply bisectCore_scale_bracket hc
  intro x
  simp only [evOf, Except.map, targetPoly_map_mul, eval_mul, eval_C]

end bisection

/-! ## rescaling the variable

The stopping test of Newton's method is RELATIVE (`|Δ/x|·100 < tol`), so it does not see the unit in
which `x` is measured: the iteration for `t ↦ g(t/s)` from `s·x0` is `s` times the iteration for `g`
from `x0`, pass by pass, with the same verdict.  An absolute step test `|Δ| < tol` would not have
this property (witness at the end). -/
section rescale

/-- multiply a returned value by `s` -/
def NRes.scale (s : K) (r : NRes K) : NRes K :=
  ⟨match r.out with | .ok x => .ok (s * x) | .err e => .err e | .panic => .panic, r.passes⟩

/-- the stopping test does not see a common factor `s ≠ 0` of the two iterates -/
theorem converged_scale_x {s : K} (hs : s ≠ 0) (x xo tol : K) :
    converged (s * x) (s * xo) tol = converged x xo tol := by
  rw [Bool.eq_iff_iff, SV.C07.converged_iff, SV.C07.converged_iff]
  have hpos : 0 < |s| := abs_pos.mpr hs
  have e1 : s * x - s * xo = s * (x - xo) := by ring
  have e2 : |s| * |x - xo| * 100 = |s| * (|x - xo| * 100) := by ring
  have e3 : tol * (|s| * |x|) = |s| * (tol * |x|) := by ring
  rw [e1, abs_mul, abs_mul, e2, e3]
  simp only [ne_eq, mul_eq_zero, hs, false_or]
  constructor
  · rintro (⟨h1, h2⟩ | h)
    · exact Or.inl ⟨h1, lt_of_mul_lt_mul_left h2 hpos.le⟩
    · exact Or.inr h
  · rintro (⟨h1, h2⟩ | h)
    · exact Or.inl ⟨h1, mul_lt_mul_of_pos_left h2 hpos⟩
    · exact Or.inr h

/-- **Newton's method is equivariant under rescaling the variable.**  For `s ≠ 0`, the iteration for
`t ↦ g(t/s)` (derivative `t ↦ g'(t/s)/s`) from `s·x0` returns `s` times what the iteration for `g`
from `x0` returns, after the same number of passes, and fails with the same error when that one
fails — for every tolerance and cap. -/
theorem newtonLoop_rescale {s : K} (hs : s ≠ 0) (g g' : K → K) (tol : K) (fuel k : Nat) (xs : K) :
    newtonLoop (evOf fun t => g (t / s)) (evOf fun t => g' (t / s) / s) tol fuel k (s * xs) =
      NRes.scale s (newtonLoop (evOf g) (evOf g') tol fuel k xs) := by
  induction fuel generalizing k xs with
  | zero =>
    unfold newtonLoop
    rw [SV.C07.newtonStep_evOf, SV.C07.newtonStep_evOf]
    simp only [mul_div_cancel_left₀ _ hs, div_eq_zero_iff, hs, or_false]
    split_ifs <;> rfl
  | succ n ih =>
    unfold newtonLoop
    rw [SV.C07.newtonStep_evOf, SV.C07.newtonStep_evOf]
    simp only [mul_div_cancel_left₀ _ hs, div_eq_zero_iff, hs, or_false]
    split_ifs with hd
    · rfl
    · have e : s * xs - g xs / (g' xs / s) = s * (xs - g xs / g' xs) := by
        field_simp
      simp only [e, converged_scale_x hs]
      split_ifs with hc
      · rfl
      · exact ih (k + 1) _

/-- the same for the entry point `newtonCore` -/
theorem newtonCore_rescale {s : K} (hs : s ≠ 0) (g g' : K → K) (x0 tol : K) (itermax : Nat) :
    newtonCore (evOf fun t => g (t / s)) (evOf fun t => g' (t / s) / s) (s * x0) tol itermax =
      NRes.scale s (newtonCore (evOf g) (evOf g') x0 tol itermax) :=
  newtonLoop_rescale hs g g' tol _ _ _

/-- **An absolute step test is not invariant under rescaling `x`.**  The step from `1/2` to `1`
passes `|Δ| < 1`; the same step measured in a unit ten times smaller (`5 → 10`) does not — while the
model's relative test gives the same answer on both (`converged_scale_x`). -/
theorem abs_step_test_not_rescale_invariant :
    (|(1 : ℚ) - 1 / 2| < 1 ∧ ¬ |10 * (1 : ℚ) - 10 * (1 / 2)| < 1) ∧
      converged (10 * (1 : ℚ)) (10 * (1 / 2)) 1 = converged (1 : ℚ) (1 / 2) 1 := by
  refine ⟨⟨by norm_num, by norm_num⟩, converged_scale_x (by norm_num) _ _ _⟩

end rescale

end SV.Props.C07Scale
