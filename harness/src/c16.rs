//! C16 — parsers are total, and acceptance implies fidelity.
//!
//!   parse1 <text>                     univariate parser on arbitrary text
//!   parse2 <text>                     multivariate parser on arbitrary text
//!   enum <parser> <maxlen> <prefix>   every string over the 15-symbol alphabet extending <prefix> up to
//!                                     <maxlen> characters: `<strings> <accepted> <fnv64 of the answers>`
//!
//! Oracle (independent of the Lean model): a *conventional-reading* evaluator.  Whenever a parser accepts a
//! text, the text (white space removed) must have a reading as an arithmetic expression over numbers,
//! single-letter variables, + - * / ^, parentheses, juxtaposition and unary signs, and the returned
//! polynomial must take the reading's value at three points; a text with no reading must be rejected.
use crate::c01::show_parsed as show1;
use crate::c02::show_parsed as show2;
use crate::util::*;
use spindalis_core::polynomials::structs::{IntermediatePolynomial, PolynomialTraits, SimplePolynomial};

pub const ALPHABET: &[char] = &['x', 'y', '2', '3', '0', '.', '^', '+', '-', '/', '*', '(', ')', ' ', '#'];

// ---------------------------------------------------------------- conventional reading

#[derive(Clone, Debug, PartialEq)]
enum Tk {
    Num(f64),
    Var(char),
    Op(char),
}

fn tokenize(s: &[char]) -> Option<Vec<Tk>> {
    let mut out = Vec::new();
    let mut i = 0;
    while i < s.len() {
        let c = s[i];
        if c.is_ascii_digit() || c == '.' {
            let st = i;
            let mut dots = 0;
            let mut digits = 0;
            while i < s.len() && (s[i].is_ascii_digit() || s[i] == '.') {
                if s[i] == '.' {
                    dots += 1;
                } else {
                    digits += 1;
                }
                i += 1;
            }
            if dots > 1 || digits == 0 {
                return None;
            }
            let text: String = s[st..i].iter().collect();
            out.push(Tk::Num(text.parse::<f64>().ok()?));
        } else if c.is_alphabetic() {
            out.push(Tk::Var(c));
            i += 1;
        } else if "+-*/^()".contains(c) {
            out.push(Tk::Op(c));
            i += 1;
        } else {
            return None; // a symbol with no arithmetic meaning
        }
    }
    Some(out)
}

#[derive(Debug)]
enum Ex {
    Num(f64),
    Var(char),
    Neg(Box<Ex>),
    Bin(char, Box<Ex>, Box<Ex>),
}

struct Rd<'a> {
    t: &'a [Tk],
    i: usize,
    /// multivariate documented grammar: after '^' an exponent `[-] num [/ num]` binds as a whole
    frac_exp: bool,
}

impl<'a> Rd<'a> {
    fn peek(&self) -> Option<&Tk> {
        self.t.get(self.i)
    }
    fn expr(&mut self) -> Option<Ex> {
        let mut l = self.term()?;
        while let Some(Tk::Op(c)) = self.peek().cloned() {
            if c == '+' || c == '-' {
                self.i += 1;
                let r = self.term()?;
                l = Ex::Bin(c, Box::new(l), Box::new(r));
            } else {
                break;
            }
        }
        Some(l)
    }
    fn term(&mut self) -> Option<Ex> {
        let mut l = self.unary()?;
        loop {
            match self.peek().cloned() {
                Some(Tk::Op(c)) if c == '*' || c == '/' => {
                    self.i += 1;
                    let r = self.unary()?;
                    l = Ex::Bin(c, Box::new(l), Box::new(r));
                }
                Some(Tk::Num(_)) | Some(Tk::Var(_)) | Some(Tk::Op('(')) => {
                    // juxtaposition
                    let r = self.power()?;
                    l = Ex::Bin('*', Box::new(l), Box::new(r));
                }
                _ => break,
            }
        }
        Some(l)
    }
    fn unary(&mut self) -> Option<Ex> {
        match self.peek().cloned() {
            Some(Tk::Op('-')) => {
                self.i += 1;
                Some(Ex::Neg(Box::new(self.unary()?)))
            }
            Some(Tk::Op('+')) => {
                self.i += 1;
                self.unary()
            }
            _ => self.power(),
        }
    }
    fn power(&mut self) -> Option<Ex> {
        let base = self.atom()?;
        if let Some(Tk::Op('^')) = self.peek() {
            self.i += 1;
            let e = self.exponent()?;
            return Some(Ex::Bin('^', Box::new(base), Box::new(e)));
        }
        Some(base)
    }
    fn exponent(&mut self) -> Option<Ex> {
        let neg = if let Some(Tk::Op('-')) = self.peek() {
            self.i += 1;
            true
        } else {
            false
        };
        let mut e = if self.frac_exp {
            match self.peek().cloned() {
                Some(Tk::Num(a)) => {
                    self.i += 1;
                    if let (Some(Tk::Op('/')), Some(Tk::Num(b))) = (self.t.get(self.i).cloned(), self.t.get(self.i + 1).cloned()) {
                        self.i += 2;
                        Ex::Bin('/', Box::new(Ex::Num(a)), Box::new(Ex::Num(b)))
                    } else {
                        Ex::Num(a)
                    }
                }
                _ => self.power()?,
            }
        } else {
            self.power()?
        };
        if neg {
            e = Ex::Neg(Box::new(e));
        }
        Some(e)
    }
    fn atom(&mut self) -> Option<Ex> {
        match self.peek().cloned() {
            Some(Tk::Num(v)) => {
                self.i += 1;
                Some(Ex::Num(v))
            }
            Some(Tk::Var(c)) => {
                self.i += 1;
                Some(Ex::Var(c))
            }
            Some(Tk::Op('(')) => {
                self.i += 1;
                let e = self.expr()?;
                if let Some(Tk::Op(')')) = self.peek() {
                    self.i += 1;
                    Some(e)
                } else {
                    None
                }
            }
            _ => None,
        }
    }
}

/// value of the reading; `big` records the largest magnitude met on the way (points where the reading itself
/// leaves the comfortable range of binary64 are not used for the comparison)
fn eval(e: &Ex, env: &dyn Fn(char) -> f64, big: &mut f64) -> f64 {
    let v = match e {
        Ex::Num(v) => *v,
        Ex::Var(c) => env(*c),
        Ex::Neg(a) => -eval(a, env, big),
        Ex::Bin(op, a, b) => {
            let (x, y) = (eval(a, env, big), eval(b, env, big));
            match op {
                '+' => x + y,
                '-' => x - y,
                '*' => x * y,
                '/' => x / y,
                _ => x.powf(y),
            }
        }
    };
    if !(v.abs() <= *big) {
        *big = if v.is_nan() { f64::INFINITY } else { v.abs() };
    }
    v
}

/// `None` = no conventional reading; `Some(None)` = the empty text (reads as 0)
fn reading(text: &str, frac_exp: bool) -> Option<Option<Ex>> {
    let chars: Vec<char> = text.chars().filter(|c| !c.is_whitespace()).collect();
    if chars.is_empty() {
        return Some(None);
    }
    let toks = tokenize(&chars)?;
    let mut rd = Rd { t: &toks, i: 0, frac_exp };
    let e = rd.expr()?;
    if rd.i != toks.len() {
        return None;
    }
    Some(Some(e))
}

fn env_at(k: usize) -> impl Fn(char) -> f64 {
    move |c: char| {
        let base = [[1.7, 0.6], [0.9, 2.3], [2.5, 1.2]][k];
        match c {
            'x' => base[0],
            'y' => base[1],
            _ => 0.5 + ((c as u32 as f64 * 0.37 + k as f64 * 0.11) % 1.9),
        }
    }
}

/// `big` = largest magnitude met while evaluating the reading: both evaluations round at that scale
fn close(a: f64, b: f64, big: f64) -> bool {
    if !b.is_finite() {
        return true; // the reading itself has no value here (division by zero …)
    }
    a.is_finite() && (a - b).abs() <= 1e-9 * big.max(1.0)
}

pub fn fidelity1(text: &str, r: &Result<SimplePolynomial, spindalis_core::polynomials::PolynomialError>) -> Result<(), String> {
    let Ok(p) = r else { return Ok(()) };
    match reading(text, false) {
        None => Err("the univariate parser accepted a text with no conventional reading".into()),
        Some(None) => {
            if p.coefficients.iter().all(|c| *c == 0.0) { Ok(()) } else { Err("empty text read as a non-zero polynomial".into()) }
        }
        Some(Some(e)) => {
            for k in 0..3 {
                let env = env_at(k);
                let x = p.variable.map(|c| env(c)).unwrap_or(1.0);
                let got = p.eval_univariate(x).map_err(|e| format!("eval failed {e:?}"))?;
                let mut big = 0.0;
                let want = eval(&e, &env, &mut big);
                if big > 1e100 {
                    continue; // overflow territory: exponents are merged/ordered differently
                }
                if !close(got, want, big) {
                    return Err(format!("misread: the polynomial gives {got:?}, the text reads as {want:?}"));
                }
            }
            Ok(())
        }
    }
}

pub fn fidelity2(text: &str, r: &Result<IntermediatePolynomial, spindalis_core::polynomials::PolynomialError>) -> Result<(), String> {
    let Ok(p) = r else { return Ok(()) };
    match reading(text, true) {
        None => Err("the multivariate parser accepted a text with no conventional reading".into()),
        Some(None) => {
            if p.terms.is_empty() { Ok(()) } else { Err("empty text read as a non-zero polynomial".into()) }
        }
        Some(Some(e)) => {
            for k in 0..3 {
                let env = env_at(k);
                let binds: Vec<(String, f64)> =
                    p.variables.iter().map(|v| (v.clone(), env(v.chars().next().unwrap_or('x')))).collect();
                let got = p.eval_multivariate(&binds).map_err(|e| format!("eval failed {e:?}"))?;
                let mut big = 0.0;
                let want = eval(&e, &env, &mut big);
                if big > 1e100 {
                    continue; // overflow territory: exponents are merged/ordered differently
                }
                if !close(got, want, big) {
                    return Err(format!("misread: the polynomial gives {got:?}, the text reads as {want:?}"));
                }
            }
            Ok(())
        }
    }
}

// ---------------------------------------------------------------- requests

fn fnv_str(mut h: u64, s: &str) -> u64 {
    for b in s.bytes().chain(std::iter::once(10u8)) {
        h = (h ^ b as u64).wrapping_mul(0x100000001b3);
    }
    h
}

struct Acc {
    n: u64,
    ok: u64,
    h: u64,
    first_fail: Option<(String, String)>,
}

fn answer(parser: usize, text: &str) -> (String, Result<(), String>) {
    if parser == 1 {
        match catch(|| SimplePolynomial::parse(text)) {
            Some(r) => (show1(&r), fidelity1(text, &r)),
            None => ("panic".into(), Err("the parser panicked".into())),
        }
    } else {
        match catch(|| IntermediatePolynomial::parse(text)) {
            Some(r) => (show2(&r), fidelity2(text, &r)),
            None => ("panic".into(), Err("the parser panicked".into())),
        }
    }
}

fn enum_from(parser: usize, budget: usize, s: &mut String, acc: &mut Acc) {
    let (a, v) = answer(parser, s);
    acc.n += 1;
    if a.starts_with("ok") {
        acc.ok += 1;
    }
    acc.h = fnv_str(acc.h, &a);
    if let Err(e) = v {
        let better = match &acc.first_fail {
            None => true,
            Some((t, _)) => s.chars().count() < t.chars().count(),
        };
        if better {
            acc.first_fail = Some((s.clone(), e));
        }
    }
    if budget > 0 {
        for c in ALPHABET {
            s.push(*c);
            enum_from(parser, budget - 1, s, acc);
            s.pop();
        }
    }
}

pub fn run(line: &str) -> Obs {
    let mut t = Toks::new(line);
    match t.tok() {
        cmd @ ("parse1" | "parse2") => {
            let text = t.string();
            let (a, v) = answer(if cmd == "parse1" { 1 } else { 2 }, &text);
            Obs::with(a, v)
        }
        "enum" => {
            let parser = t.usize();
            let maxlen = t.usize();
            let mut prefix = t.string();
            let mut acc = Acc { n: 0, ok: 0, h: 0xcbf29ce484222325, first_fail: None };
            let budget = maxlen.saturating_sub(prefix.chars().count());
            enum_from(parser, budget, &mut prefix, &mut acc);
            let verdict = match acc.first_fail {
                None => Ok(()),
                Some((s, e)) => Err(format!("on {:?} [{}]: {e}", s, req_string(&s))),
            };
            Obs::with(format!("{} {} {}", acc.n, acc.ok, acc.h), verdict)
        }
        other => panic!("unknown C16 request {other}"),
    }
}

// ---------------------------------------------------------------- generators

/// a character the Lean model classifies like Rust does: ASCII, a table character, or a character that is in
/// none of the three Unicode classes the parsers consult
fn safe_char(rng: &mut Rng) -> char {
    match rng.below(10) {
        0..=3 => *rng.pick(ALPHABET),
        4 | 5 => char::from_u32(rng.range(32, 126) as u32).unwrap(),
        6 => *rng.pick(crate::c01::TABLE_CHARS),
        7 => *rng.pick(&['@', '_', '=', '!', '~', '$', '%', '&', '|', '"', '\'', ',', ';', ':', '<', '>', '?', '[', ']', '{', '}', '\\', '`']),
        _ => loop {
            let cp = match rng.below(4) {
                0 => rng.range(0x80, 0x7ff),
                1 => rng.range(0x800, 0xffff),
                2 => rng.range(0x10000, 0x10ffff),
                _ => rng.range(0, 0x7f),
            } as u32;
            if let Some(c) = char::from_u32(cp) {
                let classless = !c.is_whitespace() && !c.is_alphabetic() && !c.is_numeric();
                if c.is_ascii() || classless {
                    break c;
                }
            }
        },
    }
}

fn mutate(rng: &mut Rng, text: &str) -> String {
    let mut cs: Vec<char> = text.chars().collect();
    let k = 1 + rng.below(3);
    for _ in 0..k {
        let pos = rng.below(cs.len() as u64 + 1) as usize;
        match rng.below(4) {
            0 if !cs.is_empty() => {
                cs.remove(pos.min(cs.len() - 1));
            }
            1 if !cs.is_empty() => {
                let p = pos.min(cs.len() - 1);
                cs[p] = safe_char(rng);
            }
            2 if cs.len() >= 2 => {
                let p = pos.min(cs.len() - 2);
                cs.swap(p, p + 1);
            }
            _ => cs.insert(pos, safe_char(rng)),
        }
    }
    cs.truncate(64);
    cs.into_iter().collect()
}

pub fn generate(seed: u64, thorough: bool, emit: &mut dyn FnMut(String)) {
    let mut rng = Rng::new(seed ^ 0xC16);
    // exhaustive strings: one request per 2-symbol prefix (plus the shorter strings themselves)
    let maxlen = if thorough { 6 } else { 5 };
    for parser in [1usize, 2] {
        emit(format!("parse{parser} 0"));
        for a in ALPHABET {
            emit(format!("parse{parser} {}", req_string(&a.to_string())));
            for b in ALPHABET {
                let p: String = [*a, *b].iter().collect();
                emit(format!("enum {parser} {maxlen} {}", req_string(&p)));
            }
        }
    }
    // mutated grammatical strings with arbitrary (model-classifiable) Unicode
    let n = if thorough { 200_000 } else { 6000 };
    for i in 0..n {
        let base = if i % 2 == 0 {
            crate::c01::gen_poly_text(&mut rng).0
        } else {
            let pool = ['x', 'y', 'z'];
            let nt = 1 + rng.below(3) as usize;
            let terms: Vec<crate::c02::GenITerm> = (0..nt).map(|_| crate::c02::gen_iterm(&mut rng, &pool, false)).collect();
            crate::c02::render(&mut rng, &terms, 2)
        };
        let text = mutate(&mut rng, &base);
        let parser = 1 + rng.below(2);
        emit(format!("parse{parser} {}", req_string(&text)));
    }
    // exponent magnitudes
    for e in ["65535", "65536", "65537", "99999999999", "18446744073709551615", "18446744073709551616",
              "340282366920938463463374607431768211456", "00000000000000000000000000000000000000007"] {
        emit(format!("parse1 {}", req_string(&format!("2x^{e}"))));
        emit(format!("parse2 {}", req_string(&format!("2x^{e}"))));
        emit(format!("parse2 {}", req_string(&format!("2x^-{e}"))));
    }
}
