import SV.Props.C04
import SV.Lemmas.C04Nat
import Mathlib.Analysis.SpecialFunctions.Integrals.Basic
/-!
# C04 on the natural domain — natural exponents, all real bounds

`SV.Props.C04.analytical_is_integral_inter` proves "the analytical integral is the integral" for the
sparse type on intervals of **positive** reals with no exponent `-1` — the set where every real power is
differentiable.  The property's quantifier speaks of "all bounds a, b in the domain", and for the common
case of the sparse type — all exponents **natural numbers** — the domain is the whole real line: such a
polynomial is defined, continuous and integrable on every interval, including those that contain `0` or
lie among the negative reals.  This file closes that gap (all statements about the shared model
`SV.Model.Poly` / `SV.C04.analytical` with `powf := Real.rpow`, the definitions the driver runs at
`Float`):

* `inter_integ_hasDerivAt_natural`   by name: the indefinite integral in `v` is an antiderivative in `v`
                                     at **every** real point, and vanishes at `v = 0` (zero constant of
                                     integration) — natural powers of `v`, anything on the others
* `integ_uni_hasDerivAt_natural`     the univariate entry point, every real point
* `analytical_is_integral_inter_natural`   `analytical_integral = ∫ x in a..b, f x` for **all** real
                                     `a`, `b` (either order, containing `0` or not)
* `evalUni_natural`, `analytical_natural_explicit`   `f` written out: `Σ c · Π x^n` with ordinary powers
* `integ_natural_closed`             the integral has natural exponents again (so all of the above
                                     applies to iterated integrals)

Nothing is partial here.  No exclusion like C03's `x = 0` with a literal `v^0` arises: integration
never produces a negative power from a natural one (`v^0 ↦ v^1`), and no hypothesis "no exponent `-1`"
is needed because a natural number is not `-1`.
-/
namespace SV.Props.C04Natural
open SV SV.Poly SV.C03 SV.C04 SV.C04Nat SV.Props.C03 SV.Props.C04

/-! ### by name: an antiderivative at every real point -/

/-- **`indefinite_integral_multivariate` is a partial antiderivative at every real point.**  For a
sparse polynomial with well-formed terms in which every power of the integration variable `v` is a
natural number (`∃ n : ℕ, q = n`; the other variables may carry any real powers; `v` may be absent or
fresh), and any bindings `bs` of the other variables: evaluating the integral with `v ↦ t` succeeds
for every real `t` (value `F t`), evaluating the source with `v ↦ x` succeeds for every real `x`
(value `f x`), `F` has derivative `f x` at **every** real `x` — zero and negative points included —
and `F 0 = 0`: the constant of integration is zero. -/
theorem inter_integ_hasDerivAt_natural (p : IPoly ℝ) (hwf : TermsWF p.terms) (v : String)
    (hnat : ∀ t ∈ p.terms, ∀ q, (v, q) ∈ t.vars → ∃ n : ℕ, q = n)
    (bs : List (String × ℝ)) (hb : ∀ w ∈ termNames p.terms, w ≠ v → (lookup bs w).isSome) :
    ∃ (F f : ℝ → ℝ),
      (∀ t, evalTerms Real.rpow (integInter p.terms v).terms (bs ++ [(v, t)]) = .ok (F t)) ∧
      (∀ x, evalTerms Real.rpow p.terms (bs ++ [(v, x)]) = .ok (f x)) ∧
      (∀ x, HasDerivAt F (f x) x) ∧ F 0 = 0 := by
  have hbound : ∀ t w, (w ∈ termNames p.terms ∨ w = v) → (lookup (bs ++ [(v, t)]) w).isSome := by
    intro t w hw
    rw [lookup_append_single]
    by_cases h : v = w
    · simp [h]
    · rw [if_neg h]
      rcases hw with hw | hw
      · exact hb w hw (fun e => h e.symm)
      · exact absurd hw.symm h
  refine ⟨fun t => polyVal Real.rpow (Function.update (valuation bs) v t) (integInter p.terms v).terms,
    fun x => polyVal Real.rpow (Function.update (valuation bs) v x) p.terms, ?_, ?_, ?_, ?_⟩
  · intro t
    rw [evalTerms_eq Real.rpow _ _ (fun w hw => hbound t w (integInter_names p.terms v w hw)),
      valuation_append_single]
  · intro x
    rw [evalTerms_eq Real.rpow p.terms _ (fun w hw => hbound x w (Or.inl hw)), valuation_append_single]
  · exact fun x => hasDerivAt_integInter (valuation bs) v x p.terms hwf hnat
  · exact polyVal_integInter_zero _ hwf hnat (by simp)

/-! ### the univariate entry point -/

/-- **`indefinite_integral_univariate` is an antiderivative at every real point.**  For every usable
polynomial with at most one variable (constants included: integrated in `x`) all of whose exponents
are natural numbers: the wrapper returns `Ok q`; `eval_univariate` of `q` and of the source succeed at
every point (values `F t`, `f t`); `F` has derivative `f x` at **every** real `x`; and `F 0 = 0`. -/
theorem integ_uni_hasDerivAt_natural (p : IPoly ℝ) (h : UniOK p)
    (hnat : ∀ t ∈ p.terms, ∀ w q, (w, q) ∈ t.vars → ∃ n : ℕ, q = n) :
    ∃ (q : IPoly ℝ) (F f : ℝ → ℝ), integUni p = .ok q ∧
      (∀ t, evalUni Real.rpow q t = .ok (F t)) ∧ (∀ t, evalUni Real.rpow p t = .ok (f t)) ∧
      (∀ x, HasDerivAt F (f x) x) ∧ F 0 = 0 := by
  obtain ⟨v, hv, hF, hFok, hFnames⟩ := uni_var p h
  set σ : String → ℝ := valuation [] with hσ
  refine ⟨_, fun t => polyVal Real.rpow (Function.update σ v t) (integInter p.terms v).terms,
    fun t => polyVal Real.rpow (Function.update σ v t) p.terms, hF,
    fun t => evalUni_eq Real.rpow _ hFok.1 hFok.2 v hFnames t,
    fun t => evalUni_eq Real.rpow p h.1 h.2 v hv t,
    fun x => hasDerivAt_integInter σ v x p.terms h.1.1 (fun t ht q hq => hnat t ht v q hq),
    polyVal_integInter_zero _ h.1.1 (fun t ht q hq => hnat t ht v q hq) (by simp)⟩

/-! ### `analytical_integral` is the integral, all real bounds -/

/-- **`analytical_integral = ∫ x in a..b, f x` for all real bounds.**  For every usable sparse
polynomial with at most one variable (constants included) all of whose exponents are natural numbers,
and **all** real `a`, `b` — in either order, positive, negative, zero, with `0` inside the interval or
not: `eval_univariate` succeeds everywhere (value `f x`) and the model of `analytical_integral`
returns `Ok` of the interval integral of `f`.  (`SV.Props.C04.analytical_is_integral_inter` without
`0 < a`, `0 < b`; "no exponent `-1`" is implied.)  Rounding error 0: exact real arithmetic. -/
theorem analytical_is_integral_inter_natural (p : IPoly ℝ) (h : UniOK p)
    (hnat : ∀ t ∈ p.terms, ∀ w q, (w, q) ∈ t.vars → ∃ n : ℕ, q = n) (a b : ℝ) :
    ∃ f : ℝ → ℝ, (∀ x, evalUni Real.rpow p x = .ok (f x)) ∧
      analytical Real.rpow (.inter p) a b = .ok (∫ x in a..b, f x) := by
  obtain ⟨v, hv, hF, hFok, hFnames⟩ := uni_var p h
  set σ : String → ℝ := valuation [] with hσ
  have hnv : NatIn p.terms v := fun t ht q hq => hnat t ht v q hq
  let f : ℝ → ℝ := fun x => polyVal Real.rpow (Function.update σ v x) p.terms
  let g : ℝ → ℝ := fun x => polyVal Real.rpow (Function.update σ v x) (integInter p.terms v).terms
  have hf : ∀ x, evalUni Real.rpow p x = .ok (f x) := fun x => evalUni_eq Real.rpow p h.1 h.2 v hv x
  have hg : ∀ x, evalUni Real.rpow (integInter p.terms v) x = .ok (g x) :=
    fun x => evalUni_eq Real.rpow _ hFok.1 hFok.2 v hFnames x
  have hderiv : ∀ x, HasDerivAt g (f x) x := fun x => hasDerivAt_integInter σ v x p.terms h.1.1 hnv
  have hcont : Continuous f := continuous_iff_continuousAt.2 (fun x =>
    (hasDerivAt_partialDeriv_ext σ v x p.terms h.1.1 (natIn_dom hnv x)).continuousAt)
  have hftc := intervalIntegral.integral_eq_sub_of_hasDerivAt (f := g) (f' := f) (a := a) (b := b)
    (fun x _ => hderiv x) (hcont.intervalIntegrable a b)
  refine ⟨f, hf, ?_⟩
  rw [hftc]
  exact (analytical_ok_iff Real.rpow _ a b _).2
    ⟨.inter (integInter p.terms v), g a, g b, by simp [AnyPoly.integUni, hF, Except.map],
      hg a, hg b, rfl⟩

/-! ### the function written out: ordinary powers -/

/-- **On natural exponents `eval_univariate` is a polynomial function in the ordinary sense**: with
`powf := Real.rpow` it returns `Σ_terms c · Π_(v,q) x^n` where `n = ⌊q⌋₊` is the natural number the
exponent `q` is (monoid power `x ^ n`, defined for every real `x` of either sign and at `0`, with
`x^0 = 1`).  So the function `f` of the theorems of this file and of `SV.Props.C03Natural` is this
polynomial function. -/
theorem evalUni_natural (p : IPoly ℝ) (h : UniOK p)
    (hnat : ∀ t ∈ p.terms, ∀ w q, (w, q) ∈ t.vars → ∃ n : ℕ, q = n) (x : ℝ) :
    evalUni Real.rpow p x
      = .ok ((p.terms.map fun t => t.coef * (t.vars.map fun vp => x ^ ⌊vp.2⌋₊).prod).sum) := by
  obtain ⟨v, hv, _, _, _⟩ := uni_var p h
  rw [evalUni_eq Real.rpow p h.1 h.2 v hv x, polyVal_natural_eq_pow _ v x hv hnat]

/-- `analytical_integral` with the integrand written out: for all real `a`, `b`,
`analytical_integral(p, a, b) = ∫ x in a..b, Σ c · Π x^n`. -/
theorem analytical_natural_explicit (p : IPoly ℝ) (h : UniOK p)
    (hnat : ∀ t ∈ p.terms, ∀ w q, (w, q) ∈ t.vars → ∃ n : ℕ, q = n) (a b : ℝ) :
    analytical Real.rpow (.inter p) a b
      = .ok (∫ x in a..b, (p.terms.map fun t => t.coef * (t.vars.map fun vp => x ^ ⌊vp.2⌋₊).prod).sum) := by
  obtain ⟨f, hf, hint⟩ := analytical_is_integral_inter_natural p h hnat a b
  rw [hint]
  congr 2
  funext x
  have := (hf x).symm.trans (evalUni_natural p h hnat x)
  exact Except.ok.inj this

/-! ### closure: the integral has natural exponents again -/

/-- the indefinite integral of a polynomial with natural exponents has natural exponents (by name, any
variable; hence also through the univariate wrapper), and every power of the integration variable in
it is `≥ 1` — so every theorem of this file applies to it again -/
theorem integ_natural_closed (p : IPoly ℝ) (hwf : TermsWF p.terms)
    (hnat : ∀ t ∈ p.terms, ∀ w q, (w, q) ∈ t.vars → ∃ n : ℕ, q = n) (v : String) :
    (∀ t ∈ (integInter p.terms v).terms, ∀ w q, (w, q) ∈ t.vars → ∃ n : ℕ, q = n) ∧
    (∀ t ∈ (integInter p.terms v).terms, ∀ q, (v, q) ∈ t.vars → ∃ n : ℕ, q = n ∧ 1 ≤ n) :=
  ⟨integInter_natAll hwf hnat, fun _ ht _ hq => integInter_natIn hwf (NatAll.natIn hnat v) ht hq⟩

/-! ### non-vacuity -/

/-- `3x^2 - x + 2` (`SV.C04Nat.quad`, as `IntermediatePolynomial::parse` returns it) over `[-1, 2]`, an
interval containing `0` with a negative bound: `analytical_integral` returns `∫ 3x^2 - x + 2 = 27/2` -/
example : analytical Real.rpow (.inter quad) (-1) 2 = .ok (27 / 2) := by
  rw [analytical_natural_explicit quad quad_usable quad_natural]
  congr 1
  have hfun : (fun x : ℝ => (quad.terms.map fun t =>
      t.coef * (t.vars.map fun vp => x ^ ⌊vp.2⌋₊).prod).sum) = fun x => 3 * x ^ 2 - x + 2 := by
    funext x
    simp [quad]
    ring
  rw [hfun]
  have hd : ∀ x ∈ Set.uIcc (-1 : ℝ) 2,
      HasDerivAt (fun x : ℝ => x ^ 3 - x ^ 2 / 2 + 2 * x) (3 * x ^ 2 - x + 2) x := by
    intro x _
    have h := (((hasDerivAt_pow 3 x).sub ((hasDerivAt_pow 2 x).div_const 2)).add
      ((hasDerivAt_id x).const_mul 2))
    refine h.congr_deriv ?_
    norm_num
  rw [intervalIntegral.integral_eq_sub_of_hasDerivAt hd
    ((by fun_prop : Continuous fun x : ℝ => 3 * x ^ 2 - x + 2).intervalIntegrable _ _)]
  norm_num

/-- … and with the bounds swapped, and split at `0` -/
example : ∃ u w, analytical Real.rpow (.inter quad) (-1) 0 = .ok u ∧
    analytical Real.rpow (.inter quad) 0 2 = .ok w ∧
    analytical Real.rpow (.inter quad) (-1) 2 = .ok (u + w) ∧
    analytical Real.rpow (.inter quad) 2 (-1) = .ok (-(u + w)) :=
  analytical_additive_total Real.rpow quad quad_usable (-1) 2 0

/-- the hypotheses of the by-name theorem are satisfiable with a non-natural power on another
variable: `4·x·y^(-1/2)` integrated in `x`, `y = 9` -/
example : ∃ (F f : ℝ → ℝ),
    (∀ t, evalTerms Real.rpow (integInter [(⟨4, [("x", 1), ("y", -1 / 2)]⟩ : Term ℝ)] "x").terms
      ([("y", 9)] ++ [("x", t)]) = .ok (F t)) ∧
    (∀ x, evalTerms Real.rpow [⟨4, [("x", 1), ("y", -1 / 2)]⟩] ([("y", 9)] ++ [("x", x)]) = .ok (f x)) ∧
    (∀ x, HasDerivAt F (f x) x) ∧ F 0 = 0 := by
  refine inter_integ_hasDerivAt_natural ⟨[⟨4, [("x", 1), ("y", -1 / 2)]⟩], ["x", "y"]⟩ ?_ "x" ?_
    [("y", 9)] ?_
  · intro t ht
    simp only [List.mem_singleton] at ht
    subst ht
    decide
  · intro t ht q hq
    simp only [List.mem_singleton] at ht
    subst ht
    simp only [List.mem_cons, Prod.mk.injEq, List.not_mem_nil, or_false] at hq
    rcases hq with ⟨_, rfl⟩ | ⟨h, _⟩
    · exact ⟨1, by simp⟩
    · exact absurd h (by decide)
  · intro w hw hne
    simp only [termNames, names, List.flatMap_cons, List.flatMap_nil, List.map_cons, List.map_nil,
      List.append_nil, List.mem_cons, List.not_mem_nil, or_false] at hw
    rcases hw with rfl | rfl
    · exact absurd rfl hne
    · simp [lookup]

end SV.Props.C04Natural
