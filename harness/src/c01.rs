//! C01 — univariate parser: every well-formed string means what it says; eval = Σ c_k x^k.
//!
//!   parse <entry> <text> | <intended>     entry 0 = parse_simple_polynomial, 1 = SimplePolynomial::parse
//!   eval  <entry> <spoly> <x>             entry 0 = eval_simple_polynomial, 1 = eval_univariate,
//!                                          2 = eval_multivariate with one binding named after the polynomial's
//!                                          variable, 3 = one binding under another name, 4/5 = the point passed as
//!                                          f32 / i32 where it is exact in that type, 6/7 = other binding containers
//!   evalm <spoly> <k> {<name> <x>}*       eval_multivariate with k bindings (exactly one distinct name is required)
//!   pe    <text> <x> | <intended>         parse then evaluate (oracle only)
//!   class <code point>                    Rust's classification of one character
//!
//! `<intended>` = `n { neg mant scale pow }*`: the term list the text was rendered from (exact
//! decimals), used only by the Python oracle (tools/props/c01.py); the model ignores it.
use crate::polyio::*;
use crate::util::*;
use spindalis_core::polynomials::simple::{eval_simple_polynomial, parse_simple_polynomial};
use spindalis_core::polynomials::structs::{PolynomialTraits, SimplePolynomial};
use spindalis_core::polynomials::PolynomialError;

pub fn show_parsed(r: &Result<SimplePolynomial, PolynomialError>) -> String {
    match r {
        Ok(p) => {
            let mut s = String::from("ok ");
            match p.variable {
                Some(c) => s.push_str(&format!("{}", c as u32)),
                None => s.push('-'),
            }
            s.push_str(&format!(" {}", p.coefficients.len()));
            for c in &p.coefficients {
                s.push(' ');
                s.push_str(&fbits(*c));
            }
            s
        }
        Err(e) => format!("err {}", err_kind(e)),
    }
}

pub fn run(line: &str) -> Obs {
    let mut t = Toks::new(line);
    match t.tok() {
        "parse" => {
            let entry = t.usize();
            let text = t.string();
            let r = catch(|| match entry {
                0 => parse_simple_polynomial(&text),
                _ => SimplePolynomial::parse(&text),
            });
            match r {
                Some(r) => {
                    let verdict = parse_side_checks(&text, &r);
                    Obs::with(show_parsed(&r), verdict)
                }
                None => Obs::with("panic".into(), Err("parser panicked".into())),
            }
        }
        "eval" => {
            let entry = t.usize();
            let _tag = t.tok();
            let p = read_simple(&mut t);
            let x = t.f64();
            let own = p.variable.map(|c| c.to_string()).unwrap_or_else(|| "x".to_string());
            let other = if own == "q" { "w".to_string() } else { "q".to_string() };
            let r = catch(|| match entry {
                0 => Ok(eval_simple_polynomial(x, &p)),
                1 => p.eval_univariate(x),
                2 => p.eval_multivariate(&vec![(own.as_str(), x)]),
                3 => p.eval_multivariate(&vec![(other.as_str(), x)]),
                4 if (x as f32) as f64 == x => Ok(eval_simple_polynomial(x as f32, &p)),
                4 => Ok(eval_simple_polynomial(x, &p)),
                5 if x == x.trunc() && x.abs() < 2e9 => p.eval_univariate(x as i32),
                5 => p.eval_univariate(x),
                6 => {
                    let mut m = std::collections::HashMap::new();
                    m.insert(own.clone(), x);
                    p.eval_multivariate(&m)
                }
                _ => p.eval_multivariate(&[(own.clone(), x)]),
            });
            match r {
                Some(r) => {
                    // every other route to the same evaluation gives the same value - up to the rounding the statement
                    // allows ("equals the sum of c_k x^k up to floating-point rounding": twice the bound the Python oracle
                    // judges the requested route against) - or is refused as well (the statement names no error kind)
                    let mut verdict = Ok(());
                    let tol = eval_tolerance(&p.coefficients, x);
                    let same = |a: &Result<f64, PolynomialError>, b: &Result<f64, PolynomialError>| match (a, b) {
                        (Ok(a), Ok(b)) => {
                            a.to_bits() == b.to_bits() || (a.is_nan() && b.is_nan()) || a == b || match tol {
                                None => true, // a power over- / underflows: outside the rounding model
                                Some(t) => (a - b).abs() <= t,
                            }
                        }
                        (Err(_), Err(_)) => true,
                        _ => false,
                    };
                    if entry != 3 {
                        let others = catch(|| {
                            vec![
                                ("eval_simple_polynomial", Ok(eval_simple_polynomial(x, &p))),
                                ("eval_univariate", p.eval_univariate(x)),
                                ("eval_multivariate", p.eval_multivariate(&vec![(own.as_str(), x)])),
                            ]
                        });
                        match others {
                            None => verdict = Err("another evaluation entry point panicked".to_string()),
                            Some(v) => {
                                for (name, o) in v {
                                    if !same(&o, &r) {
                                        verdict = Err(format!("entry {entry} gives {} but {name} gives {}", show_eval(&r), show_eval(&o)));
                                    }
                                }
                            }
                        }
                    }
                    Obs::with(show_eval(&r), verdict)
                }
                None => Obs::with("panic".into(), Err("evaluation panicked".into())),
            }
        }
        "evalm" => {
            let _tag = t.tok();
            let p = read_simple(&mut t);
            let k = t.usize();
            let binds: Vec<(String, f64)> = (0..k)
                .map(|_| {
                    let n = t.string();
                    (n, t.f64())
                })
                .collect();
            let r = catch(|| p.eval_multivariate(&binds));
            match r {
                Some(r) => Obs::plain(show_eval(&r)),
                None => Obs::with("panic".into(), Err("evaluation panicked".into())),
            }
        }
        "pe" => {
            let text = t.string();
            let x = t.f64();
            let r = catch(|| SimplePolynomial::parse(&text).and_then(|p| p.eval_univariate(x)));
            match r {
                Some(r) => Obs::plain(show_eval(&r)),
                None => Obs::with("panic".into(), Err("parse+eval panicked".into())),
            }
        }
        "class" => {
            let c = char::from_u32(t.tok().parse().unwrap()).unwrap();
            Obs::plain(format!(
                "{} {} {} {}",
                c.is_whitespace() as u8,
                c.is_alphabetic() as u8,
                c.is_numeric() as u8,
                c.is_ascii_digit() as u8
            ))
        }
        other => panic!("unknown C01 request {other}"),
    }
}

/// twice the rounding bound of tools/props/c01.py `_judge_value` for sum c_k x^k (64 u (n + 2) sum |c_k| |x|^k, plus
/// 4 u sum k |c_k| |x|^k for the power itself); `None` when a power leaves [2^-900, 2^900] or something is not finite
fn eval_tolerance(cs: &[f64], x: f64) -> Option<f64> {
    if !x.is_finite() || cs.iter().any(|c| !c.is_finite()) {
        return None;
    }
    let (lo, hi) = (2f64.powi(-900), 2f64.powi(900));
    let u = 2f64.powi(-53);
    let (mut scale, mut kscale) = (0.0f64, 0.0f64);
    for (k, c) in cs.iter().enumerate() {
        let p = x.abs().powi(k as i32);
        if k > 0 && x != 0.0 && !(p >= lo && p <= hi) {
            return None;
        }
        let t = c.abs() * p;
        if t != 0.0 && !(t >= lo && t <= hi) {
            return None;
        }
        scale += t;
        kscale += k as f64 * t;
    }
    let tol = 2.0 * (64.0 * u * (cs.len() as f64 + 2.0) * scale + 4.0 * u * kscale) * 1.001 + 1e-300;
    if tol.is_finite() { Some(tol) } else { None }
}

/// Everything else the public API lets one see of a parse result must tell the same story: the free function on
/// every accepted input type, the trait entry point, the `Deref<Target = [f64]>` view and `PartialEq<Vec<f64>>`.
fn parse_side_checks(text: &str, r: &Result<SimplePolynomial, PolynomialError>) -> Result<(), String> {
    let shown = show_parsed(r);
    let owned: String = text.to_string();
    let routes: Vec<(&str, Option<Result<SimplePolynomial, PolynomialError>>)> = vec![
        ("parse_simple_polynomial(&str)", catch(|| parse_simple_polynomial(text))),
        ("parse_simple_polynomial(&String)", catch(|| parse_simple_polynomial(&owned))),
        ("parse_simple_polynomial(String)", catch(|| parse_simple_polynomial(owned.clone()))),
        ("SimplePolynomial::parse", catch(|| SimplePolynomial::parse(text))),
        ("spindalis::polynomials::parse_simple_polynomial", catch(|| spindalis::polynomials::parse_simple_polynomial(text))),
    ];
    for (name, o) in routes {
        match o {
            None => return Err(format!("{name} panicked")),
            Some(o) => {
                let so = show_parsed(&o);
                // NaN-free results: the canonical texts are equal (two rejections are equal whatever their kind)
                if so != shown && !(so.starts_with("err") && shown.starts_with("err")) {
                    return Err(format!("{name} answers `{so}`, the requested entry point `{shown}`"));
                }
            }
        }
    }
    if let Ok(p) = r {
        let cs = &p.coefficients;
        let view: &[f64] = p; // Deref
        if view.len() != cs.len() || p.len() != cs.len() || p.iter().count() != cs.len() || p.is_empty() != cs.is_empty() {
            return Err("the slice view (Deref) has another length than the coefficient vector".into());
        }
        for k in 0..cs.len() {
            if p[k].to_bits() != cs[k].to_bits() {
                return Err(format!("p[{k}] = {:?} but the coefficient of power {k} is {:?}", p[k], cs[k]));
            }
        }
        if cs.iter().all(|c| !c.is_nan()) {
            if !(*p == cs.clone()) {
                return Err("the polynomial is not == to its own coefficient vector".into());
            }
            // differing vectors: one item changed (each position), one item more, one item less
            for k in 0..cs.len().min(64) {
                let mut v = cs.clone();
                v[k] = if v[k] == 0.0 { 1.0 } else { -v[k] };
                if *p == v {
                    return Err(format!("the polynomial is == to a vector that differs at position {k}"));
                }
            }
            let mut longer = cs.clone();
            longer.push(0.0);
            let shorter = cs[..cs.len().saturating_sub(1)].to_vec();
            if *p == longer || (!cs.is_empty() && *p == shorter) {
                return Err("the polynomial is == to a vector of another length".into());
            }
        }
    }
    Ok(())
}

// ------------------------------------------------------------------------------------ generators

pub const VAR_LETTERS: &[char] = &['x', 'y', 'z', 't', 'a', 'e', 'X', 'Q', 'é', 'λ', 'я', 'ß', 'Ω'];
pub const SPACES: &[&str] = &[" ", " ", "  ", "\t", "\n", "\u{a0}", "\u{2003}", "\u{3000}", "\r\n"];
pub const TABLE_CHARS: &[char] = &[
    'é', 'λ', 'я', 'ß', 'Ω', '\u{a0}', '\u{2003}', '\u{3000}', '\u{2009}', '²', '½', '٣', '\u{85}',
];

/// an unsigned plain decimal spelling and its exact value mant / 10^scale
pub fn dec_spelling(rng: &mut Rng) -> (String, u64, u32) {
    match rng.below(8) {
        0 => {
            let n = rng.below(1000);
            (format!("{n}"), n, 0)
        }
        1 => {
            let n = rng.below(100);
            (format!("{n}."), n, 0)
        }
        2 => {
            let f = rng.below(1000);
            (format!(".{f:03}"), f, 3)
        }
        3 => {
            let n = rng.below(100);
            (format!("00{n}"), n, 0)
        }
        4 => {
            let i = rng.below(50);
            let f = rng.below(100);
            (format!("{i}.{f:02}0"), i * 1000 + f * 10, 3)
        }
        5 => {
            // long mantissa: needs 17 significant digits
            let i = rng.below(10);
            let f = rng.next() % 10_000_000_000_000_000;
            (format!("{i}.{f:016}"), i * 10_000_000_000_000_000 + f, 16)
        }
        6 => {
            if rng.chance(1, 2) {
                (String::from("0"), 0, 0)
            } else {
                // a very small but non-zero coefficient: 0.00…0d with up to 25 zeros
                let z = 10 + rng.below(16) as usize;
                let d = 1 + rng.below(9);
                (format!("0.{}{}", "0".repeat(z), d), d, z as u32 + 1)
            }
        }
        _ => {
            let i = rng.below(10);
            let f = rng.below(10);
            (format!("{i}.{f}"), i * 10 + f, 1)
        }
    }
}

/// spellings of large magnitude or many digits: 13..19 significant digits before and after the point
pub fn dec_spelling_wide(rng: &mut Rng) -> (String, u64, u32) {
    let digits = 13 + rng.below(7) as u32; // 13..19 digits: below 10^19 < 2^64
    let mant = 1 + rng.next() % (10u64.pow(digits) - 1);
    let scale = match rng.below(4) {
        0 => 0,
        1 => digits,
        2 => digits + rng.below(8) as u32,
        _ => rng.below(digits as u64 + 1) as u32,
    };
    let m = format!("{mant}");
    let text = if scale == 0 {
        m
    } else if (scale as usize) >= m.len() {
        format!("{}.{}{}", if rng.chance(1, 2) { "0" } else { "" }, "0".repeat(scale as usize - m.len()), m)
    } else {
        format!("{}.{}", &m[..m.len() - scale as usize], &m[m.len() - scale as usize..])
    };
    (text, mant, scale)
}

pub struct GenTerm {
    pub neg: bool,
    pub mant: u64,
    pub scale: u32,
    pub pow: u32,
    pub text: Vec<String>, // tokens: [coef][var][^][exp]
}

pub fn gen_term(rng: &mut Rng, var: char, maxpow: u32) -> GenTerm {
    let pow = if rng.chance(1, 4) { 0 } else { rng.below(maxpow as u64 + 1) as u32 };
    let neg = rng.chance(2, 5);
    let explicit = pow == 0 || rng.chance(3, 4);
    let (sp, mant, scale) = if explicit { dec_spelling(rng) } else { (String::new(), 1, 0) };
    let mut text = Vec::new();
    if explicit {
        text.push(sp);
    }
    // power 0 is written as a bare constant (sometimes as v^0), power 1 as v or v^1 / v^01
    let write_var = pow > 0 || rng.chance(1, 6);
    if write_var {
        text.push(var.to_string());
        let write_exp = pow != 1 || rng.chance(1, 4);
        if write_exp {
            text.push("^".into());
            text.push(match rng.below(3) {
                0 => format!("{pow}"),
                1 => format!("0{pow}"),
                _ => format!("00{pow}"),
            });
        }
    } else if !explicit {
        // a bare constant needs its coefficient
        text.push("1".into());
    }
    GenTerm { neg, mant, scale, pow, text }
}

/// render a term list with random spacing between tokens
pub fn render(rng: &mut Rng, terms: &[GenTerm], spacing: u64) -> String {
    let mut s = String::new();
    let sp = |rng: &mut Rng, s: &mut String| {
        if rng.below(10) < spacing {
            s.push_str(*rng.pick(SPACES));
        }
    };
    sp(rng, &mut s);
    for (i, t) in terms.iter().enumerate() {
        if t.neg {
            s.push('-');
            sp(rng, &mut s);
        } else if i > 0 || rng.chance(1, 8) {
            s.push('+');
            sp(rng, &mut s);
        }
        for tk in &t.text {
            s.push_str(tk);
            sp(rng, &mut s);
        }
    }
    s
}

pub fn intended(terms: &[GenTerm]) -> String {
    let mut s = format!("{}", terms.len());
    for t in terms {
        s.push_str(&format!(" {} {} {} {}", t.neg as u8, t.mant, t.scale, t.pow));
    }
    s
}

pub fn gen_poly_text(rng: &mut Rng) -> (String, String) {
    let var = *rng.pick(VAR_LETTERS);
    let top = if rng.chance(1, 5) { 12 } else { 5 };
    let n = 1 + rng.below(top) as usize;
    let maxpow = if rng.chance(1, 10) { 40 } else { 12 };
    let terms: Vec<GenTerm> = (0..n).map(|_| gen_term(rng, var, maxpow)).collect();
    let spacing = *rng.pick(&[0u64, 2, 5, 9]);
    (render(rng, &terms, spacing), intended(&terms))
}

pub fn generate(seed: u64, thorough: bool, emit: &mut dyn FnMut(String)) {
    let mut rng = Rng::new(seed ^ 0xC01);
    for cp in 0u32..128 {
        emit(format!("class {cp}"));
    }
    for c in TABLE_CHARS {
        emit(format!("class {}", *c as u32));
    }
    // the largest exponents the parser accepts (its dense vector is capped at MAX_POWER = 65536) and their
    // neighbours: accepted ones carry their meaning, the others are compared with the model only
    for (text, want) in [
        ("x^65536", Some("1 0 1 0 65536")),
        ("2y ^ 065536 - y^65535 + 1", Some("3 0 2 0 65536 1 1 0 65535 0 1 0 0")),
        ("x^65535", Some("1 0 1 0 65535")),
        ("x^65537", None),
        ("x^65536 + x^65537", None),
        ("x^99999", None),
    ] {
        for entry in 0..2 {
            match want {
                Some(w) => emit(format!("parse {entry} {} | {w}", req_string(text))),
                None => emit(format!("parse {entry} {}", req_string(text))),
            }
        }
    }
    let n = if thorough { 100_000 } else { 3000 };
    for i in 0..n {
        let (text, want) = gen_poly_text(&mut rng);
        emit(format!("parse {} {} | {}", i % 2, req_string(&text), want));
        if i % 3 == 0 {
            let x = if rng.chance(1, 10) {
                0.0
            } else if rng.chance(1, 4) {
                // far from the origin: every term counts, however small its coefficient
                rng.uniform(1.0, 9.0) * 10f64.powi(rng.range(2, 9) as i32) * if rng.chance(1, 2) { -1.0 } else { 1.0 }
            } else {
                rng.dyadic(256, 6)
            };
            emit(format!("pe {} {} | {}", req_string(&text), rbits(x), want));
        }
    }
    let m = if thorough { 40_000 } else { 2000 };
    for i in 0..m {
        let mut cs = crate::polyops::rand_coeffs(&mut rng, 12);
        // every magnitude counts: coefficients far below and far above 1 (no coefficient may be dropped or
        // clamped by an absolute threshold), evaluated where their term matters
        let wide = i % 4 == 3;
        if wide {
            for c in cs.iter_mut() {
                if rng.chance(1, 2) {
                    let e = rng.range(-60, 60) as i32;
                    *c = rng.uniform(1.0, 9.0) * 10f64.powi(e) * if rng.chance(1, 2) { -1.0 } else { 1.0 };
                }
            }
        }
        let p = SimplePolynomial { coefficients: cs, variable: Some('x') };
        let x = match rng.below(6) {
            0 => 0.0,
            1 => -rng.uniform(0.0, 4.0),
            2 => rng.dyadic(64, 4),
            3 if wide => rng.uniform(1.0, 9.0) * 10f64.powi(rng.range(-8, 8) as i32),
            _ => rng.uniform(-4.0, 4.0),
        };
        emit(format!("eval {} {} {}", i % 3, req_simple(&p), rbits(x)));
    }
    eval_families(&mut rng, thorough, emit);
    parse_families(&mut rng, thorough, emit);
}

/// every Unicode white-space character (`char::is_whitespace`)
pub const ALL_SPACES: &[char] = &[
    '\u{9}', '\u{a}', '\u{b}', '\u{c}', '\u{d}', ' ', '\u{85}', '\u{a0}', '\u{1680}', '\u{2000}', '\u{2001}', '\u{2002}', '\u{2003}',
    '\u{2004}', '\u{2005}', '\u{2006}', '\u{2007}', '\u{2008}', '\u{2009}', '\u{200a}', '\u{2028}', '\u{2029}', '\u{202f}', '\u{205f}',
    '\u{3000}',
];
/// alphabetic characters of every UTF-8 width and general category (letters, modifier letters, letter numbers,
/// alphabetic marks); `pe` requests are judged by the oracle alone, so the model's class table is not involved
pub const WIDE_LETTERS: &[char] = &[
    'x', 'Z', 'k', 'µ', 'ª', 'é', 'Ω', 'ß', 'ˆ', 'ͅ', 'я', 'א', 'ع', 'あ', 'ｘ', 'Ｘ', '中', 'ǅ', 'Ⅳ', 'ⅷ', 'ⓐ', '𝑥', '𝔁', '𐐀', '𝟋',
];

fn eval_families(rng: &mut Rng, thorough: bool, emit: &mut dyn FnMut(String)) {
    let vars: Vec<Option<char>> =
        VAR_LETTERS.iter().map(|c| Some(*c)).chain([None, Some('𝑥'), Some('あ'), Some('q'), Some('w')]).collect();
    let mut n_req = 0usize;
    let mut req = |rng: &mut Rng, cs: Vec<f64>, x: f64, emit: &mut dyn FnMut(String)| {
        let p = SimplePolynomial { coefficients: cs, variable: *rng.pick(&vars) };
        emit(format!("eval {} {} {}", n_req % 8, req_simple(&p), rbits(x)));
        n_req += 1;
    };
    // 1. every length just beyond the usual sizes (unrolled / chunked evaluation, exponent truncations at 2^8):
    //    small exact coefficients, a non-zero last coefficient, points whose powers are exact
    let mut lens: Vec<usize> = (0..=3).chain(13..=40).collect();
    lens.extend([47, 48, 49, 63, 64, 65, 127, 128, 129, 255, 256, 257, 258, 300]);
    for &n in &lens {
        let pts: &[f64] = if n <= 65 { &[1.0, -1.0, 0.5, -0.5, 2.0, -2.0, 1.5, 0.0, -0.0, 0.75] } else { &[1.0, -1.0, 0.5, -2.0, 2.0, 0.0] };
        for (j, &x) in pts.iter().enumerate() {
            if !thorough && n > 40 && j % 2 == 1 {
                continue;
            }
            let mut cs: Vec<f64> = (0..n)
                .map(|k| match (k + j) % 5 {
                    0 => 0.0,
                    1 => rng.range(-9, 9) as f64,
                    2 => rng.dyadic(64, 5),
                    3 => (k % 7) as f64 - 3.0,
                    _ => rng.range(1, 3) as f64,
                })
                .collect();
            if n > 0 {
                cs[n - 1] = if j % 2 == 0 { 1.0 } else { -3.0 };
            }
            req(rng, cs, x, emit);
        }
        // one term only, at the highest power
        if n > 0 {
            let mut cs = vec![0.0; n];
            cs[n - 1] = 2.0;
            req(rng, cs, if n % 2 == 0 { 0.5 } else { -2.0 }, emit);
        }
    }
    // 2. points next to 1, -1 and 0 at every distance, tiny down to subnormal, huge; coefficients narrow and wide
    let mut pts: Vec<f64> = vec![0.0, -0.0, 1.0, -1.0, 5e-324, -5e-324, f64::MIN_POSITIVE, 1e-310, f64::EPSILON, -f64::EPSILON, 1e-8, 1e-16];
    for k in 1..=17 {
        let d = 10f64.powi(-k);
        pts.extend([1.0 + d, 1.0 - d, -1.0 + d, -1.0 - d]);
    }
    for k in (1..=30).chain([40, 60, 80, 100, 150, 200, 250, 300, 307, 308, 310, 320]) {
        pts.extend([10f64.powi(-k), -10f64.powi(-k)]);
    }
    for k in [10, 15, 16, 17, 20, 30, 50, 75, 100, 150, 200, 300] {
        pts.extend([10f64.powi(k), -10f64.powi(k)]);
    }
    for e in [-1074, -1022, -600, -200, -53, -52, 52, 53, 200, 511, 512, 600, 1023] {
        pts.push(2f64.powi(e));
    }
    let reps = if thorough { 8 } else { 2 };
    for &x in &pts {
        for r in 0..reps {
            let mut cs = crate::polyops::rand_coeffs(rng, if r % 2 == 0 { 4 } else { 12 });
            if r % 2 == 1 {
                for c in cs.iter_mut() {
                    if rng.chance(1, 2) {
                        *c = rng.uniform(1.0, 9.0) * 10f64.powi(rng.range(-60, 60) as i32) * if rng.chance(1, 2) { -1.0 } else { 1.0 };
                    }
                }
            }
            req(rng, cs, x, emit);
        }
        // a constant and a linear polynomial with a large slope: no shortcut near 0 or 1 may drop the slope
        req(rng, vec![1.0, 1e30], x, emit);
        req(rng, vec![-2.5], x, emit);
    }
    // 2b. coefficients next to the largest binary64 number at points inside (-1, 1), arranged so that every power, every
    //     term and the sum of |terms| (a bound on every partial sum of terms) stay below 2^1023: the value is an ordinary
    //     finite number and "equals the sum of c_k x^k up to rounding" demands it.  An evaluation scheme whose
    //     INTERMEDIATES are larger than the terms (nested multiplication: tail sums divided by a power of x) overflows
    //     exactly here.  (Sums of |terms| are formed in units of 2^1023.)
    let want = if thorough { 400 } else { 60 };
    let (mut made, mut tries) = (0, 0);
    while made < want && tries < 40 * want {
        tries += 1;
        let x = *rng.pick(&[0.5f64, -0.5, 0.25, -0.25, 0.3, -0.3, 0.7, -0.7, 0.1, 0.6, 0.9, -0.9, 0.0625]);
        let k0 = 1 + rng.below(6) as usize; // position of the first large coefficient
        let m = 2 + rng.below(5) as usize; // number of large coefficients
        let mut cs = vec![0.0f64; k0 + m];
        for c in cs.iter_mut().take(k0) {
            if rng.chance(1, 2) {
                *c = rng.range(-9, 9) as f64 * 2f64.powi(rng.range(0, 900) as i32);
            }
        }
        let mode = tries % 4;
        for k in k0..k0 + m {
            let sign = match mode {
                0 => 1.0,
                1 => -1.0,
                2 => if x < 0.0 && k % 2 == 1 { -1.0 } else { 1.0 }, // all terms of one sign at a negative point
                _ => if rng.chance(1, 2) { 1.0 } else { -1.0 },
            };
            cs[k] = sign * rng.uniform(1.0, 1.99) * 2f64.powi(1023);
        }
        let unit = 2f64.powi(1023);
        let scaled: f64 = cs.iter().enumerate().map(|(k, c)| (c / unit).abs() * x.abs().powi(k as i32)).sum();
        if scaled < 0.85 {
            req(rng, cs, x, emit);
            made += 1;
        }
    }
    // 3. eval_multivariate with any number of bindings: exactly one distinct name is required
    for i in 0..(if thorough { 2000 } else { 200 }) {
        let var = *rng.pick(&vars);
        let own = var.map(|c| c.to_string()).unwrap_or_else(|| "x".into());
        let p = SimplePolynomial { coefficients: crate::polyops::rand_coeffs(rng, 6), variable: var };
        let names: Vec<String> = match i % 8 {
            0 => vec![],
            1 => vec![own.clone()],
            2 => vec!["other".into()],
            3 => vec![own.clone(), own.clone()],
            4 => vec![own.clone(), "y".into()],
            5 => vec!["y".into(), own.clone()],
            6 => vec![own.clone(), "y".into(), "z".into(), own.clone()],
            _ => vec![String::new()],
        };
        let mut line = format!("evalm {} {}", req_simple(&p), names.len());
        for n in &names {
            line.push_str(&format!(" {} {}", req_string(n), rbits(rng.dyadic(64, 4))));
        }
        emit(line);
    }
}

fn parse_families(rng: &mut Rng, thorough: bool, emit: &mut dyn FnMut(String)) {
    let mut k = 0usize;
    // 1. many terms (13..40 each, 100, 300), repeated powers included
    let mut counts: Vec<usize> = (13..=40).collect();
    counts.extend([64, 100, 255, 256, 257, 300]);
    if thorough {
        counts.extend([1000, 4096]);
    }
    for &n in &counts {
        let var = *rng.pick(VAR_LETTERS);
        let maxpow = *rng.pick(&[3u32, 12, 60]);
        let terms: Vec<GenTerm> = (0..n).map(|_| gen_term(rng, var, maxpow)).collect();
        let spacing = *rng.pick(&[0u64, 2, 5]);
        let text = render(rng, &terms, spacing);
        if n <= 300 {
            // (longer sums nest the model's exact-decimal answer too deeply for the comparator: oracle only)
            emit(format!("parse {} {} | {}", k % 2, req_string(&text), intended(&terms)));
        }
        emit(format!("pe {} {} | {}", req_string(&text), rbits(*rng.pick(&[1.0, -1.0, 0.5, 2.0])), intended(&terms)));
        k += 1;
    }
    // 2. exponents beyond the usual ones, incl. the powers of two where a narrower integer type would wrap, long runs
    //    of leading zeros, and coefficient spellings with 13..19 significant digits
    let mut pows: Vec<u32> = (41..=300).step_by(if thorough { 1 } else { 7 }).collect();
    pows.extend([127, 128, 129, 255, 256, 257, 511, 512, 1000, 1023, 1024, 1025, 4095, 4096, 32767, 32768, 32769, 65534, 65535, 65536]);
    for &pw in &pows {
        let var = *rng.pick(VAR_LETTERS);
        let mut terms: Vec<GenTerm> = (0..1 + rng.below(3)).map(|_| gen_term(rng, var, 5)).collect();
        let (sp, mant, scale) = if rng.chance(1, 2) { dec_spelling_wide(rng) } else { dec_spelling(rng) };
        let zeros = "0".repeat(*rng.pick(&[0usize, 1, 2, 19, 20, 21, 40]));
        terms.insert(
            rng.below(terms.len() as u64 + 1) as usize,
            GenTerm { neg: rng.chance(1, 2), mant, scale, pow: pw, text: vec![sp, var.to_string(), "^".into(), format!("{zeros}{pw}")] },
        );
        let spacing = *rng.pick(&[0u64, 3]);
        let text = render(rng, &terms, spacing);
        emit(format!("parse {} {} | {}", k % 2, req_string(&text), intended(&terms)));
        if pw <= 1100 {
            emit(format!("pe {} {} | {}", req_string(&text), rbits(*rng.pick(&[1.0, -1.0, 0.5, -0.5])), intended(&terms)));
        } else {
            // (1 +- 2^-14)^65536 = e^(+-4): the high power is far from negligible and far from overflow
            emit(format!("pe {} {} | {}", req_string(&text), rbits(*rng.pick(&[1.0 + 2f64.powi(-14), 1.0 - 2f64.powi(-14), -1.0])), intended(&terms)));
        }
        k += 1;
    }
    for _ in 0..(if thorough { 5000 } else { 300 }) {
        let var = *rng.pick(VAR_LETTERS);
        let n = 1 + rng.below(4) as usize;
        let terms: Vec<GenTerm> = (0..n)
            .map(|_| {
                let mut t = gen_term(rng, var, 9);
                if !t.text.is_empty() && t.text[0].chars().next().map(|c| c.is_ascii_digit() || c == '.').unwrap_or(false) {
                    let (sp, mant, scale) = dec_spelling_wide(rng);
                    t.text[0] = sp;
                    t.mant = mant;
                    t.scale = scale;
                }
                t
            })
            .collect();
        let spacing = *rng.pick(&[0u64, 4]);
        let text = render(rng, &terms, spacing);
        emit(format!("parse {} {} | {}", k % 2, req_string(&text), intended(&terms)));
        emit(format!("pe {} {} | {}", req_string(&text), rbits(rng.dyadic(64, 4)), intended(&terms)));
        k += 1;
    }
    // 3. any alphabetic variable (every UTF-8 width, letter numbers, modifier letters, alphabetic marks) and any Unicode
    //    white space: parse + evaluate, judged by the oracle alone
    assert!(WIDE_LETTERS.iter().all(|c| c.is_alphabetic()) && ALL_SPACES.iter().all(|c| c.is_whitespace()));
    for (i, &var) in WIDE_LETTERS.iter().enumerate() {
        for rep in 0..(if thorough { 12 } else { 3 }) {
            let n = 1 + rng.below(5) as usize;
            let terms: Vec<GenTerm> = (0..n).map(|_| gen_term(rng, var, 9)).collect();
            // render with arbitrary white space between all tokens
            let mut text = String::new();
            let sp = |rng: &mut Rng, s: &mut String| {
                for _ in 0..rng.below(3) {
                    s.push(*rng.pick(ALL_SPACES));
                }
            };
            for (j, t) in terms.iter().enumerate() {
                sp(rng, &mut text);
                if t.neg {
                    text.push('-');
                } else if j > 0 {
                    text.push('+');
                }
                for tk in &t.text {
                    if rep > 0 {
                        sp(rng, &mut text);
                    }
                    text.push_str(tk);
                }
            }
            sp(rng, &mut text);
            let x = if (i + rep) % 3 == 0 { 2.0 } else { rng.dyadic(64, 4) };
            emit(format!("pe {} {} | {}", req_string(&text), rbits(x), intended(&terms)));
        }
    }
}

/// the common univariate sub-language of both parsers: ASCII variable letter only
pub fn gen_poly_text_ascii(rng: &mut Rng) -> (String, String) {
    let var = *rng.pick(&['x', 'y', 't', 'e', 'Q']);
    let n = 1 + rng.below(6) as usize;
    let terms: Vec<GenTerm> = (0..n).map(|_| gen_term(rng, var, 9)).collect();
    let spacing = *rng.pick(&[0u64, 3, 7]);
    (render(rng, &terms, spacing), intended(&terms))
}
