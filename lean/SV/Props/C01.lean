import SV.Model.C01
import SV.Lemmas.Poly
import Mathlib.Algebra.BigOperators.Intervals
/-!
# C01 — univariate parser: every well-formed polynomial string means what it says

Property theorems only.  Evaluation half (this file, any field): the square-and-multiply loop of
`f64::powi` is the power function, and `eval_simple_polynomial` of a coefficient vector is
`Σ c_k x^k`.  The parser half (`parse_render`) is in `SV.Props.C01Parse`.
-/
namespace SV.Props.C01
open SV SV.Poly Finset

variable {K : Type} [Field K]

/-- `f64::powi` (the compiler-rt loop) computes the integer power, for every exponent. -/
theorem powi_eq_pow (x : K) (n : Int) : powi x n = x ^ n := powi_eq_zpow x n

private theorem evalFrom_sum (x : K) (k : ℕ) (cs : List K) (acc : K) :
    evalSimpleFrom x k cs acc = acc + ∑ i ∈ range cs.length, cs.getD i 0 * x ^ (k + i) := by
  induction cs generalizing k acc with
  | nil => simp [evalSimpleFrom]
  | cons c cs ih =>
    simp only [evalSimpleFrom, ih, powi_nat, List.length_cons, Finset.sum_range_succ']
    simp only [List.getD_cons_succ, List.getD_cons_zero, Nat.add_zero]
    have : ∀ i, k + 1 + i = k + (i + 1) := by intro i; omega
    simp only [this]
    ring

/-- Evaluation of a coefficient vector is `Σ_k c_k x^k` (position `k` is the coefficient of `x^k`). -/
theorem eval_eq_sum (cs : List K) (x : K) :
    evalSimple cs x = ∑ k ∈ range cs.length, cs.getD k 0 * x ^ k := by
  simp [evalSimple, evalFrom_sum]

/-- … and it is Mathlib's polynomial evaluation of the polynomial with those coefficients. -/
theorem eval_eq_polynomial_eval (cs : List K) (x : K) :
    evalSimple cs x = (ofCoeffs cs).eval x := evalSimple_eq cs x

end SV.Props.C01
