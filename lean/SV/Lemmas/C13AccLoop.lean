import SV.Lemmas.C13
import SV.Lemmas.C13AccSpec
import SV.Props.C13
/-!
# C13 accuracy, layer 3 — the loop of the model runs on scalar multiples of the exact iterates

Over `ℝ`, for a symmetric matrix with a dominant eigenvalue (`Dominant`): every iterate of
`SV.C13.loop` is a non-zero multiple of `iter M k = Mᵏ·1`, so no normaliser is zero, no pass takes
the `NoConvergence` exit, and the Rayleigh quotient computed in the pass with counter `done = j` is
`d₁ · rho (j+2)` (scale invariance).  With the contraction of layer 1 the stopping test fires at the
latest in the pass with counter 23 (`loop_accurate`), far inside the cap, and the call returns
(`powerCap_accurate`).  `resid_scaled_le` turns the a-posteriori error bound into the residual
bound for any scalar multiple of the iterate.
-/
set_option linter.unusedSectionVars false

namespace SV.C13.Acc
open SV SV.C11 SV.C13 Finset Matrix

/-- the column vector a `Mat` denotes -/
def vec (n : ℕ) (x : Mat ℝ) : Fin n → ℝ := fun i => x.get i 0

theorem vec_mulOp (n : ℕ) (A x : Mat ℝ) (hA : Square n A) (hx : ColVec n x) :
    vec n (mulOp A x) = A.toMatrix n n *ᵥ vec n x := by
  obtain ⟨e1, _, _, _⟩ := mulOp_conform A x (by rw [hA.2.1, hx.1])
  funext i
  have := SV.Props.C11.dot_entry A x _ (by rw [hA.2.1, hx.1]) e1 i 0
    (by rw [hA.1]; exact i.isLt) (by rw [hx.2.1]; omega)
  unfold vec
  rw [this, hA.2.1, Finset.sum_range]
  rfl

theorem mulOp_colVec (n : ℕ) (A x : Mat ℝ) (hA : Square n A) (hx : ColVec n x) :
    ColVec n (mulOp A x) := by
  obtain ⟨_, h1, w1, f1⟩ := mulOp_conform A x (by rw [hA.2.1, hx.1])
  exact ⟨by rw [h1, hA.1], by rw [w1, hx.2.1], f1⟩

theorem vec_divS (n : ℕ) (y : Mat ℝ) (c : ℝ) (hy : ColVec n y) :
    vec n (divS y c) = c⁻¹ • vec n y := by
  funext i
  unfold vec divS
  rw [Mat.get_tab _ (by rw [hy.1]; exact i.isLt) (by rw [hy.2.1]; exact Nat.one_pos)]
  rw [Pi.smul_apply, smul_eq_mul, div_eq_inv_mul]

theorem vec_ones (n : ℕ) : vec n (ones n) = fun _ => 1 := by
  funext i
  unfold vec ones
  rw [Mat.get_tab _ i.isLt Nat.one_pos]

/-- the code's Rayleigh quotient in `Matrix` vocabulary -/
theorem rayleigh_vec (n : ℕ) (A x : Mat ℝ) (hA : Square n A) (hx : ColVec n x) :
    rayleigh A x = some ((vec n x ⬝ᵥ A.toMatrix n n *ᵥ vec n x) / (vec n x ⬝ᵥ vec n x)) := by
  rw [rayleigh_value n A x hA hx]
  unfold dotProduct Matrix.mulVec dotProduct Mat.toMatrix vec
  rw [Finset.sum_range, Finset.sum_range]
  congr 3
  funext i
  rw [Finset.sum_range]

/-- scale invariance of the Rayleigh quotient -/
theorem rq_smul {n : ℕ} (M : Matrix (Fin n) (Fin n) ℝ) (X : Fin n → ℝ) (s : ℝ) (hs : s ≠ 0) :
    ((s • X) ⬝ᵥ M *ᵥ (s • X)) / ((s • X) ⬝ᵥ (s • X)) = (X ⬝ᵥ M *ᵥ X) / (X ⬝ᵥ X) := by
  rw [Matrix.mulVec_smul, smul_dotProduct, dotProduct_smul, smul_dotProduct, dotProduct_smul,
    smul_eq_mul, smul_eq_mul, smul_eq_mul, smul_eq_mul, ← mul_assoc, ← mul_assoc,
    mul_div_mul_left _ _ (mul_ne_zero hs hs)]

/-- the helper `normaliser` of a non-zero column vector is not zero (the maximum when it is
positive, otherwise the minimum, which is then negative) -/
theorem normaliser_ne_zero (n : ℕ) (y : Mat ℝ) (hy : ColVec n y) (c : ℝ)
    (h : normaliser y = some c) (hne : vec n y ≠ 0) : c ≠ 0 := by
  intro hc
  apply hne
  unfold normaliser at h
  split at h
  · cases h
  · rename_i largest hl
    obtain ⟨_, hub⟩ := maxOf_col n y hy largest hl
    split_ifs at h with hpos
    · cases h
      exact absurd hc (ne_of_gt hpos)
    · obtain ⟨_, hlb⟩ := minOf_col n y hy c h
      have hle : largest ≤ 0 := not_lt.mp hpos
      funext i
      have h1 := hub i i.isLt
      have h2 := hlb i i.isLt
      show y.get i 0 = 0
      rw [hc] at h2
      exact le_antisymm (le_trans h1 hle) h2

/-- the residual sum of the property statement in `Matrix` vocabulary -/
theorem resid_sum_eq (n : ℕ) (A v : Mat ℝ) (lam : ℝ) :
    ∑ i ∈ range n, ((∑ k ∈ range n, A.get i k * v.get k 0) - lam * v.get i 0) ^ 2
      = (A.toMatrix n n *ᵥ vec n v - lam • vec n v) ⬝ᵥ
          (A.toMatrix n n *ᵥ vec n v - lam • vec n v) := by
  unfold dotProduct
  rw [Finset.sum_range]
  apply Finset.sum_congr rfl
  intro i _
  have e : (A.toMatrix n n *ᵥ vec n v - lam • vec n v) i
      = (∑ k ∈ range n, A.get i k * v.get k 0) - lam * v.get i 0 := by
    rw [Finset.sum_range]
    rfl
  rw [e, sq]

theorem norm_sum_eq (n : ℕ) (v : Mat ℝ) :
    ∑ i ∈ range n, v.get i 0 ^ 2 = vec n v ⬝ᵥ vec n v := by
  unfold dotProduct
  rw [Finset.sum_range]
  apply Finset.sum_congr rfl
  intro i _
  rw [sq]
  rfl

section loop
variable {n : ℕ} (A : Mat ℝ) {q : Fin n → Fin n → ℝ} {d : Fin n → ℝ} {i₁ : Fin n}
  (hA : Square n A)
  (hsym : ∀ i j : Fin n, A.toMatrix n n i j = A.toMatrix n n j i)
  (heig : ∀ a i, ∑ j, A.toMatrix n n i j * q a j = d a * q a i)
  (h : Dominant q d i₁)
include hA hsym heig h

theorem iter_ne_zero (k : ℕ) (s : ℝ) (hs : s ≠ 0) : s • iter (A.toMatrix n n) k ≠ 0 := by
  intro h0
  have hX : iter (A.toMatrix n n) k = 0 := by
    rcases smul_eq_zero.mp h0 with h1 | h1
    · exact absurd h1 hs
    · exact h1
  have hp := norm_iter_pos (A.toMatrix n n) hsym heig h k
  rw [hX] at hp
  simp at hp

/-- **one pass on a multiple of `Mʲ⁺¹·1`**: the normaliser is not zero, the new iterate is a
non-zero multiple of `Mʲ⁺²·1`, and the new eigenvalue estimate is `d₁ · rho (j+2)` -/
theorem pass_iter (j : ℕ) (ev : Mat ℝ) (lam : ℝ) (hev : ColVec n ev) (s : ℝ) (hs : s ≠ 0)
    (hvec : vec n ev = s • iter (A.toMatrix n n) (j + 1)) :
    ∃ p : Pass ℝ, pass A ev lam = some p ∧ p.c ≠ 0 ∧ ColVec n p.nv ∧
      (∃ s' : ℝ, s' ≠ 0 ∧ vec n p.nv = s' • iter (A.toMatrix n n) (j + 2)) ∧
      p.next = d i₁ * rhoOf h (j + 2) ∧ p.ea = |(p.next - lam) / p.next| := by
  obtain ⟨p, hp, hnvC⟩ := pass_some n h.hn A ev lam hA hev
  obtain ⟨hc, hnv, hray, hea⟩ := pass_spec A ev lam p hp
  have hmC := mulOp_colVec n A ev hA hev
  have hm : vec n (mulOp A ev) = s • iter (A.toMatrix n n) (j + 2) := by
    rw [vec_mulOp n A ev hA hev, hvec, Matrix.mulVec_smul]
    rfl
  have hc0 : p.c ≠ 0 := normaliser_ne_zero n _ hmC p.c hc
    (by rw [hm]; exact iter_ne_zero A hA hsym heig h (j + 2) s hs)
  have hs' : p.c⁻¹ * s ≠ 0 := mul_ne_zero (inv_ne_zero hc0) hs
  have hnvv : vec n p.nv = (p.c⁻¹ * s) • iter (A.toMatrix n n) (j + 2) := by
    rw [hnv, vec_divS n _ _ hmC, hm, smul_smul]
  refine ⟨p, hp, hc0, hnvC, ⟨_, hs', hnvv⟩, ?_, ?_⟩
  · have := rayleigh_vec n A p.nv hA hnvC
    rw [hray, hnvv, rq_smul _ _ _ hs', rq_iter (A.toMatrix n n) hsym heig h] at this
    exact Option.some.inj this
  · rw [hea, sabs_eq_abs]

/-- the relative change of the eigenvalue estimates does not depend on the scale `d₁` -/
theorem change_scale (a b : ℝ) : |(d i₁ * a - d i₁ * b) / (d i₁ * a)| = |(a - b) / a| := by
  rw [← mul_sub, mul_div_mul_left _ _ h.hD]

/-- **The loop returns, and what it returns**: started in the pass with counter `j` on a non-zero
multiple of `Mʲ⁺¹·1` (and, if `j > 0`, with the Rayleigh quotient of that vector as the previous
estimate), with enough fuel to reach the pass with counter 23, the loop returns after `p` passes,
`2 ≤ p ≤ 24`, from a pass whose new estimate is `d₁ · rho (p+1)`, whose stopping test compared it
with `d₁ · rho p`, and whose vector is a multiple of `Mᵖ⁺¹·1`. -/
theorem loop_accurate (tol : ℝ) (htol : 1 / 10 ^ 12 ≤ tol) :
    ∀ (fuel j : ℕ) (ev : Mat ℝ) (lam : ℝ), ColVec n ev →
      (∃ s : ℝ, s ≠ 0 ∧ vec n ev = s • iter (A.toMatrix n n) (j + 1)) →
      (0 < j → lam = d i₁ * rhoOf h (j + 1)) → j ≤ 23 → 24 ≤ j + fuel →
      ∃ (lamR : ℝ) (v : Mat ℝ) (p : ℕ) (t : ℝ),
        loop A tol fuel j ev lam = .ok (lamR, v, p) ∧ 2 ≤ p ∧ p ≤ 24 ∧
        lamR = d i₁ * rhoOf h (p + 1) ∧
        |(rhoOf h (p + 1) - rhoOf h p) / rhoOf h (p + 1)| < tol ∧
        vec n v = t • iter (A.toMatrix n n) (p + 1) := by
  intro fuel
  induction fuel with
  | zero => intro j ev lam _ _ _ hj hf; omega
  | succ fuel ih =>
    intro j ev lam hev ⟨s, hs, hvec⟩ hlam hj23 hfuel
    obtain ⟨p, hp, hc0, hnvC, ⟨s', hs', hnvv⟩, hnext, hea⟩ :=
      pass_iter A hA hsym heig h j ev lam hev s hs hvec
    have hτ := h.hτ
    rw [loop, hp]
    simp only
    have hz : ¬((p.c == 0) = true) := fun e => hc0 (beq_iff_eq.mp e)
    rw [if_neg hz]
    by_cases hstop : 0 < j ∧ ¬(p.next == 0) = true ∧ p.ea < tol
    · rw [if_pos hstop]
      obtain ⟨c, hc⟩ := maxOf_some p.nv hnvC.2.2 (by rw [hnvC.1]; exact h.hn)
        (by rw [hnvC.2.1]; exact Nat.one_pos)
      simp only [hc]
      refine ⟨p.next, divS p.nv c, j + 1, c⁻¹ * s', rfl, by omega, by omega, hnext, ?_, ?_⟩
      · have := hstop.2.2
        rw [hea, hnext, hlam hstop.1, change_scale A hA hsym heig h] at this
        exact this
      · rw [vec_divS n _ _ hnvC, hnvv, smul_smul]
    · rw [if_neg hstop]
      have hj : j < 23 := by
        by_contra hge
        apply hstop
        have hj0 : 0 < j := by omega
        have hpos := rho_pos _ _ _ _ h.hw h.hr h.h₁ hτ (j + 2) (by omega)
        refine ⟨hj0, ?_, ?_⟩
        · intro e
          have e' := beq_iff_eq.mp e
          rw [hnext] at e'
          rcases mul_eq_zero.mp e' with h0 | h0
          · exact h.hD h0
          · exact absurd h0 (ne_of_gt hpos)
        · rw [hea, hnext, hlam hj0, change_scale A hA hsym heig h]
          exact apriori_stop _ _ _ _ h.hw h.hr h.h₁ hτ (j + 1) (by omega) tol htol
      exact ih (j + 1) p.nv p.next hnvC ⟨s', hs', hnvv⟩ (fun _ => hnext) (by omega) (by omega)

/-- **`power_method` returns** for every cap `≥ 24`, from a pass as described in `loop_accurate` -/
theorem powerCap_accurate (cap : ℕ) (hcap : 24 ≤ cap) (tol : ℝ) (htol : 1 / 10 ^ 12 ≤ tol) :
    ∃ (lamR : ℝ) (v : Mat ℝ) (p : ℕ) (t : ℝ),
      powerCap cap A tol = .ok (lamR, v, p) ∧ 2 ≤ p ∧ p ≤ 24 ∧
      lamR = d i₁ * rhoOf h (p + 1) ∧
      |(rhoOf h (p + 1) - rhoOf h p) / rhoOf h (p + 1)| < tol ∧
      vec n v = t • iter (A.toMatrix n n) (p + 1) := by
  have hn := h.hn
  have hAh : A.h = n := hA.1
  have hAw : A.w = n := hA.2.1
  have hoC : ColVec n (ones A.h : Mat ℝ) := by rw [hAh]; exact ones_colVec n
  have hmC := mulOp_colVec n A _ hA hoC
  have hm : vec n (mulOp A (ones A.h)) = (1 : ℝ) • iter (A.toMatrix n n) 1 := by
    rw [vec_mulOp n A _ hA hoC, hAh, vec_ones, one_smul]
    rfl
  obtain ⟨lam0, hl⟩ := normaliser_some (mulOp A (ones A.h)) hmC.2.2 (by rw [hmC.1]; exact hn)
    (by rw [hmC.2.1]; exact Nat.one_pos)
  have hl0 : lam0 ≠ 0 := normaliser_ne_zero n _ hmC lam0 hl
    (by rw [hm]; exact iter_ne_zero A hA hsym heig h 1 1 one_ne_zero)
  unfold powerCap
  rw [if_neg (by omega)]
  simp only [hl]
  rw [if_neg (fun e => hl0 (beq_iff_eq.mp e))]
  exact loop_accurate A hA hsym heig h tol htol cap 0 _ lam0 (divS_colVec n _ lam0 hmC)
    ⟨lam0⁻¹ * 1, mul_ne_zero (inv_ne_zero hl0) one_ne_zero, by
      rw [vec_divS n _ _ hmC, hm, smul_smul]⟩
    (fun h0 => absurd h0 (lt_irrefl 0)) (by omega) (by omega)

/-- **residual of a multiple of the iterate**: if the error of `rho k` is below `tol · rho k` and
`rho k ≥ 1/4`, every multiple `t • Mᵏ·1` has squared residual at most
`(3/2)·tol / rho k ≤ 6·tol` times `λ²‖v‖²` -/
theorem resid_scaled_le (k : ℕ) (t tol : ℝ)
    (he : epsOf h k < tol * rhoOf h k) (hr : 1 / 4 ≤ rhoOf h k) :
    (A.toMatrix n n *ᵥ (t • iter (A.toMatrix n n) k)
        - (d i₁ * rhoOf h k) • (t • iter (A.toMatrix n n) k)) ⬝ᵥ
      (A.toMatrix n n *ᵥ (t • iter (A.toMatrix n n) k)
        - (d i₁ * rhoOf h k) • (t • iter (A.toMatrix n n) k))
    ≤ 6 * tol * (d i₁ * rhoOf h k) ^ 2 *
        ((t • iter (A.toMatrix n n) k) ⬝ᵥ (t • iter (A.toMatrix n n) k)) := by
  set M := A.toMatrix n n with hM
  set X := iter M k with hX
  set lam := d i₁ * rhoOf h k with hlam
  have hrq : (X ⬝ᵥ M *ᵥ X) / (X ⬝ᵥ X) = lam := rq_iter M hsym heig h k
  have hid := SV.Props.C13.rayleigh_residual_identity M X
  rw [hrq] at hid
  have hres := resid_iter M hsym heig h k
  have hXX : 0 < X ⬝ᵥ X := norm_iter_pos M hsym heig h k
  have hbound := resid_le (rest i₁) (ww q) (rr d i₁) (ww q i₁) h.hw h.hr h.h₁ k
  have e1 : M *ᵥ (t • X) - lam • (t • X) = t • (M *ᵥ X - lam • X) := by
    rw [Matrix.mulVec_smul, smul_comm lam t X, smul_sub]
  rw [e1, smul_dotProduct, dotProduct_smul, smul_dotProduct, dotProduct_smul, hid, hres]
  simp only [smul_eq_mul]
  have hD2 : 0 < d i₁ ^ 2 := by
    have := h.hD
    positivity
  have hpos : 0 < (X ⬝ᵥ X) * d i₁ ^ 2 := mul_pos hXX hD2
  have ht : 0 ≤ t * t := mul_self_nonneg t
  -- the relative squared residual is at most (3/2)·eps < (3/2)·tol·rho ≤ 6·tol·rho²
  have hkey : (ww q i₁ + U (rest i₁) (ww q) (rr d i₁) (k + 1))
        / (ww q i₁ + U (rest i₁) (ww q) (rr d i₁) k) - rhoOf h k ^ 2
      ≤ 6 * tol * rhoOf h k ^ 2 := by
    have h0 := eps_nonneg (rest i₁) (ww q) (rr d i₁) (ww q i₁) h.hw h.hr h.h₁ k
    have htol : 0 ≤ tol := by
      by_contra hneg
      have : tol * rhoOf h k < 0 := mul_neg_of_neg_of_pos (not_le.mp hneg) (by linarith)
      linarith
    have h1 : tol * rhoOf h k * (1 / 4) ≤ tol * rhoOf h k * rhoOf h k :=
      mul_le_mul_of_nonneg_left hr (mul_nonneg htol (by linarith))
    nlinarith
  have hfin := mul_le_mul_of_nonneg_left hkey (le_of_lt hpos)
  have hfin2 := mul_le_mul_of_nonneg_left hfin ht
  calc t * (t * ((X ⬝ᵥ X) * d i₁ ^ 2 * _)) = t * t * ((X ⬝ᵥ X) * d i₁ ^ 2 * _) := by ring
    _ ≤ t * t * ((X ⬝ᵥ X) * d i₁ ^ 2 * (6 * tol * rhoOf h k ^ 2)) := hfin2
    _ = 6 * tol * lam ^ 2 * (t * (t * (X ⬝ᵥ X))) := by rw [hlam]; ring

end loop
end SV.C13.Acc
