import SV.Props.C10
/-!
# C10: the open finding F-C10-abs-scale on the model

`SV.Props.C10.inverse_accepts_regular` proves that the model inverts every regular matrix *below a
matrix-dependent tolerance*; the code's tolerance is the constant `f64::EPSILON`.  The statement of
C10 ("the inverse of the inverse returns to A for well-conditioned A") has no such restriction, and it
is false of the code and of the model alike for matrices of small scale: the exact-arithmetic
witnesses below (the same requests are in `corpus/C10.txt` and are reported as
`KNOWN-FINDING … [F-C10-abs-scale]` on every run).
-/
namespace SV.Props.C10Findings
open SV SV.C09 SV.C10 SV.Props.C10

/-- `2⁻⁵³ · [[0,1],[1,0]]`: a permutation times a scalar, condition number 1 -/
def tinySwap : Mat ℚ := ⟨2, 2, #[0, 1 / 9007199254740992, 1 / 9007199254740992, 0]⟩

/-- `2⁵³ · [[0,1],[1,0]]` -/
def hugeSwap : Mat ℚ := ⟨2, 2, #[0, 9007199254740992, 9007199254740992, 0]⟩

/-- **the absolute threshold refuses a perfectly conditioned matrix**: with `eps = f64::EPSILON` the
model answers `SingularMatrix` for `tinySwap`, whose inverse is `hugeSwap` -/
theorem abs_scale_refused :
    (match inverse epsQ tinySwap with | .err .singular => true | _ => false) = true := by
  decide +kernel

/-- **the inverse of the inverse does not return**: `hugeSwap` is inverted (to `tinySwap`, exactly),
and inverting the result is refused -/
theorem abs_scale_involution_fails :
    arrayOf (inverse epsQ hugeSwap) = some (2, 2, tinySwap.a) ∧
    (match inverse epsQ tinySwap with | .err .singular => true | _ => false) = true := by
  constructor <;> decide +kernel

/-- at the threshold scale itself the round trip works (`2⁵² · P`), as the corpus line shows for the
code: the refusal test is `<`, not `≤` -/
example :
    arrayOf (inverse epsQ ⟨2, 2, #[0, 4503599627370496, 4503599627370496, 0]⟩) =
      some (2, 2, #[0, 1 / 4503599627370496, 1 / 4503599627370496, 0]) ∧
    arrayOf (inverse epsQ ⟨2, 2, #[0, 1 / 4503599627370496, 1 / 4503599627370496, 0]⟩) =
      some (2, 2, #[0, 4503599627370496, 4503599627370496, 0]) := by
  constructor <;> decide +kernel

end SV.Props.C10Findings
