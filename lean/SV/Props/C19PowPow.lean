import Mathlib.Analysis.SpecialFunctions.Pow.Real
import Mathlib.Analysis.SpecialFunctions.Sqrt
/-!
# C19 — why a "power of a power" folding rule is not a folding rule

Companion of `SV.Props.C19Fold` (added after seeding round 6, DESIGN.md §17).  The seeded change C19-s6 adds the rewrite
`(b^n)^r ↦ b` for literal exponents with `n·r = 1`.  Over ℝ with `Real.rpow` (the mathematical meaning of `f64::powf` on
its natural domain) that rewrite is sound exactly for non-negative bases:

* `pow_pow_fold_sound_nonneg`: `0 ≤ x → n·r = 1 → (x^n)^r = x` — on the positive evaluation points an oracle cannot see it;
* `pow_pow_fold_unsound`: `((−3)^2)^(1/2) = 3 ≠ −3` — the unfolded value is finite and differs from the folded one, so the
  clause "constant folding never changes the value of an expression whose unfolded value is finite" fails;
* `pow_pow_fold_even_abs`: for an even natural `n = 2m ≥ 2`, `(x^n)^(1/n) = |x|` for every real `x`.

This is the reason the folding clause of the C19 oracle evaluates at negative points and at zero as well.
-/

namespace SV.Props.C19PowPow
open Real

/-- the rewrite is sound on non-negative bases -/
theorem pow_pow_fold_sound_nonneg (x n r : ℝ) (hx : 0 ≤ x) (h : n * r = 1) : (x ^ n) ^ r = x := by
  rw [← Real.rpow_mul hx, h, Real.rpow_one]

/-- … and unsound on a negative base: the unfolded value `3` is finite, the folded value is `−3` -/
theorem pow_pow_fold_unsound : (((-3 : ℝ) ^ (2 : ℝ)) ^ ((1 : ℝ) / 2) = 3) ∧ ((2 : ℝ) * (1 / 2) = 1) ∧ (3 : ℝ) ≠ -3 := by
  refine ⟨?_, by norm_num, by norm_num⟩
  have h9 : ((-3 : ℝ) ^ (2 : ℝ)) = 9 := by
    rw [show (2 : ℝ) = ((2 : ℕ) : ℝ) by norm_num, Real.rpow_natCast]
    norm_num
  rw [h9, show (9 : ℝ) = 3 ^ (2 : ℝ) by
    rw [show (2 : ℝ) = ((2 : ℕ) : ℝ) by norm_num, Real.rpow_natCast]; norm_num]
  exact pow_pow_fold_sound_nonneg 3 2 (1 / 2) (by norm_num) (by norm_num)

/-- for an even exponent the unfolded expression is the absolute value -/
theorem pow_pow_fold_even_abs (x : ℝ) (m : ℕ) (hm : 0 < m) :
    (x ^ ((2 * m : ℕ) : ℝ)) ^ ((1 : ℝ) / ((2 * m : ℕ) : ℝ)) = |x| := by
  have hpos : (0 : ℝ) < ((2 * m : ℕ) : ℝ) := by exact_mod_cast Nat.mul_pos (by norm_num) hm
  have e : x ^ ((2 * m : ℕ) : ℝ) = |x| ^ ((2 * m : ℕ) : ℝ) := by
    rw [Real.rpow_natCast, Real.rpow_natCast, pow_mul, pow_mul, sq_abs]
  rw [e]
  exact pow_pow_fold_sound_nonneg |x| _ _ (abs_nonneg x) (by field_simp)

end SV.Props.C19PowPow
