#!/usr/bin/env python3
"""R - reach of the correspondence run (the fourth leg of a check, next to T, K and S).

The Lean model is tied to /repo by running both on the same requests (K).  That tie is only as wide as the
requests: code the run never executes is tied to the model by nothing.  This module measures exactly that.  The
harness is built a second time with source-based coverage instrumentation (`-C instrument-coverage`, nightly
toolchain + its llvm-tools, all pre-installed), the same request lines are fed to the real implementation, and
`llvm-cov export` gives an execution count for every code region of the property's anchored source files.

    unreached  = code regions with count 0 that lie inside a function (or a closure nested in a function) of an
                 anchored file which the run DID enter - i.e. branches of modelled code that no request took.
    new        = unreached regions that contain a line which is new or modified relative to the tree the framework
                 was validated on (tools/reach_baseline.json holds the per-line hashes of every anchored file of
                 that tree; the changed lines are found with difflib, white space ignored).

On the validated tree `new` is empty by construction and the unreached regions are listed in the evidence (they are
the honest "K never saw this" list).  On a changed tree a `new` region is new or modified code inside the modelled
functions that no request of the run executes: the correspondence says nothing about it, so the property is no
longer shown to hold there.  `check` first widens the run (thorough-tier generators, further seeds) to reach it
and to let K/S find a failing input; if the region stays unreached it reports
`VIOLATION ... no-failing-input-found` with a replay file that names the region.

Nothing here replaces a theorem or the correspondence; it bounds what the correspondence can be trusted for.
"""
import glob
import re
import hashlib
import json
import os
import subprocess
import sys
from concurrent.futures import ThreadPoolExecutor

ROOT = os.path.dirname(os.path.dirname(os.path.abspath(__file__)))
HARN = os.path.join(ROOT, "harness")
COVDIR = os.path.join(HARN, "target-cov")
COVBIN = os.path.join(COVDIR, "release", "svharness")
BASELINE = os.path.join(ROOT, "tools", "reach_baseline.json")
NCPU = os.cpu_count() or 4


def _nightly_bin():
    try:
        out = subprocess.run(["rustup", "which", "--toolchain", "nightly", "rustc"], capture_output=True, text=True,
                             timeout=60).stdout.strip()
    except Exception:
        return None
    if not out:
        return None
    tc = os.path.dirname(os.path.dirname(out))
    for p in glob.glob(os.path.join(tc, "lib", "rustlib", "*", "bin")):
        if os.path.exists(os.path.join(p, "llvm-cov")) and os.path.exists(os.path.join(p, "llvm-profdata")):
            return p
    return None


def anchors(prop):
    for l in open(os.path.join(ROOT, "properties.jsonl")):
        p = json.loads(l)
        if p["id"] == prop:
            return [f for f in p["anchors"]["files"] if f.endswith(".rs")]
    return []


def line_hash(s):
    return hashlib.md5(" ".join(s.split()).encode()).hexdigest()[:10]


def file_line_hashes(path):
    try:
        return [line_hash(l) for l in open(path, encoding="utf-8", errors="replace").read().split("\n")]
    except OSError:
        return []


def build(repo):
    """instrumented build of the harness against `repo` (Cargo.toml has already been written by check)"""
    tools = _nightly_bin()
    if tools is None:
        return None, "nightly llvm-tools not found"
    env = dict(os.environ)
    env["RUSTFLAGS"] = "--cfg spindalis_verif -C instrument-coverage"
    env["CARGO_NET_OFFLINE"] = "true"
    # the instrumented proc-macro crate (spindalis_macros) runs inside rustc while the library is compiled and would drop
    # default_*.profraw files into the library's source directory: send them to the scratch directory instead
    os.makedirs(os.path.join(ROOT, ".work", "cov"), exist_ok=True)
    env["LLVM_PROFILE_FILE"] = os.path.join(ROOT, ".work", "cov", "build-%p.profraw")
    r = subprocess.run(["cargo", "+nightly", "build", "--release", "--offline", "--target-dir", COVDIR],
                       cwd=HARN, env=env, capture_output=True, text=True, timeout=3600)
    if r.returncode != 0 or not os.path.exists(COVBIN):
        return None, "instrumented build failed: " + (r.stderr or r.stdout)[-400:]
    return tools, None


def _run_part(args):
    prop, lines, tag, work, run_prop = args
    env = dict(os.environ)
    env["LLVM_PROFILE_FILE"] = os.path.join(work, f"{prop}-{tag}-%p.profraw")
    try:
        subprocess.run([COVBIN, run_prop or prop, "run"], input=("\n".join(lines) + "\n").encode(), env=env,
                       stdout=subprocess.DEVNULL, stderr=subprocess.DEVNULL, timeout=1500)
    except subprocess.TimeoutExpired:
        pass
    return True


def siblings(prop):
    """other properties that anchor at least one of this property's files (their requests execute the same code and their
    own check compares the model on them); C20 is left out (its requests compile crates)"""
    mine = set(anchors(prop))
    out = []
    for l in open(os.path.join(ROOT, "properties.jsonl")):
        p = json.loads(l)
        if p["id"] not in (prop, "C20") and mine & set(p["anchors"]["files"]):
            out.append(p["id"])
    return out


def measure(prop, reqs, repo, tools, work, keep=False, run_prop=None):
    """-> {file: {"regions": n, "reached": n, "unreached": [(line, col, text)]}} over executed functions"""
    os.makedirs(work, exist_ok=True)
    if not keep:
        for f in glob.glob(os.path.join(work, f"{prop}-*.profraw")):
            os.remove(f)
    n = 1 if len(reqs) < 2000 else NCPU
    k = max(1, (len(reqs) + n - 1) // n)
    parts = [reqs[i:i + k] for i in range(0, len(reqs), k)]
    stamp = str(len(glob.glob(os.path.join(work, f"{prop}-*.profraw"))))
    with ThreadPoolExecutor(max_workers=NCPU) as ex:
        list(ex.map(_run_part, [(prop, p, f"{stamp}_{i}", work, run_prop) for i, p in enumerate(parts)]))
    raws = glob.glob(os.path.join(work, f"{prop}-*.profraw"))
    if not raws:
        return None
    pd = os.path.join(work, f"{prop}.profdata")
    r = subprocess.run([os.path.join(tools, "llvm-profdata"), "merge", "-sparse", "-o", pd] + raws,
                       capture_output=True, text=True)
    if r.returncode != 0:
        return None
    files = [os.path.join(repo, a) for a in anchors(prop)]
    files = [f for f in files if os.path.exists(f)]
    r = subprocess.run([os.path.join(tools, "llvm-cov"), "export", "-instr-profile", pd, COVBIN, "--sources"] + files,
                       capture_output=True, text=True)
    if r.returncode != 0:
        return None
    data = json.loads(r.stdout)["data"][0]
    # merge instantiations: region key -> max count ; function body key -> max entry count
    reg, body = {}, {}
    for fn in data.get("functions", []):
        fnames = fn["filenames"]
        regs = [x for x in fn["regions"] if x[7] == 0]          # code regions only
        if not regs:
            continue
        b = regs[0]
        bkey = (fnames[b[5]], b[0], b[1], b[2], b[3])
        body[bkey] = max(body.get(bkey, 0), fn["count"])
        for x in regs:
            key = (fnames[x[5]], x[0], x[1], x[2], x[3])
            e = reg.setdefault(key, [0, bkey])
            e[0] = max(e[0], x[4])
    entered = [k for k, c in body.items() if c > 0]

    def inside(k, outer):
        return k[0] == outer[0] and (outer[1], outer[2]) <= (k[1], k[2]) and (k[3], k[4]) <= (outer[3], outer[4])

    out = {}
    src_cache = {}
    for key, (cnt, bkey) in sorted(reg.items()):
        fname = key[0]
        if fname not in files:
            continue
        live = body.get(bkey, 0) > 0 or any(inside(bkey, e) for e in entered if e != bkey)
        if not live:
            continue
        rel = os.path.relpath(fname, repo)
        o = out.setdefault(rel, {"regions": 0, "reached": 0, "unreached": []})
        o["regions"] += 1
        if cnt > 0:
            o["reached"] += 1
        else:
            if fname not in src_cache:
                src_cache[fname] = open(fname, encoding="utf-8", errors="replace").read().split("\n")
            src = src_cache[fname]
            text = src[key[1] - 1] if key[1] - 1 < len(src) else ""
            if key[2] - 1 < len(text) and text[key[2] - 1] == "?" and (key[1], key[2] + 1) >= (key[3], key[4]):
                # the implicit error-propagation arm of a `?` operator: no code of its own
                o["regions"] -= 1
                continue
            # the source text of the region itself (start position .. end position)
            if key[3] == key[1]:
                rtext = text[key[2] - 1:key[4] - 1]
            else:
                rtext = "\n".join([text[key[2] - 1:]] + src[key[1]:key[3] - 1] + [src[key[3] - 1][:key[4] - 1] if key[3] - 1 < len(src) else ""])
            o["unreached"].append((key[1], key[2], text.strip()[:160], key[3], rtext[:400]))
    return out


def load_baseline():
    try:
        return json.load(open(BASELINE))
    except Exception:
        return {"lines": {}, "unreached": {}}


def changed_lines(base_hashes, path):
    """1-based numbers of the lines of `path` that are new or modified relative to the validated tree (difflib on the
    per-line hashes recorded in the baseline; white-space changes do not count)"""
    import difflib
    try:
        cur = [line_hash(l) for l in open(path, encoding="utf-8", errors="replace").read().split("\n")]
    except OSError:
        return set()
    sm = difflib.SequenceMatcher(None, base_hashes, cur, autojunk=False)
    same = set()
    for blk in sm.get_matching_blocks():
        same.update(range(blk.b, blk.b + blk.size))
    blank = line_hash("")
    return {i + 1 for i in range(len(cur)) if i not in same and cur[i] != blank}


_INERT = re.compile(r"^\{?\s*(None|return\s*;?|continue\s*;?|unreachable!\s*\(.*\)\s*;?|panic!\s*\(.*\)\s*;?|debug_assert\w*!\s*\(.*\)\s*;?)\s*\}?\s*,?$", re.S)


def inert(body):
    """an arm with no computation of its own: the defensive `else { return; }` of a `let … else`, a match arm that is just `None`
    (C19-b4: `Operators::Fac => None` in a table function that is never asked about `!`), an `unreachable!()`, a
    `panic!(…)` for an impossible state.  Refactors add such arms routinely and nothing can execute them; they are listed in
    the evidence but do not make the reach leg report a violation (an arm that computes or returns a value does)."""
    return bool(_INERT.match(body.strip()))


def classify(prop, result, repo):
    """split unreached regions into known (no line of the region is new or modified relative to the validated tree)
    and new (the region contains new or modified code)"""
    base = load_baseline()
    known, new = [], []
    for rel, o in sorted(result.items()):
        bh = base.get("lines", {}).get(rel)
        ch = changed_lines(bh, os.path.join(repo, rel)) if bh else set()
        for u in o["unreached"]:
            ln, col, text = u[0], u[1], u[2]
            le = u[3] if len(u) > 3 else ln
            item = {"file": rel, "line": ln, "col": col, "text": text, "end_line": le}
            hit = sorted(x for x in ch if ln <= x <= le)
            body = u[4] if len(u) > 4 else text
            if hit and (inert(body) or text.lstrip().startswith("debug_assert")):   # debug assertions are compiled out of the release build
                item["inert"] = True       # a bare `return;` / `continue;` / `unreachable!` / `panic!` arm: listed, not judged
                known.append(item)
            elif hit:
                item["changed_lines"] = hit[:10]
                new.append(item)
            else:
                known.append(item)
    return known, new


def summary(result):
    tot = sum(o["regions"] for o in result.values())
    got = sum(o["reached"] for o in result.values())
    return tot, got


if __name__ == "__main__":
    # python3 tools/reach.py baseline  : rewrite tools/reach_baseline.json from /repo (run after every /repo commit)
    if len(sys.argv) > 1 and sys.argv[1] == "baseline":
        repo = os.environ.get("VERIF_REPO", "/repo")
        lines = {}
        for l in open(os.path.join(ROOT, "properties.jsonl")):
            for a in json.loads(l)["anchors"]["files"]:
                if a.endswith(".rs") and a not in lines:
                    lines[a] = file_line_hashes(os.path.join(repo, a))
        old = load_baseline()
        rev = subprocess.run(["git", "-C", repo, "rev-parse", "--short", "HEAD"], capture_output=True, text=True).stdout.strip()
        json.dump({"repo_rev": rev, "lines": lines, "unreached": old.get("unreached", {})}, open(BASELINE, "w"), indent=0)
        print("reach baseline: %d files at %s" % (len(lines), rev))
