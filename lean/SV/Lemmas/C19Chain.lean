import SV.Lemmas.C19Print
/-!
Lemmas for C19, display part: adjacent tokens of the displayed text.

Every pair of adjacent printed tokens is `GoodPair`: the flag "implied multiplication follows" is exactly
what `implied_multiplication_pass` decides for the pair, and the two spellings do not run into each
other in the lexer (no number next to a number, no letter token next to a letter token).  Hence
`impliedMul (undot is) = dot is` for the items of a displayed tree.
-/
namespace SV.C19
open SV SV.Text

/-- all adjacent pairs satisfy `P` -/
def Chain {α : Type} (P : α → α → Prop) : List α → Prop
  | [] => True
  | [_] => True
  | a :: b :: l => P a b ∧ Chain P (b :: l)

theorem Chain.tail {α : Type} {P : α → α → Prop} {a : α} {l : List α} (h : Chain P (a :: l)) : Chain P l := by
  cases l with
  | nil => trivial
  | cons b l => exact h.2

theorem chain_cons {α : Type} {P : α → α → Prop} {a : α} {l : List α} (hl : Chain P l)
    (h : ∀ y ∈ l.head?, P a y) : Chain P (a :: l) := by
  cases l with
  | nil => trivial
  | cons b l => exact ⟨h b (by simp), hl⟩

theorem chain_append {α : Type} {P : α → α → Prop} {a b : List α} (ha : Chain P a) (hb : Chain P b)
    (h : ∀ x ∈ a.getLast?, ∀ y ∈ b.head?, P x y) : Chain P (a ++ b) := by
  induction a with
  | nil => simpa using hb
  | cons x a ih =>
    cases a with
    | nil =>
      simp only [List.singleton_append]
      exact chain_cons hb fun y hy => h x (by simp) y hy
    | cons x' a =>
      refine ⟨ha.1, ?_⟩
      apply ih ha.2
      intro z hz y hy
      exact h z (by simpa [List.getLast?_cons_cons] using hz) y hy

theorem getLast?_append_singleton {α : Type} (l : List α) (a : α) : (l ++ [a]).getLast? = some a := by
  simp

theorem getLast?_append_ne_nil {α : Type} (a : List α) {b : List α} (h : b ≠ []) :
    (a ++ b).getLast? = b.getLast? := by
  rw [List.getLast?_append]
  cases hb : b.getLast? with
  | none => simp_all
  | some x => simp

def isNumTok : Tok Dec → Bool
  | .num _ => true
  | _ => false

/-- tokens whose spelling is a run of ASCII letters -/
def isLetterTok : Tok Dec → Bool
  | .var _ => true
  | .func _ => true
  | .const .e => true
  | _ => false

/-- the spellings would be merged by the lexer's maximal munch -/
def Clash (a b : Tok Dec) : Prop := (isNumTok a = true ∧ isNumTok b = true) ∨ (isLetterTok a = true ∧ isLetterTok b = true)

def GoodPair (x y : Item) : Prop := x.2 = needsDot x.1 y.1 ∧ ¬ Clash x.1 y.1

/-- operators and parentheses -/
def isSym : Tok Dec → Bool
  | .op _ => true
  | .lp => true
  | .rp => true
  | _ => false

theorem goodPair_sym_left {t : Tok Dec} (ht : isSym t = true) (y : Item) : GoodPair (t, false) y := by
  cases t <;> simp_all [isSym, GoodPair, needsDot, Clash, isNumTok, isLetterTok]

theorem goodPair_sym_right {x : Item} (hx : x.2 = false) {t : Tok Dec} (ht : isSym t = true) (htl : t ≠ .lp)
    (b : Bool) : GoodPair x (t, b) := by
  obtain ⟨a, f⟩ := x
  simp only at hx; subst hx
  cases t <;> cases a <;> simp_all [isSym, GoodPair, needsDot, Clash, isNumTok, isLetterTok]

/-- first tokens of a displayed expression -/
def HeadTok : Tok Dec → Prop
  | .num _ | .var _ | .const _ | .func _ | .lp | .op .sub => True
  | _ => False

/-- what the proofs need to know about the items of a displayed tree with display power `pw` -/
structure Inv (is : List Item) (pw : Nat) : Prop where
  chain : Chain GoodPair is
  head : ∃ t b rest, is = (t, b) :: rest ∧ HeadTok t ∧ (t = .op .sub → pw ≤ 5)
  last : ∀ x ∈ is.getLast?, x.2 = false

theorem Inv.mono {is : List Item} {P Q : Nat} (h : Inv is P) (hq : Q ≤ P) : Inv is Q := by
  obtain ⟨t, b, rest, h1, h2, h3⟩ := h.head
  exact ⟨h.chain, ⟨t, b, rest, h1, h2, fun ht => Nat.le_trans hq (h3 ht)⟩, h.last⟩

theorem Inv.ne_nil {is : List Item} {P : Nat} (h : Inv is P) : is ≠ [] := by
  obtain ⟨t, b, rest, h1, -, -⟩ := h.head
  rw [h1]; simp

theorem inv_par {t : List Item} {pw : Nat} (h : Inv t pw) (P : Nat) : Inv (par t) P := by
  refine ⟨?_, ⟨.lp, false, t ++ [(.rp, false)], rfl, trivial, fun h => by cases h⟩, ?_⟩
  · unfold par
    apply chain_cons
    · apply chain_append h.chain (show Chain GoodPair [(Tok.rp, false)] from trivial)
      intro x hx y hy
      simp only [List.head?_cons, Option.mem_def, Option.some.injEq] at hy; subst hy
      exact goodPair_sym_right (h.last x hx) rfl (by decide) _
    · intro y _; exact goodPair_sym_left rfl y
  · intro x hx
    have : (par t).getLast? = some (.rp, false) := by
      unfold par
      rw [getLast?_append_singleton]
    rw [this] at hx
    simp only [Option.mem_def, Option.some.injEq] at hx; subst hx; rfl

theorem inv_wrapI {t : List Item} {pw : Nat} (h : Inv t pw) (needed : Nat) (strict : Bool) :
    Inv (wrapI t pw needed strict) needed := by
  unfold wrapI
  split
  · exact inv_par h _
  · rename_i hw
    exact h.mono (by omega)

/-- `a op b` -/
theorem inv_binop {a b : List Item} {P Q : Nat} (ha : Inv a P) (hb : Inv b Q) (o : Op) :
    Inv (a ++ [(.op o, false)] ++ b) P := by
  obtain ⟨t, f, rest, h1, h2, h3⟩ := ha.head
  refine ⟨?_, ⟨t, f, rest ++ [(.op o, false)] ++ b, by simp [h1], h2, h3⟩, ?_⟩
  · apply chain_append
    · apply chain_append ha.chain (show Chain GoodPair [(Tok.op o, false)] from trivial)
      intro x hx y hy
      simp only [List.head?_cons, Option.mem_def, Option.some.injEq] at hy; subst hy
      exact goodPair_sym_right (ha.last x hx) rfl (by simp) _
    · exact hb.chain
    · intro x hx y _
      rw [getLast?_append_singleton] at hx
      simp only [Option.mem_def, Option.some.injEq] at hx; subst hx
      exact goodPair_sym_left rfl y
  · intro x hx
    rw [getLast?_append_ne_nil _ hb.ne_nil] at hx
    exact hb.last x hx

theorem inv_atom (t : Tok Dec) (ht : HeadTok t) (hs : t ≠ .op .sub) (P : Nat) : Inv [(t, false)] P :=
  ⟨trivial, ⟨t, false, [], rfl, ht, fun h => absurd h hs⟩, by simp⟩

theorem ri_inv {e : Expr Dec} (h : Wf e) : Inv (ri e).1 (ri e).2 := by
  induction h with
  | @num d _ => exact inv_atom (.num (canon d)) trivial (by simp) _
  | @var s _ => exact inv_atom (.var s) trivial (by simp) _
  | const c => exact inv_atom (.const c) trivial (by simp) _
  | @func f i hi ih =>
    simp only [ri]
    refine ⟨?_, ⟨.func f, _, _, rfl, trivial, fun h => by cases h⟩, ?_⟩
    · apply chain_cons (l := par (ri i).1)
      · exact (inv_par ih 0).chain
      · intro y hy
        simp only [par, List.cons_append, List.head?_cons, Option.mem_def, Option.some.injEq] at hy; subst hy
        simp [GoodPair, needsDot, Clash, isNumTok, isLetterTok]
    · intro x hx
      have := (inv_par ih 0).last x
      apply this
      simpa [par, List.getLast?_cons_cons] using hx
  | @pre v hv ih =>
    simp only [ri]
    have hX : Inv (if isBin v then wrapI (ri v).1 (ri v).2 (2 * SV.Gen.unaryMinPow) false else (ri v).1) 0 := by
      split
      · exact (inv_wrapI ih _ _).mono (Nat.zero_le _)
      · exact ih.mono (Nat.zero_le _)
    refine ⟨?_, ⟨_, _, _, rfl, trivial, fun _ => Nat.le_refl _⟩, ?_⟩
    · exact chain_cons hX.chain fun y _ => goodPair_sym_left rfl y
    · intro x hx
      rw [List.getLast?_cons_of_ne_nil hX.ne_nil] at hx  
      exact hX.last x hx
  | @post v hv ih =>
    simp only [ri]
    have hW := inv_wrapI ih inf false
    obtain ⟨t, f, rest, h1, h2, h3⟩ := hW.head
    refine ⟨?_, ⟨t, f, rest ++ [(.op .fac, false)], by simp [h1], h2, h3⟩, ?_⟩
    · apply chain_append hW.chain (show Chain GoodPair [(Tok.op Op.fac, false)] from trivial)
      intro x hx y hy
      simp only [List.head?_cons, Option.mem_def, Option.some.injEq] at hy; subst hy
      exact goodPair_sym_right (hW.last x hx) rfl (by simp) _
    · intro x hx
      rw [getLast?_append_singleton] at hx
      simp only [Option.mem_def, Option.some.injEq] at hx; subst hx; rfl
  | @bin o l r p ho1 ho2 hl hr ihl ihr =>
    have hbp := bp_le o
    have flag : ∀ (body : List Item) (P : Nat), Inv body P →
        Inv (if p then par body else body) (if p then inf else P) := by
      intro body P hb
      cases p with
      | true => exact inv_par hb _
      | false => exact hb
    rcases impliedI_cases o l r (ri r).1 with hnone | ⟨n, v, rfl, rfl, rfl⟩ | ⟨n, c, rfl, rfl, rfl⟩ |
        ⟨n, a, b, q, rfl, rfl, rfl, hs⟩ | ⟨v, n, rfl, rfl, rfl⟩ | ⟨c, n, rfl, rfl, rfl⟩ |
        ⟨v, n, rfl, rfl, rfl⟩ | ⟨c, n, rfl, rfl, rfl⟩
    · have hb := inv_binop (inv_wrapI ihl (2 * bp o) false) (inv_wrapI ihr (2 * bp o) true) o
      have := flag _ _ hb
      simpa only [ri, hnone, Option.isSome_none, Bool.false_eq_true, false_and, ↓reduceIte] using this
    · have hb : Inv [((.num (canon n) : Tok Dec), true), (.var v, false)] 8 :=
        ⟨by simp [Chain, GoodPair, needsDot, Clash, isNumTok, isLetterTok],
         ⟨_, _, _, rfl, trivial, fun h => by cases h⟩, by simp⟩
      have := flag _ _ hb
      simpa [ri, impliedI] using this
    · have hb : Inv [((.num (canon n) : Tok Dec), true), (.const c, false)] 8 :=
        ⟨by simp [Chain, GoodPair, needsDot, Clash, isNumTok, isLetterTok],
         ⟨_, _, _, rfl, trivial, fun h => by cases h⟩, by simp⟩
      have := flag _ _ hb
      simpa [ri, impliedI] using this
    · have hpw := ri_pow_caret a b q
      obtain ⟨t, f, rest, h1, h2, h3⟩ := ihr.head
      have hb : Inv (((.num (canon n) : Tok Dec), true) :: (ri (.bin .caret a b q)).1) 8 := by
        refine ⟨?_, ⟨_, _, _, rfl, trivial, fun h => by cases h⟩, ?_⟩
        · apply chain_cons ihr.chain
          intro y hy
          rw [h1] at hy hs
          simp only [List.head?_cons, Option.mem_def, Option.some.injEq] at hy; subst hy
          cases t with
          | num x => simp [startsNumI] at hs
          | var _ | const _ | func _ | lp => simp [GoodPair, needsDot, Clash, isNumTok, isLetterTok]
          | rp => exact absurd h2 (by simp [HeadTok])
          | op o' =>
            cases o' with
            | sub => have := h3 rfl; omega
            | _ => exact absurd h2 (by simp [HeadTok])
        · intro x hx
          rw [List.getLast?_cons_of_ne_nil ihr.ne_nil] at hx
          exact ihr.last x hx
      have := flag _ _ hb
      have himp : impliedI .mul (.num n) (.bin .caret a b q) (ri (.bin .caret a b q)).1 =
          some ((.num (canon n), true) :: (ri (.bin .caret a b q)).1) := by
        simp only [impliedI, hs, Bool.false_eq_true, ↓reduceIte]
      rw [ri]
      simp only [himp, Option.isSome_some, and_self, ↓reduceIte]
      exact this
    · have hb : Inv [((.var v : Tok Dec), true), (.num (canon n), false)] 8 :=
        ⟨by simp [Chain, GoodPair, needsDot, Clash, isNumTok, isLetterTok],
         ⟨_, _, _, rfl, trivial, fun h => by cases h⟩, by simp⟩
      have := flag _ _ hb
      simpa [ri, impliedI] using this
    · have hb : Inv [((.const c : Tok Dec), true), (.num (canon n), false)] 8 :=
        ⟨by simp [Chain, GoodPair, needsDot, Clash, isNumTok, isLetterTok],
         ⟨_, _, _, rfl, trivial, fun h => by cases h⟩, by simp⟩
      have := flag _ _ hb
      simpa [ri, impliedI] using this
    · have hb : Inv [((.var v : Tok Dec), false), (.op .caret, false), (.num (canon n), false)] (2 * bp .caret) :=
        ⟨by simp [Chain, GoodPair, needsDot, Clash, isNumTok, isLetterTok],
         ⟨_, _, _, rfl, trivial, fun h => by cases h⟩, by simp⟩
      have := flag _ _ hb
      simpa [ri, impliedI] using this
    · have hb : Inv [((.const c : Tok Dec), false), (.op .caret, false), (.num (canon n), false)] (2 * bp .caret) :=
        ⟨by simp [Chain, GoodPair, needsDot, Clash, isNumTok, isLetterTok],
         ⟨_, _, _, rfl, trivial, fun h => by cases h⟩, by simp⟩
      have := flag _ _ hb
      simpa [ri, impliedI] using this

/-- the implied-multiplication pass inserts `·` exactly where the items say -/
theorem impliedMul_undot {is : List Item} (hc : Chain (fun x y : Item => x.2 = needsDot x.1 y.1) is)
    (hl : ∀ x ∈ is.getLast?, x.2 = false) : impliedMul (undot is) = dot is := by
  induction is with
  | nil => rfl
  | cons x is ih =>
    cases is with
    | nil =>
      have : x.2 = false := hl x (by simp)
      obtain ⟨t, f⟩ := x
      simp only at this; subst this
      simp [undot, impliedMul]
    | cons y is =>
      have ih' := ih hc.2 (fun z hz => hl z (by simpa [List.getLast?_cons_cons] using hz))
      obtain ⟨t, f⟩ := x
      obtain ⟨t', f'⟩ := y
      have hf : f = needsDot t t' := hc.1
      simp only [undot, List.map_cons] at ih' ⊢
      rw [impliedMul]
      cases hd : needsDot t t' with
      | true =>
        rw [hd] at hf; subst hf
        simp only [↓reduceIte, dot_cons_true]
        rw [ih']
      | false =>
        rw [hd] at hf; subst hf
        simp only [Bool.false_eq_true, ↓reduceIte, dot_cons_false]
        rw [ih']

theorem Chain.imp {α : Type} {P Q : α → α → Prop} (h : ∀ a b, P a b → Q a b) {l : List α} (hc : Chain P l) :
    Chain Q l := by
  induction l with
  | nil => trivial
  | cons a l ih =>
    cases l with
    | nil => trivial
    | cons b l => exact ⟨h _ _ hc.1, ih hc.2⟩

theorem impliedMul_undot_ri {e : Expr Dec} (h : Wf e) : impliedMul (undot (ri e).1) = dot (ri e).1 :=
  impliedMul_undot ((ri_inv h).chain.imp fun _ _ hg => hg.1) (ri_inv h).last

end SV.C19
