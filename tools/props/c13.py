"""C13 plug-in: comparison rule and the property's oracle for the power method.

Request `power <half> <h> <w> <bits…> <es bits>`, observation `ok <λ> <n> 1 <v…>` | `err nonsquare` |
`err noconv` | `err other <Debug text>` | `panic` | `hang`.  The model additionally reports `passes <p>` (the number of loop passes it
made); the Rust API does not expose it, so the comparison drops it (λ and v bit for bit pin it anyway).

Oracle, written from the statement (the harness already decided the outcome-kind clauses: non-square/empty ⇒
rejected (any `Err`), never a panic or a hang, `acc` cases must succeed, eigenvector n×1):

  accuracy half (`acc`: symmetric Q D Qᵀ, gap ≤ 1/2, either sign of λ₁, tolerance 1e-4 … 1e-12)
    * the largest component of v is exactly 1 and no component exceeds 1          (bit patterns)
    * ‖A v − λ v‖² ≤ C² · tol · λ² · ‖v‖²  with C = 8                               (exact rationals)
    * |λ − λ₁| ≤ C · tol · |λ₁| (+ 1e-13 |λ₁| for the reference's own rounding)
      where λ₁ is the dominant eigenvalue of the matrix *actually passed*, computed independently here
      by cyclic Jacobi rotations in binary64 (accuracy ~ n u ‖A‖, four orders below the tightest bound);
      the same computation re-checks the quantifier (|λ₂| ≤ |λ₁|/2, start vector at cosine ≥ 0.25 to the
      dominant eigenvector) — a case outside it is not judged.
  `sym` requests (small symmetric integer matrices) are judged by the same accuracy oracle when the reference
  computation finds them inside the quantifier (then also a NoConvergence is a failure), otherwise like `term`.
  termination half (`term`): returning at all (Ok or Err) is the property; nothing numeric is required.
  wide-angle half (`accw`, hardening 4): symmetric Q D Qᵀ with eigenvalues of both signs and the start vector 60..89 degrees
    from the dominant eigenvector.  The statement's hypothesis is "not orthogonal", so the same accuracy oracle applies
    (cosine ≥ 0.015 instead of 0.25; the proved theorem SV.Props.C13Accuracy needs 0.3 for ITS constant, the exact-arithmetic
    contraction only needs more passes for a small cosine; measured on the documented method: 80 000 random and 400 tuned
    cases stay below 0.09 of the residual bound and 0.04 of the eigenvalue bound).  A violation that the replica of the
    documented method reproduces is classified as the open finding F-C13-coincidence (none seen), any other is a failure.

  Hardening halves (the statement says "every real square matrix", the symmetric case only bounds λ more tightly):
  `nsym` (exact S D S⁻¹ from integer data) and `gen` (triangular, Markov, small integer matrices), n ≤ 8: the
    reference is independent of any iteration — the characteristic polynomial exactly (Faddeev–LeVerrier over the
    rationals, from the bit patterns); a rigorous upper bound R on its root radius (seven Graeffe root-squarings in exact
    integers + Fujiwara's bound: at most 2.2 % above the radius); Newton from ±R on the exact polynomial to a real root
    x with |x| ≥ R/1.03; exact deflation by (μ − x) and the same radius bound on the quotient, which bounds |λ₂|;
    right and left eigenvectors as null vectors (complete pivoting, binary64).  A case is
    judged iff such a root exists, the bound on |λ₂| is ≤ ½|λ₁|, the component of the all-ones vector along the dominant
    eigenvector (in the eigenbasis: |uᵀ1| ‖v₁‖ / (|uᵀv₁| √n)) is ≥ 0.25, the eigenvalue's condition number
    ‖u‖‖v₁‖/|uᵀv₁| is ≤ 10³ and the tolerance is ≥ 100 n u (‖A‖_F/|λ₁|)² (`noise_floor`).  Judged: an eigenpair is returned; largest component exactly 1; the statement's residual
    bound ‖Av − λv‖ ≤ C√tol|λ|‖v‖ in exact rationals; |λ − λ₁| ≤ C·√tol·|λ₁| (the statement bounds λ by C·tol only in the
    symmetric case; a residual of C√tol moves a simple eigenvalue by at most its condition number times that, and the
    calibration runs stay below 0.002 of this bound).  A method that iterates with the transpose returns the dominant LEFT
    eigenvector: right λ, residual of order 1.
  `accbig` (symmetric, n = 9..40): residual clause as above; the eigenvalue clause without any eigen-solver, by exact
    inertia counts (Sylvester; leading principal minors by fraction-free elimination on the integer matrix behind the bit
    patterns): exactly one eigenvalue in [λ − δ, λ + δ], δ = C·tol·|λ| + 10⁻¹³|λ|, none beyond it, and every other one
    of modulus < 0.6|λ| (the generator guarantees gap ≤ 0.49 and cosine ≥ 0.3).
  `nsymbig` (S D S⁻¹, n = 9..40): no reference: eigenpair returned, largest component 1, residual clause (the
    generator guarantees the hypothesis by construction).
"""
import math, struct
from fractions import Fraction

RULE = ("accuracy half: symmetric Q D Q^T (Q = random Givens products, exact symmetrisation), n = 1..8 and every n = 9..40, |l2/l1| <= 0.49, "
        "both signs of l1, magnitudes 2^-400..2^400, tolerances 1e-4..1e-12 (fixed decades and log-uniform), start vector "
        "at cosine >= 0.3 to the dominant eigenvector; symmetric integer matrices (all 2x2 with entries -4..4 in the thorough "
        "tier, random n = 2..4 with entries up to +-9) judged for accuracy when inside the quantifier; non-symmetric: exact S D S^-1 from "
        "integer shears (n = 2..8 and every n = 9..40, gap <= 0.485, magnitudes 2^-300..2^300), triangular, column- and row-stochastic "
        "Markov matrices with dyadic entries, small integer matrices (all 2x2 over -3..3 in the thorough tier) -- residual clause in exact "
        "rationals, reference = exact characteristic polynomial + Graeffe root-radius bounds; termination half: zero, nilpotent, +-lambda pairs, rotation "
        "blocks, NaN/inf entries, zero row sums, random non-symmetric, n = 1..12, tolerances incl. 0, negative, NaN, subnormal, 1e-17..1e300, +-inf; "
        "wide-angle half (accw): symmetric Q D Q^T, n = 2..6, eigenvalues of both signs, gap <= 0.49, the all-ones vector 60..89 degrees from "
        "the dominant eigenvector (cosine >= 0.0175: 'not orthogonal'), the Rayleigh quotients cross zero; plain angles, angles tuned by "
        "bisection (binary64 replica of the iteration in the generator) to a tie |r_k| = |r_(k-1)| of opposite signs to a relative "
        "1e-3 tol..1e-14, and angles at which r_k lands on zero (1e-6..1e-16 of r_(k-1)); dominant eigenvalue next to round numbers "
        "m(1 +- 2^-20..2^-50) with tolerances 1e-8..1e-12, gap exactly 1/2 and 1/2(1 - 2^-k); symmetric matrices with repeated rows/columns; "
        "shape half: all non-square/empty shapes 0..4 x 0..4 + every ragged row-length tuple 0..3 over 2 and 3 rows; every request through every "
        "accepted container type (Vec<Vec<f64>>, &Vec<Vec<f64|f32|i32>>, &Arr2D<f64|f32|i32>, &Arr2D<f64> with other histories: from_flat padded, reshape, clone_from into a larger object, transposed twice), N x 0 / 0 x N as N empty rows and their transposes; non-trivial = the model answers ok (an eigenpair was "
        "returned) or runs the loop to its cap; distinct = distinct request lines")

C = 8
ONE = 0x3FF0000000000000
# requests that run into the iteration cap cost ~0.05 s in the real code and ~0.5 s in the model: split the batch over
# the cores from 100 requests on
CHUNK_MIN = 100


def f_of_bits(b):
    return struct.unpack("<d", struct.pack("<Q", b))[0]


def _strip(model):
    t = model.split()
    if len(t) >= 2 and t[-2] == "passes":
        return " ".join(t[:-2]), int(t[-1])
    return model, None


def compare(req, impl, model):
    """What the statement fixes is compared exactly: accepted vs refused, the shape of the eigenvector, the eigenvalue
    (bit-equal or 1e-9 relative), the eigenvector (`default_compare`: every component to 1e-9 relative; or
    `same_direction`: the same largest component and the same direction to 1e-9 of its length); `panic` and `hang` are
    answers of their own and never agree with anything else.

    Relaxed, each only as far as the statement goes:
      * two REFUSALS agree whatever their kind: the statement says "rejected" / "returns or fails in bounded time" and
        names no error variant (which `Err` an empty or non-square input gets is incidental; the observation keeps it
        for information);
      * a request whose answer is not determined to within rounding carries no information beyond "the call returned":
        non-finite entries, no strictly dominant real eigenvalue (rotation blocks, +-lambda pairs, nilpotent, zero: the
        Rayleigh quotients are rounding noise and the stopping rule fires by luck or never), a start vector without a
        component along the dominant eigenvector, a tolerance at rounding level (below `noise_floor`).  All of them are
        outside the statement's accuracy clause; there two answers agree when both calls returned (`ok` or `err`).
        Decided by the plug-in's own references (`fragile`), only consulted when the plain comparison fails;
      * the one discontinuity of the method: the test `ea < es`.  When `ea` of some pass equals the tolerance to within
        its own rounding error (`noise_floor`: 100 n u (|A|_F/|l|)^2), a re-associated sum moves the stop by one pass and
        both answers satisfy the stopping rule.  Accepted iff the binary64 replica of the documented method reproduces
        the implementation's pair (1e-9) one pass before or after the model's stop AND `ea` of the pass in question is
        that close to the tolerance.  Nothing else is tolerated: a different stopping rule, cap or normalisation shows."""
    from __main__ import default_compare
    model, passes = _strip(model)
    ti, tm = impl.split(), model.split()
    if ti[:1] == ["err"] and tm[:1] == ["err"]:
        return None
    why = default_compare(req, impl, model)
    if why is None:
        return None
    if not (ti[:1] in (["ok"], ["err"]) and tm[:1] in (["ok"], ["err"])):
        return why                      # panic / hang / malformed: never relaxed
    if ti[0] == "ok" and tm[0] == "ok" and same_direction(ti, tm):
        return None
    try:
        half, h, w, abits, esb = parse_req(req)
        if h != w or h == 0:
            return why                  # accepted vs refused on a non-square input: exact
        fr = fragile(abits, h, f_of_bits(esb))
        if fr:
            return None
        if fr is False and ti[0] == "ok" and tm[0] == "ok" and passes is not None and one_pass_off(abits, h, f_of_bits(esb), impl, passes):
            return None
    except Exception:                   # a reference that cannot cope leaves the plain verdict in place
        return why
    return why


def same_direction(ti, tm):
    """two `ok` answers: the eigenvalues agree to 1e-9 relative, the largest components are the same number (exactly 1
    in both unless the scaling clause is broken) and the vectors agree to 1e-9 of their LENGTH, as directions.
    `default_compare` asks for 1e-9 of every single component: a component that is zero in exact arithmetic is
    rounding noise of either sign, and when the largest component is a small positive one beside large negative ones
    (seen: |v| = 5e9) the final division by it amplifies its relative error into every other component -- the
    statement measures v by its residual relative to |v|, not component by component."""
    try:
        li, lm = f_of_bits(int(ti[1][1:])), f_of_bits(int(tm[1][1:]))
        if ti[2:4] != tm[2:4]:
            return False
        n = int(ti[2]) * int(ti[3])
        if len(ti) != 4 + n or len(tm) != 4 + n or n == 0:
            return False
        vi = [f_of_bits(int(x[1:])) for x in ti[4:]]
        vm = [f_of_bits(int(x[1:])) for x in tm[4:]]
    except (ValueError, IndexError):
        return False
    if not all(math.isfinite(x) for x in vi + vm + [li, lm]):
        return False
    if abs(li - lm) > 1e-9 * max(abs(li), abs(lm)):
        return False
    if max(vi) != max(vm):
        return False
    k = max(range(n), key=lambda j: abs(vm[j]))
    if vm[k] == 0.0 or vi[k] == 0.0:
        return False
    return all(abs(a / vi[k] - b / vm[k]) <= 1e-9 for a, b in zip(vi, vm))


def fragile(abits, n, tol):
    """True: the answer to this request is not determined to within rounding (see `compare`); False: it is;
    None: undecided (the comparison then stays exact)."""
    vals = [f_of_bits(b) for b in abits]
    if not all(math.isfinite(x) for x in vals):
        return True
    if not (tol == tol) or tol <= 0.0:
        return False                    # the stopping test never fires: deterministic
    if all(vals[i * n + j] == vals[j * n + i] for i in range(n) for j in range(i)):
        if max(abs(x) for x in vals) == 0.0:
            return True
        l1, ratio, cos = reference(abits, n)
        if l1 == 0.0 or ratio >= 0.97 or cos < 1e-3:
            return True
        return tol < noise_floor(abits, n, l1)
    if n > 12:
        return None
    ref = ns_reference(abits, n)
    if ref is None:
        return True                     # no real simple root of strictly largest modulus (or no usable reference)
    l1, ratio, along, kappa = ref
    if ratio >= 0.97 or along < 1e-3 or kappa > 1e6:
        return True
    return tol < noise_floor(abits, n, l1)


def one_pass_off(abits, n, tol, impl, passes):
    """did the implementation stop one pass before / after the model because `ea` met the tolerance to within rounding?"""
    f, lam_i, vs_i, _ = parse_ok(impl, n)
    if f:
        return False
    a = [[f_of_bits(abits[i * n + j]) for j in range(n)] for i in range(n)]

    def mul(v):
        return [sum(a[i][j] * v[j] for j in range(n)) for i in range(n)]

    def norm(v):
        m = max(v)
        return m if m > 0.0 else min(v)
    try:
        ev = mul([1.0] * n)
        lam = norm(ev)
        ev = [x / lam for x in ev]
        hist = []                       # per pass (1-based count): (ea, lambda, returned vector)
        for p in range(passes + 1):
            ev = mul(ev)
            c = norm(ev)
            nv = [x / c for x in ev]
            av = mul(nv)
            nxt = sum(x * y for x, y in zip(nv, av)) / sum(x * x for x in nv)
            ea = abs((nxt - lam) / nxt)
            lam, ev = nxt, nv
            m = max(ev)
            hist.append((ea, lam, [x / m for x in ev]))
    except (ZeroDivisionError, OverflowError):
        return False
    slack = noise_floor(abits, n, lam)
    # stopped one pass earlier: the model's `ea` of that pass was >= tol by a hair; one pass later: < tol by a hair
    for q, flip in ((passes - 1, passes - 1), (passes + 1, passes)):
        if q < 2 or q > len(hist):
            continue
        ea_flip = hist[flip - 1][0]
        if abs(ea_flip - tol) <= slack and same_pair(lam_i, vs_i, (hist[q - 1][1], hist[q - 1][2])):
            if q == passes + 1 and not hist[q - 1][0] < tol:
                continue
            return True
    return False


def parse_req(req):
    t = req.split()
    half = t[1]
    h, w = int(t[2]), int(t[3])
    bits = [int(x) for x in t[4:4 + h * w]]
    es = int(t[4 + h * w])
    return half, h, w, bits, es


def jacobi(a, n):
    """eigenvalues and eigenvectors (columns of v) of the symmetric n×n list-of-lists a (binary64)"""
    a = [row[:] for row in a]
    v = [[1.0 if i == j else 0.0 for j in range(n)] for i in range(n)]
    for _ in range(60):
        off = sum(a[i][j] * a[i][j] for i in range(n) for j in range(n) if i != j)
        tot = sum(a[i][i] * a[i][i] for i in range(n)) + off
        if off <= 1e-32 * tot or tot == 0.0:
            break
        for p in range(n):
            for q in range(p + 1, n):
                if a[p][q] == 0.0:
                    continue
                theta = (a[q][q] - a[p][p]) / (2.0 * a[p][q])
                t = (1.0 if theta >= 0 else -1.0) / (abs(theta) + math.sqrt(theta * theta + 1.0))
                c = 1.0 / math.sqrt(t * t + 1.0)
                s = t * c
                for k in range(n):
                    akp, akq = a[k][p], a[k][q]
                    a[k][p] = c * akp - s * akq
                    a[k][q] = s * akp + c * akq
                for k in range(n):
                    apk, aqk = a[p][k], a[q][k]
                    a[p][k] = c * apk - s * aqk
                    a[q][k] = s * apk + c * aqk
                for k in range(n):
                    vkp, vkq = v[k][p], v[k][q]
                    v[k][p] = c * vkp - s * vkq
                    v[k][q] = s * vkp + c * vkq
    return [a[i][i] for i in range(n)], v


def reference(abits, n):
    """(λ₁, |λ₂|/|λ₁|, cosine of the all-ones vector to the dominant eigenvector) of the matrix passed"""
    a = [[f_of_bits(abits[i * n + j]) for j in range(n)] for i in range(n)]
    # exact normalisation by a power of two: the squares inside `jacobi` stay in range for entries of any magnitude
    e = math.frexp(max((abs(x) for row in a for x in row), default=0.0))[1]
    a = [[math.ldexp(x, -e) for x in row] for row in a]
    ev, vec = jacobi(a, n)
    ev = [math.ldexp(x, e) for x in ev]
    order = sorted(range(n), key=lambda k: -abs(ev[k]))
    k1 = order[0]
    l1 = ev[k1]
    ratio = (abs(ev[order[1]]) / abs(l1)) if n > 1 and l1 != 0 else 0.0
    col = [vec[i][k1] for i in range(n)]
    nrm = math.sqrt(sum(x * x for x in col))
    cos = abs(sum(col)) / (nrm * math.sqrt(n)) if nrm else 0.0
    return l1, ratio, cos


def first_pass(abits, n, tol, lam):
    """Classification of a failure only (never of a pass): did the call return from its FIRST pass?  There the
    stopping test compares the Rayleigh quotient with max(A·1), a different estimator, and the two can agree to
    < tol by coincidence.  True iff a binary64 replica of that first test fires and reproduces the returned λ."""
    a = [[f_of_bits(abits[i * n + j]) for j in range(n)] for i in range(n)]

    def mul(v):
        out = []
        for i in range(n):
            s = 0.0
            for j in range(n):
                s += a[i][j] * v[j]
            out.append(s)
        return out

    def mx(v):
        acc = v[0]
        for b in v[1:]:
            acc = acc if acc > b else b
        return acc
    try:
        ev = mul([1.0] * n); lam0 = mx(ev); ev = [x / lam0 for x in ev]
        ev = mul(ev); c = mx(ev); nv = [x / c for x in ev]
        av = mul(nv)
        rq = sum(x * y for x, y in zip(nv, av)) / sum(x * x for x in nv)
        ea = abs((rq - lam0) / rq)
    except ZeroDivisionError:
        return None
    if ea < tol and abs(rq - lam) <= 1e-12 * abs(rq):
        return " [stopped by the first-pass test: |RQ − max(A·1)|/|RQ| = %.3e < tol]" % ea
    return None


# ------------------------------------------------------------------ reference for non-symmetric matrices (n <= 8)

def charpoly(A, n):
    """exact integer coefficients [1, c1, …, cn] of det(μI − A) for an integer matrix A (Faddeev–LeVerrier; the
    division by k is exact)"""
    M = [[0] * n for _ in range(n)]
    c = [1]
    for k in range(1, n + 1):
        # M <- A M + c_{k-1} I ;  c_k = −tr(A M)/k
        AM = [[sum(A[i][t] * M[t][j] for t in range(n)) for j in range(n)] for i in range(n)]
        M = [[AM[i][j] + (c[k - 1] if i == j else 0) for j in range(n)] for i in range(n)]
        tr = sum(sum(A[i][t] * M[t][i] for t in range(n)) for i in range(n))
        assert tr % k == 0
        c.append(-tr // k)
    return c


def ilog2(x):
    """log2 of a positive integer, to about 1e-15"""
    bl = x.bit_length()
    if bl <= 60:
        return math.log2(x)
    return (bl - 60) + math.log2(x >> (bl - 60))


def root_radius_upper(c, k=7):
    """a rigorous upper bound on the largest modulus of a root of the polynomial with exact rational coefficients
    c = [c0, …, cn] (c0 ≠ 0 leading), at most (2n)^(1/2^k) (2.2 % for k = 7, n = 8) above it: k Graeffe root-squaring
    steps in exact integer arithmetic, then Fujiwara's bound 2·max_m |a_m/a_0|^(1/m) (never below the root radius,
    never more than 2n times it) on the roots' 2^k-th powers."""
    n = len(c) - 1
    if n == 0:
        return 0.0
    c = [Fraction(x) for x in c]
    den = 1
    for x in c:
        den = den * x.denominator // math.gcd(den, x.denominator)
    a = [int(x * den) for x in c]
    for _ in range(k):
        b = []
        for m in range(n + 1):
            t = a[m] * a[m]
            i = 1
            while m - i >= 0 and m + i <= n:
                t += (2 if i % 2 == 0 else -2) * a[m - i] * a[m + i]
                i += 1
            b.append(t if m % 2 == 0 else -t)
        g = 0
        for x in b:
            g = math.gcd(g, x)
        a = [x // g for x in b] if g > 1 else b
    l0 = ilog2(abs(a[0]))
    best = None
    for m in range(1, n + 1):
        if a[m] != 0:
            v = (ilog2(abs(a[m])) - l0) / m
            best = v if best is None else max(best, v)
    if best is None:
        return 0.0
    return 2.0 ** ((1.0 + best) / 2 ** k + 1e-12)


def dominant_root(c):
    """(x, ratio): x a real simple root of the exact polynomial c of strictly largest modulus and an upper bound on
    |second root| / |x|, or None when no such root is found"""
    F = Fraction
    n = len(c) - 1
    R = root_radius_upper(c)
    if R == 0.0:
        return None

    def newton(x):
        for _ in range(60):
            X = F(x)
            p, dp = F(0), F(0)
            for ck in c:
                dp = dp * X + p
                p = p * X + ck
            if p == 0:
                return x
            if dp == 0:
                return None
            x2 = float(X - p / dp)
            if x2 == x:
                return x
            if abs(x2 - x) <= 4e-16 * abs(x):
                return x2
            x = x2
        return None
    for start in (R, -R):
        x = newton(start)
        if x is None or not (R / 1.03 <= abs(x) <= R * (1 + 1e-9)):
            continue
        X = F(x)
        # deflate: c(μ) = (μ − X) q(μ) + c(X)
        q = []
        acc = F(0)
        for ck in c[:-1]:
            acc = acc * X + ck
            q.append(acc)
        rem = acc * X + c[-1]
        scale = sum(abs(ck) * abs(X) ** (n - i) for i, ck in enumerate(c))
        if abs(rem) > scale / 10 ** 9:
            continue
        r2 = root_radius_upper(q) if n > 1 else 0.0
        if r2 < abs(x):
            return x, r2 / abs(x)
    return None


def nullvec(B, n):
    """a null vector of the (numerically) rank n−1 matrix B: Gaussian elimination with complete pivoting"""
    B = [row[:] for row in B]
    cols = list(range(n))
    for k in range(n - 1):
        pi, pj, best = k, k, -1.0
        for i in range(k, n):
            for j in range(k, n):
                if abs(B[i][j]) > best:
                    best, pi, pj = abs(B[i][j]), i, j
        if best <= 0.0:
            return None
        B[k], B[pi] = B[pi], B[k]
        if pj != k:
            for row in B:
                row[k], row[pj] = row[pj], row[k]
            cols[k], cols[pj] = cols[pj], cols[k]
        for i in range(k + 1, n):
            f = B[i][k] / B[k][k]
            if f != 0.0:
                for j in range(k, n):
                    B[i][j] -= f * B[k][j]
    y = [0.0] * n
    y[n - 1] = 1.0
    for k in range(n - 2, -1, -1):
        y[k] = -sum(B[k][j] * y[j] for j in range(k + 1, n)) / B[k][k]
    x = [0.0] * n
    for k in range(n):
        x[cols[k]] = y[k]
    return x


def ns_reference(abits, n):
    """(λ₁, |λ₂|/|λ₁|, along, kappa) for a general real matrix, or None when there is no real dominant root"""
    F = Fraction
    vals = [f_of_bits(b) for b in abits]
    if not all(math.isfinite(x) for x in vals):
        return None
    mx = max(abs(x) for x in vals)
    if mx == 0.0:
        return None
    e = math.frexp(mx)[1]
    a = [[math.ldexp(vals[i * n + j], -e) for j in range(n)] for i in range(n)]   # exact scaling
    if n == 1:
        return math.ldexp(a[0][0], e), 0.0, 1.0, 1.0
    M, e0 = int_matrix(abits, n)          # A = M · 2^e0 exactly
    try:
        dom = dominant_root(charpoly(M, n))
        if dom is None:
            return None
        x, ratio = dom                     # in units of 2^e0
        x = math.ldexp(x, e0 - e)          # in units of 2^e, like `a`
    except OverflowError:
        return None                        # entries of too different magnitudes for the binary64 Newton steps
    B = [[a[i][j] - (x if i == j else 0.0) for j in range(n)] for i in range(n)]
    v = nullvec(B, n)
    u = nullvec([[B[j][i] for j in range(n)] for i in range(n)], n)
    if v is None or u is None:
        return None
    uv = sum(p * q for p, q in zip(u, v))
    nu, nv = math.sqrt(sum(p * p for p in u)), math.sqrt(sum(p * p for p in v))
    if uv == 0.0 or nu == 0.0 or nv == 0.0:
        return None
    along = abs(sum(u)) * nv / (abs(uv) * math.sqrt(n))
    kappa = nu * nv / abs(uv)
    return math.ldexp(x, e), ratio, along, kappa


# ------------------------------------------------------------------ exact inertia (symmetric, any n)

def int_matrix(abits, n):
    """the matrix behind the bit patterns as integers times 2^e"""
    ds = []
    for b in abits:
        x = f_of_bits(b)
        if x == 0.0:
            ds.append((0, 0))
        else:
            m, ex = math.frexp(x)
            ds.append((int(m * (1 << 53)), ex - 53))
    nz = [ex for (m, ex) in ds if m]
    e0 = min(nz) if nz else 0
    return [[(ds[i * n + j][0] << (ds[i * n + j][1] - e0)) if ds[i * n + j][0] else 0 for j in range(n)] for i in range(n)], e0


def count_below(M, e0, n, sigma):
    """number of eigenvalues of the symmetric matrix M·2^e0 that are < sigma (a float), exactly; None when a leading
    principal minor of the shifted matrix vanishes (the caller then moves sigma by a hair)"""
    F = Fraction
    sg = F(sigma) / F(2) ** e0 if e0 >= 0 else F(sigma) * F(2) ** (-e0)
    den = sg.denominator
    B = [[M[i][j] * den - (sg.numerator if i == j else 0) for j in range(n)] for i in range(n)]
    # fraction-free (Bareiss) elimination without pivoting: B[k][k] after step k is the leading minor of order k+1
    prev = 1
    neg = 0
    last_sign = 1
    for k in range(n):
        d = B[k][k]
        if d == 0:
            return None
        sign = 1 if d > 0 else -1
        if sign != last_sign:
            neg += 1
        last_sign = sign
        for i in range(k + 1, n):
            bik = B[i][k]
            row_i, row_k = B[i], B[k]
            for j in range(k + 1, n):
                row_i[j] = (row_i[j] * d - bik * row_k[j]) // prev
        prev = d
    return neg


def count_below_robust(M, e0, n, sigma):
    for t in (0, 1, -1, 2, -2):
        c = count_below(M, e0, n, sigma * (1.0 + t * 2.0 ** -40))
        if c is not None:
            return c
    return None


def replica(abits, n, tol):
    """the documented method itself in binary64 (start at the ones vector, multiply, divide by the largest component —
    the smallest when none is positive —, Rayleigh quotient, stop at a relative change < tol from the second pass on).
    Used for ONE purpose: to tell whether a violated residual bound is what the documented method itself produces on
    this input (then the input is one of the rare ones on which successive Rayleigh quotients agree by coincidence
    while the iterate is still far away — the statement's bound does not hold for the method there, and the case is
    not judged), or not (then the implementation is wrong).  Never turns a pass into a failure."""
    a = [[f_of_bits(abits[i * n + j]) for j in range(n)] for i in range(n)]

    def mul(v):
        return [sum(a[i][j] * v[j] for j in range(n)) for i in range(n)]

    def norm(v):
        m = max(v)
        return m if m > 0.0 else min(v)
    try:
        ev = mul([1.0] * n)
        lam = norm(ev)
        ev = [x / lam for x in ev]
        for p in range(100000):
            ev = mul(ev)
            c = norm(ev)
            nv = [x / c for x in ev]
            av = mul(nv)
            nxt = sum(x * y for x, y in zip(nv, av)) / sum(x * x for x in nv)
            ea = abs((nxt - lam) / nxt)
            lam, ev = nxt, nv
            if p > 0 and ea < tol:
                m = max(ev)
                return lam, [x / m for x in ev]
    except (ZeroDivisionError, OverflowError):
        return None
    return None


def same_pair(lam, vs, rep):
    if rep is None:
        return False
    rl, rv = rep
    close = lambda p, q: abs(p - q) <= 1e-9 * max(abs(p), abs(q), 1e-300)
    return close(lam, rl) and all(abs(p - q) <= 1e-9 for p, q in zip(vs, rv))


def parse_ok(impl, n):
    """(failure, λ, v, v bits) of an `ok` observation"""
    t = impl.split()
    lam_b = int(t[1][1:])
    vh, vw = int(t[2]), int(t[3])
    vb = [int(x[1:]) for x in t[4:4 + vh * vw]]
    if (vh, vw) != (n, 1):
        return f"eigenvector shape {vh}x{vw}, expected {n}x1", None, None, None
    lam = f_of_bits(lam_b)
    vs = [f_of_bits(b) for b in vb]
    if not all(math.isfinite(x) for x in vs + [lam]):
        return "non-finite eigenpair on a finite input", None, None, None
    if ONE not in vb or any(x > 1.0 for x in vs):
        return "largest component of the eigenvector is not exactly 1 (max %r)" % max(vs), None, None, None
    return None, lam, vs, vb


def residual(abits, n, lam, vs, tol):
    """(exceeds, ratio to the bound, message): ‖Av − λv‖² against C² tol λ² ‖v‖² in exact rationals"""
    F = Fraction
    A = [F(f_of_bits(b)) for b in abits]
    V = [F(x) for x in vs]
    L = F(lam)
    res2 = F(0)
    for i in range(n):
        r = sum(A[i * n + j] * V[j] for j in range(n)) - L * V[i]
        res2 += r * r
    v2 = sum(x * x for x in V)
    bound2 = C * C * F(tol) * L * L * v2
    ratio = math.sqrt(float(res2 / bound2)) if bound2 else float("inf")
    if res2 > bound2:
        rel = math.sqrt(float(res2 / (L * L * v2))) if L else float("inf")
        return True, ratio, ("residual ‖Av − λv‖ = %.3e·|λ|‖v‖ exceeds C√tol = %.3e (tol %.1e, λ = %r)"
                             % (rel, C * math.sqrt(tol), tol, lam))
    return False, ratio, None


def noise_floor(abits, n, l1):
    """100 n u (‖A‖_F/|λ₁|)²: the Rayleigh quotient xᵀAx/xᵀx of a non-normal matrix is first-order sensitive to the
    rounding errors of the iterate (each of relative size u‖A‖/|λ₁|), so successive quotients differ by about
    n u (‖A‖_F/|λ₁|)² however long the iteration runs, and a tolerance below that is met only by luck (observed:
    [[-95.484375, 118.75], [-77.1875, 96]], eigenvalues 1 and -0.487, tolerance 1e-12: NoConvergence from the correct
    method, at 0.12 of n u (‖A‖_F/|λ₁|)²).  Symmetric matrices have ‖A‖_F ≤ √n |λ₁| and a second-order quotient: no floor."""
    fro2 = sum((f_of_bits(b) / l1) ** 2 for b in abits)
    return 100.0 * n * 2.0 ** -53 * fro2


def accuracy_general(req, impl):
    """`nsym`, `gen`, `nsymbig`, `accbig`: returns (verdict, calibration ratios)"""
    half, h, w, abits, esb = parse_req(req)
    n = h
    tol = f_of_bits(esb)
    t = impl.split()
    ref = None
    if half in ("nsym", "gen"):
        ref = ns_reference(abits, n)
        if ref is None:
            return None, None
        l1, ratio, along, kappa = ref
        if ratio > 0.5 or along < 0.25 or kappa > 1e3 or not (0.999e-12 <= tol <= 1.001e-4):
            return None, None        # outside the quantifier: not judged
        if tol < noise_floor(abits, n, l1):
            return None, None        # the tolerance is below what binary64 can resolve for this matrix: not judged
    if t[0] != "ok":
        return f"no eigenpair returned on a matrix inside the quantifier: {impl[:40]}", None
    f, lam, vs, vb = parse_ok(impl, n)
    if f:
        return f, None
    if half == "nsymbig" and (lam == 0.0 or tol < noise_floor(abits, n, lam)):
        return None, None
    bad, r_res, msg = residual(abits, n, lam, vs, tol)
    if bad:
        if half in ("nsym", "gen", "nsymbig") and same_pair(lam, vs, replica(abits, n, tol)):
            # the documented method itself stops early here: a genuine limit of the stopping rule, reported
            # as its own class (known finding F-C13-coincidence), so that any other violation stays visible
            return "the documented method itself stops early (successive Rayleigh quotients agree by coincidence): " + msg, (r_res, None)
        return msg, (r_res, None)
    if ref is not None:
        err = abs(lam - l1)
        bound = C * math.sqrt(tol) * abs(l1)
        if err > bound and same_pair(lam, vs, replica(abits, n, tol)):
            return ("the documented method itself stops early (successive Rayleigh quotients agree by coincidence): eigenvalue %.17g is %.3e from the dominant eigenvalue %.17g (tol %.1e)"
                    % (lam, err, l1, tol)), (r_res, err / bound)
        if err > bound:
            return ("eigenvalue %.17g is %.3e from the dominant eigenvalue %.17g, more than C·√tol·|λ₁| = %.3e (tol %.1e)"
                    % (lam, err, l1, bound, tol)), (r_res, err / bound)
        return None, (r_res, err / (C * tol * abs(l1)))
    if half == "accbig":
        M, e0 = int_matrix(abits, n)
        sgn = 1.0 if lam > 0 else -1.0
        if sgn < 0:
            M = [[-x for x in row] for row in M]
        la = abs(lam)
        delta = C * tol * la + 1e-13 * la
        lo = count_below_robust(M, e0, n, la - delta)
        hi = count_below_robust(M, e0, n, la + delta)
        mid = count_below_robust(M, e0, n, 0.6 * la)
        neg = count_below_robust(M, e0, n, -0.6 * la)
        if None in (lo, hi, mid, neg):
            return None, (r_res, None)
        if hi != n or lo != n - 1:
            return ("eigenvalue %.17g: the matrix has %d eigenvalue(s) in [λ − δ, λ + δ] and %d beyond (exact inertia counts), "
                    "δ = C·tol·|λ| = %.3e: not within C·tol of the dominant eigenvalue" % (lam, hi - lo, n - hi, delta)), (r_res, None)
        if mid != n - 1 or neg != 0:
            return ("eigenvalue %.17g is not dominant with gap 1/2: %d eigenvalue(s) of the same sign beyond 0.6|λ|, %d of the "
                    "other sign" % (lam, n - mid, neg)), (r_res, None)
        return None, (r_res, None)
    return None, (r_res, None)


def accuracy(req, impl):
    """returns (verdict, (ratio_residual, ratio_lambda)) — the ratios to the bounds are for calibration"""
    half, h, w, abits, esb = parse_req(req)
    n = h
    t = impl.split()
    if t[0] != "ok":
        if half == "sym" and t[0] == "err":
            # judged only if the matrix is inside the accuracy quantifier
            l1, ratio, cos = reference(abits, n)
            if ratio > 0.5 + 1e-9 or cos < 0.25 or l1 == 0.0:
                return None, None
        return f"accuracy case did not return an eigenpair: {impl[:40]}", None
    tol = f_of_bits(esb)
    l1, ratio, cos = reference(abits, n)
    wide = half == "accw"
    # the statement asks for a start vector "not orthogonal" to the dominant eigenvector; `accw` goes to 89 degrees
    # (cosine 0.0175; 80 000 random and 400 tuned cases of the family: the documented method stays below 0.09 of the
    # residual bound and 0.04 of the eigenvalue bound)
    if ratio > 0.5 + 1e-9 or cos < (0.015 if wide else 0.25) or l1 == 0.0:
        return None, None            # outside the quantifier: not judged
    f, lam, vs, vb = parse_ok(impl, n)
    if f:
        return f, None
    # a violated bound that the documented method itself produces (its only stopping test can fire by coincidence while
    # the iterate is still far away) is the open finding F-C13-coincidence, classified by the replica like in the
    # non-symmetric halves; only `accw` needs this (far from the eigenvector the quotients of a matrix with three or
    # more eigenvalues need not be monotone) -- none was seen in any run
    early = "the documented method itself stops early (successive Rayleigh quotients agree by coincidence): "
    # exact residual:  ‖Av − λv‖² ≤ C² tol λ² ‖v‖²
    bad, r_res, msg = residual(abits, n, lam, vs, tol)
    if bad:
        if wide and same_pair(lam, vs, replica(abits, n, tol)):
            return early + msg, (r_res, None)
        return msg + (first_pass(abits, n, tol, lam) or ""), (r_res, None)
    err = abs(lam - l1)
    bound = C * tol * abs(l1) + 1e-13 * abs(l1)
    r_lam = err / bound
    if err > bound:
        msg = ("eigenvalue %.17g is %.3e from the dominant eigenvalue %.17g, more than C·tol·|λ₁| = %.3e (tol %.1e)"
               % (lam, err, l1, C * tol * abs(l1), tol))
        if wide and same_pair(lam, vs, replica(abits, n, tol)):
            return early + msg, (r_res, r_lam)
        return msg + (first_pass(abits, n, tol, lam) or ""), (r_res, r_lam)
    return None, (r_res, r_lam)


def oracle(req, impl):
    half = req.split()[1]
    if half in ("acc", "sym", "accw"):
        return accuracy(req, impl)[0]
    if half in ("nsym", "gen", "nsymbig", "accbig"):
        return accuracy_general(req, impl)[0]
    return None


def nontrivial(req, model):
    return model.startswith("ok ") or model == "err noconv"


def tag(req, model):
    t = req.split()
    base, passes = _strip(model)
    kind = "_".join(base.split()[:2]) if not base.startswith("ok") else "ok"
    if passes is None:
        b = "-"
    elif passes == 1:
        b = "1"
    elif passes <= 5:
        b = "2-5"
    elif passes <= 20:
        b = "6-20"
    elif passes <= 100:
        b = "21-100"
    else:
        b = ">100"
    return "power:%s:n%s:%s:passes%s" % (t[1], t[2] if t[2] == t[3] else t[2] + "x" + t[3], kind, b)
