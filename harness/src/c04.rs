//! C04 — indefinite integrals are antiderivatives; the analytical definite integral is F(b) − F(a).
//!
//! Requests (lean/SV/Model/C04.lean): the shared `integ` / `pinteg` / `chain` of polyops.rs, `chainm`
//! and the `txt <text>` prefix of c03.rs, plus
//!
//!     analytical <poly> <a> <b>        → ok f… | err Kind
//!     additive   <poly> <a> <c> <b>    → I(a,c) | I(c,b) | I(a,b)
//!     swap       <poly> <a> <b>        → I(a,b) | I(b,a)
//!
//! all through `spindalis_core::integrals::analytical_integral` on both polynomial types.  The
//! polynomials come out of the real parsers (text generators of c03.rs).  The oracles are exact
//! rationals in tools/props/c04.py; the only verdict produced here is "the operation panicked".
use crate::c03::{self, gen_inter_text, gen_simple_text, parse_inter, parse_simple, pick_var, poly_names, strip_txt};
use crate::polyio::*;
use crate::util::*;
use spindalis_core::integrals::{IntegralError, analytical_integral};

fn show_integral(r: Result<f64, IntegralError>) -> String {
    match r {
        Ok(v) => format!("ok {}", fbits(v)),
        Err(IntegralError::FunctionError(e)) => format!("err {}", err_kind(&e)),
        Err(IntegralError::MaxIterationsReached) => "err MaxIterationsReached".to_string(),
    }
}

pub fn analytical(p: &AnyPoly, a: f64, b: f64) -> String {
    show_integral(with_poly!(p, q => analytical_integral(q, a, b)))
}

fn answer(line: &str) -> String {
    let mut t = Toks::new(line);
    match t.tok() {
        "analytical" => {
            let p = read_any(&mut t);
            let (a, b) = (t.f64(), t.f64());
            analytical(&p, a, b)
        }
        "additive" => {
            let p = read_any(&mut t);
            let (a, c, b) = (t.f64(), t.f64(), t.f64());
            format!("{} | {} | {}", analytical(&p, a, c), analytical(&p, c, b), analytical(&p, a, b))
        }
        "swap" => {
            let p = read_any(&mut t);
            let (a, b) = (t.f64(), t.f64());
            format!("{} | {}", analytical(&p, a, b), analytical(&p, b, a))
        }
        _ => {
            // shared commands (integ, pinteg, chain, chainm): C03's runner without its closure verdict
            c03::run(line).obs
        }
    }
}

pub fn run(line: &str) -> Obs {
    let line = strip_txt(line);
    match catch(|| answer(&line)) {
        Some(s) if s != "panic" => Obs::plain(s),
        _ => Obs::with("panic".into(), Err("the operation panicked".into())),
    }
}

// ---------------------------------------------------------------- generators

/// every exponent of the polynomial is a natural number (so every real bound is in the domain)
fn natural_exponents(p: &AnyPoly) -> bool {
    match p {
        AnyPoly::S(_) => true,
        AnyPoly::I(q) => q.terms.iter().all(|t| t.variables.iter().all(|(_, e)| *e >= 0.0 && e.fract() == 0.0)),
    }
}

fn bound(rng: &mut Rng, any: bool) -> f64 {
    // one bound in eight of an extreme magnitude (2^-70..2^-34, either sign, or 2^8..2^14): intervals far
    // narrower or wider than 1
    if rng.chance(1, 8) {
        let m = if rng.chance(2, 3) { 2f64.powi(-(rng.range(34, 70) as i32)) } else { 2f64.powi(rng.range(8, 14) as i32) };
        let m = m * rng.range(1, 3) as f64;
        return if any && rng.chance(1, 2) { -m } else { m };
    }
    if any {
        match rng.below(8) {
            0 => 0.0,
            1 => 1.0,
            2 => -1.0,
            _ => rng.dyadic(32, 3),
        }
    } else {
        rng.dyadic(30, 3).abs() + 0.25
    }
}

pub const FIXED_INTER: &[&str] = &[
    "xx", "5", "x^3 + x^2", "x^0", "x^1/2", "2xy", "", "0", "-x", "xx^-1", "x^2y^2 + y", "3x^2 - 2x + 1", "x + y + z",
    "-7", "1/2x^-1/2", "yx", "zyx^2", "4x^0.5 - 3", "x^1.5 + x^2.5", "2.5", "1/3x^3", "x^-2 + x^-3", "y^2", "t^2 + 1",
    "b + a", "x^-1",
];
pub const FIXED_SIMPLE: &[&str] =
    &[
    // the largest exponents the parser accepts (MAX_POWER = 65536) and its neighbours
    "x^65536", "3x^65535 + x", "x^65537", "2y^065536 - y^65535",
    "5", "x^3 + x^2", "x", "", "0", "-x", "3x^2 - 2x + 1", "x^0", "2.5y^4 - y + .5", "t^9", "x^2 + x^2", "7 - 7"];

fn emit_for(rng: &mut Rng, text: &str, p: &AnyPoly, emit: &mut dyn FnMut(String), all: bool) {
    let ps = req_any(p);
    let names = poly_names(p);
    let pre = format!("txt {}", req_string(text));
    let any = natural_exponents(p);
    let mut kinds: Vec<u64> = if all { vec![0, 1, 2, 3, 4, 5, 6] } else { vec![rng.below(7), rng.below(7)] };
    kinds.dedup();
    for mut kind in kinds {
        // the univariate entry points on a multivariate polynomial are only an error: keep that rare
        if names.len() > 1 && !all && matches!(kind, 0 | 2 | 3 | 4) && rng.chance(4, 5) {
            kind = if rng.chance(1, 2) { 1 } else { 6 };
        }
        match kind {
            0 => emit(format!("{pre} integ {ps}")),
            1 => {
                let v = if rng.chance(1, 4) { "w".to_string() } else { pick_var(rng, &names) };
                emit(format!("{pre} pinteg {ps} {}", req_string(&v)))
            }
            2 => emit(format!("{pre} analytical {ps} {} {}", rbits(bound(rng, any)), rbits(bound(rng, any)))),
            3 => {
                let (a, c, b) = (bound(rng, any), bound(rng, any), bound(rng, any));
                emit(format!("{pre} additive {ps} {} {} {}", rbits(a), rbits(c), rbits(b)))
            }
            4 => emit(format!("{pre} swap {ps} {} {}", rbits(bound(rng, any)), rbits(bound(rng, any)))),
            5 => {
                // integrate, then differentiate again through the univariate interface (and variants)
                let steps = *rng.pick(&["2 i d", "3 i i d", "3 i d d", "1 i", "2 i i"]);
                emit(format!("{pre} chain {ps} {steps} {}", rbits(bound(rng, any))))
            }
            _ => {
                // by name: ∂/∂v ∫ dv, possibly in a fresh variable
                let v = if rng.chance(1, 4) { "w".to_string() } else { pick_var(rng, &names) };
                let vs = req_string(&v);
                let mut bound_names = names.clone();
                bound_names.push(v.clone());
                bound_names.sort();
                bound_names.dedup();
                let steps = if rng.chance(2, 3) { format!("2 J {vs} D {vs}") } else { format!("1 J {vs}") };
                let mut s = format!("{pre} chainm {ps} {steps} {}", bound_names.len());
                for b in &bound_names {
                    s.push_str(&format!(" {} {}", req_string(b), rbits(bound(rng, false))));
                }
                emit(s)
            }
        }
    }
}

pub fn generate(seed: u64, thorough: bool, emit: &mut dyn FnMut(String)) {
    // `Rng::new(s + 1)` is `Rng::new(s)` advanced by one draw; re-seeding from a mixed output makes the
    // streams of neighbouring seeds unrelated
    let mut rng = Rng::new(Rng::new(seed ^ 0xC04).next());
    // (a text the parser refuses is not this property's business: skipped, like the random ones)
    for t in FIXED_INTER {
        if let Some(p) = parse_inter(t) {
            emit_for(&mut rng, t, &p, emit, true);
        }
    }
    for t in FIXED_SIMPLE {
        if let Some(p) = parse_simple(t) {
            emit_for(&mut rng, t, &p, emit, true);
        }
    }
    let n = if thorough { 120000 } else { 1500 };
    for i in 0..n {
        let (text, p) = if i % 3 == 2 {
            let t = gen_simple_text(&mut rng);
            let p = parse_simple(&t);
            (t, p)
        } else {
            let t = gen_inter_text(&mut rng);
            let p = parse_inter(&t);
            (t, p)
        };
        if let Some(p) = p {
            emit_for(&mut rng, &text, &p, emit, false);
        }
    }
}
