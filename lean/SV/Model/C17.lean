import SV.Model.Text
import SV.Model.PolyWire
/-!
Model of the printers (structure only — how a single `f64` is spelled is a parameter):

* `Display for SimplePolynomial`        (polynomials/structs/simple.rs)       → `displaySimple`
* `Display for IntermediatePolynomial`  (polynomials/structs/intermediate.rs) → `displayInter`
* `Display for Term`                    (polynomials/intermediate.rs)          → `displayTerm`
* `LinearModel::to_polynomial_string`   (regressors/linear/mod.rs)             → `modelString`

A number to be printed arrives as an `Item`: its sign class, whether its magnitude is exactly 1, and
the text Rust's formatter produced for it (`{}` or `{:.p}` of the magnitude resp. the value).  The
harness supplies those texts for every number of the case; the model applies the sign / spacing /
elision / zero-trimming rules and must reproduce the whole printed text.
-/
namespace SV.C17
open SV SV.Text

inductive Sign where | neg | zero | pos
deriving Repr, DecidableEq

structure Item where
  sign : Sign
  isOne : Bool          -- |value| == 1.0
  text : List Char      -- formatter output (magnitude for the polynomial printers, signed otherwise)
deriving Repr

/-- `s.trim_end_matches(c)` -/
def trimEnd (c : Char) (s : List Char) : List Char :=
  (s.reverse.dropWhile (· = c)).reverse

/-- zeros of the fractional part only: `if s.contains('.') { trim '0' then '.' } else { s }` -/
def trimFraction (s : List Char) : List Char :=
  if s.contains '.' then trimEnd '.' (trimEnd '0' s) else s

/-- coefficient text under an optional precision -/
def numText (prec : Bool) (t : List Char) : List Char := if prec then trimFraction t else t

def natText (n : Nat) : List Char := (toString n).toList

/-- `Display for SimplePolynomial`: highest power first, zero coefficients skipped -/
def displaySimple (prec : Bool) (var : Option Char) (items : List Item) : List Char :=
  let v := var.getD 'x'
  let n := items.length
  -- (index, item) from the highest index down
  let rec go : List (Nat × Item) → Bool → List Char → List Char
    | [], first, acc => if first then acc ++ ['0'] else acc
    | (i, it) :: rest, first, acc =>
      if it.sign = .zero then go rest first acc
      else
        let acc := if !first ∧ it.sign = .pos then acc ++ " + ".toList
                   else if it.sign = .neg then acc ++ " - ".toList else acc
        let acc := if !it.isOne ∨ i = 0 then acc ++ numText prec it.text else acc
        let acc := match i with
          | 0 => acc
          | 1 => acc ++ [v]
          | _ => acc ++ [v, '^'] ++ natText i
        go rest false acc
  go ((List.range n).zip items).reverse true []

structure ITermItems where
  coef : Item
  vars : List (String × Item)     -- exponent items: `isOne` means exponent == 1.0 (signed), text is signed
deriving Repr

/-- `Display for IntermediatePolynomial` -/
def displayInter (prec : Bool) (terms : List ITermItems) : List Char :=
  if terms = [] then ['0'] else
  let rec go : List ITermItems → Bool → List Char → List Char
    | [], _, acc => acc
    | t :: rest, first, acc =>
      let acc := if !first then (if t.coef.sign = .neg then acc ++ " - ".toList else acc ++ " + ".toList)
                 else if t.coef.sign = .neg then acc ++ ['-'] else acc
      let acc := if !t.coef.isOne ∨ t.vars = [] then acc ++ numText prec t.coef.text else acc
      let acc := t.vars.foldl (fun acc (v, e) =>
          let acc := acc ++ v.toList
          if e.isOne then acc
          else if prec then acc ++ trimFraction ('^' :: e.text) else acc ++ ('^' :: e.text)) acc
      go rest false acc
  go terms true []

/-- `Display for Term`: signed coefficient unless it is exactly 1 and there are variables -/
def displayTerm (t : ITermItems) : List Char :=
  let acc := if !t.coef.isOne ∨ t.vars = [] then t.coef.text else []
  t.vars.foldl (fun acc (v, e) =>
    let acc := acc ++ v.toList
    if e.isOne then acc else acc ++ ('^' :: e.text)) acc

/-- `str::replace("+ -", "- ")` -/
def replacePlusMinus : List Char → List Char
  | '+' :: ' ' :: '-' :: rest => '-' :: ' ' :: replacePlusMinus rest
  | c :: rest => c :: replacePlusMinus rest
  | [] => []

/-- `LinearModel::to_polynomial_string`; here `isOne` means value == 1.0 and `sign = neg ∧ isOne`
means value == −1.0; texts are `{:.5}` of the signed value -/
def modelString (items : List Item) : List Char :=
  let parts := ((List.range items.length).zip items).filterMap fun (pow, it) =>
    if it.sign = .zero then none
    else some (match pow with
      | 0 => it.text
      | 1 => if it.isOne then (if it.sign = .neg then "-x".toList else "x".toList) else it.text ++ ['x']
      | _ => if it.isOne then (if it.sign = .neg then "-x^".toList else "x^".toList) ++ natText pow
             else it.text ++ "x^".toList ++ natText pow)
  if parts = [] then ['0']
  else replacePlusMinus (" + ".toList.intercalate parts)

end SV.C17

namespace SV.C17.Driver
open SV SV.Wire SV.Text SV.Poly SV.PolyWire SV.C17

def signOf (x : Float) : Sign := if x < 0 then .neg else if x > 0 then .pos else .zero

/-- coefficient of a polynomial printer: the test is `abs == 1.0` -/
def item : P Item := do
  let x ← float
  let t ← chars
  return ⟨signOf x, x.abs == 1.0, t⟩

def prec : P Bool := do
  let t ← tok
  return t ≠ "-"

/-- exponent item: `isOne` is `exponent == 1.0` -/
def expItem : P Item := do
  let x ← float
  let t ← chars
  return ⟨signOf x, x == 1.0, t⟩

def termItems (coefAbs : Bool) : P ITermItems := do
  let x ← float
  let t ← chars
  let c : Item := ⟨signOf x, if coefAbs then x.abs == 1.0 else x == 1.0, t⟩
  let n ← nat
  let vs ← many n (do let v ← name; let e ← expItem; return (v, e))
  return ⟨c, vs⟩

/--
    ds <prec|-> <var|-> <n> { <coef bits> <text> }*                         Display for SimplePolynomial
    di <prec|-> <nterms> { <coef bits> <text> <nvars> { <name> <exp bits> <text> }* }*   Display for IntermediatePolynomial
    dt <coef bits> <text> <nvars> { <name> <exp bits> <text> }*             Display for Term
    dm <n> { <coef bits> <text> }*                                          LinearModel::to_polynomial_string
  → the printed text as code points
-/
def handle (line : String) : String :=
  let p : P String := do
    let cmd ← tok
    match cmd with
    | "ds" => do
      let pr ← prec
      let v ← tok
      let var : Option Char := match v.toNat? with | some n => some (Char.ofNat n) | none => none
      let n ← nat
      let items ← many n item
      return fmtStr (displaySimple pr var items)
    | "di" => do
      let pr ← prec
      let n ← nat
      let ts ← many n (termItems true)
      return fmtStr (displayInter pr ts)
    | "dt" => do
      let t ← termItems false
      return fmtStr (displayTerm t)
    | "dm" => do
      let n ← nat
      let items ← many n (do
        let x ← float
        let t ← chars
        return (⟨signOf x, x == 1.0 || x == -1.0, t⟩ : Item))
      return fmtStr (modelString items)
    | _ => fail
  match run p ((line.splitOn " | ").headD line) with
  | some s => s
  | none => "bad-request"

end SV.C17.Driver
