import Proto.Subst
import Mathlib.Tactic.Ring
import Mathlib.Tactic.FieldSimp
import Mathlib.Algebra.BigOperators.Intervals
import Mathlib.Algebra.Order.Field.Basic
namespace Proto
open Finset

variable {K : Type} [Field K] [Inhabited K]

theorem rowDot_eq (U : Mat K) (i c : Nat) (xs : List K) :
    rowDot U i c xs = ∑ k ∈ range xs.length, U.get i (c + k) * xs[k]! := by
  unfold rowDot
  -- generalise the accumulator and index offset
  have gen : ∀ (xs : List K) (acc : K) (o : Nat),
      (xs.zipIdx o).foldl (fun acc (p : K × Nat) => acc + U.get i (c + p.2) * p.1) acc
        = acc + ∑ k ∈ range xs.length, U.get i (c + (o + k)) * xs[k]! := by
    intro xs
    induction xs with
    | nil => intro acc o; simp
    | cons x xs ih =>
      intro acc o
      simp only [List.zipIdx_cons, List.foldl_cons, List.length_cons]
      rw [ih, Finset.sum_range_succ']
      simp only [Nat.add_zero, List.getElem!_cons_zero, List.getElem!_cons_succ]
      have : ∀ k, o + 1 + k = o + (k + 1) := by intro k; omega
      simp only [this]
      ring
  simpa using gen xs 0 0

end Proto

namespace Proto
open Finset
variable {K : Type} [Field K] [Inhabited K]

theorem backSubstL_length (U : Mat K) (b : Nat → K) (n t : Nat) :
    (backSubstL U b n t).length = t := by
  induction t with
  | zero => rfl
  | succ t ih => simp [backSubstL, ih]

/-- Row equation satisfied by every computed component. -/
theorem backSubstL_sound (U : Mat K) (b : Nat → K) (n : Nat)
    (hdiag : ∀ i < n, U.get i i ≠ 0) :
    ∀ t, t ≤ n → ∀ k, k < t →
      U.get (n - t + k) (n - t + k) * (backSubstL U b n t)[k]!
        + ∑ j ∈ range (t - k - 1),
            U.get (n - t + k) (n - t + k + 1 + j) * (backSubstL U b n t)[k + 1 + j]!
        = b (n - t + k) := by
  intro t
  induction t with
  | zero => intro _ k hk; omega
  | succ t ih =>
    intro ht k hk
    cases k with
    | zero =>
      simp only [backSubstL, Nat.add_zero, List.getElem!_cons_zero]
      rw [rowDot_eq, backSubstL_length]
      have hd := hdiag (n - (t+1)) (by omega)
      have e1 : t + 1 - 0 - 1 = t := by omega
      rw [e1]
      have : ∀ j, (0 + 1 + j) = j + 1 := by intro j; omega
      simp only [this, List.getElem!_cons_succ]
      field_simp
      ring
    | succ k =>
      have hk' : k < t := by omega
      have := ih (by omega) k hk'
      have e : n - (t + 1) + (k + 1) = n - t + k := by omega
      have e2 : t + 1 - (k + 1) - 1 = t - k - 1 := by omega
      simp only [backSubstL, e, e2]
      have e3 : ∀ j, k + 1 + 1 + j = (k + 1 + j) + 1 := by intro j; omega
      simp only [e3, List.getElem!_cons_succ]
      exact this
end Proto
