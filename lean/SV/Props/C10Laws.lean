import SV.Props.C10
import SV.Props.C10Findings
import SV.Props.C11
/-!
# C10 — algebraic laws of the model's `inverse`, for every size at once

`SV.Props.C10` proves that a matrix returned by `SV.C10.inverse` is a two-sided inverse.  Because a
two-sided inverse is unique, everything the returned matrix *could* depend on besides the matrix `A`
denotes — the pivoting permutation the run went through, the order of the substitutions, the
threshold — is ruled out for ALL sizes by the laws below: whatever the run did, the result is the
one matrix `A⁻¹`.  A "robustness tweak" of `Arr2D::inverse` that special-cases particular data
(symmetric input, a diagonal input, a scaled input …) and returns anything else on it contradicts
one of these laws at a concrete matrix.

1. `inverse_unique_right`, `inverse_unique_left` (+ `_mat` forms through the model's `dot`):
   any `X` with `A X = 1` or `X A = 1` is the returned matrix;
2. `inverse_transpose`, `inverse_transpose_mat`: the inverse of the transpose is the transpose of
   the inverse;
3. `inverse_mul`, `inverse_mul_mat`: `(A B)⁻¹ = B⁻¹ A⁻¹`, with the model's product `dot` / `mulOp`;
4. `inverse_smul_of_ok`, `inverse_smul_of_ok_mat`: `(c A)⁻¹ = c⁻¹ A⁻¹` *when both are accepted* —
   acceptance itself is not scale invariant (`smul_acceptance_not_invariant`, the open finding
   F-C10-abs-scale);
5. `inverse_identity_unique`, `inverse_identity`: the identity is its own inverse;
6. `inverse_det_inv`: `det B = (det A)⁻¹`.
-/
namespace SV.Props.C10Laws
open SV SV.C09 SV.C10 SV.C11 SV.Props.C10 SV.Props.C11 Finset

variable {K : Type} [Field K] [LinearOrder K] [IsStrictOrderedRing K] [Inhabited K]

/-! ### bridges: the model's `transpose`, `smul`, `ident` as Mathlib matrices -/

omit [Field K] [LinearOrder K] [IsStrictOrderedRing K] in
/-- the model's `transpose` denotes the transposed matrix -/
private theorem toMatrix_transpose (M : Mat K) {m n : Nat} (hm : m ≤ M.w) (hn : n ≤ M.h) :
    M.transpose.toMatrix m n = (M.toMatrix n m).transpose := by
  funext i j
  simp only [Mat.toMatrix, Matrix.transpose_apply]
  exact Mat.get_transpose M (by omega) (by omega)

omit [LinearOrder K] [IsStrictOrderedRing K] in
/-- the model's scalar `Mul` (`smul`, the scalar on the right) denotes `c • M` -/
private theorem toMatrix_smul (M : Mat K) (c : K) {m n : Nat} (hm : m ≤ M.h) (hn : n ≤ M.w) :
    (smul M c).toMatrix m n = c • M.toMatrix m n := by
  funext i j
  simp only [Mat.toMatrix, Matrix.smul_apply, smul_eq_mul]
  rw [(smul_entry M c).2.2 i.val j.val (by omega) (by omega), mul_comm]

omit [LinearOrder K] [IsStrictOrderedRing K] in
/-- the model's identity array denotes the matrix `1` -/
private theorem toMatrix_ident (n : Nat) : (Mat.ident n : Mat K).toMatrix n n = 1 := by
  funext i j
  simp only [Mat.toMatrix, Matrix.one_apply, Fin.ext_iff]
  exact Mat.get_ident i.isLt j.isLt

omit [Field K] [LinearOrder K] [IsStrictOrderedRing K] in
/-- two well-formed `n × n` arrays that denote the same matrix are the same array -/
private theorem mat_eq_of_toMatrix {M N : Mat K} {n : Nat} (hM : M.WF) (hN : N.WF)
    (hMh : M.h = n) (hMw : M.w = n) (hNh : N.h = n) (hNw : N.w = n)
    (h : M.toMatrix n n = N.toMatrix n n) : M = N := by
  apply Mat.ext_get hM hN (by omega) (by omega)
  intro i j hi hj
  exact congrFun (congrFun h ⟨i, by omega⟩) ⟨j, by omega⟩

/-! ### (3) uniqueness -/

/-- **Uniqueness, right.**  Whatever `inverse` returns for `A` is the only right inverse of `A`:
every matrix `X` with `A X = 1` equals it. -/
theorem inverse_unique_right {eps : K} (heps : 0 < eps) {A B : Mat K} (h : inverse eps A = .ok B)
    (X : Matrix (Fin A.h) (Fin A.h) K) (hX : A.toMatrix A.h A.h * X = 1) :
    X = B.toMatrix A.h A.h := by
  rw [inverse_eq_inv heps h]
  exact (Matrix.inv_eq_right_inv hX).symm

/-- **Uniqueness, left.**  … and the only left inverse: every `X` with `X A = 1` equals it. -/
theorem inverse_unique_left {eps : K} (heps : 0 < eps) {A B : Mat K} (h : inverse eps A = .ok B)
    (X : Matrix (Fin A.h) (Fin A.h) K) (hX : X * A.toMatrix A.h A.h = 1) :
    X = B.toMatrix A.h A.h := by
  rw [inverse_eq_inv heps h]
  exact (Matrix.inv_eq_left_inv hX).symm

/-- uniqueness on the arrays of the model: a well-formed `n × n` array `X` whose product with `A`
(the model's `dot`, on either side) is the identity array *is* the array `inverse` returns. -/
theorem inverse_unique_mat {eps : K} (heps : 0 < eps) {A B X : Mat K} (h : inverse eps A = .ok B)
    (hX : X.WF) (hXh : X.h = A.h) (hXw : X.w = A.h)
    (hprod : dot A X = .ok (Mat.ident A.h) ∨ dot X A = .ok (Mat.ident A.h)) : X = B := by
  obtain ⟨hsq, hBh, hBw, hBwf⟩ := inverse_shape h
  apply mat_eq_of_toMatrix hX hBwf hXh hXw hBh hBw
  rcases hprod with hp | hp
  · apply inverse_unique_right heps h
    have := dot_toMatrix A X _ (by omega) hp
    rw [hXw, ← hsq, toMatrix_ident] at this
    exact this.symm
  · apply inverse_unique_left heps h
    have := dot_toMatrix X A _ (by omega) hp
    rw [hXh, ← hsq, hXw, toMatrix_ident] at this
    exact this.symm

/-- two runs on the same matrix with different (positive) thresholds cannot return different
matrices -/
theorem inverse_threshold_irrelevant {eps eps' : K} (heps : 0 < eps) (heps' : 0 < eps')
    {A B B' : Mat K} (h : inverse eps A = .ok B) (h' : inverse eps' A = .ok B') : B' = B := by
  obtain ⟨_, hBh, hBw, hBwf⟩ := inverse_shape h
  obtain ⟨_, hBh', hBw', hBwf'⟩ := inverse_shape h'
  apply mat_eq_of_toMatrix hBwf' hBwf hBh' hBw' hBh hBw
  exact inverse_unique_right heps h _ (inverse_right heps' h')

/-! ### (1) transpose -/

/-- **Transpose.**  If `A` and its transpose are both inverted, the second result is the transpose
of the first — although the two runs pivot on different entries and go through unrelated row
permutations. -/
theorem inverse_transpose {eps eps' : K} (heps : 0 < eps) (heps' : 0 < eps') {A B C : Mat K}
    (h : inverse eps A = .ok B) (h' : inverse eps' A.transpose = .ok C) :
    C.toMatrix A.h A.h = (B.toMatrix A.h A.h).transpose := by
  obtain ⟨hsq, _, _, _⟩ := inverse_shape h
  have hT : A.transpose.toMatrix A.h A.h * C.toMatrix A.h A.h = 1 :=
    inverse_toMatrix heps' h' (by simp [hsq])
  rw [toMatrix_transpose A (by omega) (by omega)] at hT
  have hB := inverse_left heps h
  -- `Bᵀ Aᵀ = (A B)ᵀ … = 1`, so `Bᵀ = Bᵀ (Aᵀ C) = C`
  have hBT : (B.toMatrix A.h A.h).transpose * (A.toMatrix A.h A.h).transpose = 1 := by
    rw [← Matrix.transpose_mul, inverse_right heps h, Matrix.transpose_one]
  calc C.toMatrix A.h A.h = 1 * C.toMatrix A.h A.h := (Matrix.one_mul _).symm
    _ = (B.toMatrix A.h A.h).transpose := by
        rw [← hBT, Matrix.mul_assoc, hT, Matrix.mul_one]

/-- … and on the arrays: `inverse Aᵀ` returns exactly `(inverse A).transpose`, shape and buffer. -/
theorem inverse_transpose_mat {eps eps' : K} (heps : 0 < eps) (heps' : 0 < eps') {A B C : Mat K}
    (h : inverse eps A = .ok B) (h' : inverse eps' A.transpose = .ok C) : C = B.transpose := by
  obtain ⟨hsq, hBh, hBw, _⟩ := inverse_shape h
  obtain ⟨_, hCh, hCw, hCwf⟩ := inverse_shape h'
  simp only [Mat.transpose_h] at hCh hCw
  apply mat_eq_of_toMatrix (n := A.h) hCwf B.transpose_WF (by omega) (by omega)
    (by simp [hBw]) (by simp [hBh])
  rw [inverse_transpose heps heps' h h', toMatrix_transpose B (by omega) (by omega)]

/-! ### (2) products -/

/-- **Product.**  If `A`, `B` (of the same size) and their product `A B` (the model's `dot`) are all
inverted, the inverse of the product is `B⁻¹ A⁻¹`, in this order. -/
theorem inverse_mul {e1 e2 e3 : K} (h1 : 0 < e1) (h2 : 0 < e2) (h3 : 0 < e3)
    {A B A' B' AB C : Mat K} (hn : B.h = A.h)
    (hA : inverse e1 A = .ok A') (hB : inverse e2 B = .ok B')
    (hAB : dot A B = .ok AB) (hC : inverse e3 AB = .ok C) :
    C.toMatrix A.h A.h = B'.toMatrix A.h A.h * A'.toMatrix A.h A.h := by
  obtain ⟨hsqA, _, _, _⟩ := inverse_shape hA
  obtain ⟨hsqB, _, _, _⟩ := inverse_shape hB
  obtain ⟨hsqAB, _, _, _⟩ := inverse_shape hC
  have hc : A.w = B.h := by omega
  obtain ⟨m, hm, hmh, _, _⟩ := (dot_shape_table A B).1 hc
  rw [hAB] at hm
  cases hm
  have hprod := dot_toMatrix A B AB hc hAB
  rw [← hsqB, hn, ← hsqA] at hprod
  have hABC := inverse_toMatrix h3 hC hmh
  rw [hprod] at hABC
  have hA' := inverse_left h1 hA
  have hB' : B'.toMatrix A.h A.h * B.toMatrix A.h A.h = 1 := by
    have := inverse_left h2 hB
    rwa [hn] at this
  -- `C = (B' A') (A B C) = B' A'`
  calc C.toMatrix A.h A.h
      = (B'.toMatrix A.h A.h * (A'.toMatrix A.h A.h * A.toMatrix A.h A.h) * B.toMatrix A.h A.h)
          * C.toMatrix A.h A.h := by rw [hA', Matrix.mul_one, hB', Matrix.one_mul]
    _ = B'.toMatrix A.h A.h * A'.toMatrix A.h A.h *
          (A.toMatrix A.h A.h * B.toMatrix A.h A.h * C.toMatrix A.h A.h) := by
        simp only [Matrix.mul_assoc]
    _ = B'.toMatrix A.h A.h * A'.toMatrix A.h A.h := by rw [hABC, Matrix.mul_one]

/-- … and on the arrays, with the `*` operator of the code on both sides:
`inverse (A * B) = inverse B * inverse A`. -/
theorem inverse_mul_mat {e1 e2 e3 : K} (h1 : 0 < e1) (h2 : 0 < e2) (h3 : 0 < e3)
    {A B A' B' C : Mat K} (hn : B.h = A.h)
    (hA : inverse e1 A = .ok A') (hB : inverse e2 B = .ok B')
    (hC : inverse e3 (mulOp A B) = .ok C) : C = mulOp B' A' := by
  obtain ⟨hsqA, hA'h, hA'w, _⟩ := inverse_shape hA
  obtain ⟨hsqB, hB'h, hB'w, _⟩ := inverse_shape hB
  obtain ⟨AB, hAB, hABh, hABw, _⟩ := (dot_shape_table A B).1 (by omega)
  rw [mulOp_agrees A B AB hAB] at hC
  obtain ⟨_, hCh, hCw, hCwf⟩ := inverse_shape hC
  obtain ⟨D, hD, hDh, hDw, hDwf⟩ := (dot_shape_table B' A').1 (by omega)
  rw [mulOp_agrees B' A' D hD]
  apply mat_eq_of_toMatrix (n := A.h) hCwf hDwf (by omega) (by omega) (by omega) (by omega)
  rw [inverse_mul h1 h2 h3 hn hA hB hAB hC]
  have := dot_toMatrix B' A' D (by omega) hD
  rw [hB'h, hB'w, hA'w, hn] at this
  exact this.symm

/-! ### (5) scaling -/

/-- **Scaling.**  If `A` and `c·A` (`c ≠ 0`, the model's scalar `Mul`) are both inverted, the second
result is `c⁻¹` times the first. -/
theorem inverse_smul_of_ok {eps eps' : K} (heps : 0 < eps) (heps' : 0 < eps') {A B C : Mat K}
    {c : K} (hc : c ≠ 0) (h : inverse eps A = .ok B) (h' : inverse eps' (smul A c) = .ok C) :
    C.toMatrix A.h A.h = c⁻¹ • B.toMatrix A.h A.h := by
  obtain ⟨hsq, _, _, _⟩ := inverse_shape h
  have hS : (smul A c).toMatrix A.h A.h * C.toMatrix A.h A.h = 1 :=
    inverse_toMatrix heps' h' rfl
  rw [toMatrix_smul A c (le_refl _) (by omega)] at hS
  have hBA := inverse_left heps h
  have hAC : A.toMatrix A.h A.h * C.toMatrix A.h A.h = c⁻¹ • (1 : Matrix (Fin A.h) (Fin A.h) K) := by
    rw [← hS, Matrix.smul_mul, smul_smul, inv_mul_cancel₀ hc, one_smul]
  calc C.toMatrix A.h A.h
      = (B.toMatrix A.h A.h * A.toMatrix A.h A.h) * C.toMatrix A.h A.h := by
        rw [hBA, Matrix.one_mul]
    _ = c⁻¹ • B.toMatrix A.h A.h := by
        rw [Matrix.mul_assoc, hAC, Matrix.mul_smul, Matrix.mul_one]

/-- … and on the arrays: `inverse (A * c) = inverse A * c⁻¹`. -/
theorem inverse_smul_of_ok_mat {eps eps' : K} (heps : 0 < eps) (heps' : 0 < eps') {A B C : Mat K}
    {c : K} (hc : c ≠ 0) (h : inverse eps A = .ok B) (h' : inverse eps' (smul A c) = .ok C) :
    C = smul B c⁻¹ := by
  obtain ⟨hsq, hBh, hBw, _⟩ := inverse_shape h
  obtain ⟨_, hCh, hCw, hCwf⟩ := inverse_shape h'
  have e1 : (smul A c).h = A.h := rfl
  apply mat_eq_of_toMatrix (n := A.h) (N := smul B c⁻¹) hCwf (Mat.tab_WF _ _ _) (by omega) (by omega) hBh hBw
  rw [inverse_smul_of_ok heps heps' hc h h', toMatrix_smul B c⁻¹ (by omega) (by omega)]

/-! ### (4) the identity -/

/-- whatever `inverse` returns for the `n × n` identity array is the identity array -/
theorem inverse_identity_unique {eps : K} (heps : 0 < eps) (n : Nat) {B : Mat K}
    (h : inverse eps (Mat.ident n) = .ok B) : B = Mat.ident n := by
  obtain ⟨_, hBh, hBw, hBwf⟩ := inverse_shape h
  simp only [Mat.ident_h] at hBh hBw
  apply mat_eq_of_toMatrix (n := n) (N := Mat.ident n) hBwf (Mat.tab_WF _ _ _) hBh hBw rfl rfl
  have h1 : (Mat.ident n : Mat K).toMatrix n n * B.toMatrix n n = 1 := inverse_toMatrix heps h rfl
  rw [toMatrix_ident, Matrix.one_mul] at h1
  rw [h1, toMatrix_ident]

omit [Inhabited K] [IsStrictOrderedRing K] in
/-- `|0| = 0` for the model's `sabs` -/
private theorem sabs_zero : sabs (0 : K) = 0 := by simp [sabs]

omit [Inhabited K] in
/-- `|1| = 1` for the model's `sabs` -/
private theorem sabs_one : sabs (1 : K) = 1 := by
  simp [sabs, not_lt.mpr (zero_le_one (α := K))]

/-- the pivot search on the identity stays on the diagonal: every entry below it is 0, and the
comparison is strict -/
private theorem pivotRow_ident {n i : Nat} (hi : i < n) :
    pivotRow (Mat.ident n : Mat K) n i = i := by
  unfold pivotRow
  rw [Mat.get_ident hi hi, if_pos rfl, sabs_one]
  suffices hsuf : ∀ l : List Nat, (∀ k ∈ l, i < k ∧ k < n) →
      l.foldl (fun (acc : Nat × K) k =>
        let v := sabs ((Mat.ident n : Mat K).get k i)
        if acc.2 < v then (k, v) else acc) (i, 1) = (i, 1) by
    rw [hsuf]
    intro k hk
    rw [List.mem_range'_1] at hk
    omega
  intro l
  induction l with
  | nil => intro _; rfl
  | cons k l ih =>
    intro hl
    have hk := hl k (List.mem_cons_self)
    rw [List.foldl_cons]
    have : (Mat.ident n : Mat K).get k i = 0 := by
      rw [Mat.get_ident hk.2 hi, if_neg (by omega)]
    simp only [this, sabs_zero, not_lt.mpr (zero_le_one (α := K)), if_false]
    exact ih (fun k' hk' => hl k' (List.mem_cons_of_mem _ hk'))

/-- one pass of the factorisation loop on `(1, 1)`: no exchange, pivot 1, all multipliers 0 -/
private theorem pluStep_ident {eps : K} (hle : eps ≤ 1) {n i : Nat} (hi : i < n) :
    pluStep eps n ((Mat.ident n : Mat K), (Mat.ident n : Mat K)) i
      = some (Mat.ident n, Mat.ident n) := by
  unfold pluStep pluSwap
  simp only [pivotRow_ident hi, if_true]
  rw [Mat.get_ident hi hi, if_pos rfl, sabs_one, if_neg (not_lt.mpr hle)]
  congr 2
  apply Mat.ext_get (M := pluElim n (Mat.ident n) i) (N := Mat.ident n)
    (Mat.tab_WF _ _ _) (Mat.tab_WF _ _ _) rfl rfl
  intro k j hk hj
  change k < n at hk
  change j < n at hj
  unfold pluElim
  rw [Mat.get_tab _ hk hj]
  by_cases hik : i < k
  · have hki : (Mat.ident n : Mat K).get k i = 0 := by
      rw [Mat.get_ident hk hi, if_neg (by omega)]
    simp only [hik, if_true, hki, zero_div, zero_mul, sub_zero]
    by_cases hji : j = i
    · subst hji; simp [hki]
    · simp [hji]
  · simp [hik]

/-- a state that every pass of the range maps to itself is the result of the loop -/
private theorem iter_fixed {σ : Type} (step : σ → Nat → Option σ) (s : σ) (k : Nat) :
    ∀ i, (∀ j, i ≤ j → j < i + k → step s j = some s) → iter step k i s = some s := by
  induction k with
  | zero => intro i _; rfl
  | succ k ih =>
    intro i h
    rw [iter, h i (le_refl _) (by omega)]
    exact ih (i + 1) (fun j h1 h2 => h j (by omega) (by omega))

/-- **The identity is its own inverse, at every size.**  For every threshold `0 < eps ≤ 1` (the
code's `f64::EPSILON` is one) the run on the `n × n` identity exchanges no row, finds the pivot 1 in
every pass and returns the identity array. -/
theorem inverse_identity {eps : K} (heps : 0 < eps) (hle : eps ≤ 1) (n : Nat) :
    inverse eps (Mat.ident n : Mat K) = .ok (Mat.ident n) := by
  have hit : iter (pluStep eps n) n 0 ((Mat.ident n : Mat K), (Mat.ident n : Mat K))
      = some (Mat.ident n, Mat.ident n) :=
    iter_fixed _ _ n 0 (fun j _ hj => pluStep_ident hle (by omega))
  have hplu : plu eps (Mat.ident n : Mat K) =
      .ok (splitL n (Mat.ident n), splitU n (Mat.ident n), Mat.ident n) := by
    unfold plu
    simp only [Mat.ident_h, Mat.ident_w, ne_eq, not_true_eq_false, if_false, hit]
  obtain ⟨B, hB⟩ := (inverse_outcome eps (Mat.ident n : Mat K)).2.2 rfl _ _ _ hplu
  rw [hB, inverse_identity_unique heps n hB]

/-! ### (6) determinant -/

/-- the determinant of the returned matrix is the reciprocal of the determinant of the input (and
`det B · det A = 1`) -/
theorem inverse_det_inv {eps : K} (heps : 0 < eps) {A B : Mat K} (h : inverse eps A = .ok B) :
    (B.toMatrix A.h A.h).det * (A.toMatrix A.h A.h).det = 1 ∧
    (B.toMatrix A.h A.h).det = ((A.toMatrix A.h A.h).det)⁻¹ := by
  have h1 := inverse_det heps h
  rw [mul_comm] at h1
  exact ⟨h1, eq_inv_of_mul_eq_one_left h1⟩

/-! ### acceptance is *not* scale invariant (F-C10-abs-scale), and non-vacuity over `ℚ`

(`decide +kernel` evaluates the model inside the kernel; no axiom is involved.) -/

section examples

/-- the 2×2 exchange matrix: regular, condition number 1 -/
def swapQ : Mat ℚ := ⟨2, 2, #[0, 1, 1, 0]⟩

/-- **`inverse_smul_of_ok` cannot be strengthened to "`c·A` is accepted whenever `A` is"**: with
`eps = f64::EPSILON` the model inverts the exchange matrix (to itself) and refuses its copy scaled by
`c = 2⁻⁵³` as `SingularMatrix`, because the pivot threshold is absolute (the documented open finding
F-C10-abs-scale; the same matrices as `SV.Props.C10Findings.tinySwap`). -/
theorem smul_acceptance_not_invariant :
    arrayOf (inverse epsQ swapQ) = some (2, 2, swapQ.a) ∧
    (match inverse epsQ (smul swapQ (1 / 9007199254740992)) with
      | .err .singular => true | _ => false) = true := by
  constructor <;> decide +kernel

/-- an outcome whose array is `some …` is `ok` of a matrix -/
private theorem ok_of_isSome {r : Outcome InvErr (Mat ℚ)} (h : (arrayOf r).isSome = true) :
    ∃ B, r = .ok B := by
  cases r with
  | ok v => exact ⟨v, rfl⟩
  | err e => simp [arrayOf] at h
  | panic => simp [arrayOf] at h

/-- the hypotheses of `inverse_transpose` are met (`A3` has the 3-cycle as pivoting permutation, its
transpose pivots differently), and the second run returns the transposed array -/
example : arrayOf (inverse epsQ A3.transpose) =
    some (3, 3, #[1/2, 1/2, -1/4, 1/4, 3/4, 3/8, 1/4, -1/4, -1/8]) := by decide +kernel
example : ∃ B C, inverse epsQ A3 = .ok B ∧ inverse epsQ A3.transpose = .ok C ∧ C = B.transpose := by
  obtain ⟨B, hB⟩ := inverse_ok_example
  obtain ⟨C, hC⟩ := ok_of_isSome (r := inverse epsQ A3.transpose) (by decide +kernel)
  exact ⟨B, C, hB, hC, inverse_transpose_mat epsQ_pos epsQ_pos hB hC⟩

/-- the hypotheses of `inverse_mul_mat` are met by `A3`, `swap ⊕ 1` and their product -/
example : ∃ A' B' C, inverse epsQ A3 = .ok A' ∧
    inverse epsQ ⟨3, 3, #[0, 1, 0, 1, 0, 0, 0, 0, 2]⟩ = .ok B' ∧
    inverse epsQ (mulOp A3 ⟨3, 3, #[0, 1, 0, 1, 0, 0, 0, 0, 2]⟩) = .ok C ∧ C = mulOp B' A' := by
  obtain ⟨A', hA⟩ := inverse_ok_example
  obtain ⟨B', hB⟩ := ok_of_isSome
    (r := inverse epsQ ⟨3, 3, #[0, 1, 0, 1, 0, 0, 0, 0, 2]⟩) (by decide +kernel)
  obtain ⟨C, hC⟩ := ok_of_isSome
    (r := inverse epsQ (mulOp A3 ⟨3, 3, #[0, 1, 0, 1, 0, 0, 0, 0, 2]⟩)) (by decide +kernel)
  exact ⟨A', B', C, hA, hB, hC,
    inverse_mul_mat (A := A3) (B := ⟨3, 3, #[0, 1, 0, 1, 0, 0, 0, 0, 2]⟩) epsQ_pos epsQ_pos epsQ_pos
      (by decide) hA hB hC⟩

/-- the hypotheses of `inverse_smul_of_ok_mat` are met by `A3` and `A3 * (-4)` -/
example : ∃ B C, inverse epsQ A3 = .ok B ∧ inverse epsQ (smul A3 (-4)) = .ok C ∧
    C = smul B (-4)⁻¹ := by
  obtain ⟨B, hB⟩ := inverse_ok_example
  obtain ⟨C, hC⟩ := ok_of_isSome (r := inverse epsQ (smul A3 (-4))) (by decide +kernel)
  exact ⟨B, C, hB, hC, inverse_smul_of_ok_mat epsQ_pos epsQ_pos (by norm_num) hB hC⟩

/-- `inverse_identity` at the code's threshold, and the same run evaluated by the kernel -/
example (n : Nat) : inverse epsQ (Mat.ident n : Mat ℚ) = .ok (Mat.ident n) :=
  inverse_identity epsQ_pos (by norm_num [epsQ]) n
example : arrayOf (inverse epsQ (Mat.ident 3 : Mat ℚ)) = some (3, 3, #[1, 0, 0, 0, 1, 0, 0, 0, 1]) := by
  decide +kernel

/-- the hypothesis of `inverse_unique_mat` is satisfiable: `A3 · X` is the identity array for the
array `X` of `SV.Props.C10`'s example -/
example : (dot A3 ⟨3, 3, #[1/2, 1/4, 1/4, 1/2, 3/4, -1/4, -1/4, 3/8, -1/8]⟩).toOption.map
    (fun m => (m.h, m.w, m.a)) = some (3, 3, (Mat.ident 3 : Mat ℚ).a) := by
  decide +kernel

end examples

end SV.Props.C10Laws
