import SV.Model.Poly
import SV.Lemmas.Rounding
/-!
Helper lemmas for the rounding analysis of `SV.Poly` at the rounding scalar `Fl M`:

* `powiLoop_fac`, `powi_nat_fac` — the square-and-multiply loop of `f64::powi` computes
  `x^k · t` where `t` is a product of **exactly `k`** rounding factors.  (Each squaring
  `a ← a·a` commits one rounding, but that factor is itself squared by the later squarings; with the
  roundings of the multiplications into the result the count for the exponent `b = 2q + e` obeys
  `L(b) = e + q + L(q)`, `L(0) = 0`, whose solution is `L(b) = b`.  The loop performs only about
  `2·log₂ k` multiplications, yet its worst-case relative error is the `γ_k` of repeated
  multiplication — the model charges `1·a` one rounding, IEEE would give `γ_{k-1}`.)
* `evalSimpleFrom_weights` — the accumulation `acc += c_k · powi(x, k)` in weights form.
-/
namespace SV.Poly
open SV Finset

variable {M : FlModel}

/-- the loop of `powi` from accumulator `r`, base `a`, remaining exponent `b`: `r·a^b·t` with `b`
rounding factors in `t` -/
theorem powiLoop_fac (fuel : ℕ) (a : Fl M) (b : ℕ) (r : Fl M) (hf : b < fuel) :
    ∃ t, M.Fac b t ∧ (powiLoop fuel a b r).val = r.val * a.val ^ b * t := by
  induction fuel generalizing a b r with
  | zero => omega
  | succ fuel ih =>
    unfold powiLoop
    simp only
    have hdecomp : b = 2 * (b / 2) + b % 2 := (Nat.div_add_mod b 2).symm
    have he : b % 2 < 2 := Nat.mod_lt _ (by omega)
    have hq : b / 2 ≤ b := Nat.div_le_self b 2
    generalize b / 2 = q at *
    generalize b % 2 = e at *
    subst hdecomp
    obtain ⟨d, hd, hmul⟩ := Fl.mul_fac r a
    by_cases h2 : q = 0
    · subst h2
      rw [if_pos rfl]
      by_cases hodd : e = 1
      · subst hodd
        rw [if_pos rfl]
        exact ⟨d, hd, by rw [hmul]; simp⟩
      · have h0 : e = 0 := by omega
        subst h0
        exact ⟨1, FlModel.fac_zero_one, by simp⟩
    · rw [if_neg h2]
      obtain ⟨s, hs, hsq⟩ := Fl.mul_fac a a
      by_cases hodd : e = 1
      · subst hodd
        rw [if_pos rfl]
        obtain ⟨t', ht', hv⟩ := ih (a * a) q (r * a) (by omega)
        refine ⟨d * s ^ q * t', ?_, ?_⟩
        · have := (hd.mul (hs.pow q)).mul ht'
          exact this.mono (by omega)
        · rw [hv, hmul, hsq]; ring
      · have h0 : e = 0 := by omega
        subst h0
        rw [if_neg (by omega)]
        obtain ⟨t', ht', hv⟩ := ih (a * a) q r (by omega)
        refine ⟨s ^ q * t', ?_, ?_⟩
        · have := (hs.pow q).mul ht'
          exact this.mono (by omega)
        · rw [hv, hsq]; ring

/-- `x.powi(k)` for a non-negative exponent: `x^k · t`, `t` a product of `k` rounding factors -/
theorem powi_nat_fac (x : Fl M) (k : ℕ) :
    ∃ t, M.Fac k t ∧ (powi x (k : Int)).val = x.val ^ k * t := by
  unfold powi
  simp only [Int.natAbs_natCast]
  have hneg : ¬ ((k : Int) < 0) := by omega
  rw [if_neg hneg]
  obtain ⟨t, ht, hv⟩ := powiLoop_fac (k + 1) x k 1 (Nat.lt_succ_self k)
  exact ⟨t, ht, by rw [hv]; simp⟩

/-- one term `c * x.powi(k)`: `k + 1` rounding factors -/
theorem term_fac (c x : Fl M) (k : ℕ) :
    ∃ t, M.Fac (k + 1) t ∧ (c * powi x (k : Int)).val = c.val * x.val ^ k * t := by
  obtain ⟨p, hp, hpow⟩ := powi_nat_fac x k
  obtain ⟨m, hm, hmul⟩ := Fl.mul_fac c (powi x (k : Int))
  exact ⟨p * m, hp.mul hm, by rw [hmul, hpow]; ring⟩

/-- The loop of `eval_simple_polynomial` from accumulator `acc` and first exponent `k`:
`acc·t₀ + Σ cᵢ·x^{k+i}·tᵢ`.  Term `i` carries `k + i` roundings from `powi`, one from the
multiplication by the coefficient and `len − i` from the additions: `k + len + 1` in all,
independently of `i`. -/
theorem evalSimpleFrom_weights (x : Fl M) (cs : List (Fl M)) (k : ℕ) (acc : Fl M) :
    ∃ t0 : ℝ, ∃ t : ℕ → ℝ, M.Fac cs.length t0 ∧
      (∀ i, i < cs.length → M.Fac (k + cs.length + 1) (t i)) ∧
      (evalSimpleFrom x k cs acc).val
        = acc.val * t0 + ∑ i ∈ range cs.length, (cs.getD i 0).val * x.val ^ (k + i) * t i := by
  induction cs generalizing k acc with
  | nil =>
    exact ⟨1, fun _ => 1, FlModel.fac_zero_one, fun i hi => by simp at hi, by simp [evalSimpleFrom]⟩
  | cons c cs ih =>
    obtain ⟨p, hp, hterm⟩ := term_fac c x k
    obtain ⟨d, hd, hadd⟩ := Fl.add_fac acc (c * powi x (k : Int))
    obtain ⟨t0, t, ht0, ht, hval⟩ := ih (k + 1) (acc + c * powi x (k : Int))
    refine ⟨d * t0, fun i => match i with | 0 => p * d * t0 | i + 1 => t i, ?_, ?_, ?_⟩
    · rw [List.length_cons, Nat.add_comm]; exact hd.mul ht0
    · intro i hi
      cases i with
      | zero =>
        simp only [List.length_cons]
        exact ((hp.mul hd).mul ht0).mono (by omega)
      | succ i =>
        simp only [List.length_cons]
        exact (ht i (by simpa using hi)).mono (by omega)
    · rw [evalSimpleFrom, hval, hadd, hterm, List.length_cons, Finset.sum_range_succ']
      simp only [List.getD_cons_succ, List.getD_cons_zero, Nat.add_zero]
      have hidx : ∀ i, k + 1 + i = k + (i + 1) := fun i => by omega
      simp only [hidx]
      ring

end SV.Poly
