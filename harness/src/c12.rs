//! C12 — `Arr2D<i64>` behaves like a plain grid under every sequence of operations.
//!
//! request  = `[last] <constructor> <n> <op>*`    (one constructor, then n <= 40 operations)
//! answer   = `<outcome> <observations> | <outcome> <observations> | ...`  (after the constructor and
//!            after EVERY operation), or `err:<kind>` / `panic` when the constructor fails.
//!            With the prefix `last` only the outcomes are printed for all but the final operation
//!            (used by the breadth-first generator, whose requests of two or more operations extend
//!            a path that is itself a request of the generator — by induction every prefix is
//!            observed in full by an earlier request; the oracle still checks every step).
//!
//! The oracle is `OGrid`, a plain `Vec<Vec<i64>>` with explicit height/width, written from the
//! property statement (not from the Lean model); it undergoes the same operations and every
//! observation of the real array is checked against it.  Every operation runs on the real array
//! under `catch`; after a failure (error value or panic) the array must still equal the copy taken
//! before the operation (derived `PartialEq` of `Arr2D`: buffer, height and width).
use crate::util::*;
use spindalis::utils::{Arr2D, Arr2DError};
use std::collections::HashSet;
use std::fmt::Write as _;

const CAP: usize = 64; // observation loops never run past 64 rows/columns (both sides agree on this)
const I32_MIN: i64 = i32::MIN as i64;
const I32_MAX: i64 = i32::MAX as i64;

// ------------------------------------------------------------------------------------------ requests

#[derive(Clone, Debug, PartialEq)]
pub enum Ctor {
    New,
    Full(i64, usize, usize),
    Ident(usize),
    Nested(Vec<Vec<i64>>),
    NestedRef(u8, Vec<Vec<i64>>),
    Array(usize, usize, Vec<i64>),
    Flat(Vec<i64>, i64, usize, usize),
}

#[derive(Clone, Debug, PartialEq)]
pub enum Op {
    Reshape(usize),
    Transpose,
    TransposeMut,
    Swap(usize, usize),
    Set(usize, usize, i64),
    Set2(usize, usize, i64),
    SetRow(usize, Vec<i64>),
    FillRow(usize, i64),
    RowsMut { via: u8, code: u8, a: i64, b: i64 },
    Map { code: u8, a: i64, b: i64 },
    Clone,
    Convert(u8),
}

#[derive(Clone, Copy, Debug, PartialEq)]
pub enum Kind {
    Ok,
    Err(&'static str),
    Panic,
}
impl Kind {
    fn show(self) -> String {
        match self {
            Kind::Ok => "ok".into(),
            Kind::Err(k) => format!("err:{k}"),
            Kind::Panic => "panic".into(),
        }
    }
}

fn fmt_rows(rows: &[Vec<i64>]) -> String {
    let mut s = format!("{}", rows.len());
    for r in rows {
        write!(s, " {}", r.len()).unwrap();
        for x in r {
            write!(s, " {x}").unwrap();
        }
    }
    s
}
fn fmt_vec(v: &[i64]) -> String {
    let mut s = format!("{}", v.len());
    for x in v {
        write!(s, " {x}").unwrap();
    }
    s
}

impl Ctor {
    pub fn req(&self) -> String {
        match self {
            Ctor::New => "new".into(),
            Ctor::Full(v, h, w) => format!("full {v} {h} {w}"),
            Ctor::Ident(n) => format!("ident {n}"),
            Ctor::Nested(rows) => format!("nested {}", fmt_rows(rows)),
            Ctor::NestedRef(mode, rows) => format!("nestedref {mode} {}", fmt_rows(rows)),
            Ctor::Array(m, n, d) => {
                let mut s = format!("array {m} {n}");
                for x in d {
                    write!(s, " {x}").unwrap();
                }
                s
            }
            Ctor::Flat(d, v, h, w) => format!("flat {} {v} {h} {w}", fmt_vec(d)),
        }
    }
    fn parse(t: &mut Toks) -> Ctor {
        let rows = |t: &mut Toks| -> Vec<Vec<i64>> {
            let n = t.usize();
            (0..n).map(|_| t.vec_i64()).collect()
        };
        match t.tok() {
            "new" => Ctor::New,
            "full" => {
                let v = t.i64();
                let h = t.usize();
                let w = t.usize();
                Ctor::Full(v, h, w)
            }
            "ident" => Ctor::Ident(t.usize()),
            "nested" => Ctor::Nested(rows(t)),
            "nestedref" => {
                let mode = t.usize() as u8;
                Ctor::NestedRef(mode, rows(t))
            }
            "array" => {
                let m = t.usize();
                let n = t.usize();
                let d = (0..m * n).map(|_| t.i64()).collect();
                Ctor::Array(m, n, d)
            }
            "flat" => {
                let d = t.vec_i64();
                let v = t.i64();
                let h = t.usize();
                let w = t.usize();
                Ctor::Flat(d, v, h, w)
            }
            other => panic!("unknown constructor {other}"),
        }
    }
}

impl Op {
    pub fn req(&self) -> String {
        match self {
            Op::Reshape(h) => format!("reshape {h}"),
            Op::Transpose => "transpose".into(),
            Op::TransposeMut => "transposemut".into(),
            Op::Swap(a, b) => format!("swap {a} {b}"),
            Op::Set(r, c, v) => format!("set {r} {c} {v}"),
            Op::Set2(r, c, v) => format!("set2 {r} {c} {v}"),
            Op::SetRow(r, vs) => format!("setrow {r} {}", fmt_vec(vs)),
            Op::FillRow(r, v) => format!("fillrow {r} {v}"),
            Op::RowsMut { via, code, a, b } => format!("rowsmut {via} {code} {a} {b}"),
            Op::Map { code, a, b } => format!("map {code} {a} {b}"),
            Op::Clone => "clone".into(),
            Op::Convert(m) => format!("convert {m}"),
        }
    }
    fn parse(t: &mut Toks) -> Op {
        match t.tok() {
            "reshape" => Op::Reshape(t.usize()),
            "transpose" => Op::Transpose,
            "transposemut" => Op::TransposeMut,
            "swap" => {
                let a = t.usize();
                let b = t.usize();
                Op::Swap(a, b)
            }
            "set" => {
                let r = t.usize();
                let c = t.usize();
                Op::Set(r, c, t.i64())
            }
            "set2" => {
                let r = t.usize();
                let c = t.usize();
                Op::Set2(r, c, t.i64())
            }
            "setrow" => {
                let r = t.usize();
                Op::SetRow(r, t.vec_i64())
            }
            "fillrow" => {
                let r = t.usize();
                Op::FillRow(r, t.i64())
            }
            "rowsmut" => {
                let via = t.usize() as u8;
                let code = t.usize() as u8;
                let a = t.i64();
                let b = t.i64();
                Op::RowsMut { via, code, a, b }
            }
            "map" => {
                let code = t.usize() as u8;
                let a = t.i64();
                let b = t.i64();
                Op::Map { code, a, b }
            }
            "clone" => Op::Clone,
            "convert" => Op::Convert(t.usize() as u8),
            other => panic!("unknown operation {other}"),
        }
    }
}

pub fn request(c: &Ctor, ops: &[Op]) -> String {
    let mut s = c.req();
    write!(s, " {}", ops.len()).unwrap();
    for o in ops {
        s.push(' ');
        s.push_str(&o.req());
    }
    s
}

/// element function of a `map` request
fn map_fn(code: u8, a: i64, b: i64, x: i64) -> i64 {
    match code {
        0 => x.wrapping_add(a),
        1 => x.wrapping_neg(),
        2 => a.wrapping_mul(x).wrapping_add(b) % 1000,
        _ => a,
    }
}
/// row rewriter of a `rowsmut` request (works on any mutable slice, so the oracle uses it on its
/// own `Vec` rows)
fn row_fn(code: u8, a: i64, b: i64, r: usize, row: &mut [i64]) {
    match code {
        0 => {
            if r as i64 == a {
                for x in row.iter_mut() {
                    *x = x.wrapping_add(b);
                }
            }
        }
        1 => {
            for (c, x) in row.iter_mut().enumerate() {
                *x = x.wrapping_add(a.wrapping_mul(r as i64)).wrapping_add(b.wrapping_mul(c as i64));
            }
        }
        2 => row.reverse(),
        _ => {
            if !row.is_empty() {
                let k = (r + a.max(0) as usize) % row.len();
                row.rotate_left(k);
            }
        }
    }
}

// ------------------------------------------------------------------------------------------ the real code

fn err_kind(e: &Arr2DError) -> &'static str {
    match e {
        Arr2DError::InconsistentRowLengths => "rows",
        Arr2DError::InvalidReshape { .. } => "reshape",
        Arr2DError::InvalidShape { .. } => "shape",
        Arr2DError::ConversionFailed { .. } => "conv",
        _ => "other",
    }
}

fn from_arr<const M: usize, const N: usize>(d: &[i64]) -> Arr2D<i64> {
    let mut a = [[0i64; N]; M];
    for r in 0..M {
        for c in 0..N {
            a[r][c] = d[r * N + c];
        }
    }
    Arr2D::from(&a)
}
macro_rules! arr_cols {
    ($m:literal, $n:expr, $d:expr) => {
        match $n {
            0 => from_arr::<$m, 0>($d),
            1 => from_arr::<$m, 1>($d),
            2 => from_arr::<$m, 2>($d),
            3 => from_arr::<$m, 3>($d),
            4 => from_arr::<$m, 4>($d),
            5 => from_arr::<$m, 5>($d),
            6 => from_arr::<$m, 6>($d),
            _ => panic!("array literal wider than 6"),
        }
    };
}
fn build_array(m: usize, n: usize, d: &[i64]) -> Arr2D<i64> {
    match m {
        0 => arr_cols!(0, n, d),
        1 => arr_cols!(1, n, d),
        2 => arr_cols!(2, n, d),
        3 => arr_cols!(3, n, d),
        4 => arr_cols!(4, n, d),
        5 => arr_cols!(5, n, d),
        6 => arr_cols!(6, n, d),
        _ => panic!("array literal taller than 6"),
    }
}

/// run a constructor of the real type; `Err(Kind)` is an error value or a panic
fn build_real(c: &Ctor) -> Result<Arr2D<i64>, Kind> {
    let c = c.clone();
    let r = catch(move || -> Result<Arr2D<i64>, Arr2DError> {
        match c {
            Ctor::New => Ok(Arr2D::new()),
            Ctor::Full(v, h, w) => Ok(Arr2D::full(v, h, w)),
            Ctor::Ident(n) => Ok(Arr2D::<i64>::identity(n)),
            Ctor::Nested(rows) => Arr2D::try_from(rows),
            Ctor::NestedRef(0, rows) => Arr2D::<i64>::try_from(&rows),
            Ctor::NestedRef(_, rows) => {
                let a32: Arr2D<i32> = Arr2D::try_from(&rows)?;
                Arr2D::<i64>::try_from(&a32)
            }
            Ctor::Array(m, n, d) => Ok(build_array(m, n, &d)),
            Ctor::Flat(d, v, h, w) => {
                // alternate between the accepted container kinds
                if d.len() % 2 == 0 { Arr2D::from_flat(&d, v, h, w) } else { Arr2D::from_flat(d.as_slice(), v, h, w) }
            }
        }
    });
    match r {
        None => Err(Kind::Panic),
        Some(Err(e)) => Err(Kind::Err(err_kind(&e))),
        Some(Ok(a)) => Ok(a),
    }
}

/// apply one operation to the real array, in place, under `catch`
fn apply_real(arr: &mut Arr2D<i64>, op: &Op) -> Kind {
    let r = catch(|| -> Result<(), Arr2DError> {
        match op {
            Op::Reshape(h) => arr.reshape(*h)?,
            Op::Transpose => {
                let t = arr.transpose();
                *arr = t;
            }
            Op::TransposeMut => arr.transpose_mut(),
            Op::Swap(a, b) => arr.swap_rows(*a, *b),
            Op::Set(r, c, v) => arr[(*r, *c)] = *v,
            Op::Set2(r, c, v) => arr[*r][*c] = *v,
            Op::SetRow(r, vs) => arr[*r].copy_from_slice(vs),
            Op::FillRow(r, v) => arr[*r].fill(*v),
            Op::RowsMut { via, code, a, b } => {
                if *via == 0 {
                    for (i, row) in arr.rows_mut().enumerate() {
                        row_fn(*code, *a, *b, i, row);
                    }
                } else {
                    for (i, row) in (&mut *arr).into_iter().enumerate() {
                        row_fn(*code, *a, *b, i, row);
                    }
                }
            }
            Op::Map { code, a, b } => {
                let m = arr.map(|x| map_fn(*code, *a, *b, *x));
                *arr = m;
            }
            Op::Clone => {
                // the whole Clone protocol, alternately: `clone()` / `clone_from` into an existing LARGER array (the
                // same grid either way; the second object may keep the larger buffer: another object history for
                // the operations that follow)
                if (arr.height + arr.width) % 2 == 0 {
                    let c = arr.clone();
                    *arr = c;
                } else {
                    let mut d = Arr2D::full(-7i64, arr.height + 1, arr.width + 2);
                    d.clone_from(arr);
                    *arr = d;
                }
            }
            Op::Convert(0) => {
                let c: Arr2D<i64> = Arr2D::try_from(&*arr)?;
                *arr = c;
            }
            Op::Convert(_) => {
                let c: Arr2D<i32> = Arr2D::try_from(&*arr)?;
                let d: Arr2D<i64> = Arr2D::try_from(&c)?;
                *arr = d;
            }
        }
        Ok(())
    });
    match r {
        None => Kind::Panic,
        Some(Err(e)) => Kind::Err(err_kind(&e)),
        Some(Ok(())) => Kind::Ok,
    }
}

// ------------------------------------------------------------------------------------------ the oracle grid

/// A plain grid: `rows.len() == h`, every row has `w` items.  (`h`, `w` are kept explicitly because
/// a grid without rows still has a width.)
#[derive(Clone, Debug, PartialEq)]
pub struct OGrid {
    pub h: usize,
    pub w: usize,
    pub rows: Vec<Vec<i64>>,
}

impl OGrid {
    fn filled(v: i64, h: usize, w: usize) -> OGrid {
        OGrid { h, w, rows: vec![vec![v; w]; h] }
    }
    /// `Err(kinds)`: the constructor must fail with one of these kinds
    fn build(c: &Ctor) -> Result<OGrid, Vec<Kind>> {
        match c {
            Ctor::New => Ok(OGrid::filled(0, 0, 0)),
            Ctor::Full(v, h, w) => Ok(OGrid::filled(*v, *h, *w)),
            Ctor::Ident(n) => {
                let mut g = OGrid::filled(0, *n, *n);
                for i in 0..*n {
                    g.rows[i][i] = 1;
                }
                Ok(g)
            }
            Ctor::Nested(rows) | Ctor::NestedRef(_, rows) => {
                if rows.is_empty() {
                    return Ok(OGrid::filled(0, 0, 0));
                }
                let w = rows[0].len();
                let ragged = rows.iter().any(|r| r.len() != w);
                let narrow = matches!(c, Ctor::NestedRef(m, _) if *m != 0);
                let unconvertible = narrow && rows.iter().flatten().any(|x| *x < I32_MIN || *x > I32_MAX);
                let mut kinds = vec![];
                if ragged {
                    kinds.push(Kind::Err("rows"));
                }
                if unconvertible {
                    kinds.push(Kind::Err("conv")); // which of the two is reported first is not specified
                }
                if !kinds.is_empty() {
                    return Err(kinds);
                }
                Ok(OGrid { h: rows.len(), w, rows: rows.clone() })
            }
            Ctor::Array(m, n, d) => Ok(OGrid { h: *m, w: *n, rows: (0..*m).map(|r| d[r * n..(r + 1) * n].to_vec()).collect() }),
            Ctor::Flat(d, v, h, w) => {
                if d.len() > h * w || h * w == 0 {
                    return Err(vec![Kind::Err("shape")]);
                }
                let mut g = OGrid::filled(*v, *h, *w);
                for (k, x) in d.iter().enumerate() {
                    g.rows[k / w][k % w] = *x;
                }
                Ok(g)
            }
        }
    }
    /// the same operation on the plain grid; a failing operation changes nothing
    fn apply(&mut self, op: &Op) -> Kind {
        match op {
            Op::Reshape(nh) => {
                let size = self.h * self.w;
                if *nh == 0 || size % *nh != 0 {
                    return Kind::Err("reshape");
                }
                let nw = size / *nh;
                let flat: Vec<i64> = self.rows.iter().flatten().copied().collect();
                self.rows = (0..*nh).map(|r| flat[r * nw..(r + 1) * nw].to_vec()).collect();
                self.h = *nh;
                self.w = nw;
            }
            Op::Transpose | Op::TransposeMut => {
                let rows = (0..self.w).map(|c| (0..self.h).map(|r| self.rows[r][c]).collect()).collect();
                self.rows = rows;
                std::mem::swap(&mut self.h, &mut self.w);
            }
            Op::Swap(a, b) => {
                if *a >= self.h || *b >= self.h {
                    return Kind::Panic;
                }
                self.rows.swap(*a, *b);
            }
            Op::Set(r, c, v) | Op::Set2(r, c, v) => {
                if *r >= self.h || *c >= self.w {
                    return Kind::Panic;
                }
                self.rows[*r][*c] = *v;
            }
            Op::SetRow(r, vs) => {
                if *r >= self.h || vs.len() != self.w {
                    return Kind::Panic;
                }
                self.rows[*r] = vs.clone();
            }
            Op::FillRow(r, v) => {
                if *r >= self.h {
                    return Kind::Panic;
                }
                self.rows[*r] = vec![*v; self.w];
            }
            Op::RowsMut { code, a, b, .. } => {
                for (i, row) in self.rows.iter_mut().enumerate() {
                    row_fn(*code, *a, *b, i, row);
                }
            }
            Op::Map { code, a, b } => {
                for x in self.rows.iter_mut().flatten() {
                    *x = map_fn(*code, *a, *b, *x);
                }
            }
            Op::Clone | Op::Convert(0) => {}
            Op::Convert(_) => {
                if self.rows.iter().flatten().any(|x| *x < I32_MIN || *x > I32_MAX) {
                    return Kind::Err("conv");
                }
            }
        }
        Kind::Ok
    }
    /// the text layout of the documentation example: right-aligned columns, `[[ a, b ]\n [ c, d ]]`
    fn text(&self) -> String {
        if self.h == 0 || self.w == 0 {
            return "[]\n".into();
        }
        let widths: Vec<usize> =
            (0..self.w).map(|c| (0..self.h).map(|r| self.rows[r][c].to_string().chars().count()).max().unwrap()).collect();
        let mut s = String::new();
        for r in 0..self.h {
            s.push_str(if r == 0 { "[[ " } else { " [ " });
            let items: Vec<String> = (0..self.w)
                .map(|c| {
                    let t = self.rows[r][c].to_string();
                    format!("{}{}", " ".repeat(widths[c] - t.chars().count()), t)
                })
                .collect();
            s.push_str(&items.join(", "));
            s.push_str(if r + 1 == self.h { " ]]" } else { " ]\n" });
        }
        s
    }
}

/// three nested vectors that differ from `t` (the Lean driver builds the same ones)
fn perturbations(t: &[Vec<i64>]) -> [Vec<Vec<i64>>; 3] {
    let mut p1 = t.to_vec();
    match p1.last_mut().and_then(|r| r.last_mut()) {
        Some(x) => *x = x.wrapping_add(1),
        None => p1.push(vec![]),
    }
    let mut p2 = t.to_vec();
    match p2.last_mut() {
        Some(r) => r.push(0),
        None => p2.push(vec![0]),
    }
    let p3 = if t.is_empty() { vec![vec![], vec![]] } else { t[..t.len() - 1].to_vec() };
    [p1, p2, p3]
}

fn fnv(s: &str) -> (usize, u64) {
    let mut h: u64 = 14695981039346656037;
    let mut n = 0;
    for c in s.chars() {
        h = (h ^ c as u64).wrapping_mul(1099511628211);
        n += 1;
    }
    (n, h)
}

// ------------------------------------------------------------------------------------------ observation

struct Check {
    fails: Vec<String>,
}
impl Check {
    fn that(&mut self, ok: bool, what: impl FnOnce() -> String) {
        if !ok && self.fails.len() < 3 {
            self.fails.push(what());
        }
    }
}

fn tok_i(v: Option<i64>) -> String {
    match v {
        Some(x) => x.to_string(),
        None => "P".into(),
    }
}
fn tok_opt(v: Option<Option<i64>>) -> String {
    match v {
        Some(Some(x)) => x.to_string(),
        Some(None) => "none".into(),
        None => "P".into(),
    }
}
fn tok_b(v: Option<bool>) -> String {
    match v {
        Some(true) => "1".into(),
        Some(false) => "0".into(),
        None => "P".into(),
    }
}

/// Observe the real array through every public accessor (the token layout is the one of
/// `SV.C12.Driver.observe`) and check each value against the plain grid.
fn observe(arr: &Arr2D<i64>, g: &OGrid, ck: &mut Check, heavy: bool) -> String {
    let mut s = String::with_capacity(512);
    let (h, w) = arr.shape();
    write!(s, "S {h} {w} {} {}", arr.size(), arr.is_empty() as u8).unwrap();
    ck.that((h, w) == (g.h, g.w), || format!("shape ({h},{w}) but the grid is ({},{})", g.h, g.w));
    ck.that((arr.height, arr.width) == (h, w), || "shape() differs from the public fields".into());
    ck.that(arr.size() == g.h * g.w, || format!("size {} but the grid has {} cells", arr.size(), g.h * g.w));
    ck.that(arr.is_empty() == (g.h == 0 || g.w == 0), || "is_empty wrong".into());
    let cell = |r: usize, c: usize| g.rows.get(r).and_then(|row| row.get(c)).copied();
    let (hc, wc) = (h.min(CAP), w.min(CAP));
    s.push_str(" A");
    for r in 0..hc {
        for c in 0..wc {
            let v = catch(|| arr[(r, c)]);
            ck.that(v.is_some() && v == cell(r, c), || format!("arr[({r},{c})] = {v:?}, grid has {:?}", cell(r, c)));
            write!(s, " {}", tok_i(v)).unwrap();
        }
    }
    s.push_str(" B");
    for r in 0..hc {
        for c in 0..wc {
            let v = catch(|| arr[r][c]);
            ck.that(v.is_some() && v == cell(r, c), || format!("arr[{r}][{c}] = {v:?}, grid has {:?}", cell(r, c)));
            write!(s, " {}", tok_i(v)).unwrap();
        }
    }
    s.push_str(" G");
    for r in 0..hc {
        let v = catch(|| arr[r].to_vec());
        ck.that(v.as_ref() == g.rows.get(r), || format!("arr[{r}] = {v:?}, grid row {:?}", g.rows.get(r)));
        match v {
            Some(row) => write!(s, " {}", fmt_vec(&row)).unwrap(),
            None => s.push_str(" P"),
        }
    }
    let it = catch(|| arr.rows().map(|r| r.to_vec()).collect::<Vec<_>>());
    ck.that(it.as_ref() == Some(&g.rows), || format!("rows() yields {it:?}, grid rows {:?}", g.rows));
    match &it {
        Some(rows) => write!(s, " R {}", fmt_rows(rows)).unwrap(),
        None => s.push_str(" R P"),
    }
    let it2 = catch(|| {
        let mut v = Vec::new();
        for row in arr {
            v.push(row.to_vec());
        }
        v
    });
    ck.that(it2.as_ref() == Some(&g.rows), || format!("`for row in &arr` yields {it2:?}, grid rows {:?}", g.rows));
    match &it2 {
        Some(rows) => write!(s, " I {}", fmt_rows(rows)).unwrap(),
        None => s.push_str(" I P"),
    }
    let (mx, mn) = (catch(|| arr.max()), catch(|| arr.min()));
    let (gmx, gmn) = (g.rows.iter().flatten().copied().max(), g.rows.iter().flatten().copied().min());
    ck.that(mx == Some(gmx), || format!("max {mx:?}, grid {gmx:?}"));
    ck.that(mn == Some(gmn), || format!("min {mn:?}, grid {gmn:?}"));
    write!(s, " M {} {}", tok_opt(mx), tok_opt(mn)).unwrap();
    // equality against nested vectors, both directions; `t` is the plain grid's own nested vector
    let t = &g.rows;
    let [p1, p2, p3] = perturbations(t);
    let q = [
        catch(|| *arr == *t),
        catch(|| *t == *arr),
        catch(|| *arr == p1),
        catch(|| p2 == *arr),
        catch(|| *arr == p3),
    ];
    ck.that(q[0] == Some(true) && q[1] == Some(true), || format!("== against the grid's nested vector: {:?} / {:?}", q[0], q[1]));
    ck.that(q[2] == Some(false) && q[3] == Some(false) && q[4] == Some(false), || {
        format!("== against a different nested vector: {:?} {:?} {:?}", q[2], q[3], q[4])
    });
    s.push_str(" Q");
    for b in q {
        write!(s, " {}", tok_b(b)).unwrap();
    }
    let d = catch(|| format!("{arr}"));
    let want = g.text();
    ck.that(d.as_deref() == Some(want.as_str()), || format!("Display {d:?}, grid layout {want:?}"));
    match &d {
        Some(text) => {
            let (n, hsh) = fnv(text);
            write!(s, " D {n} {hsh}").unwrap()
        }
        None => s.push_str(" D P"),
    }
    let sc = catch(|| arr.as_scalar());
    let gsc = if g.h == 1 && g.w == 1 { Some(g.rows[0][0]) } else { None };
    ck.that(sc == Some(gsc), || format!("as_scalar {sc:?}, grid {gsc:?}"));
    write!(s, " C {}", tok_opt(sc)).unwrap();
    // out-of-range accesses must panic
    let x = [catch(|| arr[(h, 0)]), catch(|| arr[(0, w)]), catch(|| arr[h][0]), catch(|| arr[0][w])];
    let xr = catch(|| arr[h].to_vec());
    ck.that(x.iter().all(|v| v.is_none()) && xr.is_none(), || format!("out-of-range access did not panic: {x:?} {xr:?}"));
    s.push_str(" X");
    for v in x {
        write!(s, " {}", tok_i(v)).unwrap();
    }
    match xr {
        Some(row) => write!(s, " {}", fmt_vec(&row)).unwrap(),
        None => s.push_str(" P"),
    }
    // a clone is equal to its original
    ck.that(catch(|| arr.clone() == *arr) == Some(true), || "clone() differs from the original".into());
    // further views of the same array that are not part of the printed observation (oracle only)
    if ck.fails.is_empty() {
        side_checks(arr, g, ck, heavy);
    }
    s
}

/// the layout of the documentation example for already formatted items: every column right-aligned to the width
/// of its widest item, the padding counted in CHARACTERS (what `{:>width$}` does for text); `width_of` says how
/// the widest item of a column is measured
fn text_of_by(h: usize, w: usize, items: &[Vec<String>], width_of: fn(&str) -> usize) -> String {
    if h == 0 || w == 0 {
        return "[]\n".into();
    }
    let widths: Vec<usize> = (0..w).map(|c| (0..h).map(|r| width_of(&items[r][c])).max().unwrap()).collect();
    let mut s = String::new();
    for r in 0..h {
        s.push_str(if r == 0 { "[[ " } else { " [ " });
        let row: Vec<String> = (0..w).map(|c| format!("{}{}", " ".repeat(widths[c].saturating_sub(items[r][c].chars().count())), items[r][c])).collect();
        s.push_str(&row.join(", "));
        s.push_str(if r + 1 == h { " ]]" } else { " ]\n" });
    }
    s
}
fn text_of(h: usize, w: usize, items: &[Vec<String>]) -> String {
    text_of_by(h, w, items, |t| t.chars().count())
}

/// Item texts whose byte length differs from their character count are laid out by the pinned tree in columns as
/// wide as the widest item counted in BYTES (`format!("{}", item).len()`), padded in characters: still a rectangle
/// with aligned separators, only wider than the widest item.  The layout of the model (`SV.C12.layout`: the widest
/// item counted in characters) is the first reading, this one the second; nothing else is a grid layout.  Set to
/// `false` to demand the character-counted width alone.  For ASCII items the two readings are the same text.
const BYTE_COUNTED_WIDTH_ACCEPTED: bool = false;

fn layout_matches(d: Option<&str>, h: usize, w: usize, items: &[Vec<String>]) -> bool {
    match d {
        None => false,
        Some(d) => d == text_of(h, w, items) || (BYTE_COUNTED_WIDTH_ACCEPTED && d == text_of_by(h, w, items, |t| t.len())),
    }
}

/// item texts of 0..4 characters with 1-, 2-, 3- and 4-byte characters (a combining mark too): the number of bytes
/// beyond the number of characters is 0, 1, 2, 3 or 4 and differs inside most columns
const TXT: [&str; 16] = ["a", "é", "€", "𝄞", "", "ab", "µm", "±1", "日本", "→", "x\u{304}", "ß", "ÅÅÅ", "😀!", "0", "-€€"];
const CHARS: [char; 8] = ['a', 'é', '€', '𝄞', '0', 'µ', '→', '😀'];
const UNITS: [&str; 4] = ["°", "", "µm", " €"];

/// An array of text-like items (`String`, `&str`, `char`) against the nested vector of the same items: rows, both
/// index forms, max / min, equality in both directions (also against a vector with one item replaced by `other`),
/// and the text layout.
fn text_array_checks<T>(m: &Arr2D<T>, want: &[Vec<T>], h: usize, w: usize, other: T, what: &str, ck: &mut Check)
where
    T: Clone + Ord + std::fmt::Display + std::fmt::Debug,
{
    let want_v: Vec<Vec<T>> = want.to_vec();
    let rows_ok = catch(|| m.rows().map(|r| r.to_vec()).collect::<Vec<_>>() == want_v) == Some(true);
    ck.that(m.shape() == (h, w) && m.size() == h * w && rows_ok, || format!("{what}: shape {:?} / rows differ from the grid of the same items {want_v:?}", m.shape()));
    let cells_ok = (0..h.min(CAP)).all(|r| (0..w.min(CAP)).all(|c| catch(|| m[(r, c)] == want[r][c] && m[r][c] == want[r][c]) == Some(true)));
    ck.that(cells_ok, || format!("{what}: an item differs through an index form"));
    let (wmx, wmn) = (want.iter().flatten().max().cloned(), want.iter().flatten().min().cloned());
    let (mx, mn) = (catch(|| m.max()), catch(|| m.min()));
    ck.that(mx == Some(wmx.clone()) && mn == Some(wmn.clone()), || format!("{what}: max {mx:?} min {mn:?}, grid {wmx:?} {wmn:?}"));
    let q = (catch(|| *m == want_v), catch(|| want_v == *m));
    ck.that(q == (Some(true), Some(true)), || format!("{what} == its nested vector: {q:?}"));
    if h * w > 0 {
        let (r, c) = ((h - 1) / 2, w - 1);
        if want[r][c] != other {
            let mut o = want_v.clone();
            o[r][c] = other;
            let q = (catch(|| *m == o), catch(|| o == *m));
            ck.that(q == (Some(false), Some(false)), || format!("{what} == a nested vector with another item at ({r},{c}): {q:?}; items {want_v:?}"));
        }
    }
    let items: Vec<Vec<String>> = want.iter().map(|r| r.iter().map(|x| x.to_string()).collect()).collect();
    let d = catch(|| format!("{m}"));
    ck.that(layout_matches(d.as_deref(), h, w, &items), || {
        format!(
            "Display of {what} {d:?}: the items {items:?} laid out as a grid (every column right-aligned to its widest item, padding counted in characters) are {:?}{}",
            text_of(h, w, &items),
            if BYTE_COUNTED_WIDTH_ACCEPTED { format!(" (or, the widest item measured in bytes, {:?})", text_of_by(h, w, &items, |t| t.len())) } else { String::new() }
        )
    });
    ck.that(catch(|| m.clone() == *m) == Some(true), || format!("{what}: clone() differs from the original"));
}

/// H. NON-ASCII CONTENT: the array mapped to `&str`, `String` and `char` items with 2-, 3- and 4-byte characters (the
/// text depends on the value, for `String` also on the position), built through `map`, through writes with both
/// index forms and `rows_mut`, and through the nested / flat constructors; transposed and reshaped; all judged
/// against the nested vector of the same items.  One of the four variants per call, chosen by the contents.
fn non_ascii_checks(arr: &Arr2D<i64>, g: &OGrid, ck: &mut Check) {
    let (h, w) = (g.h, g.w);
    let t = &g.rows;
    let key = |x: i64| x.rem_euclid(16) as usize;
    let pick = t.iter().flatten().fold(h + 3 * w, |a, x| a.wrapping_mul(31).wrapping_add(x.rem_euclid(97) as usize));
    let all = false; // one variant per observation (chosen by the contents): every request observes several states
    let tr = |rows: &Vec<Vec<&'static str>>| -> Vec<Vec<&'static str>> { (0..w).map(|c| (0..h).map(|r| rows[r][c]).collect()).collect() };
    if all || pick % 4 == 0 {
        // &'static str through map; its copying transpose
        match catch(|| arr.map(|x| TXT[key(*x)])) {
            None => ck.that(false, || "map to &str panicked".into()),
            Some(m) => {
                let want: Vec<Vec<&'static str>> = t.iter().map(|r| r.iter().map(|x| TXT[key(*x)]).collect()).collect();
                text_array_checks(&m, &want, h, w, "ß", "the array mapped to &str items (2-, 3-, 4-byte characters)", ck);
                match catch(|| m.transpose()) {
                    None => ck.that(false, || "transpose of the &str array panicked".into()),
                    Some(mt) => text_array_checks(&mt, &tr(&want), w, h, "ß", "the transposed &str array", ck),
                }
            }
        }
    }
    if all || pick % 4 == 1 {
        // String: a number with a unit sign
        let f = |x: &i64| format!("{x}{}", UNITS[x.rem_euclid(4) as usize]);
        match catch(|| arr.map(f)) {
            None => ck.that(false, || "map to String panicked".into()),
            Some(mut m) => {
                let want: Vec<Vec<String>> = t.iter().map(|r| r.iter().map(f).collect()).collect();
                text_array_checks(&m, &want, h, w, "1°".to_string(), "the array mapped to String items with a unit sign", ck);
                if h * w > 0 {
                    // the same items under another shape
                    let nh = if h > 1 { 1 } else { w };
                    let fl: Vec<String> = want.iter().flatten().cloned().collect();
                    let nw = h * w / nh;
                    let r = catch(|| m.reshape(nh));
                    ck.that(matches!(r, Some(Ok(()))), || format!("String array: reshape({nh}) of a {h}x{w} array fails"));
                    let want2: Vec<Vec<String>> = (0..nh).map(|r| fl[r * nw..(r + 1) * nw].to_vec()).collect();
                    text_array_checks(&m, &want2, nh, nw, "1°".to_string(), "the reshaped String array", ck);
                }
            }
        }
    }
    if all || pick % 4 == 2 {
        // char through map; transposed
        let f = |x: &i64| CHARS[x.rem_euclid(8) as usize];
        match catch(|| arr.map(f)) {
            None => ck.that(false, || "map to char panicked".into()),
            Some(m) => {
                let want: Vec<Vec<char>> = t.iter().map(|r| r.iter().map(f).collect()).collect();
                text_array_checks(&m, &want, h, w, 'ß', "the array mapped to char items (1- to 4-byte characters)", ck);
                match catch(|| m.transpose()) {
                    None => ck.that(false, || "transpose of the char array panicked".into()),
                    Some(mt) => {
                        let wt: Vec<Vec<char>> = (0..w).map(|c| (0..h).map(|r| want[r][c]).collect()).collect();
                        text_array_checks(&mt, &wt, w, h, 'ß', "the transposed char array", ck)
                    }
                }
            }
        }
    }
    if all || pick % 4 == 3 {
        // String, the text depends on the position too: written through both index forms / rows_mut, and the same
        // items through the nested and the flat constructors
        let item = |r: usize, c: usize| format!("{}{}", TXT[(key(t[r][c]) + 5 * r + 3 * c) % 16], t[r][c].rem_euclid(10));
        let want: Vec<Vec<String>> = (0..h).map(|r| (0..w).map(|c| item(r, c)).collect()).collect();
        let written = catch(|| {
            let mut m = arr.map(|_| String::new());
            for r in 0..h {
                for c in 0..w {
                    if (r + c) % 2 == 0 { m[(r, c)] = item(r, c) } else { m[r][c] = item(r, c) }
                }
            }
            if h > 0 && w > 0 {
                for (r, row) in m.rows_mut().enumerate() {
                    row[w - 1] = item(r, w - 1);
                }
            }
            m
        });
        match written {
            None => ck.that(false, || "writing String items through the index forms panicked".into()),
            Some(m) => text_array_checks(&m, &want, h, w, "é".to_string(), "the String array written through both index forms", ck),
        }
        if h > 0 {
            match catch(|| Arr2D::<String>::try_from(want.clone())) {
                Some(Ok(m)) => text_array_checks(&m, &want, h, w, "é".to_string(), "the String array from a nested vector", ck),
                other => ck.that(false, || format!("TryFrom<Vec<Vec<String>>> fails on rectangular rows: {other:?}")),
            }
        }
        if h * w > 0 {
            let fl: Vec<String> = want.iter().flatten().cloned().collect();
            let given = h * w / 2;
            match catch(|| Arr2D::from_flat(&fl[..given], "€".to_string(), h, w)) {
                Some(Ok(m)) => {
                    let wp: Vec<Vec<String>> = (0..h).map(|r| (0..w).map(|c| if r * w + c < given { fl[r * w + c].clone() } else { "€".to_string() }).collect()).collect();
                    text_array_checks(&m, &wp, h, w, "é".to_string(), "the padded String array from flat data", ck)
                }
                other => ck.that(false, || format!("from_flat fails on {given} String items for {h}x{w}: {other:?}")),
            }
        }
    }
}

/// Observers beyond the printed observation vector, all judged against the plain grid: iterator protocol
/// (size_hint, count, nth, last, `&mut` iteration), equality against nested vectors of other row lengths / other
/// items in BOTH directions, the same array at other element types (f64, String, u8, i128: map, conversion, Display,
/// max/min, indexing, equality), copying transpose, `as_scalar_unchecked`; text items with multi-byte characters
/// (`non_ascii_checks`).
fn side_checks(arr: &Arr2D<i64>, g: &OGrid, ck: &mut Check, heavy: bool) {
    let (h, w) = (g.h, g.w);
    // ---- the whole Clone protocol: `clone_from` into an existing array of every kind of shape (same item count in
    // another shape, other counts, empty shapes), through `Vec<Arr2D>::clone_from` / `clone_from_slice`, `to_owned`
    {
        let n = h * w;
        let mut shapes = vec![(w, h), (1, n), (n, 1), (h, w), (h + 1, w), (h, w + 1), (0, 0), (0, w), (h, 0), (0, n), (n, 0)];
        if n % 2 == 0 {
            shapes.push((2, n / 2));
            shapes.push((n / 2, 2));
        }
        for (dh, dw) in shapes {
            let got = catch(|| {
                let mut d = Arr2D::full(-7i64, dh, dw);
                d.clone_from(arr);
                let same = d == *arr;
                let rows: Vec<Vec<i64>> = d.rows().map(|r| r.to_vec()).collect();
                (d.shape(), d.size(), same, rows)
            });
            match got {
                None => ck.that(false, || format!("clone_from into a {dh}x{dw} array panicked")),
                Some((shape, size, same, rows)) => ck.that(shape == (h, w) && size == n && same && (rows == g.rows || n == 0), || {
                    format!("clone_from into a {dh}x{dw} array gives shape {shape:?}, size {size}, equal to the source: {same}, rows {rows:?}; the source is {h}x{w} with rows {:?}", g.rows)
                }),
            }
        }
        let viavec = catch(|| {
            let mut v = vec![Arr2D::full(-7i64, w, h), Arr2D::full(-7i64, 1, n)];
            v.clone_from(&vec![arr.clone(), arr.clone()]);
            let mut s = [Arr2D::full(-7i64, n, 1)];
            s.clone_from_slice(std::slice::from_ref(arr));
            let o: Arr2D<i64> = arr.to_owned();
            v.iter().chain(s.iter()).chain(std::iter::once(&o)).all(|d| d.shape() == (h, w) && d == arr && (n == 0 || d.rows().map(|r| r.to_vec()).collect::<Vec<_>>() == g.rows))
        });
        ck.that(viavec == Some(true), || "Vec::clone_from / clone_from_slice / to_owned of the array differ from the source".into());
    }
    // ---- iterator protocol
    let it = catch(|| {
        let mut it = arr.rows();
        let h0 = it.size_hint();
        let first = it.next().map(|r| r.to_vec());
        let h1 = it.size_hint();
        let via_ref = (&*arr).into_iter().size_hint();
        (h0, first, h1, via_ref, arr.rows().count(), arr.rows().last().map(|r| r.to_vec()), arr.rows().nth(h / 2).map(|r| r.to_vec()), arr.rows().nth(h).is_none(), arr.rows().skip(1).map(|r| r.len()).collect::<Vec<_>>())
    });
    match it {
        None => ck.that(false, || "a row-iterator method panicked".into()),
        Some((h0, first, h1, via_ref, count, last, mid, past_end, lens)) => {
            ck.that(h0 == (h, Some(h)) && via_ref == (h, Some(h)), || format!("rows().size_hint() = {h0:?} / {via_ref:?} for {h} rows"));
            ck.that(first.as_ref() == g.rows.first(), || format!("rows().next() = {first:?}, grid row {:?}", g.rows.first()));
            ck.that(h1 == (h.saturating_sub(1), Some(h.saturating_sub(1))), || format!("size_hint after one row = {h1:?} for {h} rows"));
            ck.that(count == h, || format!("rows().count() = {count} for {h} rows"));
            ck.that(last.as_ref() == g.rows.last(), || format!("rows().last() = {last:?}, grid row {:?}", g.rows.last()));
            ck.that(mid.as_ref() == g.rows.get(h / 2), || format!("rows().nth({}) = {mid:?}, grid row {:?}", h / 2, g.rows.get(h / 2)));
            ck.that(past_end, || "rows().nth(height) yields a row".into());
            ck.that(lens.len() == h.saturating_sub(1) && lens.iter().all(|l| *l == w), || format!("rows().skip(1) row lengths {lens:?} for a {h}x{w} grid"));
        }
    }
    let itm = catch(|| {
        let mut c = arr.clone();
        let h0 = c.rows_mut().size_hint();
        let mut n1 = 0;
        let mut ok_len = true;
        for row in c.rows_mut() {
            n1 += 1;
            ok_len &= row.len() == w;
        }
        let mut n2 = 0;
        for row in &mut c {
            n2 += 1;
            ok_len &= row.len() == w;
        }
        let mut it = c.rows_mut();
        it.next();
        let h1 = it.size_hint();
        drop(it);
        let same = c == *arr;
        // writes through single rows picked with nth / last land in that row only
        const MARK: i64 = -777_777;
        if let Some(row) = c.rows_mut().nth(h / 2) {
            row.fill(MARK);
        }
        if let Some(row) = (&mut c).into_iter().last() {
            if let Some(x) = row.last_mut() {
                *x = MARK + 1;
            }
        }
        let mut want = g.rows.clone();
        if h > 0 {
            want[h / 2] = vec![MARK; w];
            if w > 0 {
                want[h - 1][w - 1] = MARK + 1;
            }
        }
        let picked = c.rows().map(|r| r.to_vec()).collect::<Vec<_>>() == want && c.shape() == (h, w);
        (h0, n1, n2, ok_len, h1, same && picked)
    });
    match itm {
        None => ck.that(false, || "a mutable row-iterator method panicked".into()),
        Some((h0, n1, n2, ok_len, h1, same)) => {
            ck.that(h0 == (h, Some(h)) && n1 == h && n2 == h && ok_len, || format!("rows_mut(): size_hint {h0:?}, {n1} / {n2} rows, row lengths ok = {ok_len}; grid is {h}x{w}"));
            ck.that(h1 == (h.saturating_sub(1), Some(h.saturating_sub(1))), || format!("rows_mut().size_hint() after one row = {h1:?} for {h} rows"));
            ck.that(same, || "iterating rows_mut() without writing changed the array, or a write through rows_mut().nth(k) / last() did not land in that row only".into());
        }
    }
    // ---- equality against nested vectors that differ from the grid (both directions must say `false`)
    let t = &g.rows;
    let differs = |other: &Vec<Vec<i64>>, ck: &mut Check, what: &str| {
        if other == t {
            return;
        }
        let q = (catch(|| *arr == *other), catch(|| *other == *arr));
        ck.that(q == (Some(false), Some(false)), || format!("== against a different nested vector ({what}) {other:?}: {:?} / {:?}; grid rows {t:?}", q.0, q.1));
    };
    let flat: Vec<i64> = t.iter().flatten().copied().collect();
    if h > 0 {
        // one item changed at the corners and in the middle
        for (r, c) in [(0, 0), (0, w.saturating_sub(1)), (h - 1, 0), (h - 1, w.saturating_sub(1)), (h / 2, w / 2)] {
            if w > 0 {
                let mut o = t.clone();
                o[r][c] = o[r][c].wrapping_add(1);
                differs(&o, ck, "one item changed");
            }
        }
        // one row shorter / longer (first, middle, last), items otherwise equal
        for r in [0, h / 2, h - 1] {
            let mut o = t.clone();
            o[r].push(0);
            differs(&o, ck, "one row longer");
            if w > 0 {
                let mut o = t.clone();
                o[r].pop();
                differs(&o, ck, "one row shorter");
            }
        }
        // same items in row-major order, other row boundaries (an item moved to the next row / previous row)
        if h >= 2 && w >= 1 {
            for r in [0, h - 2] {
                let mut o = t.clone();
                let x = o[r].pop().unwrap();
                o[r + 1].insert(0, x);
                differs(&o, ck, "same items, row boundary moved right");
                let mut o = t.clone();
                let x = o[r + 1].remove(0);
                o[r].push(x);
                differs(&o, ck, "same items, row boundary moved left");
            }
        }
        // rows / columns exchanged
        if w > 0 && h * w > 1 {
            let tr: Vec<Vec<i64>> = (0..w).map(|c| (0..h).map(|r| t[r][c]).collect()).collect();
            differs(&tr, ck, "transposed");
            differs(&vec![flat.clone()], ck, "flattened to one row");
            differs(&flat.iter().map(|x| vec![*x]).collect(), ck, "flattened to one column");
        }
        let mut o = t.clone();
        o.push(vec![0; w]);
        differs(&o, ck, "one more row");
        let mut o = t.clone();
        o.push(vec![]);
        differs(&o, ck, "one more (empty) row");
        differs(&t[1..].to_vec(), ck, "first row missing");
    } else {
        differs(&vec![vec![]], ck, "one empty row");
        differs(&vec![vec![0; w.max(1)]], ck, "one row");
    }
    // every tuple of row lengths 0..=w+1 for the grid's number of rows, filled (a) with the grid's items in row-major
    // order, (b) row by row with the grid's own row (cut or extended): only the tuple (w, ..., w) may compare equal
    if heavy && h >= 1 && h <= 3 && w <= 3 {
        let mut lens = vec![0usize; h];
        loop {
            if lens.iter().any(|l| *l != w) {
                let mut k = 0;
                let a: Vec<Vec<i64>> = lens
                    .iter()
                    .map(|l| {
                        (0..*l)
                            .map(|_| {
                                k += 1;
                                flat.get(k - 1).copied().unwrap_or(0)
                            })
                            .collect()
                    })
                    .collect();
                differs(&a, ck, "row lengths differ, items in row-major order");
                let b: Vec<Vec<i64>> = lens.iter().enumerate().map(|(r, l)| (0..*l).map(|c| t[r].get(c).copied().unwrap_or(0)).collect()).collect();
                differs(&b, ck, "row lengths differ, rows cut or extended");
            }
            let mut i = 0;
            while i < h {
                lens[i] += 1;
                if lens[i] <= w + 1 {
                    break;
                }
                lens[i] = 0;
                i += 1;
            }
            if i == h {
                break;
            }
        }
    }
    if !ck.fails.is_empty() {
        return;
    }
    // ---- copying transpose, as_scalar_unchecked
    let tr = catch(|| arr.transpose());
    match &tr {
        None => ck.that(false, || "transpose() panicked".into()),
        Some(m) => {
            let ok = m.shape() == (w, h) && m.size() == h * w && (0..w.min(CAP)).all(|c| (0..h.min(CAP)).all(|r| catch(|| m[(c, r)]) == Some(t[r][c])));
            ck.that(ok, || format!("transpose() is not the transposed grid: {m:?}"));
            ck.that(catch(|| m.transpose() == *arr) == Some(true), || "transpose().transpose() differs from the array".into());
        }
    }
    // indices far outside (products that overflow or wrap) still panic
    let far = [
        catch(|| arr[(usize::MAX, 0)]),
        catch(|| arr[(0, usize::MAX)]),
        catch(|| arr[(usize::MAX / 2 + 1, 2)]),
        catch(|| arr[usize::MAX][0]),
        catch(|| arr[(h + 1, 0)]),
        catch(|| arr[(0, w + 1)]),
        catch(|| arr[(h.saturating_sub(1), w)]),
    ];
    ck.that(far.iter().all(|v| v.is_none()), || format!("an access far outside the array did not panic: {far:?}"));
    let su = catch(|| arr.as_scalar_unchecked());
    ck.that(su == flat.first().copied(), || format!("as_scalar_unchecked() = {su:?}, first item {:?}", flat.first()));
    // ---- the same array at other element types
    // f64 (map to another type): exact halves
    let f = catch(|| arr.map(|x| *x as f64 * 0.5));
    match &f {
        None => ck.that(false, || "map to f64 panicked".into()),
        Some(m) => {
            let want: Vec<Vec<f64>> = t.iter().map(|r| r.iter().map(|x| *x as f64 * 0.5).collect()).collect();
            let rows_ok = catch(|| m.rows().map(|r| r.to_vec()).collect::<Vec<_>>() == want) == Some(true);
            ck.that(m.shape() == (h, w) && m.size() == h * w && rows_ok, || format!("map(i64 -> f64): shape {:?}, rows differ from the mapped grid", m.shape()));
            let cells_ok = (0..h.min(CAP)).all(|r| (0..w.min(CAP)).all(|c| catch(|| (m[(r, c)], m[r][c])) == Some((want[r][c], want[r][c]))));
            ck.that(cells_ok, || "map(i64 -> f64): an item differs through an index form".into());
            let fl: Vec<f64> = want.iter().flatten().copied().collect();
            let (wmx, wmn) = (fl.iter().copied().reduce(f64::max), fl.iter().copied().reduce(f64::min));
            let (mx, mn) = (catch(|| m.max()), catch(|| m.min()));
            ck.that(mx == Some(wmx) && mn == Some(wmn), || format!("f64 array: max {mx:?} min {mn:?}, grid {wmx:?} {wmn:?}"));
            let items: Vec<Vec<String>> = want.iter().map(|r| r.iter().map(|x| format!("{x}")).collect()).collect();
            let d = catch(|| format!("{m}"));
            let wt = text_of(h, w, &items);
            ck.that(d.as_deref() == Some(wt.as_str()), || format!("Display of the f64 array {d:?}, layout {wt:?}"));
            let q = (catch(|| *m == want), catch(|| want == *m));
            ck.that(q == (Some(true), Some(true)), || format!("f64 array == its nested vector: {q:?}"));
            if h * w > 0 {
                let mut o = want.clone();
                o[h - 1][w - 1] += 0.5;
                if o != want {
                    let q = (catch(|| *m == o), catch(|| o == *m));
                    ck.that(q == (Some(false), Some(false)), || format!("f64 array == a different nested vector: {q:?}"));
                }
            }
            let sc = catch(|| m.as_scalar());
            ck.that(sc == Some(if h == 1 && w == 1 { Some(want[0][0]) } else { None }), || format!("f64 array: as_scalar {sc:?}"));
            let mt = catch(|| m.transpose());
            ck.that(mt.as_ref().map(|x| x.shape() == (w, h) && (0..w.min(CAP)).all(|c| (0..h.min(CAP)).all(|r| x[(c, r)] == want[r][c]))) == Some(true), || "f64 array: transpose wrong".into());
        }
    }
    // String (not Copy): map, indexing, rows, max/min, Display, reshape, ==
    let sm = catch(|| arr.map(|x| format!("<{x}>")));
    match sm {
        None => ck.that(false, || "map to String panicked".into()),
        Some(mut m) => {
            let want: Vec<Vec<String>> = t.iter().map(|r| r.iter().map(|x| format!("<{x}>")).collect()).collect();
            let rows_ok = catch(|| m.rows().map(|r| r.to_vec()).collect::<Vec<_>>() == want) == Some(true);
            ck.that(m.shape() == (h, w) && m.size() == h * w && rows_ok, || "map(i64 -> String): rows differ from the mapped grid".into());
            let cells_ok = (0..h.min(CAP)).all(|r| (0..w.min(CAP)).all(|c| catch(|| m[(r, c)] == want[r][c] && m[r][c] == want[r][c]) == Some(true)));
            ck.that(cells_ok, || "map(i64 -> String): an item differs through an index form".into());
            let (wmx, wmn) = (want.iter().flatten().max().cloned(), want.iter().flatten().min().cloned());
            let (mx, mn) = (catch(|| m.max()), catch(|| m.min()));
            ck.that(mx == Some(wmx.clone()) && mn == Some(wmn.clone()), || format!("String array: max {mx:?} min {mn:?}, grid {wmx:?} {wmn:?}"));
            let d = catch(|| format!("{m}"));
            let wt = text_of(h, w, &want);
            ck.that(d.as_deref() == Some(wt.as_str()), || format!("Display of the String array {d:?}, layout {wt:?}"));
            let q = (catch(|| m == want), catch(|| want == m));
            ck.that(q == (Some(true), Some(true)), || format!("String array == its nested vector: {q:?}"));
            // reshape keeps the row-major order (no Copy needed)
            if h * w > 0 {
                let r = catch(|| m.reshape(1));
                let fl: Vec<String> = want.iter().flatten().cloned().collect();
                ck.that(matches!(r, Some(Ok(()))) && m.shape() == (1, h * w) && catch(|| m[0].to_vec()) == Some(fl), || "String array: reshape(1) is not the row-major flattening".into());
            }
        }
    }
    if ck.fails.is_empty() {
        non_ascii_checks(arr, g, ck);
    }
    // u8 / i128 conversions of the whole array
    let c8 = catch(|| Arr2D::<u8>::try_from(arr));
    let fits = flat.iter().all(|x| (0..=255).contains(x));
    match c8 {
        None => ck.that(false, || "conversion to u8 panicked".into()),
        Some(Ok(m)) => {
            let ok = fits && m.shape() == (h, w) && (0..h.min(CAP)).all(|r| (0..w.min(CAP)).all(|c| catch(|| m[(r, c)] as i64) == Some(t[r][c])));
            ck.that(ok, || format!("conversion to u8 succeeded with {m:?} for grid rows {t:?}"));
        }
        Some(Err(e)) => ck.that(!fits && err_kind(&e) == "conv", || format!("conversion to u8 failed with {e:?} for grid rows {t:?}")),
    }
    let c128 = catch(|| Arr2D::<i128>::try_from(arr));
    match c128 {
        Some(Ok(m)) => {
            let ok = m.shape() == (h, w) && m.size() == h * w && catch(|| m.rows().map(|r| r.iter().map(|x| *x as i64).collect::<Vec<_>>()).collect::<Vec<_>>() == *t) == Some(true);
            ck.that(ok, || format!("conversion to i128 gives {m:?} for grid rows {t:?}"));
        }
        other => ck.that(false, || format!("conversion to i128 failed: {other:?}")),
    }
}

pub fn run(line: &str) -> Obs {
    let last_only = line.trim_start().starts_with("last ");
    let mut t = Toks::new(line);
    if last_only {
        t.tok();
    }
    let ctor = Ctor::parse(&mut t);
    let n = t.usize();
    let ops: Vec<Op> = (0..n).map(|_| Op::parse(&mut t)).collect();
    let real = build_real(&ctor);
    let want = OGrid::build(&ctor);
    let (mut arr, mut g) = match (real, want) {
        (Ok(a), Ok(g)) => (a, g),
        (Err(k), Err(kinds)) => {
            let mut v = if kinds.contains(&k) { Ok(()) } else { Err(format!("constructor fails with {}, expected one of {kinds:?}", k.show())) };
            // the same refusal at other element types / container kinds
            if let (Ok(()), Ctor::Nested(rows) | Ctor::NestedRef(_, rows)) = (&v, &ctor) {
                if kinds.contains(&Kind::Err("rows")) {
                    let ss: Vec<Vec<String>> = rows.iter().map(|r| r.iter().map(|x| x.to_string()).collect()).collect();
                    let a = catch(|| Arr2D::<String>::try_from(ss).map(|m| m.shape()));
                    let b = catch(|| Arr2D::<i128>::try_from(rows).map(|m| m.shape()));
                    if !matches!(a, Some(Err(Arr2DError::InconsistentRowLengths))) || !matches!(b, Some(Err(Arr2DError::InconsistentRowLengths))) {
                        v = Err(format!("ragged rows {rows:?} are not refused at String / i128 items: {a:?} / {b:?}"));
                    }
                }
            }
            if let (Ok(()), Ctor::Flat(d, dv, h, w)) = (&v, &ctor) {
                let a = catch(|| Arr2D::from_flat(d.clone(), *dv, *h, *w).map(|m| m.shape()));
                let ds: Vec<String> = d.iter().map(|x| x.to_string()).collect();
                let b = catch(|| Arr2D::from_flat(ds.as_slice(), String::new(), *h, *w).map(|m| m.shape()));
                if !matches!(a, Some(Err(Arr2DError::InvalidShape { .. }))) || !matches!(b, Some(Err(Arr2DError::InvalidShape { .. }))) {
                    v = Err(format!("from_flat with {} items for {h}x{w} is not refused for an owned Vec / String items: {a:?} / {b:?}", d.len()));
                }
            }
            return Obs::with(k.show(), v);
        }
        (Err(k), Ok(_)) => return Obs::with(k.show(), Err(format!("constructor `{}` failed ({}) on valid arguments", ctor.req(), k.show()))),
        (Ok(a), Err(kinds)) => {
            let mut ck = Check { fails: vec![] };
            let o = observe(&a, &OGrid::filled(0, a.height, a.width), &mut ck, false);
            return Obs::with(format!("ok {o}"), Err(format!("constructor `{}` accepted invalid arguments (expected {kinds:?})", ctor.req())));
        }
    };
    let mut ck = Check { fails: vec![] };
    let mut out = String::with_capacity(1024);
    out.push_str("ok");
    let first = observe(&arr, &g, &mut ck, !last_only || ops.is_empty());
    ctor_side_checks(&ctor, &arr, &g, &mut ck);
    if !last_only || ops.is_empty() {
        out.push(' ');
        out.push_str(&first);
    }
    let mut verdict: Result<(), String> = match ck.fails.first() {
        Some(f) => Err(format!("after `{}`: {f}", ctor.req())),
        None => Ok(()),
    };
    for (k, op) in ops.iter().enumerate() {
        let before = arr.clone();
        let kind = apply_real(&mut arr, op);
        let want = g.apply(op);
        let mut ck = Check { fails: vec![] };
        ck.that(kind == want, || format!("outcome {}, the statement demands {}", kind.show(), want.show()));
        if kind != Kind::Ok {
            ck.that(arr == before, || format!("the failed operation ({}) changed the array: {before:?} -> {arr:?}", kind.show()));
        }
        out.push_str(" | ");
        out.push_str(&kind.show());
        let o = observe(&arr, &g, &mut ck, !last_only || k + 1 == ops.len());
        if !last_only || k + 1 == ops.len() {
            out.push(' ');
            out.push_str(&o);
        }
        if verdict.is_ok() {
            if let Some(f) = ck.fails.first() {
                verdict = Err(format!("step {} `{}`: {f}", k + 1, op.req()));
            }
        }
    }
    Obs::with(out, verdict)
}

/// The other instances of the constructor that was used: every accepted container kind, other element types.
fn ctor_side_checks(c: &Ctor, arr: &Arr2D<i64>, g: &OGrid, ck: &mut Check) {
    let t = &g.rows;
    match c {
        Ctor::New => {
            ck.that(catch(|| Arr2D::<i64>::default() == *arr) == Some(true), || "Arr2D::default() differs from Arr2D::new()".into());
            ck.that(catch(|| Arr2D::<String>::new().shape()) == Some((0, 0)), || "Arr2D::<String>::new() is not 0x0".into());
        }
        Ctor::Ident(n) => {
            let n = *n;
            let f = catch(|| Arr2D::<f64>::identity(n));
            let ok = f.as_ref().map(|m| m.shape() == (n, n) && m.size() == n * n && (0..n).all(|r| (0..n).all(|c| m[(r, c)] == if r == c { 1.0 } else { 0.0 })));
            ck.that(ok == Some(true), || format!("Arr2D::<f64>::identity({n}) is not the identity: {f:?}"));
            let j = catch(|| Arr2D::<i32>::identity(n));
            let ok = j.as_ref().map(|m| m.shape() == (n, n) && m.size() == n * n && (0..n).all(|r| (0..n).all(|c| m[(r, c)] == (r == c) as i32)));
            ck.that(ok == Some(true), || format!("Arr2D::<i32>::identity({n}) is not the identity: {j:?}"));
            let w = catch(|| Arr2D::<i128>::identity(n));
            let ok = w.as_ref().map(|m| m.shape() == (n, n) && (0..n).all(|r| (0..n).all(|c| m[r][c] == (r == c) as i128)));
            ck.that(ok == Some(true), || format!("Arr2D::<i128>::identity({n}) is not the identity: {w:?}"));
        }
        Ctor::Flat(d, v, h, w) => {
            let (v, h, w) = (*v, *h, *w);
            let kinds: Vec<(&str, Option<Result<Arr2D<i64>, Arr2DError>>)> = vec![
                ("Vec", catch(|| Arr2D::from_flat(d.clone(), v, h, w))),
                ("&Vec", catch(|| Arr2D::from_flat(d, v, h, w))),
                ("&[T]", catch(|| Arr2D::from_flat(d.as_slice(), v, h, w))),
                ("Box<[T]>", catch(|| Arr2D::from_flat(d.clone().into_boxed_slice(), v, h, w))),
                ("Rc<[T]>", catch(|| Arr2D::from_flat(std::rc::Rc::<[i64]>::from(d.clone()), v, h, w))),
            ];
            for (name, r) in kinds {
                ck.that(matches!(&r, Some(Ok(m)) if m == arr), || format!("from_flat({name}) gives {r:?}, the other container kinds {arr:?}"));
            }
            let ds: Vec<String> = d.iter().map(|x| x.to_string()).collect();
            let s = catch(|| Arr2D::from_flat(&ds, v.to_string(), h, w));
            let ok = match &s {
                Some(Ok(m)) => m.shape() == (h, w) && catch(|| m.rows().map(|r| r.to_vec()).collect::<Vec<_>>()) == Some(t.iter().map(|r| r.iter().map(|x| x.to_string()).collect()).collect()),
                _ => false,
            };
            ck.that(ok, || format!("from_flat at String items gives {s:?} for grid rows {t:?}"));
        }
        Ctor::Nested(rows) | Ctor::NestedRef(_, rows) => {
            let ss: Vec<Vec<String>> = rows.iter().map(|r| r.iter().map(|x| x.to_string()).collect()).collect();
            let a = catch(|| Arr2D::<String>::try_from(ss.clone()));
            let ok = match &a {
                Some(Ok(m)) => m.shape() == (g.h, g.w) && *m == ss,
                _ => false,
            };
            ck.that(ok, || format!("TryFrom<Vec<Vec<String>>> gives {a:?} for rows {rows:?}"));
            let b = catch(|| Arr2D::<i128>::try_from(rows));
            let ok = match &b {
                Some(Ok(m)) => m.shape() == (g.h, g.w) && catch(|| m.rows().map(|r| r.iter().map(|x| *x as i64).collect::<Vec<_>>()).collect::<Vec<_>>() == *t) == Some(true),
                _ => false,
            };
            ck.that(ok, || format!("TryFrom<&Vec<Vec<i64>>> for Arr2D<i128> gives {b:?} for rows {rows:?}"));
            if rows.iter().flatten().all(|x| *x >= I32_MIN && *x <= I32_MAX) {
                let r32: Vec<Vec<i32>> = rows.iter().map(|r| r.iter().map(|x| *x as i32).collect()).collect();
                let f = catch(|| Arr2D::<f64>::try_from(&r32));
                let ok = match &f {
                    Some(Ok(m)) => m.shape() == (g.h, g.w) && (0..g.h.min(CAP)).all(|r| (0..g.w.min(CAP)).all(|c| m[(r, c)] == t[r][c] as f64)),
                    _ => false,
                };
                ck.that(ok, || format!("TryFrom<&Vec<Vec<i32>>> for Arr2D<f64> gives {f:?} for rows {rows:?}"));
            }
        }
        _ => {}
    }
}

// ------------------------------------------------------------------------------------------ generators

/// structural state of the implementation: shape, buffer length and the arrangement of the items
/// (rank pattern of the hidden buffer, read from the derived `Debug` text)
fn state_key(arr: &Arr2D<i64>) -> String {
    let dbg = format!("{arr:?}");
    let inner: Vec<i64> = dbg
        .split_once("inner: [")
        .and_then(|(_, rest)| rest.split_once(']'))
        .map(|(list, _)| list.split(',').filter_map(|x| x.trim().parse().ok()).collect())
        .unwrap_or_default();
    let mut sorted = inner.clone();
    sorted.sort();
    sorted.dedup();
    let ranks: Vec<usize> = inner.iter().map(|x| sorted.binary_search(x).unwrap()).collect();
    format!("{}x{}/{}/{:?}", arr.height, arr.width, arr.size(), ranks)
}

/// every operation with all small parameter values (0..=4), valid or not for the given shape
fn alphabet(h: usize, w: usize) -> Vec<Op> {
    let mut ops = vec![];
    let top = 4usize;
    for k in 0..=top {
        ops.push(Op::Reshape(k));
    }
    if h * w > top {
        ops.push(Op::Reshape(h * w));
    }
    ops.push(Op::Transpose);
    ops.push(Op::TransposeMut);
    for a in 0..=top {
        for b in 0..=top {
            ops.push(Op::Swap(a, b));
        }
    }
    for r in 0..=top {
        for c in 0..=top {
            ops.push(Op::Set(r, c, 0));
            ops.push(Op::Set2(r, c, 0));
        }
    }
    for r in 0..=top {
        ops.push(Op::SetRow(r, vec![-1; w]));
        ops.push(Op::SetRow(r, vec![-1; w + 1]));
        ops.push(Op::FillRow(r, 0));
        ops.push(Op::RowsMut { via: (r % 2) as u8, code: 0, a: r as i64, b: 100 });
    }
    ops.push(Op::RowsMut { via: 0, code: 2, a: 0, b: 0 });
    ops.push(Op::RowsMut { via: 1, code: 2, a: 0, b: 0 });
    ops.push(Op::RowsMut { via: 1, code: 1, a: 10, b: 1 });
    ops.push(Op::RowsMut { via: 0, code: 3, a: 1, b: 0 });
    ops.push(Op::Map { code: 0, a: 1, b: 0 });
    ops.push(Op::Map { code: 1, a: 0, b: 0 });
    ops.push(Op::Map { code: 2, a: 7, b: 3 });
    ops.push(Op::Clone);
    ops.push(Op::Convert(0));
    ops.push(Op::Convert(1));
    ops
}

fn labels(h: usize, w: usize) -> Vec<i64> {
    (1..=(h * w) as i64).collect()
}

/// breadth-first over operation sequences from all start shapes 0..3 x 0..3, de-duplicated on the
/// structural state of the implementation; every (state, operation) pair of the explored levels is
/// one request (the canonical path to the state, then the operation)
fn bfs(depth: usize, emit: &mut dyn FnMut(String)) -> (usize, Vec<usize>) {
    let mut seen: HashSet<String> = HashSet::new();
    let mut level: Vec<(Ctor, Vec<Op>, Arr2D<i64>)> = vec![];
    for h in 0..=3usize {
        for w in 0..=3usize {
            let starts = vec![
                Ctor::Array(h, w, labels(h, w)),
                Ctor::Full(7, h, w),
                Ctor::Nested((0..h).map(|r| labels(h, w)[r * w..(r + 1) * w].to_vec()).collect()),
                Ctor::Flat(labels(h, w).into_iter().take((h * w + 1) / 2).collect(), 0, h, w),
            ];
            for c in starts {
                if let Ok(a) = build_real(&c) {
                    if seen.insert(state_key(&a)) {
                        level.push((c, vec![], a));
                    }
                }
            }
        }
    }
    for n in 0..=3usize {
        let c = Ctor::Ident(n);
        if let Ok(a) = build_real(&c) {
            if seen.insert(state_key(&a)) {
                level.push((c, vec![], a));
            }
        }
    }
    let mut total = 0;
    let mut sizes = vec![];
    for d in 0..depth {
        sizes.push(level.len());
        let mut next = vec![];
        for (c, path, arr) in &level {
            for op in alphabet(arr.height, arr.width) {
                let mut p = path.clone();
                p.push(op.clone());
                // a longer path extends a request of this same generator (the canonical path to the
                // state), which is observed in full: print the full observation only at the end
                emit(if p.len() >= 2 { format!("last {}", request(c, &p)) } else { request(c, &p) });
                total += 1;
                if d + 1 < depth {
                    let mut a = arr.clone();
                    apply_real(&mut a, &op);
                    if seen.insert(state_key(&a)) {
                        next.push((c.clone(), p, a));
                    }
                }
            }
        }
        level = next;
    }
    (total, sizes)
}

/// the operations that rearrange the buffer or change the shape (all parameter values 0..=4)
fn structural_alphabet(h: usize, w: usize) -> Vec<Op> {
    let mut ops = vec![];
    for k in 0..=4usize {
        ops.push(Op::Reshape(k));
    }
    if h * w > 4 {
        ops.push(Op::Reshape(h * w));
    }
    ops.push(Op::Transpose);
    ops.push(Op::TransposeMut);
    for a in 0..=4usize {
        for b in 0..=4usize {
            ops.push(Op::Swap(a, b));
        }
    }
    ops.push(Op::RowsMut { via: 0, code: 2, a: 0, b: 0 });
    ops.push(Op::RowsMut { via: 1, code: 3, a: 1, b: 0 });
    ops
}

/// breadth-first to a FIXPOINT of the structural state space (shape, buffer length, arrangement of
/// the distinctly labelled items) under the shape-changing and rearranging operations, from every
/// start shape with at most `max_cells` cells: every reachable arrangement is visited and every
/// (state, operation) pair is one request.  Paths stay far below the 40-operation limit.
fn bfs_fixpoint(max_cells: usize, emit: &mut dyn FnMut(String)) -> (usize, usize, usize) {
    let mut seen: HashSet<String> = HashSet::new();
    let mut level: Vec<(Ctor, Vec<Op>, Arr2D<i64>)> = vec![];
    for h in 0..=max_cells {
        for w in 0..=max_cells {
            if h * w > max_cells || h > 6 || w > 6 {
                continue;
            }
            let c = Ctor::Array(h, w, labels(h, w));
            if let Ok(a) = build_real(&c) {
                if seen.insert(state_key(&a)) {
                    level.push((c, vec![], a));
                }
            }
        }
    }
    let (mut total, mut states, mut depth) = (0, 0, 0);
    while !level.is_empty() && depth < 39 {
        states += level.len();
        depth += 1;
        let mut next = vec![];
        for (c, path, arr) in &level {
            for op in structural_alphabet(arr.height, arr.width) {
                let mut p = path.clone();
                p.push(op.clone());
                emit(if p.len() >= 2 { format!("last {}", request(c, &p)) } else { request(c, &p) });
                total += 1;
                let mut a = arr.clone();
                apply_real(&mut a, &op);
                if seen.insert(state_key(&a)) {
                    next.push((c.clone(), p, a));
                }
            }
        }
        level = next;
    }
    (total, states, depth)
}

fn rand_val(rng: &mut Rng) -> i64 {
    match rng.below(20) {
        0 => I32_MAX + rng.range(0, 2),       // around the i32 limits: exercises the failing conversion
        1 => I32_MIN - rng.range(0, 2),
        2 => 1 << 33,
        3..=6 => rng.range(-1000, 1000),
        _ => rng.range(-9, 12),
    }
}
fn small_val(rng: &mut Rng) -> i64 {
    if rng.chance(1, 6) { rng.range(-150, 150) } else { rng.range(-9, 12) }
}

fn rand_ctor(rng: &mut Rng, top: usize) -> Ctor {
    let h = rng.below(top as u64 + 1) as usize;
    let w = rng.below(top as u64 + 1) as usize;
    let wide = rng.chance(1, 8);
    let val = |rng: &mut Rng| if wide { rand_val(rng) } else { small_val(rng) };
    match rng.below(12) {
        0 => {
            if rng.chance(1, 3) { Ctor::New } else { Ctor::Ident(rng.below(top as u64 + 1) as usize) }
        }
        1 => Ctor::Full(val(rng), h, w),
        2 | 3 => Ctor::Array(h, w, (0..h * w).map(|_| val(rng)).collect()),
        4 | 5 | 6 | 7 => {
            let mut rows: Vec<Vec<i64>> = (0..h).map(|_| (0..w).map(|_| val(rng)).collect()).collect();
            if h > 0 && rng.chance(1, 6) {
                // ragged: one row longer or shorter
                let r = rng.below(h as u64) as usize;
                if rows[r].is_empty() || rng.chance(1, 2) { rows[r].push(val(rng)) } else { rows[r].pop(); }
            }
            match rng.below(4) {
                0 | 1 => Ctor::Nested(rows),
                2 => Ctor::NestedRef(0, rows),
                _ => {
                    if h * w > 0 && rng.chance(1, 3) {
                        let r = rng.below(h as u64) as usize;
                        if !rows[r].is_empty() {
                            let c = rng.below(rows[r].len() as u64) as usize;
                            rows[r][c] = rand_val(rng);
                        }
                    }
                    Ctor::NestedRef(1, rows)
                }
            }
        }
        _ => {
            // flat data: exact, short (padded), empty, oversized, or for an empty shape
            let size = h * w;
            let len = match rng.below(8) {
                0 => 0,
                1 => size + 1 + rng.below(3) as usize,
                2 | 3 => size,
                _ => rng.below(size as u64 + 1) as usize,
            };
            Ctor::Flat((0..len).map(|_| val(rng)).collect(), val(rng), h, w)
        }
    }
}

fn rand_op(rng: &mut Rng, h: usize, w: usize) -> Op {
    // indices: mostly valid, sometimes just outside
    let idx = |rng: &mut Rng, n: usize| -> usize {
        if n == 0 || rng.chance(1, 8) { n + rng.below(2) as usize } else { rng.below(n as u64) as usize }
    };
    match rng.below(24) {
        0..=3 => {
            let size = h * w;
            let divisors: Vec<usize> = (1..=size.max(1)).filter(|d| size % d == 0).collect();
            if rng.chance(1, 5) { Op::Reshape(rng.below(8) as usize) } else { Op::Reshape(*rng.pick(&divisors)) }
        }
        4 | 5 => Op::Transpose,
        6 | 7 => Op::TransposeMut,
        8..=11 => Op::Swap(idx(rng, h), idx(rng, h)),
        12 => Op::Set(idx(rng, h), idx(rng, w), if rng.chance(1, 10) { rand_val(rng) } else { small_val(rng) }),
        13 => Op::Set2(idx(rng, h), idx(rng, w), if rng.chance(1, 10) { rand_val(rng) } else { small_val(rng) }),
        14 => {
            let len = if rng.chance(1, 6) { w + 1 - 2 * (rng.below(2) as usize).min(w) } else { w };
            Op::SetRow(idx(rng, h), (0..len).map(|_| small_val(rng)).collect())
        }
        15 => Op::FillRow(idx(rng, h), small_val(rng)),
        16 | 17 => {
            let code = rng.below(4) as u8;
            let a = if code == 0 { idx(rng, h) as i64 } else { rng.range(0, 3) };
            Op::RowsMut { via: rng.below(2) as u8, code, a, b: rng.range(-3, 3) }
        }
        18 | 19 => {
            let code = rng.below(4) as u8;
            Op::Map { code, a: rng.range(-5, 7), b: rng.range(-5, 5) }
        }
        20 => Op::Clone,
        21 => Op::Convert(0),
        _ => Op::Convert(1),
    }
}

/// a random script of `len` operations; the shape is tracked on the plain grid so that most
/// parameters are valid for the state they are applied to
fn random_script(rng: &mut Rng, top: usize, len: usize) -> String {
    let c = rand_ctor(rng, top);
    let mut ops = vec![];
    if let Ok(mut g) = OGrid::build(&c) {
        for _ in 0..len {
            let op = rand_op(rng, g.h, g.w);
            g.apply(&op);
            ops.push(op);
        }
    }
    request(&c, &ops)
}

/// a constructor for any shape (the array-literal constructor stops at 6 x 6)
fn big_ctor(rng: &mut Rng, h: usize, w: usize, labelled: bool) -> Ctor {
    let mut k = 0i64;
    let mut val = |rng: &mut Rng| {
        k += 1;
        if labelled { k } else { small_val(rng) }
    };
    let data: Vec<i64> = (0..h * w).map(|_| val(rng)).collect();
    let rows: Vec<Vec<i64>> = (0..h).map(|r| data[r * w..(r + 1) * w].to_vec()).collect();
    match rng.below(8) {
        0 | 1 => Ctor::Nested(rows),
        2 => Ctor::NestedRef(0, rows),
        3 => Ctor::NestedRef(1, rows),
        4 if h * w > 0 => Ctor::Flat(data, 0, h, w),
        5 if h * w > 0 => {
            let keep = rng.below((h * w) as u64 + 1) as usize;
            Ctor::Flat(data[..keep].to_vec(), -7, h, w)
        }
        6 if h == w && !labelled => Ctor::Ident(h),
        7 if !labelled => Ctor::Full(small_val(rng), h, w),
        _ => Ctor::Nested(rows),
    }
}

/// shapes with a dimension beyond every usual block size: structured chains and random scripts
fn big_shapes(rng: &mut Rng, thorough: bool, emit: &mut dyn FnMut(String)) {
    let mut shapes: Vec<(usize, usize)> = vec![];
    for d in 7..=40usize {
        shapes.push((d, 1 + d % 4));
        shapes.push((1 + (d + 1) % 4, d));
    }
    for d in 7..=20usize {
        shapes.push((d, d));
    }
    shapes.extend([(32, 33), (33, 32), (17, 34), (34, 17), (8, 16), (16, 8), (9, 15), (64, 2), (2, 64), (65, 1), (1, 65), (40, 40)]);
    for &(h, w) in &shapes {
        // a labelled array through a chain of every rearranging operation
        let c = big_ctor(rng, h, w, true);
        let size = h * w;
        let divisors: Vec<usize> = (1..=size).filter(|d| size % d == 0).collect();
        let mid = divisors[divisors.len() / 2];
        let ops = vec![
            Op::Transpose,
            Op::Swap(0, w.saturating_sub(1)),
            Op::TransposeMut,
            Op::Swap(h - 1, h / 2),
            Op::RowsMut { via: 0, code: 2, a: 0, b: 0 },
            Op::Reshape(mid),
            Op::Swap(mid - 1, 0),
            Op::RowsMut { via: 1, code: 3, a: 1, b: 0 },
            Op::Transpose,
            Op::Reshape(h),
            Op::Set(h - 1, w - 1, -5),
            Op::Set2(0, w - 1, -6),
            Op::FillRow(h / 2, 7),
            Op::Convert(1),
            Op::Reshape(1),
            Op::TransposeMut,
            Op::Reshape(w),
            Op::Map { code: 2, a: 7, b: 3 },
            Op::Clone,
        ];
        // (the harness oracle judges every step in full; the model prints the full observation after the last step
        // and after the first three, which keeps the list-based model fast on 1000-cell arrays)
        emit(format!("last {}", request(&c, &ops)));
        emit(request(&c, &ops[..3]));
        // invalid arguments on the large shape: nothing changes
        let bad = vec![
            Op::Reshape(size + 1),
            Op::Reshape(0),
            Op::Swap(h, 0),
            Op::Swap(0, h),
            Op::Set(h, 0, 1),
            Op::Set(0, w, 1),
            Op::Set2(0, w, 1),
            Op::SetRow(0, vec![1; w + 1]),
            Op::SetRow(h, vec![1; w]),
            Op::FillRow(h, 1),
            Op::Reshape(if size > 2 { size - 1 } else { 3 }),
            Op::Transpose,
        ];
        emit(format!("last {}", request(&big_ctor(rng, h, w, false), &bad)));
    }
    for n in 6..=40usize {
        let ops = [Op::Transpose, Op::Swap(0, n - 1), Op::Reshape(1)];
        emit(if n <= 16 { request(&Ctor::Ident(n), &ops) } else { format!("last {}", request(&Ctor::Ident(n), &ops)) });
    }
    // random scripts: both dimensions up to 12, or one dimension up to 40
    let n_rand = if thorough { 4000 } else { 350 };
    for i in 0..n_rand {
        let (h, w) = match i % 4 {
            0 => (rng.range(7, 12) as usize, rng.range(1, 12) as usize),
            1 => (rng.range(1, 12) as usize, rng.range(7, 12) as usize),
            2 => (rng.range(13, 40) as usize, rng.range(0, 3) as usize),
            _ => (rng.range(0, 3) as usize, rng.range(13, 40) as usize),
        };
        let c = big_ctor(rng, h, w, i % 3 == 0);
        let len = if h * w <= 60 { 40 } else { 14 };
        let mut ops = vec![];
        if let Ok(mut g) = OGrid::build(&c) {
            for _ in 0..len {
                let op = rand_op(rng, g.h, g.w);
                g.apply(&op);
                ops.push(op);
            }
        }
        emit(if h * w <= 150 { request(&c, &ops) } else { format!("last {}", request(&c, &ops)) });
    }
}

/// O. BLOCK BOUNDARIES (round 6): every size parameter of the array — height, width, number of items given to the
/// padding constructor, number / length of the rows of a nested vector, row indices of swaps and writes, reshape
/// targets — at blk-1, blk, blk+1, blk+2 and 2*blk+1 for blk = 16, 32, 64, 128, 256, the other dimension small (2, 3, 5)
/// so that the cost stays low, plus a few shapes with BOTH dimensions next to a boundary.  The data are the labels
/// 1..h*w (all distinct: a block that is transposed, overwritten, left stale or dropped is visible to the grid oracle,
/// which judges every step).  Each rearranging operation is the FIRST step of some request (two wrong transposes
/// cancel).  Tall AND wide orientations, and the history route (a wide array reshaped into a tall one, then transposed).
fn block_dims() -> Vec<usize> {
    let mut dims: Vec<usize> = vec![];
    for b in [16usize, 32, 64, 128, 256] {
        dims.extend([b - 1, b, b + 1, b + 2, 2 * b + 1]);
    }
    dims.sort();
    dims.dedup();
    dims
}

fn labelled_rows(h: usize, w: usize) -> (Vec<i64>, Vec<Vec<i64>>) {
    let data = labels(h, w);
    let rows = (0..h).map(|r| data[r * w..(r + 1) * w].to_vec()).collect();
    (data, rows)
}

fn block_family(rng: &mut Rng, thorough: bool, emit: &mut dyn FnMut(String)) {
    let dims = block_dims();
    let mut shapes: Vec<(usize, usize)> = vec![];
    for (i, &d) in dims.iter().enumerate() {
        let smalls: &[usize] = if thorough && d < 255 { &[2, 3, 5] } else if thorough { &[2, 3] } else if d >= 255 { &[2] } else { &[[2usize, 3, 5][i % 3]] };
        for &s in smalls {
            shapes.push((d, s));
            shapes.push((s, d));
        }
        if thorough {
            shapes.push((d, 1));
            shapes.push((1, d));
        }
    }
    // both dimensions next to a boundary (non-square and square)
    shapes.extend([(15, 17), (17, 16), (18, 33), (33, 31), (34, 17), (63, 17), (17, 65), (65, 66), (66, 64), (65, 65), (64, 64), (63, 66)]);
    if thorough {
        shapes.extend([(129, 17), (17, 130), (257, 18), (18, 258)]);
    }
    for (i, &(h, w)) in shapes.iter().enumerate() {
        let size = h * w;
        // (the list-based model needs about a second per request on 4000 cells: the quick tier sends two requests on
        // such shapes, the thorough tier all of them)
        let costly = size > 2600 && !thorough;
        let (data, rows) = labelled_rows(h, w);
        let ctor = |k: usize| -> Ctor {
            match k % 5 {
                0 => Ctor::Nested(rows.clone()),
                1 => Ctor::Flat(data.clone(), 0, h, w),
                2 => Ctor::NestedRef(0, rows.clone()),
                3 => Ctor::NestedRef(1, rows.clone()),
                _ => Ctor::Flat(data[..size - size / 3].to_vec(), -7, h, w),
            }
        };
        // row indices on both sides of every boundary below the height
        let edge = |n: usize, k: usize| -> usize {
            let c: Vec<usize> = [15usize, 16, 17, 31, 32, 33, 63, 64, 65, 127, 128, 129, 255, 256, 257].iter().copied().filter(|&x| x < n).collect();
            if c.is_empty() { n - 1 } else { c[c.len() - 1 - k.min(c.len() - 1)] }
        };
        // (a) copying transpose first, then rows swapped across the last boundary, in-place transpose back
        emit(format!("last {}", request(&ctor(i), &[Op::Transpose, Op::Swap(edge(w, 0), edge(w, 1)), Op::TransposeMut, Op::Swap(edge(h, 0), 0), Op::Transpose])));
        // (b) in-place transpose first
        if costly {
            if i % 2 == 0 {
                emit(format!("last {}", request(&ctor(i + 1), &[Op::TransposeMut, Op::Swap(0, w - 1), Op::Reshape(1), Op::Transpose])));
            } else {
                emit(format!("last {}", request(&ctor(i + 1), &[Op::Reshape(w), Op::Transpose, Op::Swap(edge(h, 0), edge(h, 1)), Op::TransposeMut])));
            }
            continue;
        }
        emit(format!("last {}", request(&ctor(i + 1), &[Op::TransposeMut, Op::Swap(0, w - 1), Op::Transpose, Op::Swap(h - 1, edge(h, 1)), Op::Clone, Op::TransposeMut])));
        // (c) the history route: reshape into every other height that is next to a boundary (or its cofactor is), then transpose
        let divs: Vec<usize> = (1..=size).filter(|k| size % k == 0 && *k != h && (dims.contains(k) || dims.contains(&(size / k)) || *k == size || *k == 1)).collect();
        for (j, &k) in divs.iter().enumerate().take(if thorough { 8 } else { 4 }) {
            let t = if (i + j) % 2 == 0 { Op::Transpose } else { Op::TransposeMut };
            emit(format!("last {}", request(&ctor(i + j + 2), &[Op::Reshape(k), t, Op::Swap(0, size / k - 1), Op::Reshape(h), Op::Transpose])));
        }
        // (d) row-wise and element-wise operations first: every row / cell must be reached exactly once
        let rowops = vec![
            Op::RowsMut { via: (i % 2) as u8, code: 2, a: 0, b: 0 },
            Op::Map { code: 0, a: 1, b: 0 },
            Op::RowsMut { via: ((i + 1) % 2) as u8, code: 0, a: 3, b: 100 },
            Op::Swap(edge(h, 0), edge(h, 1)),
            Op::FillRow(edge(h, 0), -4),
            Op::SetRow(edge(h, 1), (0..w as i64).map(|c| -10 - c).collect()),
            Op::Set(edge(h, 0), edge(w, 0), -5),
            Op::Set2(h - 1, w - 1, -6),
            Op::Convert((i % 2) as u8),
            Op::Map { code: 2, a: 7, b: 3 },
            Op::Clone,
            Op::Transpose,
        ];
        emit(format!("last {}", request(&ctor(i + 3), &rowops)));
        emit(format!("last {}", request(&ctor(i + 4), &rowops[1..4])));
        // (e) invalid arguments one past each size: refused, nothing changes
        let bad = vec![Op::Reshape(size + 1), Op::Swap(h, 0), Op::Set(h, 0, 1), Op::Set(0, w, 1), Op::Set2(h - 1, w, 1), Op::SetRow(h - 1, vec![1; w + 1]), Op::SetRow(h - 1, vec![1; w - 1]), Op::FillRow(h, 1), Op::TransposeMut];
        emit(format!("last {}", request(&ctor(i + 2), &bad)));
    }
    // (f) the padding constructor with a number of items next to a boundary (and next to the full size)
    for &(h, w) in &[(2usize, 40usize), (40, 2), (3, 90), (90, 3), (5, 60), (60, 5), (2, 300), (300, 2)] {
        let size = h * w;
        let (data, _) = labelled_rows(h, w);
        let mut keeps: Vec<usize> = dims.iter().copied().filter(|&k| k < size).collect();
        keeps.extend([size - 1, size, 0, 1]);
        for &k in &keeps {
            emit(format!("last {}", request(&Ctor::Flat(data[..k].to_vec(), -9, h, w), &[Op::Transpose, Op::Reshape(w.min(h))])));
        }
        let mut over = data.clone();
        over.push(1);
        emit(request(&Ctor::Flat(over, -9, h, w), &[Op::Transpose]));
    }
    // (g) identity matrices across the boundaries
    for &n in &[63usize, 64, 65, 66] {
        if !thorough && n != 65 {
            continue;
        }
        emit(format!("last {}", request(&Ctor::Ident(n), &[Op::Swap(n - 1, 62), Op::Transpose, Op::Reshape(1)])));
    }
    // (h) nested vectors with a boundary number of rows or a boundary row length: rectangular, one row deviating at an
    //     index next to a boundary, and compensated pairs (the total is that of a rectangle)
    for (i, &d) in dims.iter().enumerate() {
        if d > 258 {
            continue;
        }
        for &(nrows, w) in &[(d, 1 + i % 3), (2 + i % 3, d)] {
            let cands: Vec<usize> = [0usize, 14, 15, 16, 17, 31, 32, 33, 63, 64, 65, 127, 128, 129, 255, 256, 257, nrows - 1, nrows - 2].iter().copied().filter(|&x| x < nrows).collect();
            let variants = if thorough { 8 } else { 4 };
            for v in 0..variants {
                let mut lens = vec![w; nrows];
                let r1 = *rng.pick(&cands);
                match v % 4 {
                    0 => lens[r1] = w + 1,
                    1 => lens[r1] = w - 1,
                    2 => {
                        let r2 = *rng.pick(&cands);
                        if r2 != r1 {
                            lens[r1] = w + 1;
                            lens[r2] = w - 1;
                        } else {
                            lens[r1] = w + 2;
                        }
                    }
                    _ => {
                        // a whole row missing from one place and its items spread over `w` other rows is too long to
                        // build here: the last row carries the items of a dropped first row instead
                        if nrows >= 3 {
                            lens[0] = 0;
                            lens[nrows - 1] = 2 * w;
                        } else {
                            lens[r1] = w + 3;
                        }
                    }
                }
                let mut k = 0i64;
                let rows: Vec<Vec<i64>> = lens.iter().map(|l| (0..*l).map(|_| { k += 1; k }).collect()).collect();
                let c = match (i + v) % 3 {
                    0 => Ctor::Nested(rows),
                    1 => Ctor::NestedRef(0, rows),
                    _ => Ctor::NestedRef(1, rows),
                };
                emit(request(&c, &[Op::TransposeMut]));
            }
            // an inconvertible item beyond a boundary (i64 -> i32): the conversion is refused, not truncated
            let (_, mut rows) = labelled_rows(nrows, w);
            let r1 = *rng.pick(&cands);
            rows[r1][w - 1] = if i % 2 == 0 { I32_MAX + 1 } else { I32_MIN - 1 };
            emit(format!("last {}", request(&Ctor::NestedRef(1, rows.clone()), &[Op::Transpose])));
            rows[r1][w - 1] = if i % 2 == 0 { I32_MAX } else { I32_MIN };
            emit(format!("last {}", request(&Ctor::NestedRef(1, rows), &[Op::Transpose, Op::Convert(1)])));
        }
    }
}

/// text layout: columns mixing signs and widths of 1..20 characters (no arithmetic on the items)
fn display_family(rng: &mut Rng, thorough: bool, emit: &mut dyn FnMut(String)) {
    let pool: Vec<i64> = {
        let mut v = vec![0, 1, -1, 9, -9, 10, -10, 99, -99, 100, -100, 999, -999, 1000, -1000, 12345, -12345, I32_MAX, I32_MIN, I32_MAX + 1, I32_MIN - 1, i64::MAX, i64::MIN, i64::MAX - 1, i64::MIN + 1];
        for k in 1..=18u32 {
            v.push(10i64.pow(k));
            v.push(-(10i64.pow(k)));
            v.push(10i64.pow(k) - 1);
            v.push(-(10i64.pow(k) - 1));
        }
        v
    };
    let n = if thorough { 3000 } else { 300 };
    for i in 0..n {
        let h = 1 + rng.below(5) as usize;
        let w = 1 + rng.below(6) as usize;
        // each column has its own typical width; one cell of the column is wider / negative
        let col_style: Vec<u64> = (0..w).map(|_| rng.below(4)).collect();
        let mut data = vec![0i64; h * w];
        for r in 0..h {
            for c in 0..w {
                data[r * w + c] = match col_style[c] {
                    0 => rng.range(0, 9),
                    1 => rng.range(-9, 9),
                    2 => *rng.pick(&pool),
                    _ => rng.range(-120, 120),
                };
            }
        }
        for c in 0..w {
            if rng.chance(1, 2) {
                data[rng.below(h as u64) as usize * w + c] = *rng.pick(&pool);
            }
        }
        let rows: Vec<Vec<i64>> = (0..h).map(|r| data[r * w..(r + 1) * w].to_vec()).collect();
        let c = match i % 4 {
            0 => Ctor::Array(h, w, data.clone()),
            1 => Ctor::Nested(rows),
            2 => Ctor::NestedRef(0, rows),
            _ => Ctor::Flat(data.clone(), *rng.pick(&pool), h, w),
        };
        let size = h * w;
        let divisors: Vec<usize> = (1..=size).filter(|d| size % d == 0).collect();
        let ops = vec![
            Op::Transpose,
            Op::Set(rng.below(w as u64) as usize, rng.below(h as u64) as usize, *rng.pick(&pool)),
            Op::Reshape(*rng.pick(&divisors)),
            Op::RowsMut { via: (i % 2) as u8, code: 2, a: 0, b: 0 },
            Op::TransposeMut,
            Op::Swap(0, 0),
            Op::Convert(1),
        ];
        emit(request(&c, &ops));
    }
}


/// G. OBJECT HISTORY: arrays whose hidden buffer has SPARE CAPACITY (only the padding path of `from_flat` makes them:
/// more than half of the items given, or fewer than four cells) undergo every operation of the alphabet in place,
/// and every rearranging operation followed by the operations that rebuild or re-read the buffer.  (The random
/// scripts meet such arrays by chance; `clone` requests alternate with `clone_from` into a larger array.)
fn history_family(_rng: &mut Rng, thorough: bool, emit: &mut dyn FnMut(String)) {
    let top = if thorough { 5 } else { 4 };
    for h in 1..=top {
        for w in 1..=top {
            let n = h * w;
            let d = labels(h, w);
            for given in 0..n {
                let spare = 2 * given > n || n < 4;
                if !spare {
                    continue;
                }
                let c = Ctor::Flat(d[..given].to_vec(), -3, h, w);
                for op in alphabet(h, w) {
                    emit(request(&c, &[op]));
                }
                if h <= 3 && w <= 3 || thorough {
                    let second = [
                        Op::TransposeMut,
                        Op::Transpose,
                        Op::Reshape(1),
                        Op::Reshape(n),
                        Op::Swap(0, h - 1),
                        Op::Clone,
                        Op::Map { code: 0, a: 1, b: 0 },
                        Op::RowsMut { via: 0, code: 2, a: 0, b: 0 },
                        Op::Convert(0),
                        Op::Set(h - 1, w - 1, 77),
                    ];
                    for op1 in structural_alphabet(h, w) {
                        if matches!(op1, Op::Swap(a, b) if a >= h || b >= h || a > b) {
                            continue;
                        }
                        for op2 in &second {
                            emit(request(&c, &[op1.clone(), op2.clone(), Op::TransposeMut]));
                        }
                    }
                }
            }
        }
    }
}

/// nested vectors with more and longer rows than the exhaustive tuples: one or two rows deviate, sometimes so that the
/// total number of items is that of a rectangle
fn ragged_family(rng: &mut Rng, thorough: bool, emit: &mut dyn FnMut(String)) {
    let n = if thorough { 4000 } else { 400 };
    for i in 0..n {
        let nrows = rng.range(2, 12) as usize;
        let w = rng.range(0, 10) as usize;
        let mut lens = vec![w; nrows];
        let r1 = rng.below(nrows as u64) as usize;
        match i % 5 {
            0 => lens[r1] = w + 1 + rng.below(3) as usize,
            1 => lens[r1] = w.saturating_sub(1 + rng.below(2) as usize),
            2 | 3 => {
                // compensated: one row longer, another shorter by the same amount
                let r2 = (r1 + 1 + rng.below(nrows as u64 - 1) as usize) % nrows;
                let d = 1 + rng.below(w.max(1) as u64) as usize;
                if w >= d {
                    lens[r1] = w + d;
                    lens[r2] = w - d;
                } else {
                    lens[r1] = w + 1;
                }
            }
            _ => {} // rectangular: accepted
        }
        let mut k = 0i64;
        let rows: Vec<Vec<i64>> = lens
            .iter()
            .map(|l| {
                (0..*l)
                    .map(|_| {
                        k += 1;
                        k
                    })
                    .collect()
            })
            .collect();
        let tail = [Op::TransposeMut, Op::Reshape(lens[0].max(1))];
        let c = match i % 3 {
            0 => Ctor::Nested(rows),
            1 => Ctor::NestedRef(0, rows),
            _ => Ctor::NestedRef(1, rows),
        };
        emit(request(&c, &tail));
    }
}

pub fn generate(seed: u64, thorough: bool, out: &mut dyn FnMut(String)) {
    // the breadth-first exploration runs the real code, whose panics are expected here
    silence_panics();
    let mut rng = Rng::new(seed ^ 0xC12);
    // requests on large shapes are costly for the list-based model: they are generated first and spread evenly over
    // the request list (the check splits it into contiguous chunks, one per core)
    let mut heavy: Vec<String> = vec![];
    {
        let mut rng_big = Rng::new(seed ^ 0xC12B16);
        big_shapes(&mut rng_big, thorough, &mut |l| heavy.push(l));
        let mut rng_blk = Rng::new(seed ^ 0xC12B64);
        // (the same requests in both tiers: the list-based model is slow on these shapes)
        let _ = thorough;
        block_family(&mut rng_blk, false, &mut |l| heavy.push(l));
    }
    let mut heavy_it = heavy.into_iter();
    let mut count = 0usize;
    let mut spread = |line: String| {
        out(line);
        count += 1;
        if count % 128 == 0 {
            if let Some(h) = heavy_it.next() {
                out(h);
            }
        }
    };
    generate_light(&mut rng, thorough, &mut spread);
    for h in heavy_it {
        out(h);
    }
}

fn generate_light(rng: &mut Rng, thorough: bool, emit: &mut dyn FnMut(String)) {
    let mut rng = Rng(rng.next());
    // 1. every constructor on every shape 0..4 x 0..4 (valid, padded, ragged, oversized, empty), then
    //    one operation of each family
    for h in 0..=4usize {
        for w in 0..=4usize {
            let d = labels(h, w);
            let rows: Vec<Vec<i64>> = (0..h).map(|r| d[r * w..(r + 1) * w].to_vec()).collect();
            let tail = [Op::TransposeMut, Op::Reshape(w.max(1)), Op::Swap(0, h.saturating_sub(1)), Op::Convert(1)];
            let mut ctors = vec![
                Ctor::Full(3, h, w),
                Ctor::Array(h, w, d.clone()),
                Ctor::Nested(rows.clone()),
                Ctor::NestedRef(0, rows.clone()),
                Ctor::NestedRef(1, rows.clone()),
                Ctor::Flat(d.clone(), 0, h, w),
                Ctor::Flat(d.iter().copied().take(h * w / 2).collect(), -1, h, w),
                Ctor::Flat(vec![], 5, h, w),
                Ctor::Flat(d.iter().copied().chain([99]).collect(), 0, h, w),
            ];
            if h > 0 {
                let mut ragged = rows.clone();
                ragged[h - 1].push(9);
                ctors.push(Ctor::Nested(ragged.clone()));
                ctors.push(Ctor::NestedRef(0, ragged.clone()));
                let mut big = rows.clone();
                if w > 0 {
                    big[0][0] = 1 << 40;
                    ctors.push(Ctor::NestedRef(1, big.clone())); // inconvertible item
                    ragged[0][0] = 1 << 40;
                    ctors.push(Ctor::NestedRef(1, ragged)); // inconvertible item and ragged row
                    big[0][0] = 1;
                    big[h - 1][w - 1] = I32_MIN - 1;
                    let mut both = big.clone();
                    both[0].pop();
                    ctors.push(Ctor::NestedRef(1, both)); // ragged first row, inconvertible item later
                }
            }
            for c in ctors {
                emit(request(&c, &tail));
            }
        }
    }
    // 1b. nested-vector constructors on EVERY tuple of row lengths 0..4 for 1..4 rows (625 + … tuples): ragged rows
    //     must be refused whatever their lengths add up to (e.g. lengths 3,2,4 hold as many items as a 3x3 grid)
    for nrows in 1..=4usize {
        let mut lens = vec![0usize; nrows];
        loop {
            let mut k = 1i64;
            let rows: Vec<Vec<i64>> = lens
                .iter()
                .map(|l| {
                    (0..*l)
                        .map(|_| {
                            k += 1;
                            k
                        })
                        .collect()
                })
                .collect();
            let tail = [Op::TransposeMut, Op::Reshape(lens[0].max(1))];
            emit(request(&Ctor::Nested(rows.clone()), &tail));
            emit(request(&Ctor::NestedRef(0, rows.clone()), &tail));
            if nrows <= 3 {
                emit(request(&Ctor::NestedRef(1, rows), &tail));
            }
            // next tuple
            let mut i = 0;
            while i < nrows {
                lens[i] += 1;
                if lens[i] <= 4 {
                    break;
                }
                lens[i] = 0;
                i += 1;
            }
            if i == nrows {
                break;
            }
        }
    }
    emit(request(&Ctor::New, &[Op::Transpose, Op::Reshape(1), Op::Reshape(0), Op::Swap(0, 0), Op::Set(0, 0, 1)]));
    for n in 0..=5usize {
        emit(request(&Ctor::Ident(n), &[Op::Transpose, Op::Swap(0, n.saturating_sub(1)), Op::Reshape(1)]));
    }
    // 2. breadth-first exploration
    let depth = if thorough { 4 } else { 3 };
    let (total, sizes) = bfs(depth, emit);
    if std::env::var_os("VERIF_C12_STATS").is_some() {
        eprintln!("C12 gen: bfs depth {depth}: {total} requests, states per level {sizes:?}");
    }
    // 2b. the same to a fixpoint of the structural state space, for the small shapes
    let (total, states, levels) = bfs_fixpoint(if thorough { 6 } else { 4 }, emit);
    if std::env::var_os("VERIF_C12_STATS").is_some() {
        eprintln!("C12 gen: structural fixpoint: {total} requests, {states} states, {levels} levels");
    }
    // 3. long random scripts on shapes up to 6 x 6
    let n_rand = if thorough { 30000 } else { 3000 };
    for _ in 0..n_rand {
        emit(random_script(&mut rng, 6, 40));
    }
    // 4. text layout with items of 1..20 characters, ragged vectors of up to 12 rows (shapes with a dimension of
    //    7..65 are interleaved by `generate`)
    display_family(&mut rng, thorough, emit);
    ragged_family(&mut rng, thorough, emit);
    // 5. arrays with spare capacity under every operation
    history_family(&mut rng, thorough, emit);
}
