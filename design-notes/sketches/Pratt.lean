namespace Pratt

inductive Op | add | sub | div | mul | cdot | rem | caret | fac
deriving DecidableEq, Repr

inductive Tok
  | num (n : Nat)      -- index into a literal table; value irrelevant to structure
  | var (c : Char)
  | const (k : Nat)
  | func (f : Nat)
  | op (o : Op)
  | lp | rp
deriving DecidableEq, Repr

inductive Expr
  | num (n : Nat) | var (c : Char) | const (k : Nat)
  | func (f : Nat) (inner : Expr)
  | pre (o : Op) (v : Expr)
  | post (o : Op) (v : Expr)
  | bin (o : Op) (l r : Expr) (paren : Bool)
deriving DecidableEq, Repr

inductive PErr | unexpectedToken (t : Tok) | eot | syntaxErr
deriving DecidableEq, Repr

/-- binding powers ×1 (the Rust table uses f64 1.0..5.0; compared only with `<` and `+1.0`) -/
def bp : Op → Nat
  | .sub => 1 | .add => 1 | .mul => 2 | .div => 2 | .rem => 3 | .cdot => 4 | .caret => 5 | .fac => 0

def setParen : Expr → Expr
  | .bin o l r _ => .bin o l r true
  | e => e

def postfixLoop (l : Expr) : List Tok → Expr × List Tok
  | .op .fac :: r => postfixLoop (.post .fac l) r
  | ts => (l, ts)

mutual
/-- parse_expr: prefix part + postfix loop + binary loop. `fuel` bounds recursion depth. -/
def parseExpr : Nat → List Tok → Nat → Except PErr (Expr × List Tok)
  | 0, _, _ => .error .syntaxErr   -- out of fuel (shown unreachable when fuel > tokens)
  | fuel+1, ts, minBp =>
    match ts with
    | [] => .error .syntaxErr
    | t :: rest =>
      let left : Except PErr (Expr × List Tok) :=
        match t with
        | .num n => .ok (.num n, rest)
        | .var c => .ok (.var c, rest)
        | .const k => .ok (.const k, rest)
        | .lp =>
          match parseExpr fuel rest 0 with
          | .error e => .error e
          | .ok (e, rest') =>
            match rest' with
            | .rp :: r'' => .ok (setParen e, r'')
            | t' :: _ => .error (.unexpectedToken t')
            | [] => .error .eot
        | .rp => .error (.unexpectedToken .rp)
        | .func f =>
          match rest with
          | .lp :: _ =>
            match parseExpr fuel rest 5 with
            | .error e => .error e
            | .ok (inner, r') => .ok (.func f inner, r')
          | t' :: _ => .error (.unexpectedToken t')
          | [] => .error .eot
        | .op o =>
          if o ≠ .sub then .error (.unexpectedToken (.op o)) else
          match parseExpr fuel rest 2 with
          | .error e => .error e
          | .ok (v, r') => .ok (.pre .sub v, r')
      match left with
      | .error e => .error e
      | .ok (l, r) =>
        let (l, r) := postfixLoop l r
        binLoop fuel l r minBp

def binLoop : Nat → Expr → List Tok → Nat → Except PErr (Expr × List Tok)
  | 0, l, ts, _ => (match ts with | .op _ :: _ => .error .syntaxErr | _ => .ok (l, ts))
  | fuel+1, l, ts, minBp =>
    match ts with
    | .op o :: rest =>
      let c := bp o
      if c < minBp then .ok (l, ts) else
      let o' := if o = .cdot then .mul else o
      match parseExpr fuel rest (c+1) with
      | .error e => .error e
      | .ok (rhs, r') => binLoop fuel (.bin o' l rhs false) r' minBp
    | _ => .ok (l, ts)
end

end Pratt
