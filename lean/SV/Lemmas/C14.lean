import SV.Model.C14
import SV.Lemmas.Mat
import Mathlib.Data.Matrix.Mul
import Mathlib.Tactic.Module
import Mathlib.Tactic.NoncommRing
import Mathlib.Tactic.Ring
import Mathlib.Tactic.FieldSimp
import Mathlib.Tactic.Linarith
import Mathlib.Algebra.Order.Field.Basic
import Mathlib.Algebra.Order.BigOperators.Ring.Finset
/-!
Helper lemmas for C14 (Hessenberg reduction): the scalar identities of the reflector the code
builds, sums over the sub-column, the reflector as an `n × n` Mathlib matrix, and the three
tabulated phases as matrix products.  The property theorems are in `SV.Props.C14`.
-/
set_option linter.unusedSectionVars false

namespace SV.C14
open SV Finset Matrix

variable {K : Type} [Field K] [LinearOrder K] [IsStrictOrderedRing K] [Inhabited K]

/-! ### scalars -/

theorem signOf_mul_self (x0 : K) : signOf x0 * signOf x0 = 1 := by
  unfold signOf; split_ifs <;> ring

theorem signOf_cases (x0 : K) : (0 ≤ x0 ∧ signOf x0 = -1) ∨ (x0 < 0 ∧ signOf x0 = 1) := by
  unfold signOf
  by_cases h : x0 ≥ 0
  · left; exact ⟨h, if_pos h⟩
  · right; exact ⟨not_le.mp h, if_neg h⟩

/-- no cancellation: `u1 = x0 - sign*‖x‖` has modulus `|x0| + ‖x‖` -/
theorem u1_abs (x0 nrm : K) (hpos : 0 < nrm) :
    x0 - signOf x0 * nrm ≠ 0 ∧ nrm ≤ |x0 - signOf x0 * nrm| := by
  rcases signOf_cases x0 with ⟨h, e⟩ | ⟨h, e⟩
  · rw [e]
    have : 0 < x0 - -1 * nrm := by linarith
    exact ⟨ne_of_gt this, by rw [abs_of_pos this]; linarith⟩
  · rw [e]
    have : x0 - 1 * nrm < 0 := by linarith
    exact ⟨ne_of_lt this, by rw [abs_of_neg this]; linarith⟩

/-- `tau · (vᵀv) = 2` in the scalars of the code: `x0` leading entry, `r = Σ_{t≥1} x_t²` -/
theorem tau_vtv (x0 r nrm : K) (hn : nrm * nrm = x0 * x0 + r) (hpos : 0 < nrm) :
    (-(signOf x0)) * (x0 - signOf x0 * nrm) / nrm
      * (1 + r / ((x0 - signOf x0 * nrm) * (x0 - signOf x0 * nrm))) = 2 := by
  have hu := (u1_abs x0 nrm hpos).1
  have hss := signOf_mul_self x0
  generalize signOf x0 = s at hu hss
  have hr : r = nrm * nrm - x0 * x0 := by linarith
  have hn0 : nrm ≠ 0 := ne_of_gt hpos
  subst hr
  field_simp
  have h2 : s ^ 2 = 1 := by rw [pow_two]; exact hss
  have h3 : s ^ 3 = s := by rw [pow_succ, h2, one_mul]
  ring_nf
  rw [h3, h2]
  ring

/-- `tau · (vᵀx) = u1` -/
theorem tau_vtx (x0 r nrm : K) (hn : nrm * nrm = x0 * x0 + r) (hpos : 0 < nrm) :
    (-(signOf x0)) * (x0 - signOf x0 * nrm) / nrm * (x0 + r / (x0 - signOf x0 * nrm))
      = x0 - signOf x0 * nrm := by
  have hu := (u1_abs x0 nrm hpos).1
  have hss := signOf_mul_self x0
  generalize signOf x0 = s at hu hss
  have hr : r = nrm * nrm - x0 * x0 := by linarith
  have hn0 : nrm ≠ 0 := ne_of_gt hpos
  subst hr
  field_simp
  have h2 : s ^ 2 = 1 := by rw [pow_two]; exact hss
  ring_nf
  rw [h2]
  ring

/-! ### sums over the sub-column `x_t = h[k+1+t][k]`, `t < m = n-(k+1)` -/

theorem colNormSq_eq (n k : Nat) (H : Mat K) :
    colNormSq n k H = ∑ t ∈ range (n - (k + 1)), H.get (k + 1 + t) k * H.get (k + 1 + t) k := by
  unfold colNormSq
  rw [sumFrom_eq, zero_add]

theorem colNormSq_nonneg (n k : Nat) (H : Mat K) : 0 ≤ colNormSq n k H := by
  rw [colNormSq_eq]
  exact Finset.sum_nonneg fun t _ => mul_self_nonneg _

theorem sum_split (m' : Nat) (f : Nat → K) :
    ∑ t ∈ range (m' + 1), f t = f 0 + ∑ t ∈ range m', f (t + 1) := by
  rw [Finset.sum_range_succ', add_comm]

/-- `vᵀv = 1 + r/u1²` -/
theorem vtv_eq (k m' : Nat) (H : Mat K) (u1 : K) :
    ∑ t ∈ range (m' + 1), vvec k H u1 t * vvec k H u1 t
      = 1 + (∑ t ∈ range m', H.get (k + 1 + (t + 1)) k * H.get (k + 1 + (t + 1)) k) / (u1 * u1) := by
  rw [sum_split, div_eq_mul_inv, Finset.sum_mul]
  congr 1
  · simp [vvec]
  · apply Finset.sum_congr rfl
    intro t _
    simp only [vvec, Nat.succ_ne_zero, if_false]
    rw [div_mul_div_comm, div_eq_mul_inv]

/-- `vᵀx = x0 + r/u1` -/
theorem vtx_eq (k m' : Nat) (H : Mat K) (u1 : K) :
    ∑ t ∈ range (m' + 1), vvec k H u1 t * H.get (k + 1 + t) k
      = H.get (k + 1) k
        + (∑ t ∈ range m', H.get (k + 1 + (t + 1)) k * H.get (k + 1 + (t + 1)) k) / u1 := by
  rw [sum_split, div_eq_mul_inv, Finset.sum_mul]
  congr 1
  · simp [vvec]
  · apply Finset.sum_congr rfl
    intro t _
    simp only [vvec, Nat.succ_ne_zero, if_false]
    rw [div_mul_eq_mul_div, div_eq_mul_inv]

/-! ### the reflector as an `n × n` matrix: `U = 1 − tau · w wᵀ`, `w = (0,…,0,v)` -/

/-- `v` shifted down by `k+1` and extended by zeros -/
def wvN (k : Nat) (v : Nat → K) (l : Nat) : K := if l < k + 1 then 0 else v (l - (k + 1))

def wv (n k : Nat) (v : Nat → K) : Fin n → K := fun i => wvN k v i.val

/-- `diag(1_{k+1}, 1 − tau·v vᵀ)`, written without block casts -/
def reflM (n k : Nat) (tau : K) (v : Nat → K) : Matrix (Fin n) (Fin n) K :=
  1 - tau • vecMulVec (wv n k v) (wv n k v)

theorem sum_wv (n k : Nat) (hk : k + 1 ≤ n) (v g : Nat → K) :
    ∑ i : Fin n, wv n k v i * g i.val = ∑ t ∈ range (n - (k + 1)), v t * g (k + 1 + t) := by
  have e : ∑ i : Fin n, wv n k v i * g i.val = ∑ l ∈ range n, wvN k v l * g l :=
    (Finset.sum_range (fun l => wvN k v l * g l)).symm
  rw [e]
  have hn : n = (k + 1) + (n - (k + 1)) := by omega
  conv_lhs => rw [hn]
  rw [Finset.sum_range_add]
  have h1 : ∑ x ∈ range (k + 1), wvN k v x * g x = 0 := by
    apply Finset.sum_eq_zero
    intro x hx
    simp [wvN, Finset.mem_range.mp hx]
  rw [h1, zero_add]
  apply Finset.sum_congr rfl
  intro t _
  have hlt : ¬ (k + 1 + t < k + 1) := by omega
  simp only [wvN, hlt, if_false, Nat.add_sub_cancel_left]

theorem wv_dot (n k : Nat) (hk : k + 1 ≤ n) (v : Nat → K) :
    wv n k v ⬝ᵥ wv n k v = ∑ t ∈ range (n - (k + 1)), v t * v t := by
  unfold dotProduct
  refine (sum_wv n k hk v (wvN k v)).trans ?_
  apply Finset.sum_congr rfl
  intro t _
  have hlt : ¬ (k + 1 + t < k + 1) := by omega
  simp only [wvN, hlt, if_false, Nat.add_sub_cancel_left]

/-- a rank-one update with `tau·(wᵀw) = 2` is a symmetric involution -/
theorem refl_orth {n : Nat} (w : Fin n → K) (tau : K) (h : tau * (w ⬝ᵥ w) = 2) :
    (1 - tau • vecMulVec w w)ᵀ = 1 - tau • vecMulVec w w ∧
      (1 - tau • vecMulVec w w) * (1 - tau • vecMulVec w w) = 1 := by
  have hT : (vecMulVec w w)ᵀ = vecMulVec w w := by
    ext i j; simp [vecMulVec_apply, mul_comm]
  have hW : vecMulVec w w * vecMulVec w w = (w ⬝ᵥ w) • vecMulVec w w := by
    ext i j
    simp only [Matrix.mul_apply, vecMulVec_apply, Matrix.smul_apply, smul_eq_mul, dotProduct,
      Finset.sum_mul]
    apply Finset.sum_congr rfl
    intro l _
    ring
  constructor
  · rw [transpose_sub, transpose_one, transpose_smul, hT]
  · generalize vecMulVec w w = W at hW
    have hXX : (tau • W) * (tau • W) = (tau * 2) • W := by
      rw [Matrix.smul_mul, Matrix.mul_smul, hW, smul_smul, smul_smul, mul_assoc, h]
    have hsq : ∀ X : Matrix (Fin n) (Fin n) K, (1 - X) * (1 - X) = 1 - X - X + X * X := by
      intro X; noncomm_ring
    rw [hsq, hXX]
    module

theorem reflM_mul_apply (n k : Nat) (hk : k + 1 ≤ n) (tau : K) (v : Nat → K) (H : Mat K)
    (i j : Fin n) :
    (reflM n k tau v * H.toMatrix n n) i j
      = H.get i j - tau * (wvN k v i
          * ∑ t ∈ range (n - (k + 1)), v t * H.get (k + 1 + t) j) := by
  unfold reflM
  rw [Matrix.sub_mul, Matrix.one_mul, Matrix.smul_mul, Matrix.sub_apply, Matrix.smul_apply,
    Matrix.mul_apply, smul_eq_mul]
  simp only [vecMulVec_apply, Mat.toMatrix, mul_assoc]
  rw [← Finset.mul_sum, sum_wv n k hk v (fun l => H.get l j)]
  rfl

theorem mul_reflM_apply (n k : Nat) (hk : k + 1 ≤ n) (tau : K) (v : Nat → K) (H : Mat K)
    (i j : Fin n) :
    (H.toMatrix n n * reflM n k tau v) i j
      = H.get i j - tau * ((∑ t ∈ range (n - (k + 1)), v t * H.get i (k + 1 + t))
          * wvN k v j) := by
  unfold reflM
  rw [Matrix.mul_sub, Matrix.mul_one, Matrix.mul_smul, Matrix.sub_apply, Matrix.smul_apply,
    Matrix.mul_apply, smul_eq_mul]
  simp only [vecMulVec_apply, Mat.toMatrix, ← mul_assoc]
  rw [← Finset.sum_mul]
  have := sum_wv n k hk v (fun l => H.get i l)
  simp only [mul_comm (wv n k v _)] at this
  rw [this]
  simp only [wv]
  ring

theorem toMatrix_ident (n : Nat) : (Mat.ident n : Mat K).toMatrix n n = 1 := by
  funext i j
  simp only [Mat.toMatrix]
  rw [Mat.get_ident i.isLt j.isLt, Matrix.one_apply]
  simp [Fin.ext_iff]

/-! ### the three phases are products with the reflector -/

theorem leftPhase_toMatrix (n k : Nat) (hk : k + 1 ≤ n) (tau : K) (v : Nat → K) (H : Mat K)
    (hz : ∀ j, j < k → ∀ i, k + 1 ≤ i → i < n → H.get i j = 0) :
    (leftPhase n k tau v H).toMatrix n n = reflM n k tau v * H.toMatrix n n := by
  funext i j
  rw [reflM_mul_apply n k hk]
  simp only [Mat.toMatrix]
  unfold leftPhase
  rw [Mat.get_tab _ i.isLt j.isLt, sumFrom_zero]
  by_cases hi : k + 1 ≤ i.val
  · have hw : wvN k v i.val = v (i.val - (k + 1)) := by simp [wvN, not_lt.mpr hi]
    by_cases hj : k ≤ j.val
    · rw [if_pos ⟨hi, hj⟩, hw, mul_assoc]
    · rw [if_neg (by tauto)]
      have h0 : ∑ t ∈ range (n - (k + 1)), v t * H.get (k + 1 + t) j = 0 := by
        apply Finset.sum_eq_zero
        intro t ht
        have := Finset.mem_range.mp ht
        rw [hz j (by omega) (k + 1 + t) (by omega) (by omega), mul_zero]
      rw [h0]; ring
  · rw [if_neg (by tauto)]
    have hw : wvN k v i.val = 0 := by simp [wvN, not_le.mp hi]
    rw [hw]; ring

theorem rightPhase_toMatrix (n k : Nat) (hk : k + 1 ≤ n) (tau : K) (v : Nat → K) (H : Mat K) :
    (rightPhase n k tau v H).toMatrix n n = H.toMatrix n n * reflM n k tau v := by
  funext i j
  rw [mul_reflM_apply n k hk]
  simp only [Mat.toMatrix]
  unfold rightPhase
  rw [Mat.get_tab _ i.isLt j.isLt, sumFrom_zero]
  by_cases hj : k + 1 ≤ j.val
  · have hw : wvN k v j.val = v (j.val - (k + 1)) := by simp [wvN, not_lt.mpr hj]
    rw [if_pos hj, hw]; ring
  · have hw : wvN k v j.val = 0 := by simp [wvN, not_le.mp hj]
    rw [if_neg hj, hw]; ring

/-! ### the code's `sign, u1, v, tau` -/

/-- the hypotheses under which the `sqrt` parameter is used -/
def IsSqrt (sqrt : K → K) : Prop := ∀ x : K, 0 ≤ x → sqrt x * sqrt x = x ∧ 0 ≤ sqrt x

theorem reflOf_facts (sqrt : K → K) (hs : IsSqrt sqrt) (n k : Nat) (hk : k + 1 < n) (H : Mat K)
    (hne : (reflOf sqrt n k H).norm ≠ 0) :
    (reflOf sqrt n k H).u1 ≠ 0 ∧
    (reflOf sqrt n k H).norm ≤ |(reflOf sqrt n k H).u1| ∧
    (reflOf sqrt n k H).tau * (∑ t ∈ range (n - (k + 1)),
        vvec k H (reflOf sqrt n k H).u1 t * vvec k H (reflOf sqrt n k H).u1 t) = 2 ∧
    (reflOf sqrt n k H).tau * (∑ t ∈ range (n - (k + 1)),
        vvec k H (reflOf sqrt n k H).u1 t * H.get (k + 1 + t) k) = (reflOf sqrt n k H).u1 := by
  obtain ⟨m', hm'⟩ : ∃ m', n - (k + 1) = m' + 1 := ⟨n - (k + 1) - 1, by omega⟩
  have hsq := hs _ (colNormSq_nonneg n k H)
  have hnn : sqrt (colNormSq n k H) * sqrt (colNormSq n k H)
      = H.get (k + 1) k * H.get (k + 1) k
        + ∑ t ∈ range m', H.get (k + 1 + (t + 1)) k * H.get (k + 1 + (t + 1)) k := by
    rw [hsq.1, colNormSq_eq, hm', sum_split]
  have hpos : 0 < sqrt (colNormSq n k H) := lt_of_le_of_ne hsq.2 (Ne.symm hne)
  rw [hm', vtv_eq, vtx_eq]
  exact ⟨(u1_abs _ _ hpos).1, (u1_abs _ _ hpos).2, tau_vtv _ _ _ hnn hpos, tau_vtx _ _ _ hnn hpos⟩

/-- skip branch: a zero norm means the whole sub-column is zero -/
theorem subcol_zero_of_norm_zero (sqrt : K → K) (hs : IsSqrt sqrt) (n k : Nat) (H : Mat K)
    (h0 : (reflOf sqrt n k H).norm = 0) : ∀ i, k + 1 ≤ i → i < n → H.get i k = 0 := by
  have hsq := (hs _ (colNormSq_nonneg n k H)).1
  have hz : colNormSq n k H = 0 := by
    have : sqrt (colNormSq n k H) = 0 := h0
    rw [← hsq, this, mul_zero]
  rw [colNormSq_eq, Finset.sum_eq_zero_iff_of_nonneg (fun t _ => mul_self_nonneg _)] at hz
  intro i hi hin
  have := hz (i - (k + 1)) (Finset.mem_range.mpr (by omega))
  rw [show k + 1 + (i - (k + 1)) = i by omega] at this
  exact mul_self_eq_zero.mp this

/-! ### the loop invariant -/

/-- what holds of `(h, q)` after the passes `0 .. k-1` on input `A` (all `n × n`) -/
structure Inv (n k : Nat) (A : Mat K) (s : Mat K × Mat K) : Prop where
  orth : (s.2.toMatrix n n)ᵀ * s.2.toMatrix n n = 1
  sim : s.2.toMatrix n n * s.1.toMatrix n n * (s.2.toMatrix n n)ᵀ = A.toMatrix n n
  zero : ∀ j, j < k → ∀ i, j + 1 < i → i < n → s.1.get i j = 0
  dims : s.1.h = n ∧ s.1.w = n ∧ s.2.h = n ∧ s.2.w = n

theorem inv_init (n : Nat) (A : Mat K) (hh : A.h = n) (hw : A.w = n) :
    Inv n 0 A (A, Mat.ident n) := by
  refine ⟨?_, ?_, ?_, ⟨hh, hw, rfl, rfl⟩⟩
  · show ((Mat.ident n : Mat K).toMatrix n n)ᵀ * (Mat.ident n : Mat K).toMatrix n n = 1
    rw [toMatrix_ident, transpose_one, Matrix.one_mul]
  · show (Mat.ident n : Mat K).toMatrix n n * A.toMatrix n n
        * ((Mat.ident n : Mat K).toMatrix n n)ᵀ = A.toMatrix n n
    rw [toMatrix_ident, transpose_one, Matrix.one_mul, Matrix.mul_one]
  · intro j hj; omega

/-- applying any reflector with `tau·vᵀv = 2` that annihilates the entries `k+2..` of column `k`
advances the invariant -/
theorem reflect_inv (n k : Nat) (hk : k + 1 ≤ n) (tau : K) (v : Nat → K) (A : Mat K)
    (s : Mat K × Mat K) (h : Inv n k A s)
    (hvtv : tau * (∑ t ∈ range (n - (k + 1)), v t * v t) = 2)
    (hcol : ∀ i, k + 2 ≤ i → i < n →
      s.1.get i k - tau * v (i - (k + 1))
        * (∑ t ∈ range (n - (k + 1)), v t * s.1.get (k + 1 + t) k) = 0) :
    Inv n (k + 1) A
      (rightPhase n k tau v (leftPhase n k tau v s.1), rightPhase n k tau v s.2) := by
  have hU := refl_orth (wv n k v) tau (by rw [wv_dot n k hk]; exact hvtv)
  have hUT : (reflM n k tau v)ᵀ = reflM n k tau v := hU.1
  have hUU : reflM n k tau v * reflM n k tau v = 1 := hU.2
  have hUUx : ∀ X : Matrix (Fin n) (Fin n) K, reflM n k tau v * (reflM n k tau v * X) = X := by
    intro X; rw [← Matrix.mul_assoc, hUU, Matrix.one_mul]
  have hzl : ∀ j, j < k → ∀ i, k + 1 ≤ i → i < n → s.1.get i j = 0 :=
    fun j hj i hi hin => h.zero j hj i (by omega) hin
  have e1 := leftPhase_toMatrix n k hk tau v s.1 hzl
  have e2 := rightPhase_toMatrix n k hk tau v (leftPhase n k tau v s.1)
  have e3 := rightPhase_toMatrix n k hk tau v s.2
  refine ⟨?_, ?_, ?_, ⟨rfl, rfl, rfl, rfl⟩⟩
  · show ((rightPhase n k tau v s.2).toMatrix n n)ᵀ * (rightPhase n k tau v s.2).toMatrix n n = 1
    rw [e3, transpose_mul, hUT, Matrix.mul_assoc, ← Matrix.mul_assoc (s.2.toMatrix n n)ᵀ, h.orth,
      Matrix.one_mul, hUU]
  · show (rightPhase n k tau v s.2).toMatrix n n
        * (rightPhase n k tau v (leftPhase n k tau v s.1)).toMatrix n n
        * ((rightPhase n k tau v s.2).toMatrix n n)ᵀ = A.toMatrix n n
    rw [e3, e2, e1, transpose_mul, hUT]
    simp only [Matrix.mul_assoc]
    rw [hUUx, hUUx, ← Matrix.mul_assoc]
    exact h.sim
  · intro j hj i hi hin
    have hr : (rightPhase n k tau v (leftPhase n k tau v s.1)).get i j
        = (leftPhase n k tau v s.1).get i j := by
      unfold rightPhase
      rw [Mat.get_tab _ hin (by omega), if_neg (by omega)]
    show (rightPhase n k tau v (leftPhase n k tau v s.1)).get i j = 0
    rw [hr]
    unfold leftPhase
    rw [Mat.get_tab _ hin (by omega)]
    rcases Nat.lt_succ_iff_lt_or_eq.mp hj with hlt | heq
    · rw [if_neg (by omega)]
      exact h.zero j hlt i hi hin
    · subst heq
      rw [if_pos ⟨by omega, le_refl _⟩, sumFrom_zero]
      exact hcol i (by omega) hin

/-- one pass of the loop advances the invariant (both branches) -/
theorem step_inv (sqrt : K → K) (hs : IsSqrt sqrt) (n k : Nat) (hk : k + 1 < n) (A : Mat K)
    (s : Mat K × Mat K) (h : Inv n k A s) : Inv n (k + 1) A (step sqrt n k s) := by
  unfold step
  by_cases h0 : ((reflOf sqrt n k s.1).norm == 0) = true
  · simp only [h0, if_true]
    have hz := subcol_zero_of_norm_zero sqrt hs n k s.1 (beq_iff_eq.mp h0)
    refine ⟨h.orth, h.sim, ?_, h.dims⟩
    intro j hj i hi hin
    rcases Nat.lt_succ_iff_lt_or_eq.mp hj with hlt | heq
    · exact h.zero j hlt i hi hin
    · subst heq; exact hz i (by omega) hin
  · simp only [h0]
    have hne : (reflOf sqrt n k s.1).norm ≠ 0 := fun e => h0 (beq_iff_eq.mpr e)
    obtain ⟨hu1, _, hvtv, hvtx⟩ := reflOf_facts sqrt hs n k hk s.1 hne
    apply reflect_inv n k (by omega) _ _ A s h hvtv
    intro i hi hin
    have hv : vvec k s.1 (reflOf sqrt n k s.1).u1 (i - (k + 1))
        = s.1.get i k / (reflOf sqrt n k s.1).u1 := by
      unfold vvec
      rw [if_neg (by omega), show k + 1 + (i - (k + 1)) = i by omega]
    rw [hv, mul_comm (reflOf sqrt n k s.1).tau, mul_assoc, hvtx, div_mul_cancel₀ _ hu1, sub_self]

/-- the whole loop -/
theorem fold_inv (sqrt : K → K) (hs : IsSqrt sqrt) (n : Nat) (A : Mat K) (hh : A.h = n)
    (hw : A.w = n) : ∀ m, m + 1 < n ∨ m = 0 →
      Inv n m A ((List.range m).foldl (fun s k => step sqrt n k s) (A, Mat.ident n)) := by
  intro m
  induction m with
  | zero => intro _; exact inv_init n A hh hw
  | succ m ih =>
    intro hm
    rw [List.range_succ, List.foldl_append, List.foldl_cons, List.foldl_nil]
    exact step_inv sqrt hs n m (by omega) A _ (ih (by omega))

end SV.C14
