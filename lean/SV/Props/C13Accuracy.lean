import SV.Props.C13
import SV.Lemmas.C13AccSeq
import SV.Lemmas.C13AccSpec
import SV.Lemmas.C13AccLoop
import Mathlib.Tactic.FinCases
import Mathlib.Tactic.IntervalCases
import Mathlib.Data.Fin.VecNotation
import Mathlib.Algebra.BigOperators.Fin
/-!
# C13 — the accuracy clause of the power method, proved (exact real arithmetic)

`SV.Props.C13.PowerAccuracy` (stated in `SV.Props.C13` as an open `def … : Prop`, until now decided
by search only) is proved here over `ℝ`, about the same generic `SV.C13.power`/`powerCap`/`loop`
the driver runs at `Float`:

* `powerCap_accuracy_sharp` — for **every cap `≥ 24`** and **every tolerance `≥ 1e-12`** (no upper
  bound on the tolerance is needed) the call returns `Ok (λ, v)` after `2 ≤ p ≤ 24` passes with
  `|λ − d₁| ≤ 1·tol·|d₁|`, `‖Av − λv‖² ≤ 6·tol·λ²‖v‖²` (so `‖Av − λv‖ ≤ 2.45·√tol·|λ|‖v‖`), and `λ`
  has the sign of `d₁` with `|d₁|/4 ≤ |λ| ≤ |d₁|`.
* `power_accuracy_sharp` — the same for `power = powerCap SV.Gen.powerMethodCap` (the cap the source
  declares is re-read on every run; the only fact used is `24 ≤ cap`, by `decide`).
* `power_accuracy : PowerAccuracy` — the clause as stated (constants `8` and `8²`).

Proof (helper layers `SV.Lemmas.C13AccSeq/Spec/Loop`): every iterate of the loop is a non-zero
multiple of `Aᵏ·1`, whose spectral coefficients are `c_a d_aᵏ`; its Rayleigh quotient is
`d₁·rho k` with `1 − rho k = eps k ≥ 0`, `eps (k+1) ≤ eps k / 2` for `k ≥ 2` and
`eps k ≤ 24 / 4ᵏ`.  The first stopping-capable pass compares `rho 3` with `rho 2`; a passed test
`|(rho (k+1) − rho k)/rho (k+1)| < tol` gives `eps (k+1) ≤ eps k − eps (k+1) < tol·rho (k+1)`, and
the test must pass at `k = 24` at the latest.  The residual follows from
`rayleigh_residual_identity` and `Σ p_a (1 − r_a)² ≤ (3/2) Σ p_a (1 − r_a)`.

This is a statement about the exact-arithmetic model; rounding is not covered (the `Float` instance
is compared with the Rust code bit for bit by the check, and the oracle of the check measures the
same two quantities on the `f64` results with the constant 8).
-/
set_option linter.unusedSectionVars false

namespace SV.Props.C13Accuracy
open SV SV.C11 SV.C13 SV.C13.Acc SV.Props.C13 Finset Matrix

/-- **Accuracy, sharp form, any cap `≥ 24`.**  Hypotheses exactly those of `PowerAccuracy` except
that the tolerance is only bounded below. -/
theorem powerCap_accuracy_sharp (cap : Nat) (hcap : 24 ≤ cap) (n : Nat) (A : Mat ℝ) (tol : ℝ)
    (hn : 0 < n) (hAh : A.h = n) (hAw : A.w = n) (hAwf : A.WF)
    (hsymA : ∀ i j, i < n → j < n → A.get i j = A.get j i)
    (q : Fin n → Fin n → ℝ) (d : Fin n → ℝ) (i₁ : Fin n)
    (hq : ∀ a b, ∑ i, q a i * q b i = if a = b then 1 else 0)
    (heigA : ∀ a (i : Fin n), ∑ j : Fin n, A.get i j * q a j = d a * q a i)
    (hD : d i₁ ≠ 0) (hgap : ∀ a, a ≠ i₁ → |d a| ≤ |d i₁| / 2)
    (hstart : (3 / 10 : ℝ) ^ 2 * n ≤ (∑ i, q i₁ i) ^ 2)
    (htol : (1 / 10 ^ 12 : ℝ) ≤ tol) :
    ∃ lam v p, powerCap cap A tol = .ok (lam, v, p) ∧ 2 ≤ p ∧ p ≤ 24 ∧
      (∑ i ∈ range n, ((∑ k ∈ range n, A.get i k * v.get k 0) - lam * v.get i 0) ^ 2)
        ≤ 6 * tol * lam ^ 2 * (∑ i ∈ range n, v.get i 0 ^ 2) ∧
      |lam - d i₁| ≤ tol * |d i₁| ∧
      0 < lam / d i₁ ∧ |d i₁| / 4 ≤ |lam| ∧ |lam| ≤ |d i₁| := by
  have hA : Square n A := ⟨hAh, hAw, hAwf⟩
  have hsym : ∀ i j : Fin n, A.toMatrix n n i j = A.toMatrix n n j i :=
    fun i j => hsymA i j i.isLt j.isLt
  have heig : ∀ a i, ∑ j, A.toMatrix n n i j * q a j = d a * q a i := heigA
  have h : Dominant q d i₁ := ⟨hq, hD, hgap, hstart, hn⟩
  obtain ⟨lam, v, p, t, hp, hp2, hp24, hlam, htest, hv⟩ :=
    powerCap_accurate A hA hsym heig h cap hcap tol htol
  have hτ := h.hτ
  -- the facts of layer 1 at the returned index
  have heps : epsOf h (p + 1) < tol * rhoOf h (p + 1) :=
    aposteriori _ _ _ _ h.hw h.hr h.h₁ hτ p hp2 tol htest
  have hge : 1 / 4 ≤ rhoOf h (p + 1) := rho_ge _ _ _ _ h.hw h.hr h.h₁ hτ (p + 1) (by omega)
  have hle : rhoOf h (p + 1) ≤ 1 := rho_le_one _ _ _ _ h.hw h.hr h.h₁ (p + 1)
  have h0 : 0 ≤ epsOf h (p + 1) := eps_nonneg _ _ _ _ h.hw h.hr h.h₁ (p + 1)
  have hre : rhoOf h (p + 1) = 1 - epsOf h (p + 1) := rho_eq _ _ _ _ h.hw h.hr h.h₁ (p + 1)
  have htol0 : 0 < tol := lt_of_lt_of_le (by norm_num) htol
  have hDpos : 0 < |d i₁| := abs_pos.mpr hD
  refine ⟨lam, v, p, hp, hp2, hp24, ?_, ?_, ?_, ?_, ?_⟩
  · rw [resid_sum_eq, norm_sum_eq, hv, hlam]
    exact resid_scaled_le A hA hsym heig h (p + 1) t tol heps hge
  · have e : lam - d i₁ = -(d i₁ * epsOf h (p + 1)) := by
      rw [hlam, hre]; ring
    rw [e, abs_neg, abs_mul, abs_of_nonneg h0, mul_comm]
    apply mul_le_mul_of_nonneg_right _ (le_of_lt hDpos)
    have : tol * rhoOf h (p + 1) ≤ tol * 1 := mul_le_mul_of_nonneg_left hle (le_of_lt htol0)
    linarith
  · rw [hlam, mul_div_cancel_left₀ _ hD]
    linarith
  · rw [hlam, abs_mul, abs_of_nonneg (by linarith : (0 : ℝ) ≤ rhoOf h (p + 1))]
    nlinarith
  · rw [hlam, abs_mul, abs_of_nonneg (by linarith : (0 : ℝ) ≤ rhoOf h (p + 1))]
    nlinarith

/-- the cap the source declares is large enough (re-read from the source on every run) -/
theorem powerMethodCap_ge : 24 ≤ SV.Gen.powerMethodCap := by decide

/-- **Accuracy, sharp form, for `power_method` itself** -/
theorem power_accuracy_sharp (n : Nat) (A : Mat ℝ) (tol : ℝ)
    (hn : 0 < n) (hAh : A.h = n) (hAw : A.w = n) (hAwf : A.WF)
    (hsymA : ∀ i j, i < n → j < n → A.get i j = A.get j i)
    (q : Fin n → Fin n → ℝ) (d : Fin n → ℝ) (i₁ : Fin n)
    (hq : ∀ a b, ∑ i, q a i * q b i = if a = b then 1 else 0)
    (heigA : ∀ a (i : Fin n), ∑ j : Fin n, A.get i j * q a j = d a * q a i)
    (hD : d i₁ ≠ 0) (hgap : ∀ a, a ≠ i₁ → |d a| ≤ |d i₁| / 2)
    (hstart : (3 / 10 : ℝ) ^ 2 * n ≤ (∑ i, q i₁ i) ^ 2)
    (htol : (1 / 10 ^ 12 : ℝ) ≤ tol) :
    ∃ lam v p, power A tol = .ok (lam, v, p) ∧ 2 ≤ p ∧ p ≤ 24 ∧
      (∑ i ∈ range n, ((∑ k ∈ range n, A.get i k * v.get k 0) - lam * v.get i 0) ^ 2)
        ≤ 6 * tol * lam ^ 2 * (∑ i ∈ range n, v.get i 0 ^ 2) ∧
      |lam - d i₁| ≤ tol * |d i₁| ∧
      0 < lam / d i₁ ∧ |d i₁| / 4 ≤ |lam| ∧ |lam| ≤ |d i₁| :=
  powerCap_accuracy_sharp SV.Gen.powerMethodCap powerMethodCap_ge n A tol hn hAh hAw hAwf hsymA
    q d i₁ hq heigA hD hgap hstart htol

/-- **The accuracy clause of C13, as stated in `SV.Props.C13`.** -/
theorem power_accuracy : PowerAccuracy := by
  intro n A tol hn hAh hAw hAwf hsymA q d i₁ hq heigA hD hgap hstart htol _
  obtain ⟨lam, v, p, hp, _, _, hres, hlam, _, _, _⟩ :=
    power_accuracy_sharp n A tol hn hAh hAw hAwf hsymA q d i₁ hq heigA hD hgap hstart htol
  have htol0 : 0 < tol := lt_of_lt_of_le (by norm_num) htol
  refine ⟨lam, v, p, hp, ?_, ?_⟩
  · have hv : 0 ≤ ∑ i ∈ range n, v.get i 0 ^ 2 := Finset.sum_nonneg fun i _ => sq_nonneg _
    have hl : 0 ≤ tol * lam ^ 2 * ∑ i ∈ range n, v.get i 0 ^ 2 :=
      mul_nonneg (mul_nonneg (le_of_lt htol0) (sq_nonneg _)) hv
    calc _ ≤ 6 * tol * lam ^ 2 * ∑ i ∈ range n, v.get i 0 ^ 2 := hres
      _ = 6 * (tol * lam ^ 2 * ∑ i ∈ range n, v.get i 0 ^ 2) := by ring
      _ ≤ 8 ^ 2 * (tol * lam ^ 2 * ∑ i ∈ range n, v.get i 0 ^ 2) :=
        mul_le_mul_of_nonneg_right (by norm_num) hl
      _ = 8 ^ 2 * tol * lam ^ 2 * ∑ i ∈ range n, v.get i 0 ^ 2 := by ring
  · have : 0 ≤ tol * |d i₁| := mul_nonneg (le_of_lt htol0) (abs_nonneg _)
    linarith

/-- non-vacuity: the hypotheses of `PowerAccuracy` are satisfiable with a **negative** dominant
eigenvalue — `A = Q·diag(−2, 1)·Qᵀ` with the rational rotation `Q = [[3/5, 4/5], [4/5, −3/5]]`
(start-vector cosine `7/(5√2) ≈ 0.99`) — and the theorem then gives a returned pair -/
example : ∃ lam v p, power (⟨2, 2, #[-2/25, -36/25, -36/25, -23/25]⟩ : Mat ℝ) (1 / 10 ^ 6)
      = .ok (lam, v, p) ∧ |lam - (-2)| ≤ 8 * (1 / 10 ^ 6) * |(-2 : ℝ)| := by
  obtain ⟨lam, v, p, hp, _, hl⟩ := power_accuracy 2 ⟨2, 2, #[-2/25, -36/25, -36/25, -23/25]⟩
    (1 / 10 ^ 6) (by norm_num) rfl rfl rfl
    (by
      intro i j hi hj
      interval_cases i <;> interval_cases j <;> rfl)
    ![![3/5, 4/5], ![4/5, -3/5]] ![-2, 1] 0
    (by
      intro a b
      fin_cases a <;> fin_cases b <;> simp [Fin.sum_univ_two] <;> norm_num)
    (by
      intro a i
      fin_cases a <;> fin_cases i <;> simp [Fin.sum_univ_two, Mat.get] <;> norm_num)
    (by simp)
    (by
      intro a ha
      fin_cases a
      · exact absurd rfl ha
      · simp)
    (by simp [Fin.sum_univ_two]; norm_num)
    (by norm_num) (by norm_num)
  exact ⟨lam, v, p, hp, by simpa using hl⟩

end SV.Props.C13Accuracy
