import SV.Props.C09
/-!
# C09 — the Doolittle `lu` returns THE factorisation

`lu_correct` says that what `lu` returns is *a* unit-lower × upper factorisation of the input.  Here:

* `lu_unique` — it is the only one: any other pair `(L', U')` (unit lower triangular, upper triangular,
  `L' U' = A`) coincides with the returned pair entry by entry.
* `lu_of_product`, `lu_of_product_eq` — conversely every product `L' U'` whose pivots pass the model's
  pivot test is factored, and the factors that come back are `L'` and `U'`: fill-in is reproduced
  exactly, no entry of `L` is "simplified" because the corresponding entry of `A` happens to vanish
  (`lu_fill_in`: a 3×3 witness over `ℚ` with `A[2][1] = 0` and `L[2][1] = -1`).

So a variant of the code that special-cases particular data (a zero entry of the input, a small
intermediate value, …) or returns differently normalised factors cannot agree with the model.
-/
namespace SV.Props.C09Unique
open SV SV.C09 SV.Props.C09 Finset

set_option linter.unusedSectionVars false

variable {K : Type} [Field K] [LinearOrder K] [IsStrictOrderedRing K] [Inhabited K]

/-- a sum whose terms vanish after index `k` is the sum below `k` plus the `k`-th term -/
private theorem sum_split {n k : Nat} (hk : k < n) (f : Nat → K)
    (h0 : ∀ t, k < t → t < n → f t = 0) :
    ∑ t ∈ range n, f t = ∑ t ∈ range k, f t + f k := by
  rw [sum_range_tail_zero (i := k+1) (by omega) f (fun t h1 h2 => h0 t (by omega) h2),
    Finset.sum_range_succ]

/-- row `k` of `L` times a column of `U`, for a row of `L` that is `(…, 1, 0, …, 0)` -/
private theorem row_formula {n k j : Nat} (hk : k < n) (L U : Mat K)
    (hLd : L.get k k = 1) (hLz : ∀ t, t < n → k < t → L.get k t = 0) :
    ∑ t ∈ range n, L.get k t * U.get t j
      = ∑ t ∈ range k, L.get k t * U.get t j + U.get k j := by
  rw [sum_split hk _ (fun t h1 h2 => by rw [hLz t h2 h1, zero_mul]), hLd, one_mul]

/-- a row of `L` times column `k` of `U`, for a column of `U` that vanishes below the diagonal -/
private theorem col_formula {n k i : Nat} (hk : k < n) (L U : Mat K)
    (hUz : ∀ t, t < n → k < t → U.get t k = 0) :
    ∑ t ∈ range n, L.get i t * U.get t k
      = ∑ t ∈ range k, L.get i t * U.get t k + L.get i k * U.get k k := by
  rw [sum_split hk _ (fun t h1 h2 => by rw [hUz t h2 h1, mul_zero])]

/-- a value that passes the pivot test `eps ≤ |x|` with `eps > 0` is not zero -/
private theorem ne_zero_of_eps {eps x : K} (heps : 0 < eps) (h : eps ≤ |x|) : x ≠ 0 := by
  intro h0
  rw [h0, abs_zero] at h
  exact absurd (lt_of_lt_of_le heps h) (lt_irrefl _)

/-- The inductive core (rows of `U` and columns of `L` are determined one after the other): two
triangular pairs whose products agree with `A` on the rows `< m` and the columns `< m`, the first
with non-zero pivots where a row below is divided by them, agree on the rows `< m` of `U` and the
columns `< m` of `L`. -/
private theorem agree {n m : Nat} (hm : m ≤ n) {A L U L' U' : Mat K}
    (hLz : ∀ r c, r < n → c < n → r < c → L.get r c = 0)
    (hLd : ∀ r, r < m → L.get r r = 1)
    (hUz : ∀ r c, r < n → c < n → c < r → U.get r c = 0)
    (hP : ∀ r c, r < n → c < n → (r < m ∨ c < m) →
      ∑ k ∈ range n, L.get r k * U.get k c = A.get r c)
    (hpiv : ∀ k, k + 1 < n → k < m → U.get k k ≠ 0)
    (hL' : UnitLower n L') (hU' : Upper n U')
    (hP' : ∀ r c, r < n → c < n → ∑ k ∈ range n, L'.get r k * U'.get k c = A.get r c) :
    ∀ k, k < m → (∀ j, j < n → U'.get k j = U.get k j) ∧
      (∀ i, i < n → L'.get i k = L.get i k) := by
  intro k
  induction k using Nat.strong_induction_on with
  | _ k ih =>
    intro hkm
    have hkn : k < n := by omega
    have hrow : ∀ j, j < n → U'.get k j = U.get k j := by
      intro j hj
      by_cases hjk : j < k
      · rw [hU' k j hkn hj hjk, hUz k j hkn hj hjk]
      · have e1 := hP k j hkn hj (Or.inl hkm)
        have e2 := hP' k j hkn hj
        rw [row_formula hkn L U (hLd k hkm) (fun t ht hkt => hLz k t hkn ht hkt)] at e1
        rw [row_formula hkn L' U' (hL'.1 k hkn) (fun t ht hkt => hL'.2 k t hkn ht hkt)] at e2
        have e3 : ∑ t ∈ range k, L'.get k t * U'.get t j
            = ∑ t ∈ range k, L.get k t * U.get t j := by
          apply Finset.sum_congr rfl
          intro t ht
          have ht' := mem_range.1 ht
          rw [(ih t ht' (by omega)).1 j hj, (ih t ht' (by omega)).2 k hkn]
        rw [e3] at e2
        exact add_left_cancel (e2.trans e1.symm)
    refine ⟨hrow, ?_⟩
    intro i hi
    rcases lt_trichotomy i k with hik | hik | hik
    · rw [hL'.2 i k hi hkn hik, hLz i k hi hkn hik]
    · rw [hik, hL'.1 k hkn, hLd k hkm]
    · have e1 := hP i k hi hkn (Or.inr hkm)
      have e2 := hP' i k hi hkn
      rw [col_formula hkn L U (fun t ht hkt => hUz t k ht hkn hkt)] at e1
      rw [col_formula hkn L' U' (fun t ht hkt => hU' t k ht hkn hkt)] at e2
      have e3 : ∑ t ∈ range k, L'.get i t * U'.get t k
          = ∑ t ∈ range k, L.get i t * U.get t k := by
        apply Finset.sum_congr rfl
        intro t ht
        have ht' := mem_range.1 ht
        rw [(ih t ht' (by omega)).1 k hkn, (ih t ht' (by omega)).2 i hi]
      rw [e3, hrow k hkn] at e2
      exact mul_right_cancel₀ (hpiv k (by omega) hkm) (add_left_cancel (e2.trans e1.symm))

/-- **Uniqueness.**  If `lu` returns `(L, U)` for `A`, and `(L', U')` is any pair with `L'` unit
lower triangular, `U'` upper triangular and `L' U' = A` entry by entry, then `L' = L` and `U' = U`
on the whole `n × n` range.  (The pivots `u_ii`, `i + 1 < n`, are non-zero because the code refuses
`|u_ii| < eps`; the last pivot may be zero and uniqueness still holds.)  The result of the code is
therefore not one of several admissible answers: it is the LU factorisation. -/
theorem lu_unique {eps : K} (heps : 0 < eps) {A L U L' U' : Mat K}
    (h : lu eps A = .ok (L, U)) (hL' : UnitLower A.h L') (hU' : Upper A.h U')
    (hP' : ∀ i j, i < A.h → j < A.h → ∑ k ∈ range A.h, L'.get i k * U'.get k j = A.get i j) :
    ∀ i j, i < A.h → j < A.h → L'.get i j = L.get i j ∧ U'.get i j = U.get i j := by
  obtain ⟨_, inv⟩ := lu_ok heps h
  have hag := agree (m := A.h) (le_refl _)
    (fun r c hr hc hlt => inv.Lz r c hr hc (Or.inr hlt))
    (fun r hr => inv.Ld r hr hr)
    (fun r c hr hc hlt => inv.Uz r c hr hc (Or.inr hlt))
    inv.prod
    (fun t ht htk => ne_zero_of_eps heps (inv.piv t ht htk)) hL' hU' hP'
  intro i j hi hj
  exact ⟨(hag j hj).2 i hi, (hag i hi).1 j hj⟩

/-- all passes succeed on a product `L' U'` whose pivots pass the pivot test: pass `k` computes
`u_kk = U'[k][k]` -/
private theorem iter_succeeds {eps : K} (heps : 0 < eps) {n : Nat} {A L' U' : Mat K}
    (hL' : UnitLower n L') (hU' : Upper n U')
    (hP' : ∀ r c, r < n → c < n → ∑ k ∈ range n, L'.get r k * U'.get k c = A.get r c)
    (hpiv' : ∀ i, i + 1 < n → eps ≤ |U'.get i i|) :
    ∀ k, k ≤ n → ∃ s, iter (luStep eps n A) k 0
      (Mat.tab n n fun _ _ => (0:K), Mat.tab n n fun _ _ => (0:K)) = some s := by
  intro k
  induction k with
  | zero => intro _; exact ⟨_, rfl⟩
  | succ k ih =>
    intro hk
    obtain ⟨s, hs⟩ := ih (by omega)
    have hkn : k < n := by omega
    have hinv := iter_inv (luStep eps n A) (LuInv n A eps) n
      (fun i s s' hi hI hs => luStep_inv heps hi hI hs) k 0 _ _ (by omega)
      (luInv_init n A eps) hs
    simp only [Nat.zero_add] at hinv
    have hag := agree (m := k) (by omega)
      (fun r c hr hc hlt => hinv.Lz r c hr hc (Or.inr hlt))
      (fun r hr => hinv.Ld r (by omega) hr)
      (fun r c hr hc hlt => hinv.Uz r c hr hc (Or.inr hlt))
      hinv.prod
      (fun t ht htk => ne_zero_of_eps heps (hinv.piv t ht htk)) hL' hU' hP'
    have hpv : (luUpper n A s.1 s.2 k).get k k = U'.get k k := by
      rw [luUpper_get n A s.1 s.2 k hkn hkn, if_pos ⟨rfl, le_refl k⟩]
      have e2 := hP' k k hkn hkn
      rw [row_formula hkn L' U' (hL'.1 k hkn) (fun t ht hkt => hL'.2 k t hkn ht hkt)] at e2
      have e3 : ∑ t ∈ range k, s.1.get k t * s.2.get t k
          = ∑ t ∈ range k, L'.get k t * U'.get t k := by
        apply Finset.sum_congr rfl
        intro t ht
        have ht' := mem_range.1 ht
        rw [(hag t ht').1 k hkn, (hag t ht').2 k hkn]
      rw [e3, ← e2]
      ring
    refine ⟨(luLower n A s.1 (luUpper n A s.1 s.2 k) k, luUpper n A s.1 s.2 k), ?_⟩
    rw [iter_snoc, hs]
    simp only [Option.bind_some, Nat.zero_add]
    unfold luStep
    dsimp only
    rw [if_neg]
    rw [sabs_eq_abs, hpv]
    intro hg
    exact absurd hg.2 (not_lt.mpr (hpiv' k hg.1))

/-- **The factors of a product come back.**  Let `A` be square and equal, entry by entry, to `L' U'`
with `L'` unit lower triangular, `U'` upper triangular, and every pivot that the code tests
(`U'[i][i]` with `i + 1 < n`) of size at least `eps`.  Then `lu` does not refuse `A`, and the pair it
returns is `(L', U')` on the whole `n × n` range — whatever the entries of `A` look like (zeros in
`A` do not produce zeros in `L`: fill-in is reproduced exactly, see `lu_fill_in`). -/
theorem lu_of_product {eps : K} (heps : 0 < eps) {A L' U' : Mat K} (hsq : A.h = A.w)
    (hL' : UnitLower A.h L') (hU' : Upper A.h U')
    (hP' : ∀ i j, i < A.h → j < A.h → ∑ k ∈ range A.h, L'.get i k * U'.get k j = A.get i j)
    (hpiv' : ∀ i, i + 1 < A.h → eps ≤ |U'.get i i|) :
    ∃ L U, lu eps A = .ok (L, U) ∧
      ∀ i j, i < A.h → j < A.h → L.get i j = L'.get i j ∧ U.get i j = U'.get i j := by
  obtain ⟨s, hs⟩ := iter_succeeds heps hL' hU' hP' hpiv' A.h (le_refl _)
  have hlu : lu eps A = .ok (s.1, s.2) := by
    unfold lu
    rw [if_neg (not_not.mpr hsq)]
    dsimp only
    rw [hs]
  refine ⟨s.1, s.2, hlu, ?_⟩
  intro i j hi hj
  have := lu_unique heps hlu hL' hU' hP' i j hi hj
  exact ⟨this.1.symm, this.2.symm⟩

/-- `lu_of_product` for well-formed `n × n` arrays `L'`, `U'`: the result of `lu` on their product
is literally `.ok (L', U')`. -/
theorem lu_of_product_eq {eps : K} (heps : 0 < eps) {A L' U' : Mat K} (hsq : A.h = A.w)
    (hLs : Square A.h L') (hUs : Square A.h U')
    (hL' : UnitLower A.h L') (hU' : Upper A.h U')
    (hP' : ∀ i j, i < A.h → j < A.h → ∑ k ∈ range A.h, L'.get i k * U'.get k j = A.get i j)
    (hpiv' : ∀ i, i + 1 < A.h → eps ≤ |U'.get i i|) :
    lu eps A = .ok (L', U') := by
  obtain ⟨L, U, hlu, heq⟩ := lu_of_product heps hsq hL' hU' hP' hpiv'
  obtain ⟨_, hL, hU, _⟩ := lu_correct heps hlu
  have e1 : L = L' := by
    apply Mat.ext_get hL.2.2 hLs.2.2 (hL.1.trans hLs.1.symm) (hL.2.1.trans hLs.2.1.symm)
    intro i j hi hj
    rw [hL.1] at hi
    rw [hL.2.1] at hj
    exact (heq i j hi hj).1
  have e2 : U = U' := by
    apply Mat.ext_get hU.2.2 hUs.2.2 (hU.1.trans hUs.1.symm) (hU.2.1.trans hUs.2.1.symm)
    intro i j hi hj
    rw [hU.1] at hi
    rw [hU.2.1] at hj
    exact (heq i j hi hj).2
  rw [hlu, e1, e2]

/-- the same factorisation is returned for every threshold that the pivots of `U'` pass: the
threshold decides acceptance only, never the values -/
theorem lu_of_product_threshold_free {eps eps' : K} (heps : 0 < eps) (heps' : 0 < eps')
    {A L' U' : Mat K} (hsq : A.h = A.w)
    (hLs : Square A.h L') (hUs : Square A.h U')
    (hL' : UnitLower A.h L') (hU' : Upper A.h U')
    (hP' : ∀ i j, i < A.h → j < A.h → ∑ k ∈ range A.h, L'.get i k * U'.get k j = A.get i j)
    (hpiv : ∀ i, i + 1 < A.h → eps ≤ |U'.get i i|)
    (hpiv' : ∀ i, i + 1 < A.h → eps' ≤ |U'.get i i|) :
    lu eps A = lu eps' A := by
  rw [lu_of_product_eq heps hsq hLs hUs hL' hU' hP' hpiv,
    lu_of_product_eq heps' hsq hLs hUs hL' hU' hP' hpiv']

/-! ### non-vacuity and the fill-in witness over `ℚ` -/

section examples

/-- `A = [[1,1,0],[1,2,0],[1,0,1]]`: `A[2][1] = 0` -/
def Aw : Mat ℚ := ⟨3, 3, #[1, 1, 0, 1, 2, 0, 1, 0, 1]⟩
/-- its factors: `L[2][1] = -1` -/
def Lw : Mat ℚ := ⟨3, 3, #[1, 0, 0, 1, 1, 0, 1, -1, 1]⟩
/-- the upper factor of `Aw` -/
def Uw : Mat ℚ := ⟨3, 3, #[1, 1, 0, 0, 1, 0, 0, 0, 1]⟩

/-- the model evaluated in the kernel on the witness -/
example : arraysLU (lu epsQ Aw) =
    some (#[1, 0, 0, 1, 1, 0, 1, -1, 1], #[1, 1, 0, 0, 1, 0, 0, 0, 1]) := by decide +kernel

/-- **Fill-in witness** (an instance of `lu_of_product_eq`, so its hypotheses are satisfiable): the
model factors `Aw` into `(Lw, Uw)`; the entry `A[2][1]` is zero and the entry `L[2][1]` is `-1`.
An implementation that skips the elimination of an entry because the input entry is zero is wrong
on this matrix. -/
theorem lu_fill_in : lu epsQ Aw = .ok (Lw, Uw) ∧ Aw.get 2 1 = 0 ∧ Lw.get 2 1 = -1 := by
  refine ⟨?_, by decide +kernel, by decide +kernel⟩
  apply lu_of_product_eq (by norm_num [epsQ]) rfl
  · exact ⟨rfl, rfl, rfl⟩
  · exact ⟨rfl, rfl, rfl⟩
  · constructor
    · show ∀ i, i < 3 → Lw.get i i = 1
      decide +kernel
    · have : ∀ i, i < 3 → ∀ j, j < 3 → i < j → Lw.get i j = 0 := by decide +kernel
      exact fun i j hi hj => this i hi j hj
  · have : ∀ i, i < 3 → ∀ j, j < 3 → j < i → Uw.get i j = 0 := by decide +kernel
    exact fun i j hi hj => this i hi j hj
  · have : ∀ i, i < 3 → ∀ j, j < 3 →
        ∑ k ∈ range 3, Lw.get i k * Uw.get k j = Aw.get i j := by decide +kernel
    exact fun i j hi hj => this i hi j hj
  · show ∀ i, i + 1 < 3 → epsQ ≤ |Uw.get i i|
    intro i hi
    have : i = 0 ∨ i = 1 := by omega
    rcases this with rfl | rfl
    · have : Uw.get 0 0 = 1 := by decide +kernel
      rw [this]; norm_num [epsQ]
    · have : Uw.get 1 1 = 1 := by decide +kernel
      rw [this]; norm_num [epsQ]

/-- `lu_unique` applies to the witness: every unit-lower × upper factorisation of `Aw` has
`L'[2][1] = -1` -/
example (L' U' : Mat ℚ) (hL' : UnitLower 3 L') (hU' : Upper 3 U')
    (hP' : ∀ i j, i < 3 → j < 3 → ∑ k ∈ range 3, L'.get i k * U'.get k j = Aw.get i j) :
    L'.get 2 1 = -1 := by
  have := (lu_unique (A := Aw) (by norm_num [epsQ]) lu_fill_in.1 hL' hU' hP' 2 1
    (by decide) (by decide)).1
  rw [this]
  exact lu_fill_in.2.2

end examples

end SV.Props.C09Unique
