import SV.Model.Wire
/-!
Models of `lu_decomposition` (spindalis/src/solvers/decomposition/lu.rs) and
`lu_pivot_decomposition` (…/plu.rs), generic in the scalar.

Both Rust functions work in place; one pass of their outer loop is one `Mat.tab` here.  That is
faithful because, inside one pass, the loops only read entries written in earlier passes or
earlier in the same pass at positions the pass does not write again:

* `lu`, pass `i`: row `i` of `upper` (columns `i..n`) is computed from rows `< i` of `upper` and
  columns `< i` of `lower`; then the pivot guard; then column `i` of `lower` (rows `i..n`) from
  the same old data and the fresh `upper[i][i]`.
* `plu`, pass `i`: pivot search in column `i` (first maximum, strict `>`), simultaneous row swap
  of `lu` and `permutation`, singularity guard, then for every row `k > i` the multiplier
  `lu[k][i] /= lu[i][i]` and the update `lu[k][j] -= lu[k][i] * lu[i][j]` (`j > i`): row `k`
  reads only itself and row `i`, which the pass does not write.

`f64::EPSILON` is the parameter `eps` (the driver passes 2^-52).  Accumulations keep the order of
the code (`sumFrom 0 0 i`: `total = 0.0; total += …`).
-/
namespace SV.C09
open SV

inductive DecompErr where
  | nonSquare
  | singular
deriving Repr, DecidableEq

/-- run `step` for passes `i, i+1, …, i+k-1`; `none` (an early `return Err`) is absorbing -/
def iter {σ : Type} (step : σ → Nat → Option σ) : Nat → Nat → σ → Option σ
  | 0, _, s => some s
  | k+1, i, s =>
    match step s i with
    | none => none
    | some s' => iter step k (i+1) s'

section
variable {S : Type} [Inhabited S] [Add S] [Sub S] [Mul S] [Div S] [Neg S] [OfNat S 0] [OfNat S 1]
  [LT S] [DecidableRel (α := S) (· < ·)]

/-! ### `lu_decomposition` (Doolittle, no pivoting) -/

/-- row `i` of `upper`: `upper[i][k] = matrix[i][k] - Σ_{j<i} lower[i][j]*upper[j][k]`, `k ≥ i` -/
def luUpper (n : Nat) (A L U : Mat S) (i : Nat) : Mat S :=
  Mat.tab n n fun r c =>
    if r = i ∧ i ≤ c then A.get i c - sumFrom 0 0 i (fun j => L.get i j * U.get j c)
    else U.get r c

/-- column `i` of `lower`: 1 on the diagonal,
`lower[k][i] = (matrix[k][i] - Σ_{j<i} lower[k][j]*upper[j][i]) / upper[i][i]` below it -/
def luLower (n : Nat) (A L U' : Mat S) (i : Nat) : Mat S :=
  Mat.tab n n fun r c =>
    if c = i ∧ i ≤ r then
      (if r = i then 1
       else (A.get r i - sumFrom 0 0 i (fun j => L.get r j * U'.get j i)) / U'.get i i)
    else L.get r c

/-- one pass of the outer loop; `none` = `return Err(SingularMatrix)` (the guard fires only when a
later row will be divided by this pivot: `i + 1 < height`) -/
def luStep (eps : S) (n : Nat) (A : Mat S) (st : Mat S × Mat S) (i : Nat) : Option (Mat S × Mat S) :=
  let U' := luUpper n A st.1 st.2 i
  if i + 1 < n ∧ sabs (U'.get i i) < eps then none
  else some (luLower n A st.1 U' i, U')

/-- `lu_decomposition` on the converted matrix; the pair is `(lower, upper)` -/
def lu (eps : S) (A : Mat S) : Outcome DecompErr (Mat S × Mat S) :=
  if A.h ≠ A.w then .err .nonSquare
  else
    let n := A.h
    let zero : Mat S := Mat.tab n n fun _ _ => 0
    match iter (luStep eps n A) n 0 (zero, zero) with
    | none => .err .singular
    | some st => .ok st

/-! ### `lu_pivot_decomposition` (partial pivoting) -/

/-- the pivot search: first row `k ∈ i..n` with the largest `|lu[k][i]|` (strict `>`) -/
def pivotRow (lu : Mat S) (n i : Nat) : Nat :=
  ((List.range' (i+1) (n - (i+1))).foldl (fun (acc : Nat × S) k =>
      let v := sabs (lu.get k i)
      if acc.2 < v then (k, v) else acc) (i, sabs (lu.get i i))).1

/-- pivot search and the simultaneous row swap of `lu` and `permutation` -/
def pluSwap (n : Nat) (st : Mat S × Mat S) (i : Nat) : Mat S × Mat S :=
  let r := pivotRow st.1 n i
  if r = i then st else (st.1.swapRows r i, st.2.swapRows r i)

/-- multipliers into column `i`, elimination right of it, rows below `i` only -/
def pluElim (n : Nat) (lu : Mat S) (i : Nat) : Mat S :=
  Mat.tab n n fun k j =>
    if i < k then
      let m := lu.get k i / lu.get i i
      if j = i then m else if i < j then lu.get k j - m * lu.get i j else lu.get k j
    else lu.get k j

/-- one pass of the outer loop; `none` = `return Err(SingularMatrix)` -/
def pluStep (eps : S) (n : Nat) (st : Mat S × Mat S) (i : Nat) : Option (Mat S × Mat S) :=
  let st1 := pluSwap n st i
  if sabs (st1.1.get i i) < eps then none
  else some (pluElim n st1.1 i, st1.2)

/-- the final split of the packed `lu` into `lower` (unit diagonal) and `upper` -/
def splitL (n : Nat) (lu : Mat S) : Mat S :=
  Mat.tab n n fun i j => if i = j then 1 else if j < i then lu.get i j else 0
def splitU (n : Nat) (lu : Mat S) : Mat S :=
  Mat.tab n n fun i j => if i ≤ j then lu.get i j else 0

/-- `lu_pivot_decomposition` on the converted matrix; the triple is `(lower, upper, permutation)` -/
def plu (eps : S) (A : Mat S) : Outcome DecompErr (Mat S × Mat S × Mat S) :=
  if A.h ≠ A.w then .err .nonSquare
  else
    let n := A.h
    match iter (pluStep eps n) n 0 (A, Mat.ident n) with
    | none => .err .singular
    | some st => .ok (splitL n st.1, splitU n st.1, st.2)

end
end SV.C09

/-! ### driver -/
namespace SV.C09.Driver
open SV SV.Wire SV.C09

/-- `f64::EPSILON` = 2^-52 -/
def epsF : Float := Float.ofBits 0x3CB0000000000000

def fmtErr : DecompErr → String
  | .nonSquare => "err nonsquare"
  | .singular => "err singular"

def fmtLU : Outcome DecompErr (Mat Float × Mat Float) → String
  | .ok (l, u) => "ok L " ++ fmtMat fmtF l ++ " U " ++ fmtMat fmtF u
  | .err e => fmtErr e
  | .panic => "panic"

def fmtPLU : Outcome DecompErr (Mat Float × Mat Float × Mat Float) → String
  | .ok (l, u, p) => "ok L " ++ fmtMat fmtF l ++ " U " ++ fmtMat fmtF u ++ " P " ++ fmtMat fmtF p
  | .err e => fmtErr e
  | .panic => "panic"

/-- Jagged nested vectors, `<nrows> (<len> <entries…>)*`: no row ⇒ the 0×0 array; rows of different
lengths ⇒ `Arr2DError::InconsistentRowLengths` (`none`, reported as `err invalid`); otherwise
`nrows × len₀`. -/
def rows : P (Option (Mat Float)) := do
  let r ← nat
  let rs ← many r (vec Wire.float)
  match rs with
  | [] => return some ⟨0, 0, #[]⟩
  | r0 :: _ =>
    if rs.all (fun x => x.length == r0.length) then
      return some ⟨rs.length, r0.length, (rs.foldl (· ++ ·) []).toArray⟩
    else return none

/-- The container glue (`TryInto<Arr2D<f64>, Error = Arr2DError>`), by container kind:
`vv` = `Vec<Vec<f64>>`, `rvv` = `&Vec<Vec<f64>>`, `rvi` = `&Vec<Vec<i32>>` (a nested vector with no
row converts to the 0×0 array whatever width the request names), `ra` = `&Arr2D<f64>`,
`rai` = `&Arr2D<i32>` (any shape, also 0×w and h×0), `rvs`/`ras` and `rvu`/`rau` = the same two
containers with `f32` and `u8` elements, `vvj`/`rvvj` = jagged nested vectors.
Integer kinds carry floats whose values are integers; the conversion to `f64` is exact. -/
def input (kind : String) : P (Option (Mat Float)) :=
  match kind with
  | "vvj" | "rvvj" => rows
  | "vv" | "rvv" | "rvi" | "rvs" | "rvu" => do
    let m ← mat Wire.float
    return some (if m.h = 0 then ⟨0, 0, #[]⟩ else m)
  | "ra" | "rai" | "ras" | "rau" => do
    let m ← mat Wire.float
    return some m
  | _ => fail

/-- weighted sum of magnitudes and mask of the (non-negligible) negative entries of a result (the compact answer of the
`lu3`/`plu3` sweeps; the harness computes the same digest from the implementation's matrices) -/
def digest (ms : List (Mat Float)) : String :=
  let xs : List Float := ms.foldl (fun acc m => acc ++ m.a.toList) []
  -- entries below 2^-30 of the largest one do not enter the sign mask: an entry whose exact value is 0 comes
  -- out as 0 or as ±1e-17 depending on the order of the floating-point sums (the weighted sum is compared
  -- numerically and does not notice them)
  let big : Float := xs.foldl (fun m x => if m < x.abs then x.abs else m) 0.0
  let thr : Float := big * Float.ofBits 0x3E10000000000000
  let r := xs.foldl (fun (acc : Float × Nat × Nat) (x : Float) =>
    (acc.1 + Float.ofNat (acc.2.2 + 1) * x.abs,
     (if x < 0 ∧ thr ≤ x.abs then acc.2.1 ||| (1 <<< acc.2.2) else acc.2.1), acc.2.2 + 1)) (0.0, 0, 0)
  fmtF r.1 ++ " " ++ toString r.2.1

/-- `lu3`/`plu3 a00 … a12`: the 125 integer matrices over −2..2 with these first two rows -/
def sweep (isPlu : Bool) : P String := do
  let first ← many 6 Wire.int
  let one (c : Nat) : String :=
    let third : List Int := [(c / 25 : Nat) - 2, ((c / 5) % 5 : Nat) - 2, (c % 5 : Nat) - 2]
    let a : Mat Float := ⟨3, 3, ((first ++ third).map fun (x : Int) => Float.ofInt x).toArray⟩
    if isPlu then
      match plu epsF a with
      | .ok (l, u, p) => "ok " ++ digest [l, u, p]
      | .err .singular => "sing"
      | .err .nonSquare => "err_nonsquare"
      | .panic => "panic"
    else
      match lu epsF a with
      | .ok (l, u) => "ok " ++ digest [l, u]
      | .err .singular => "sing"
      | .err .nonSquare => "err_nonsquare"
      | .panic => "panic"
  return " ".intercalate ((List.range 125).map one)

def handle (line : String) : String :=
  let p : P String := do
    let cmd ← tok
    match cmd with
    | "lu3" => sweep false
    | "plu3" => sweep true
    | _ =>
      let kind ← tok
      let a ← input kind
      match cmd, a with
      | "lu", some a => return fmtLU (lu epsF a)
      | "plu", some a => return fmtPLU (plu epsF a)
      | "lu", none => return "err invalid"
      | "plu", none => return "err invalid"
      | _, _ => fail
  match run p line with
  | some s => s
  | none => "bad-request"

end SV.C09.Driver
