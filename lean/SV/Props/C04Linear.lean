import SV.Model.C04
import SV.Lemmas.C04
import SV.Lemmas.C04Nat
import SV.Props.C04
/-!
# C04 — the model's integration is linear and term-wise, for all polynomials

(A) Dense coefficient lists (`indefinite_integral_simple` = `simpleInteg`): homogeneity
(`simpleInteg_smul`), the power rule at every position with no bound on the position
(`simpleInteg_coeff`, `simpleInteg_getElem`), additivity (`simpleInteg_add`) and zero padding
(`simpleInteg_pad`, `simpleInteg_add_padded`).

(B) Sparse term lists (`indefinite_integral_intermediate` = `integInter`): the integral of a
concatenation of term lists is the concatenation of the integrals (`integInter_append`,
`integInter_cons`), and the single-term law *by name* (`integTerm_present`, `integInter_single`,
`integInter_getElem?`, `integInter_single_mem`, `integInter_single_absent`): for every term with a
strictly sorted variable list, integrating in `v` divides the coefficient by the new exponent and
raises the exponent of the entry **named** `v` — `bump v` — and nothing else; factors with exponent
`0` and factors sorting before `v` stay where and what they are.  So an implementation that first
drops a `v'^0` factor and then updates "the same index" (now a neighbour of `v`) disagrees with the
model: witness `2a^0xy` in `x` is `a^0x^2y`, not `xy^2` (`witness_a0xy`, `witness_a0xy_not_shifted`,
and two evaluations of the model that do not use the general theorem).

(C) `analytical_integral` on the dense type is linear in the polynomial: `analytical_smul`,
`analytical_add`, `analytical_pad`, `analytical_linear` (via `evalSimple_smul`, `evalSimple_add`,
`evalSimple_pad`).

Everything is over an arbitrary field (ordered where the model's signature needs `<`); no hypothesis
on the characteristic is needed, the statements are about the divisions the code performs.
-/
set_option linter.unusedSectionVars false

namespace SV.Props.C04Linear
open SV SV.Poly SV.C03 SV.C04 SV.C04Nat SV.Props.C04

/-! ### (A) the dense univariate type -/
section simple
variable {K : Type} [Field K]

/-- helper: the integration loop from any start index commutes with scaling the coefficients -/
private theorem integFrom_map_mul (c : K) (k : ℕ) (cs : List K) :
    integFrom k (cs.map (c * ·)) = (integFrom k cs).map (c * ·) := by
  induction cs generalizing k with
  | nil => rfl
  | cons a cs ih => simp only [List.map_cons, integFrom, ih, mul_div_assoc]

/-- **Homogeneity.**  Integrating the coefficient list scaled by `c` gives the integral scaled by `c`,
for every list and every `c` (zero and negative included). -/
theorem simpleInteg_smul (c : K) (cs : List K) :
    simpleInteg (cs.map (c * ·)) = (simpleInteg cs).map (c * ·) := by
  simp only [simpleInteg, List.map_cons, integFrom_map_mul, mul_zero]

/-- helper: the integration loop keeps the length -/
private theorem integFrom_length (k : ℕ) (cs : List K) : (integFrom k cs).length = cs.length := by
  induction cs generalizing k with
  | nil => rfl
  | cons a cs ih => simp only [integFrom, List.length_cons, ih]

/-- helper: entry `k` of the integration loop started at index `j` is `cs[k] / (j + k + 1)` -/
private theorem integFrom_getElem? (j k : ℕ) (cs : List K) :
    (integFrom j cs)[k]? = cs[k]?.map (fun a => a / (((j + k : ℕ) : K) + 1)) := by
  induction cs generalizing j k with
  | nil => simp [integFrom]
  | cons a cs ih =>
    cases k with
    | zero => simp [integFrom]
    | succ k =>
      simp only [integFrom, List.getElem?_cons_succ, ih]
      have : j + 1 + k = j + (k + 1) := by omega
      rw [this]

/-- the integral is one coefficient longer than the polynomial -/
theorem simpleInteg_length (cs : List K) : (simpleInteg cs).length = cs.length + 1 := by
  simp only [simpleInteg, List.length_cons, integFrom_length]

/-- **Term-wise power rule, every position.**  Coefficient `0` of the integral is `0` (no constant of
integration), and coefficient `k + 1` is coefficient `k` of the source divided by `k + 1` — for every
`k`, with no upper bound (past the end both sides are "absent"). -/
theorem simpleInteg_coeff (cs : List K) :
    (simpleInteg cs)[0]? = some 0 ∧
    ∀ k : ℕ, (simpleInteg cs)[k + 1]? = cs[k]?.map (fun a => a / ((k : K) + 1)) := by
  refine ⟨rfl, fun k => ?_⟩
  simp only [simpleInteg, List.getElem?_cons_succ, integFrom_getElem?, Nat.zero_add]

/-- the same with a bound-checked index: `F[k+1] = p[k] / (k+1)` for every `k < p.len()` -/
theorem simpleInteg_getElem (cs : List K) (k : ℕ) (hk : k < cs.length) :
    (simpleInteg cs)[k + 1]'(by rw [simpleInteg_length]; omega) = cs[k] / ((k : K) + 1) := by
  have h := (simpleInteg_coeff cs).2 k
  rw [List.getElem?_eq_getElem (by rw [simpleInteg_length]; omega), List.getElem?_eq_getElem hk] at h
  simpa using h

/-- helper: the integration loop from any start index commutes with pointwise sums -/
private theorem integFrom_zipWith_add (k : ℕ) (cs ds : List K) :
    integFrom k (List.zipWith (· + ·) cs ds)
      = List.zipWith (· + ·) (integFrom k cs) (integFrom k ds) := by
  induction cs generalizing k ds with
  | nil => simp [integFrom]
  | cons a cs ih =>
    cases ds with
    | nil => simp [integFrom]
    | cons b ds => simp only [List.zipWith_cons_cons, integFrom, ih, add_div]

/-- **Additivity.**  The integral of a pointwise sum of two coefficient lists is the pointwise sum of
the integrals (for equal lengths this is the sum of the polynomials; for unequal lengths both sides
are cut at the shorter list in the same way — pad first, see `simpleInteg_pad`). -/
theorem simpleInteg_add (cs ds : List K) :
    simpleInteg (List.zipWith (· + ·) cs ds)
      = List.zipWith (· + ·) (simpleInteg cs) (simpleInteg ds) := by
  simp only [simpleInteg, List.zipWith_cons_cons, integFrom_zipWith_add, add_zero]

/-- helper: the integration loop maps zeros to zeros -/
private theorem integFrom_replicate_zero (k n : ℕ) :
    integFrom k (List.replicate n (0 : K)) = List.replicate n 0 := by
  induction n generalizing k with
  | zero => rfl
  | succ n ih => simp only [List.replicate_succ, integFrom, ih, zero_div]

/-- helper: the integration loop on a concatenation: the second part starts at the shifted index -/
private theorem integFrom_append (k : ℕ) (cs ds : List K) :
    integFrom k (cs ++ ds) = integFrom k cs ++ integFrom (k + cs.length) ds := by
  induction cs generalizing k with
  | nil => simp [integFrom]
  | cons a cs ih =>
    simp only [List.cons_append, integFrom, ih, List.length_cons]
    have : k + 1 + cs.length = k + (cs.length + 1) := by omega
    rw [this]

/-- **Zero padding.**  Appending zero coefficients to the polynomial appends the same number of zero
coefficients to the integral and changes nothing else. -/
theorem simpleInteg_pad (cs : List K) (n : ℕ) :
    simpleInteg (cs ++ List.replicate n 0) = simpleInteg cs ++ List.replicate n 0 := by
  simp only [simpleInteg, integFrom_append, integFrom_replicate_zero, List.cons_append]

/-- additivity for lists of any two lengths after padding the shorter one: the integral of
`p + q` (`p` padded by `n` zeros to the length of `q`) is the sum of the integrals, the one of `p`
padded by `n` zeros -/
theorem simpleInteg_add_padded (cs ds : List K) (n : ℕ) :
    simpleInteg (List.zipWith (· + ·) (cs ++ List.replicate n 0) ds)
      = List.zipWith (· + ·) (simpleInteg cs ++ List.replicate n 0) (simpleInteg ds) := by
  rw [simpleInteg_add, simpleInteg_pad]

end simple

/-! ### (B) the sparse multivariate type -/
section inter
variable {K : Type} [Field K] [LinearOrder K]

/-- the variable list with the exponent of the variable **named** `v` raised by one; every other
entry — whatever its position, whatever its exponent (`0` included) — is left as it is -/
def bump (v : String) (vs : List (String × K)) : List (String × K) :=
  vs.map fun a => if a.1 = v then (a.1, a.2 + 1) else a

/-- **Integration is term-wise**: the terms of the integral of a concatenation are the terms of the
two integrals, concatenated (no term looks at another one; order of the terms kept). -/
theorem integInter_append (ts₁ ts₂ : List (Term K)) (v : String) :
    (integInter (ts₁ ++ ts₂) v).terms = (integInter ts₁ v).terms ++ (integInter ts₂ v).terms := by
  simp only [integInter, List.map_append]

/-- term-wise, one term at a time: the first term of the integral is the (sorted) integral of the
first term, the rest is the integral of the rest -/
theorem integInter_cons (t : Term K) (ts : List (Term K)) (v : String) :
    (integInter (t :: ts) v).terms
      = ⟨(integTerm v t).coef, sortVars (integTerm v t).vars⟩ :: (integInter ts v).terms := by
  simp only [integInter, List.map_cons]

/-- the integral has exactly as many terms as the polynomial -/
theorem integInter_length (ts : List (Term K)) (v : String) :
    (integInter ts v).terms.length = ts.length := by
  simp only [integInter, List.length_map]

/-- helper: `bump v` is the identity on a variable list that does not contain `v` -/
private theorem bump_of_not_mem {v : String} {vs : List (String × K)} (h : v ∉ names vs) :
    bump v vs = vs := by
  induction vs with
  | nil => rfl
  | cons a vs ih =>
    simp only [names, List.map_cons, List.mem_cons, not_or] at h
    have ha : ¬ a.1 = v := fun e => h.1 e.symm
    have ih' := ih h.2
    simp only [bump, List.map_cons, ha, if_false] at ih' ⊢
    rw [ih']

/-- helper: `bump v` on a list split at the only occurrence of `v` -/
private theorem bump_split {v : String} {pre post : List (String × K)} (p : K)
    (hpre : v ∉ names pre) (hpost : v ∉ names post) :
    bump v (pre ++ (v, p) :: post) = pre ++ (v, p + 1) :: post := by
  have h1 := bump_of_not_mem hpre
  have h2 := bump_of_not_mem hpost
  simp only [bump, List.map_append, List.map_cons, if_true] at h1 h2 ⊢
  rw [h1, h2]

/-- `bump` keeps every name at its position -/
theorem names_bump (v : String) (vs : List (String × K)) : names (bump v vs) = names vs := by
  simp only [names, bump, List.map_map]
  apply List.map_congr_left
  intro a _
  simp only [Function.comp]
  split <;> rfl

/-- position by position: entry `i` of `bump v vs` is entry `i` of `vs`, with the exponent raised
exactly when the entry's **name** is `v` -/
theorem bump_getElem? (v : String) (vs : List (String × K)) (i : ℕ) :
    (bump v vs)[i]? = vs[i]?.map (fun a => if a.1 = v then (a.1, a.2 + 1) else a) := by
  simp only [bump, List.getElem?_map]

/-- **The integral of one term that contains `v`** (variables duplicate-free, `v` at power `p`):
the coefficient is divided by `p + 1`, and the exponent of the variable named `v` is raised by one —
no other factor changes, whether it sorts before or after `v` and whether its exponent is `0` or
not. -/
theorem integTerm_present {v : String} {t : Term K} (hnd : (names t.vars).Nodup) {p : K}
    (hp : (v, p) ∈ t.vars) : integTerm v t = ⟨t.coef / (p + 1), bump v t.vars⟩ := by
  have hv : v ∈ names t.vars := List.mem_map.2 ⟨(v, p), hp, rfl⟩
  obtain ⟨pre, p', post, hvs, hpre, hpost⟩ := split_at hnd hv
  have hpp : p = p' := power_unique hpre hpost (hvs ▸ hp)
  subst hpp
  unfold integTerm
  rw [hvs, integVars_append p hpre, bump_split p hpre hpost]

/-- **The integral of one term that does not contain `v`**: the coefficient is kept and `v^1` is
appended (`sort_poly` then moves it to its sorted place); no existing factor changes. -/
theorem integTerm_absent {v : String} {t : Term K} (hv : v ∉ names t.vars) :
    integTerm v t = ⟨t.coef, t.vars ++ [(v, 1)]⟩ := by
  unfold integTerm; rw [integVars_none hv]

/-- **Single-term law of `indefinite_integral_intermediate`, by name.**  For every term whose
variable list is strictly sorted (the `TermsWF` invariant) and contains `v` at power `p`: the result
is the one term with coefficient `coef / (p + 1)` and the *same* variable list in the *same* order,
except that the entry **named `v`** has exponent `p + 1`.  Factors with exponent `0` stay, factors
that sort before `v` stay, and it is never a neighbour of `v` whose exponent is raised. -/
theorem integInter_single {v : String} {t : Term K} (hs : strictSorted (names t.vars) = true) {p : K}
    (hp : (v, p) ∈ t.vars) :
    (integInter [t] v).terms = [⟨t.coef / (p + 1), bump v t.vars⟩] := by
  rw [integInter_cons, integTerm_present (strictSorted_nodup hs) hp]
  simp only [integInter, List.map_nil]
  rw [sortVars_of_sorted (by rw [names_bump]; exact hs)]

/-- the same inside a polynomial: term `i` of the integral of a well-formed term list is term `i` of
the source with the coefficient divided by `p + 1` and the exponent of the variable named `v`
raised, whenever that term contains `v` at power `p` -/
theorem integInter_getElem? {v : String} {ts : List (Term K)} (hwf : TermsWF ts) (i : ℕ) {t : Term K}
    (ht : ts[i]? = some t) {p : K} (hp : (v, p) ∈ t.vars) :
    (integInter ts v).terms[i]? = some ⟨t.coef / (p + 1), bump v t.vars⟩ := by
  have hs := hwf t (List.mem_of_getElem? ht)
  simp only [integInter, List.getElem?_map, ht, Option.map_some]
  rw [integTerm_present (strictSorted_nodup hs) hp]
  simp only
  rw [sortVars_of_sorted (by rw [names_bump]; exact hs)]

/-- membership form of the single-term law: in the integrated term the variable `v` carries
`p + 1` and nothing else, and a pair with another name is in the result iff it is in the source -/
theorem integInter_single_mem {v : String} {t : Term K} (hs : strictSorted (names t.vars) = true)
    {p : K} (hp : (v, p) ∈ t.vars) :
    ∃ t', (integInter [t] v).terms = [t'] ∧ t'.coef = t.coef / (p + 1) ∧
      names t'.vars = names t.vars ∧
      (∀ q, (v, q) ∈ t'.vars ↔ q = p + 1) ∧
      (∀ w q, w ≠ v → ((w, q) ∈ t'.vars ↔ (w, q) ∈ t.vars)) := by
  have hnd := strictSorted_nodup hs
  refine ⟨_, integInter_single hs hp, rfl, names_bump v t.vars, ?_, ?_⟩
  · intro q
    have hint := integTerm_present hnd hp
    constructor
    · intro hq
      have hq' : (v, q) ∈ (integTerm v t).vars := by rw [hint]; exact hq
      rcases integTerm_power hnd hq' with ⟨p', hp', rfl⟩ | ⟨hno, _⟩
      · have hv : v ∈ names t.vars := List.mem_map.2 ⟨(v, p), hp, rfl⟩
        obtain ⟨pre, p'', post, hvs, hpre, hpost⟩ := split_at hnd hv
        have e1 : p = p'' := power_unique hpre hpost (hvs ▸ hp)
        have e2 : p' = p'' := power_unique hpre hpost (hvs ▸ hp')
        rw [e1, e2]
      · exact absurd (List.mem_map.2 ⟨(v, p), hp, rfl⟩) hno
    · rintro rfl
      simp only [bump, List.mem_map]
      exact ⟨(v, p), hp, by simp⟩
  · intro w q hw
    have h := integTerm_other hnd hw q (t := t)
    rw [integTerm_present hnd hp] at h
    exact h

/-- the case "`v` absent" of the single-term law: coefficient kept, the variable list is the sorted
list consisting of the old factors, unchanged, and `v^1` -/
theorem integInter_single_absent {v : String} {t : Term K} (hs : strictSorted (names t.vars) = true)
    (hv : v ∉ names t.vars) :
    ∃ vs', (integInter [t] v).terms = [⟨t.coef, vs'⟩] ∧ strictSorted (names vs') = true ∧
      vs'.Perm ((v, 1) :: t.vars) := by
  refine ⟨sortVars (t.vars ++ [(v, 1)]), ?_, ?_, ?_⟩
  · rw [integInter_cons, integTerm_absent hv]; simp only [integInter, List.map_nil]
  · apply strictSorted_sortVars
    have hnd := strictSorted_nodup hs
    simp only [names, List.map_append, List.map_cons, List.map_nil]
    exact List.Nodup.append hnd (List.nodup_singleton v) (by simpa [names] using hv)
  · exact (sortVars_perm _).trans (List.perm_append_singleton _ _)

end inter

/-! #### the witness `2a^0xy`, integrated in `x` -/

/-- `2 a^0 x y` integrated in `x` by the model is `a^0 x^2 y` with coefficient `1`: the exponent of
`x` is raised although the factor `a^0` sorts before it -/
theorem witness_a0xy :
    (integInter [(⟨2, [("a", 0), ("x", 1), ("y", 1)]⟩ : Term ℚ)] "x").terms
      = [⟨1, [("a", 0), ("x", 2), ("y", 1)]⟩] := by
  rw [integInter_single (p := 1) (by decide) (by simp)]
  have h1 : ¬ "a" = "x" := by decide
  have h2 : ¬ "y" = "x" := by decide
  norm_num [bump, h1, h2]

/-- … and it is not `x y^2` (the outcome of updating the variable one position further after the
`a^0` factor has been dropped), with or without the `a^0` factor -/
theorem witness_a0xy_not_shifted :
    (integInter [(⟨2, [("a", 0), ("x", 1), ("y", 1)]⟩ : Term ℚ)] "x").terms
        ≠ [⟨1, [("a", 0), ("x", 1), ("y", 2)]⟩] ∧
    (integInter [(⟨2, [("a", 0), ("x", 1), ("y", 1)]⟩ : Term ℚ)] "x").terms
        ≠ [⟨1, [("x", 1), ("y", 2)]⟩] := by
  rw [witness_a0xy]
  constructor <;> simp

/-- the same witness by direct evaluation of the model's `integTerm` (no general theorem used) -/
example : integTerm "x" (⟨2, [("a", 0), ("x", 1), ("y", 1)]⟩ : Term ℚ)
    = ⟨1, [("a", 0), ("x", 2), ("y", 1)]⟩ := by
  have h1 : ¬ "a" = "x" := by decide
  norm_num [integTerm, integVars, h1]

/-- … and of the whole `integInter`, `sort_poly` included -/
example : (integInter [(⟨2, [("a", 0), ("x", 1), ("y", 1)]⟩ : Term ℚ)] "x").terms.map
      (fun t => (t.coef, t.vars)) = [(1, [("a", 0), ("x", 2), ("y", 1)])] := by
  have h1 : ¬ "a" = "x" := by decide
  have hs : sortVars [("a", (0 : ℚ)), ("x", 1 + 1), ("y", 1)]
      = [("a", 0), ("x", 1 + 1), ("y", 1)] := by
    simp [sortVars, List.mergeSort, List.MergeSort.Internal.splitInTwo]
  simp only [integInter, integTerm, integVars, h1, List.map_cons, List.map_nil, if_false, if_true, hs]
  norm_num

/-! ### (C) `analytical_integral` is linear in a dense polynomial -/
section evalsimple
variable {K : Type} [Field K]

/-- helper: the evaluation loop is homogeneous (accumulator scaled as well) -/
private theorem evalSimpleFrom_map_mul (c x : K) (k : ℕ) (cs : List K) (acc : K) :
    evalSimpleFrom x k (cs.map (c * ·)) (c * acc) = c * evalSimpleFrom x k cs acc := by
  induction cs generalizing k acc with
  | nil => rfl
  | cons a cs ih =>
    simp only [List.map_cons, evalSimpleFrom]
    rw [← ih]
    congr 1
    ring

/-- `eval_simple_polynomial` is homogeneous in the coefficient list -/
theorem evalSimple_smul (c : K) (cs : List K) (x : K) :
    evalSimple (cs.map (c * ·)) x = c * evalSimple cs x := by
  have h := evalSimpleFrom_map_mul c x 0 cs 0
  rw [mul_zero] at h
  exact h

/-- helper: the evaluation loop is additive on lists of equal length -/
private theorem evalSimpleFrom_zipWith_add (x : K) (k : ℕ) (cs ds : List K)
    (hl : cs.length = ds.length) (acc acc' : K) :
    evalSimpleFrom x k (List.zipWith (· + ·) cs ds) (acc + acc')
      = evalSimpleFrom x k cs acc + evalSimpleFrom x k ds acc' := by
  induction cs generalizing k ds acc acc' with
  | nil =>
    cases ds with
    | nil => rfl
    | cons b ds => simp at hl
  | cons a cs ih =>
    cases ds with
    | nil => simp at hl
    | cons b ds =>
      simp only [List.length_cons, Nat.add_right_cancel_iff] at hl
      simp only [List.zipWith_cons_cons, evalSimpleFrom]
      rw [← ih (k + 1) ds hl]
      congr 1
      ring

/-- `eval_simple_polynomial` is additive in the coefficient list (equal lengths) -/
theorem evalSimple_add (cs ds : List K) (hl : cs.length = ds.length) (x : K) :
    evalSimple (List.zipWith (· + ·) cs ds) x = evalSimple cs x + evalSimple ds x := by
  have h := evalSimpleFrom_zipWith_add x 0 cs ds hl 0 0
  rw [add_zero] at h
  exact h

/-- helper: the evaluation loop on a concatenation -/
private theorem evalSimpleFrom_append (x : K) (k : ℕ) (cs ds : List K) (acc : K) :
    evalSimpleFrom x k (cs ++ ds) acc
      = evalSimpleFrom x (k + cs.length) ds (evalSimpleFrom x k cs acc) := by
  induction cs generalizing k acc with
  | nil => rfl
  | cons a cs ih =>
    simp only [List.cons_append, evalSimpleFrom, ih, List.length_cons]
    have : k + 1 + cs.length = k + (cs.length + 1) := by omega
    rw [this]

/-- helper: zero coefficients leave the accumulator of the evaluation loop unchanged -/
private theorem evalSimpleFrom_replicate_zero (x : K) (k n : ℕ) (acc : K) :
    evalSimpleFrom x k (List.replicate n 0) acc = acc := by
  induction n generalizing k acc with
  | zero => rfl
  | succ n ih => simp only [List.replicate_succ, evalSimpleFrom, zero_mul, add_zero, ih]

/-- trailing zero coefficients do not change the value -/
theorem evalSimple_pad (cs : List K) (n : ℕ) (x : K) :
    evalSimple (cs ++ List.replicate n 0) x = evalSimple cs x := by
  unfold evalSimple
  rw [evalSimpleFrom_append, evalSimpleFrom_replicate_zero]

end evalsimple

section analytical
variable {K : Type} [Field K] [LinearOrder K]

/-- the model of `analytical_integral` on the dense type, spelled out: always `Ok`, the value is
`F(b) − F(a)` with `F` the coefficient list of `indefinite_integral_simple` -/
theorem analytical_simple (powf : K → K → K) (cs : List K) (var : Option Char) (a b : K) :
    analytical powf (.simple ⟨cs, var⟩) a b
      = .ok (evalSimple (simpleInteg cs) b - evalSimple (simpleInteg cs) a) := rfl

/-- **Homogeneity of `analytical_integral`** (dense type): scaling every coefficient by `c` scales
the definite integral by `c`, for all bounds. -/
theorem analytical_smul (powf : K → K → K) (c : K) (cs : List K) (var var' : Option Char) (a b u : K)
    (h : analytical powf (.simple ⟨cs, var⟩) a b = .ok u) :
    analytical powf (.simple ⟨cs.map (c * ·), var'⟩) a b = .ok (c * u) := by
  rw [analytical_simple] at h ⊢
  cases h
  rw [simpleInteg_smul, evalSimple_smul, evalSimple_smul, mul_sub]

/-- **Additivity of `analytical_integral` in the polynomial** (dense type, coefficient lists of equal
length — pad the shorter one with `analytical_pad`): when the integrals of `p` and `q` are `Ok`, so
is the integral of `p + q`, and it is their sum. -/
theorem analytical_add (powf : K → K → K) (cs ds : List K) (hl : cs.length = ds.length)
    (v₁ v₂ v₃ : Option Char) (a b u w : K)
    (h1 : analytical powf (.simple ⟨cs, v₁⟩) a b = .ok u)
    (h2 : analytical powf (.simple ⟨ds, v₂⟩) a b = .ok w) :
    analytical powf (.simple ⟨List.zipWith (· + ·) cs ds, v₃⟩) a b = .ok (u + w) := by
  rw [analytical_simple] at h1 h2 ⊢
  cases h1
  cases h2
  have hl' : (simpleInteg cs).length = (simpleInteg ds).length := by
    rw [simpleInteg_length, simpleInteg_length, hl]
  rw [simpleInteg_add, evalSimple_add _ _ hl', evalSimple_add _ _ hl']
  congr 1
  ring

/-- trailing zero coefficients do not change the definite integral -/
theorem analytical_pad (powf : K → K → K) (cs : List K) (n : ℕ) (var : Option Char) (a b : K) :
    analytical powf (.simple ⟨cs ++ List.replicate n 0, var⟩) a b
      = analytical powf (.simple ⟨cs, var⟩) a b := by
  rw [analytical_simple, analytical_simple, simpleInteg_pad, evalSimple_pad, evalSimple_pad]

/-- **Linearity**, both laws at once: `∫ (c·p + d·q) = c ∫p + d ∫q` for dense polynomials of equal
length and all bounds. -/
theorem analytical_linear (powf : K → K → K) (c d : K) (cs ds : List K) (hl : cs.length = ds.length)
    (var : Option Char) (a b u w : K)
    (h1 : analytical powf (.simple ⟨cs, var⟩) a b = .ok u)
    (h2 : analytical powf (.simple ⟨ds, var⟩) a b = .ok w) :
    analytical powf (.simple ⟨List.zipWith (· + ·) (cs.map (c * ·)) (ds.map (d * ·)), var⟩) a b
      = .ok (c * u + d * w) :=
  analytical_add powf _ _ (by simp only [List.length_map, hl]) var var var a b _ _
    (analytical_smul powf c cs var var a b u h1) (analytical_smul powf d ds var var a b w h2)

end analytical

/-! ### non-vacuity -/

/-- `2·(1 − 2x + 3x²)` integrates to `2·(x − x² + x³)` -/
example : simpleInteg (([1, -2, 3] : List ℚ).map (2 * ·)) = [0, 2, -2, 2] := by
  rw [simpleInteg_smul]; norm_num [simpleInteg, integFrom]

/-- coefficient 3 of the integral of `1 − 2x + 3x²` is `3 / 3` -/
example : (simpleInteg ([1, -2, 3] : List ℚ))[3]? = some 1 := by
  rw [(simpleInteg_coeff _).2 2]; norm_num

/-- `∫₀¹ 2·(3x²) = 2 · ∫₀¹ 3x²  = 2` -/
example : analytical (fun _ _ => (0 : ℚ)) (.simple ⟨([0, 0, 3] : List ℚ).map (2 * ·), none⟩) 0 1
    = .ok (2 * 1) := by
  apply analytical_smul (var := none)
  rw [analytical_simple]
  norm_num [simpleInteg, integFrom, evalSimple, evalSimpleFrom, powi, powiLoop]

end SV.Props.C04Linear
