import SV.Model.C11
import SV.Gen.Consts
/-!
Model of `power_method` (spindalis/src/solvers/eigen/power_method.rs), generic in the scalar.

Every `*` between arrays in the source is `Arr2D::dot(..).unwrap_or_default()`, i.e. `SV.C11.mulOp`
(so a shape mismatch would silently give the empty array, and the scalar extraction
`as_scalar_unchecked` = `inner[0]` would then panic: that is an explicit `Outcome.panic` here, and
`SV.Props.C13.power_total` proves it unreachable).  `Arr2D::max` is the code's
`reduce(|a, b| if a > b { a } else { b })` — with IEEE comparisons a NaN accumulator is replaced by
the next element and a NaN element replaces the accumulator.  The loop is recursion on fuel equal
to the code's own cap `MAX_ITERATIONS` (read from the source on every run of ./check:
`SV.Gen.powerMethodCap`).

**Unguarded divisions (DESIGN.md §3, NaN-poisoning rules).**  The code divides by the normaliser
and by the new eigenvalue without a test; a field would silently give `x/0 = 0`, IEEE gives NaN/∞.
The model therefore branches where IEEE arithmetic does something a field cannot:

* normaliser `== 0` (before the loop or in a pass) ⇒ `Err(NoConvergence)`.  IEEE: the normaliser is
  an element of the vector (the result of a `reduce`), so that element becomes `±0/±0 = NaN`; a
  vector containing a NaN makes every later product `A·x` all-NaN (`NaN·a = NaN` also for
  `a = 0`), hence every later normaliser, Rayleigh quotient and `ea` NaN; `ea < es` is false in
  every remaining pass and the loop runs into its cap.  Over a field the normaliser is zero only
  for the zero vector.  (Validated by the correspondence run on zero and nilpotent inputs.)
* new eigenvalue `== 0` ⇒ this pass is not a stopping pass.  IEEE: `ea = |(0 − λ)/0|` is `∞` or NaN
  and `ea < es` is false for every `es`.  At `Float` this guard changes nothing (the comparison is
  already false); it only makes the field instance follow IEEE instead of `x/0 = 0`.

The denominator `xᵀx` of the Rayleigh quotient is never zero once the normaliser is not (the
normalised vector has an entry equal to 1; `SV.Props.C13.power_result_shape`).
-/
namespace SV.C13
open SV SV.C11

inductive PErr where
  | nonSquare
  | noConvergence
deriving Repr, DecidableEq

variable {S : Type} [Inhabited S] [Add S] [Sub S] [Mul S] [Div S] [Neg S] [OfNat S 0] [OfNat S 1]
  [LT S] [DecidableRel (α := S) (· < ·)] [BEq S]

/-- the closure passed to `reduce` in `Arr2D::max` -/
def pickMax (a b : S) : S := if a > b then a else b

/-- `Arr2D::max`: `None` on an empty shape, otherwise the left-to-right `reduce` over the buffer.
(`none` on an empty buffer of a non-empty shape stands for the `unwrap` panic of `reduce`; `Arr2D`
never builds such a value and `power_total` shows the model never meets it.) -/
def maxOf (m : Mat S) : Option S :=
  if m.h = 0 ∨ m.w = 0 then none
  else match m.a.toList with
    | [] => none
    | x :: xs => some (xs.foldl pickMax x)

/-- the closure passed to `reduce` in `Arr2D::min` -/
def pickMin (a b : S) : S := if a < b then a else b

/-- `Arr2D::min` (same shape as `maxOf`) -/
def minOf (m : Mat S) : Option S :=
  if m.h = 0 ∨ m.w = 0 then none
  else match m.a.toList with
    | [] => none
    | x :: xs => some (xs.foldl pickMin x)

/-- the private helper `normaliser`: `let largest = v.max().unwrap(); if largest > 0.0 { largest }
else { v.min().unwrap() }` — the value that scales the largest component to 1 (the minimum when no
component is positive: dividing by it flips the signs).  `none` = an `unwrap` panic.  With IEEE
comparisons a NaN maximum is not `> 0.0`, so the minimum is taken. -/
def normaliser (m : Mat S) : Option S :=
  match maxOf m with
  | none => none
  | some largest => if largest > 0 then some largest else minOf m

/-- `&Arr2D / scalar` -/
def divS (m : Mat S) (s : S) : Mat S := Mat.tab m.h m.w fun i j => m.get i j / s

/-- `as_scalar_unchecked`: `self.inner[0]` — `none` is the index panic on an empty buffer -/
def asScalar (m : Mat S) : Option S := m.a[0]?

/-- `Arr2D::full(1.0, n, 1)` -/
def ones (n : Nat) : Mat S := Mat.tab n 1 fun _ _ => 1

/-- the Rayleigh quotient as the code computes it: `xᵀ(Ax) / xᵀx` through three array products and
two scalar extractions; `none` = panic -/
def rayleigh (A x : Mat S) : Option S :=
  let num := mulOp x.transpose (mulOp A x)
  let den := mulOp x.transpose x
  match asScalar num, asScalar den with
  | some a, some b => some (a / b)
  | _, _ => none

/-- what one pass of the loop computes before the stopping test -/
structure Pass (S : Type) where
  /-- `normalisation_value = normaliser(A * eigenvector)` -/
  c : S
  /-- `normalised_eigenvector` -/
  nv : Mat S
  /-- `next_eigenvalue` -/
  next : S
  /-- `ea` -/
  ea : S

/-- one pass of the loop body up to the test `ea < es`; `none` = panic -/
def pass (A ev : Mat S) (lam : S) : Option (Pass S) :=
  let ev' := mulOp A ev
  match normaliser ev' with
  | none => none
  | some c =>
    let nv := divS ev' c
    match rayleigh A nv with
    | none => none
    | some next => some ⟨c, nv, next, sabs ((next - lam) / next)⟩

/-- `for pass in 0..MAX_ITERATIONS { … }` then `Err(NoConvergence)`; `done` is the code's `pass`
(the number of finished passes).  The stopping test is `pass > 0 && ea < es`: on the first pass
`ea` would compare the Rayleigh quotient with a different estimate (the maximum of `A·1`).
The result carries the number of passes made (not observable through the Rust API; used by the
theorems and reported by the driver for the evidence). -/
def loop (A : Mat S) (es : S) : Nat → Nat → Mat S → S → Outcome PErr (S × Mat S × Nat)
  | 0, _, _, _ => .err .noConvergence
  | fuel + 1, done, ev, lam =>
    match pass A ev lam with
    | none => .panic
    | some p =>
      if p.c == 0 then .err .noConvergence
      else if 0 < done ∧ ¬(p.next == 0) ∧ p.ea < es then
        match maxOf p.nv with
        | none => .panic
        | some largest => .ok (p.next, divS p.nv largest, done + 1)
      else loop A es fuel (done + 1) p.nv p.next

/-- `power_method` with an explicit cap (the code's is `SV.Gen.powerMethodCap`) -/
def powerCap (cap : Nat) (A : Mat S) (es : S) : Outcome PErr (S × Mat S × Nat) :=
  if A.h ≠ A.w ∨ A.h = 0 ∨ A.w = 0 then .err .nonSquare
  else
    let ev0 := mulOp A (ones A.h)
    match normaliser ev0 with
    | none => .panic
    | some lam0 =>
      if lam0 == 0 then .err .noConvergence
      else loop A es cap 0 (divS ev0 lam0) lam0

/-- `power_method` -/
def power (A : Mat S) (es : S) : Outcome PErr (S × Mat S × Nat) :=
  powerCap SV.Gen.powerMethodCap A es

end SV.C13

/-! ### driver -/
namespace SV.C13.Driver
open SV SV.Wire SV.C13

/-- `power <A> <es>` → `ok <λ> <v> passes <p>` | `err nonsquare` | `err noconv` | `panic`
(the trailing `passes <p>` is dropped by the comparison: the Rust API does not expose it) -/
def handle (line : String) : String :=
  let p : P String := do
    let cmd ← tok
    match cmd with
    | "power" => do
      let _half ← tok
      let a ← mat Wire.float
      let es ← Wire.float
      return match power a es with
        | .ok (lam, v, passes) => "ok " ++ fmtF lam ++ " " ++ fmtMat fmtF v ++ s!" passes {passes}"
        | .err .nonSquare => "err nonsquare"
        | .err .noConvergence => "err noconv"
        | .panic => "panic"
    | _ => fail
  match run p line with
  | some s => s
  | none => "bad-request"

end SV.C13.Driver
