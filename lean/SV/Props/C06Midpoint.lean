import Mathlib.Algebra.Order.Floor.Defs
import Mathlib.Algebra.Order.Floor.Ring
import Mathlib.Data.Rat.Floor
import Mathlib.Algebra.Order.Field.Basic
import Mathlib.Tactic.Linarith
import Mathlib.Tactic.NormNum
/-!
# C06: why the repaired midpoint cannot leave the bracket (D38)

The containment clause of C06 is proved in `SV.Props.C06` over ordered fields, where the two midpoint
formulas `(l + u) / 2` and `l / 2 + u / 2` coincide.  In floating point they do not: D38 was a bracket
`[5e-324, 5e-324]` whose halved-first midpoint came out as `0`.  The difference is not about the
*size* of rounding errors (the standard model of `SV.Lemmas.Rounding` cannot tell the two formulas
apart) but about **monotonicity**: IEEE rounding is monotone and leaves representable numbers
unchanged.  This file proves, for *every* rounding function with these two properties,

* `midpoint_sum_inside`: `rnd (rnd (l + u) / 2)` lies in `[l, u]` whenever `l ≤ u` are representable
  and so are `2l`, `2u` (true of binary floating point unless the doubling overflows — the case in
  which the code falls back to the halved form, where `l/2`, `u/2` are exact because `l`, `u` are
  huge);
* `midpoint_halved_outside`: the halved-first form has no such guarantee — under rounding to
  integers towards −∞ (monotone, idempotent) the bracket `[1, 1]` gets the midpoint `0`: the shape of
  D38, where the subnormal grid plays the role of the integers.
-/
namespace SV.Props.C06Midpoint

variable {K : Type} [Field K] [LinearOrder K] [IsStrictOrderedRing K]

/-- a rounding function: monotone, and the identity on the values it produces (the representable
numbers) -/
structure MonoRound (rnd : K → K) : Prop where
  mono : ∀ x y, x ≤ y → rnd x ≤ rnd y
  idem : ∀ x, rnd (rnd x) = rnd x

/-- `x` is representable: rounding leaves it alone -/
def Rep (rnd : K → K) (x : K) : Prop := rnd x = x

/-- **The repaired midpoint stays inside the bracket** under every monotone rounding: both roundings
of `(l + u) / 2` — of the sum and of the quotient — are accounted for. -/
theorem midpoint_sum_inside (rnd : K → K) (h : MonoRound rnd) (l u : K) (hle : l ≤ u)
    (hl : Rep rnd l) (hu : Rep rnd u) (h2l : Rep rnd (2 * l)) (h2u : Rep rnd (2 * u)) :
    l ≤ rnd (rnd (l + u) / 2) ∧ rnd (rnd (l + u) / 2) ≤ u := by
  have hs1 : 2 * l ≤ rnd (l + u) := by
    have := h.mono (2 * l) (l + u) (by linarith)
    rwa [h2l] at this
  have hs2 : rnd (l + u) ≤ 2 * u := by
    have := h.mono (l + u) (2 * u) (by linarith)
    rwa [h2u] at this
  have hq1 : l ≤ rnd (l + u) / 2 := by linarith
  have hq2 : rnd (l + u) / 2 ≤ u := by linarith
  constructor
  · have := h.mono l (rnd (l + u) / 2) hq1
    rwa [hl] at this
  · have := h.mono (rnd (l + u) / 2) u hq2
    rwa [hu] at this

/-- the same when division by two is exact on the rounded sum (binary floating point away from the
subnormal range): one rounding only -/
theorem midpoint_sum_inside_exact_half (rnd : K → K) (h : MonoRound rnd) (l u : K) (hle : l ≤ u)
    (h2l : Rep rnd (2 * l)) (h2u : Rep rnd (2 * u)) :
    l ≤ rnd (l + u) / 2 ∧ rnd (l + u) / 2 ≤ u := by
  have hs1 : 2 * l ≤ rnd (l + u) := by
    have := h.mono (2 * l) (l + u) (by linarith)
    rwa [h2l] at this
  have hs2 : rnd (l + u) ≤ 2 * u := by
    have := h.mono (l + u) (2 * u) (by linarith)
    rwa [h2u] at this
  constructor <;> linarith

/-- rounding to integers towards −∞ is a monotone, idempotent rounding of `ℚ` -/
theorem floor_monoRound : MonoRound (fun x : ℚ => ((⌊x⌋ : ℤ) : ℚ)) where
  mono := fun x y hxy => by exact_mod_cast Int.floor_le_floor hxy
  idem := fun x => by simp

/-- **The halved-first midpoint can leave the bracket** under a monotone rounding: on the integer
grid the degenerate bracket `[1, 1]` (both ends representable, as are their doubles) gets
`rnd (rnd (1/2) + rnd (1/2)) = 0`.  D38 is this on the subnormal grid. -/
theorem midpoint_halved_outside :
    let rnd := fun x : ℚ => ((⌊x⌋ : ℤ) : ℚ)
    Rep rnd 1 ∧ Rep rnd (2 * 1) ∧ rnd (rnd ((1 : ℚ) / 2) + rnd ((1 : ℚ) / 2)) = 0 ∧
      ¬ ((1 : ℚ) ≤ rnd (rnd ((1 : ℚ) / 2) + rnd ((1 : ℚ) / 2))) := by
  have hhalf : ⌊(1 : ℚ) / 2⌋ = 0 := by
    rw [Int.floor_eq_iff]; constructor <;> norm_num
  have hhalf' : ⌊(2 : ℚ)⁻¹⌋ = 0 := by rw [← one_div]; exact hhalf
  refine ⟨by simp [Rep], by simp [Rep], ?_, ?_⟩
  · simp [hhalf']
  · simp [hhalf']

/-- and the repaired form on the same grid and bracket stays put (instance of
`midpoint_sum_inside`) -/
example :
    let rnd := fun x : ℚ => ((⌊x⌋ : ℤ) : ℚ)
    (1 : ℚ) ≤ rnd (rnd (1 + 1) / 2) ∧ rnd (rnd (1 + 1) / 2) ≤ 1 :=
  midpoint_sum_inside _ floor_monoRound 1 1 le_rfl (by simp [Rep]) (by simp [Rep]) (by simp [Rep])
    (by simp [Rep])

end SV.Props.C06Midpoint
