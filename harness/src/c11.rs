//! C11 — products: `Arr2D::dot`, the four `*` forms, scalar `*` and `/`, transpose laws.
use crate::util::*;
use spindalis::utils::{Arr2D, Arr2DError};

pub trait Elem:
    Copy
    + Default
    + PartialEq
    + std::fmt::Debug
    + std::ops::AddAssign
    + std::ops::Mul<Output = Self>
    + std::ops::Div<Output = Self>
{
    fn read(t: &mut Toks) -> Self;
    fn show(self) -> String;
}
impl Elem for i64 {
    fn read(t: &mut Toks) -> Self {
        t.i64()
    }
    fn show(self) -> String {
        format!("{self}")
    }
}
impl Elem for f64 {
    fn read(t: &mut Toks) -> Self {
        t.f64()
    }
    fn show(self) -> String {
        fbits(self)
    }
}

/// plain grid used by the oracle (independent of Arr2D)
#[derive(Clone, Debug, PartialEq)]
pub struct Grid<T> {
    pub h: usize,
    pub w: usize,
    pub v: Vec<T>,
}
impl<T: Elem> Grid<T> {
    fn at(&self, i: usize, j: usize) -> T {
        self.v[i * self.w + j]
    }
    fn read(t: &mut Toks) -> Self {
        let h = t.usize();
        let w = t.usize();
        let v = (0..h * w).map(|_| T::read(t)).collect();
        Grid { h, w, v }
    }
    pub fn to_arr(&self) -> Arr2D<T> {
        let mut a = Arr2D::full(T::default(), self.h, self.w);
        for i in 0..self.h {
            for j in 0..self.w {
                a[(i, j)] = self.at(i, j);
            }
        }
        a
    }
    pub fn of_arr(a: &Arr2D<T>) -> Self {
        let (h, w) = (a.height, a.width);
        let mut v = Vec::with_capacity(h * w);
        for i in 0..h {
            for j in 0..w {
                v.push(a[(i, j)]);
            }
        }
        Grid { h, w, v }
    }
    fn show(&self) -> String {
        let mut s = format!("{} {}", self.h, self.w);
        for x in &self.v {
            s.push(' ');
            s.push_str(&x.show());
        }
        s
    }
    fn scaled(&self, s: T) -> Self {
        Grid { h: self.h, w: self.w, v: self.v.iter().map(|x| s * *x).collect() }
    }
    fn product(&self, rhs: &Self) -> Self {
        let mut v = Vec::new();
        for i in 0..self.h {
            for j in 0..rhs.w {
                let mut s = T::default();
                for k in 0..self.w {
                    s += self.at(i, k) * rhs.at(k, j);
                }
                v.push(s);
            }
        }
        Grid { h: self.h, w: rhs.w, v }
    }
    fn transposed(&self) -> Self {
        let mut v = Vec::new();
        for j in 0..self.w {
            for i in 0..self.h {
                v.push(self.at(i, j));
            }
        }
        Grid { h: self.w, w: self.h, v }
    }
}

fn show_dot<T: Elem>(r: &Result<Arr2D<T>, Arr2DError>) -> String {
    match r {
        Ok(m) => format!("ok {}", Grid::of_arr(m).show()),
        Err(Arr2DError::InvalidDotShape { lhs, rhs }) => format!("err dotshape {lhs} {rhs}"),
        Err(e) => format!("err other {e:?}"),
    }
}

/// the statement's table for the checked product
fn dot_oracle<T: Elem>(a: &Grid<T>, b: &Grid<T>, r: &Result<Arr2D<T>, Arr2DError>) -> Result<(), String> {
    let got = r.as_ref().ok().map(Grid::of_arr);
    let conforming = a.w == b.h;
    if conforming {
        let want = a.product(b);
        return match got {
            Some(g) if g == want => Ok(()),
            Some(g) => Err(format!("conforming product wrong: got {} want {}", g.show(), want.show())),
            None => Err("conforming shapes rejected".into()),
        };
    }
    if a.h == 1 && a.w == 1 {
        let want = b.scaled(a.v[0]);
        return match got {
            Some(g) if g == want => Ok(()),
            Some(g) => Err(format!("1x1 left operand must scale the right one: got {} want {}", g.show(), want.show())),
            None => Err("non-conforming 1x1 left operand rejected".into()),
        };
    }
    if b.h == 1 && b.w == 1 {
        let want = a.scaled(b.v[0]);
        return match got {
            None => Ok(()),
            Some(g) if g == want => Ok(()),
            Some(g) => Err(format!("1x1 right operand: got {} want {} or an error", g.show(), want.show())),
        };
    }
    match r {
        Err(Arr2DError::InvalidDotShape { .. }) => Ok(()),
        Err(e) => Err(format!("wrong error kind {e:?}")),
        Ok(_) => Err(format!("non-conforming shapes {}x{} . {}x{} accepted", a.h, a.w, b.h, b.w)),
    }
}

fn run_ty<T: Elem>(cmd: &str, t: &mut Toks) -> Obs {
    match cmd {
        "dot" => {
            let a = Grid::<T>::read(t);
            let b = Grid::<T>::read(t);
            let (aa, bb) = (a.to_arr(), b.to_arr());
            match catch(|| aa.dot(&bb)) {
                None => Obs::with("panic".into(), Err("checked product panicked".into())),
                Some(r) => Obs::with(show_dot(&r), dot_oracle(&a, &b, &r)),
            }
        }
        "mul" => {
            let form = t.tok();
            let a = Grid::<T>::read(t);
            let b = Grid::<T>::read(t);
            let (aa, bb) = (a.to_arr(), b.to_arr());
            let checked = catch(|| aa.dot(&bb));
            let (a2, b2) = (aa.clone(), bb.clone());
            let r = catch(move || match form {
                "rr" => &a2 * &b2,
                "oo" => a2 * b2,
                "or" => a2 * &b2,
                "ro" => &a2 * b2,
                _ => panic!("form"),
            });
            match r {
                None => Obs::with("panic".into(), Err("operator panicked".into())),
                Some(m) => {
                    let g = Grid::of_arr(&m);
                    let verdict = match checked {
                        Some(Ok(c)) => {
                            if Grid::of_arr(&c) == g { Ok(()) } else { Err("operator differs from checked product".into()) }
                        }
                        _ => Ok(()),
                    };
                    Obs::with(g.show(), verdict)
                }
            }
        }
        "smul" | "sdiv" => {
            let own = t.tok();
            let a = Grid::<T>::read(t);
            let s = T::read(t);
            let aa = a.to_arr();
            let is_mul = cmd == "smul";
            let r = catch(move || match (is_mul, own) {
                (true, "r") => &aa * s,
                (true, _) => aa * s,
                (false, "r") => &aa / s,
                (false, _) => aa / s,
            });
            match r {
                None => {
                    // integer division by zero is the only documented panic
                    let expected = !is_mul && s == T::default() && T::default().show() == "0" && a.h * a.w > 0;
                    Obs::with("panic".into(), if expected { Ok(()) } else { Err("scalar operator panicked".into()) })
                }
                Some(m) => {
                    let g = Grid::of_arr(&m);
                    let want = Grid {
                        h: a.h,
                        w: a.w,
                        v: a.v.iter().map(|x| if is_mul { *x * s } else { *x / s }).collect(),
                    };
                    Obs::with(g.show(), if g == want { Ok(()) } else { Err("scalar operator is not elementwise".into()) })
                }
            }
        }
        "transpose" => {
            let a = Grid::<T>::read(t);
            let aa = a.to_arr();
            let g = Grid::of_arr(&aa.transpose());
            Obs::with(g.show(), if g == a.transposed() { Ok(()) } else { Err("transpose wrong".into()) })
        }
        "assoc" | "tprod" | "ident" => {
            let a = Grid::<T>::read(t);
            let (l, r, strict) = match cmd {
                "assoc" => {
                    let b = Grid::<T>::read(t);
                    let c = Grid::<T>::read(t);
                    let (aa, bb, cc) = (a.to_arr(), b.to_arr(), c.to_arr());
                    let l = aa.dot(&bb).and_then(|ab| ab.dot(&cc));
                    let r = bb.dot(&cc).and_then(|bc| aa.dot(&bc));
                    (l, r, a.w == b.h && b.w == c.h)
                }
                "tprod" => {
                    let b = Grid::<T>::read(t);
                    let (aa, bb) = (a.to_arr(), b.to_arr());
                    let l = aa.dot(&bb).map(|m| m.transpose());
                    let r = bb.transpose().dot(&aa.transpose());
                    (l, r, a.w == b.h)
                }
                _ => {
                    let aa = a.to_arr();
                    let idl: Arr2D<T> = ident(a.h);
                    let idr: Arr2D<T> = ident(a.w);
                    let l = idl.dot(&aa);
                    let r = aa.dot(&idr);
                    let ok = |x: &Result<Arr2D<T>, Arr2DError>| x.as_ref().ok().map(|m| Grid::of_arr(m) == a).unwrap_or(false);
                    let verdict = if ok(&l) && ok(&r) { Ok(()) } else { Err("identity law fails".into()) };
                    return Obs::with(format!("L {} R {}", show_dot(&l), show_dot(&r)), verdict);
                }
            };
            let obs = format!("L {} R {}", show_dot(&l), show_dot(&r));
            let verdict = if !strict {
                None
            } else {
                Some(match (&l, &r) {
                    (Ok(x), Ok(y)) if Grid::of_arr(x) == Grid::of_arr(y) => Ok(()),
                    _ => Err("law fails on conforming operands".to_string()),
                })
            };
            Obs { obs, oracle: verdict }
        }
        _ => panic!("unknown C11 request {cmd}"),
    }
}

fn ident<T: Elem>(n: usize) -> Arr2D<T> {
    // built without Arr2D::identity (which needs From<i32>): 1 = x/x is not available for ints, so
    // go through the product of defaults: use full + set with a value read from a 1-element parse
    let mut m = Arr2D::full(T::default(), n, n);
    let one = T::read(&mut Toks::new(if T::default().show() == "0" { "1" } else { "4607182418800017408" }));
    for i in 0..n {
        m[(i, i)] = one;
    }
    m
}

pub fn run(line: &str) -> Obs {
    let mut t = Toks::new(line);
    let cmd = t.tok();
    let ty = t.tok();
    match ty {
        "i" => run_ty::<i64>(cmd, &mut t),
        "f" => run_ty::<f64>(cmd, &mut t),
        _ => panic!("type"),
    }
}

fn fill_i(rng: &mut Rng, h: usize, w: usize, style: u64) -> Vec<i64> {
    (0..h * w)
        .map(|k| match style {
            0 => rng.range(-3, 3),
            1 => {
                let v = rng.range(1, 9);
                if rng.chance(1, 2) { -v } else { v }
            }
            _ => (k as i64) * 7 + 2,
        })
        .collect()
}
fn fill_f(rng: &mut Rng, h: usize, w: usize) -> Vec<f64> {
    // small dyadic rationals: every product and partial sum is exact in binary64
    (0..h * w).map(|_| rng.dyadic(64, 4)).collect()
}

pub fn generate(seed: u64, thorough: bool, emit: &mut dyn FnMut(String)) {
    let mut rng = Rng::new(seed ^ 0xC11);
    let top = 5usize;
    // exhaustive shape pairs 0..5 x 0..5, integer entries, three fillings
    for h1 in 0..=top {
        for w1 in 0..=top {
            for h2 in 0..=top {
                for w2 in 0..=top {
                    for style in 0..3 {
                        let a = fill_i(&mut rng, h1, w1, style);
                        let b = fill_i(&mut rng, h2, w2, style);
                        emit(format!("dot i {} {}", req_mat_i(h1, w1, &a), req_mat_i(h2, w2, &b)));
                    }
                    let a = fill_i(&mut rng, h1, w1, 1);
                    let b = fill_i(&mut rng, h2, w2, 1);
                    let form = ["rr", "oo", "or", "ro"][(h1 + w1 + h2 + w2) % 4];
                    let forms: Vec<&str> = if thorough { vec!["rr", "oo", "or", "ro"] } else { vec![form] };
                    for f in forms {
                        emit(format!("mul i {f} {} {}", req_mat_i(h1, w1, &a), req_mat_i(h2, w2, &b)));
                    }
                    let af = fill_f(&mut rng, h1, w1);
                    let bf = fill_f(&mut rng, h2, w2);
                    emit(format!("dot f {} {}", req_mat_f(h1, w1, &af), req_mat_f(h2, w2, &bf)));
                    if thorough {
                        let form = ["rr", "oo", "or", "ro"][(h1 + 2 * w1 + h2 + w2) % 4];
                        emit(format!("mul f {form} {} {}", req_mat_f(h1, w1, &af), req_mat_f(h2, w2, &bf)));
                    }
                }
            }
        }
    }
    // scalar forms on all shapes
    for h in 0..=top {
        for w in 0..=top {
            for own in ["r", "o"] {
                let a = fill_i(&mut rng, h, w, 1);
                emit(format!("smul i {own} {} {}", req_mat_i(h, w, &a), rng.range(-5, 5)));
                let d = if rng.chance(1, 8) { 0 } else { *rng.pick(&[-3i64, -2, -1, 1, 2, 3, 7]) };
                emit(format!("sdiv i {own} {} {}", req_mat_i(h, w, &a), d));
                let af = fill_f(&mut rng, h, w);
                emit(format!("smul f {own} {} {}", req_mat_f(h, w, &af), rbits(rng.dyadic(32, 3))));
                let df = *rng.pick(&[0.5f64, -2.0, 4.0, 0.25, 1.0, 3.0]);
                emit(format!("sdiv f {own} {} {}", req_mat_f(h, w, &af), rbits(df)));
            }
            let a = fill_i(&mut rng, h, w, 2);
            emit(format!("transpose i {}", req_mat_i(h, w, &a)));
            emit(format!("ident i {}", req_mat_i(h, w, &a)));
        }
    }
    // sizes well beyond the exhaustive shape sweep (blocked / unrolled loops only show past their block size):
    // every shared dimension 6..40 at least once, outer dimensions 1..24
    let reps = if thorough { 12 } else { 2 };
    for k in 6..=40usize {
        for r in 0..reps {
            let m = 1 + rng.below(if r == 0 { 3 } else { 24 }) as usize;
            let n = 1 + rng.below(if r == 0 { 3 } else { 24 }) as usize;
            let a = fill_i(&mut rng, m, k, 1);
            let b = fill_i(&mut rng, k, n, 1);
            emit(format!("dot i {} {}", req_mat_i(m, k, &a), req_mat_i(k, n, &b)));
            let form = ["rr", "oo", "or", "ro"][(k + r) % 4];
            emit(format!("mul i {form} {} {}", req_mat_i(m, k, &a), req_mat_i(k, n, &b)));
            let af = fill_f(&mut rng, m, k);
            let bf = fill_f(&mut rng, k, n);
            emit(format!("dot f {} {}", req_mat_f(m, k, &af), req_mat_f(k, n, &bf)));
            if r == 0 {
                let c = fill_i(&mut rng, n, 2, 0);
                emit(format!("assoc i {} {} {}", req_mat_i(m, k, &a), req_mat_i(k, n, &b), req_mat_i(n, 2, &c)));
                emit(format!("tprod i {} {}", req_mat_i(m, k, &a), req_mat_i(k, n, &b)));
                emit(format!("transpose i {}", req_mat_i(m, k, &a)));
                emit(format!("smul i r {} 3", req_mat_i(m, k, &a)));
            }
        }
    }
    // float entries of every magnitude (a threshold that drops or clamps small products shows only there):
    // exact powers of two, so products are exact and sums of a few of them too
    for _ in 0..(if thorough { 2000 } else { 200 }) {
        let m = 1 + rng.below(3) as usize;
        let k = 1 + rng.below(4) as usize;
        let n = 1 + rng.below(3) as usize;
        let e0 = rng.range(-300, 250) as i32;
        let mk = |rng: &mut Rng, len: usize| -> Vec<f64> {
            (0..len).map(|_| rng.range(-3, 3) as f64 * 2f64.powi(e0 + rng.range(0, 20) as i32)).collect()
        };
        let af = mk(&mut rng, m * k);
        let bf: Vec<f64> = (0..k * n).map(|_| rng.range(-3, 3) as f64 * 2f64.powi(rng.range(-20, 20) as i32)).collect();
        emit(format!("dot f {} {}", req_mat_f(m, k, &af), req_mat_f(k, n, &bf)));
        emit(format!("smul f r {} {}", req_mat_f(m, k, &af), rbits(2f64.powi(rng.range(-40, 40) as i32))));
    }
    // laws on random (mostly conforming) triples
    let n_laws = if thorough { 20000 } else { 1500 };
    for _ in 0..n_laws {
        let d: Vec<usize> = (0..4).map(|_| rng.below(5) as usize).collect();
        let (h1, w1, mut h2, w2, mut h3, w3) = (d[0], d[1], d[1], d[2], d[2], d[3]);
        if rng.chance(1, 10) {
            h2 = rng.below(5) as usize;
        }
        if rng.chance(1, 10) {
            h3 = rng.below(5) as usize;
        }
        let a = fill_i(&mut rng, h1, w1, 0);
        let b = fill_i(&mut rng, h2, w2, 0);
        let c = fill_i(&mut rng, h3, w3, 0);
        emit(format!(
            "assoc i {} {} {}",
            req_mat_i(h1, w1, &a),
            req_mat_i(h2, w2, &b),
            req_mat_i(h3, w3, &c)
        ));
        emit(format!("tprod i {} {}", req_mat_i(h1, w1, &a), req_mat_i(h2, w2, &b)));
    }
}
