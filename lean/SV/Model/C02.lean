import SV.Model.Text
import SV.Model.PolyOps
/-!
Model of `parse_intermediate_polynomial` (spindalis_core/src/polynomials/intermediate.rs):

1. drop white space; every `-` that does not directly follow `^` becomes `+-`; split at `+`;
2. drop one leading empty part; another empty part or a lone `-` is a syntax error;
3. per part: scan the coefficient (`is_numeric`, `.`, `/`, a leading `-`), value `""` → 1, `"-"` → −1,
   `a/b` → `a / b` (b ≠ 0), else a decimal; then a sequence of ASCII letters, each optionally followed
   by `^` and an exponent made of ASCII digits and `. / -` (decimal or fraction); any other
   character is `UnexpectedChar`; a repeated letter adds its exponent to the first occurrence;
   variables are sorted by name (stable);
4. the polynomial's variable list is the sorted set of names used.

Numbers are `Text.Num` expressions (decimal literals, `/`, `+`), so the answer fixes the `f64`
results exactly.
-/
namespace SV.C02
open SV SV.Text SV.Poly

structure ITerm where
  coef : Num
  vars : List (String × Num)
deriving Repr

structure IParsed where
  terms : List ITerm
  variables : List String
deriving Repr

/-- step 1: `-` ↦ `+-` unless it is the sign of an exponent (directly after `^`) -/
def protectDash : Option Char → List Char → List Char
  | _, [] => []
  | prev, c :: cs =>
    if c = '-' ∧ prev ≠ some '^' then '+' :: '-' :: protectDash (some c) cs
    else c :: protectDash (some c) cs

def normalize (cc : CharClass) (s : List Char) : List Char := protectDash none (stripWs cc s)

/-- the coefficient scan: longest prefix of characters that are numeric, `.`, `/`, or a `-` in
first position -/
def scanCoeff (cc : CharClass) : Bool → List Char → List Char × List Char
  | _, [] => ([], [])
  | first, c :: cs =>
    if cc.isNumeric c ∨ c = '.' ∨ (first ∧ c = '-') ∨ c = '/' then
      let (a, b) := scanCoeff cc false cs
      (c :: a, b)
    else ([], c :: cs)

/-- `a/b` with exactly one `/`, both sides decimals, `b ≠ 0`; `none` otherwise -/
def parseFraction (s : List Char) : Option Num :=
  match splitOn '/' s with
  | [a, b] =>
    match parseSignedDec a, parseSignedDec b with
    | some x, some y => if y.isZero then none else some (.div (.dec x) (.dec y))
    | _, _ => none
  | _ => none

def coeffValue (coeff : List Char) : Except PErr Num :=
  if coeff = [] then .ok Num.one
  else if coeff = ['-'] then .ok Num.negOne
  else if coeff.contains '/' then
    match parseFraction coeff with
    | some v => .ok v
    | none => .error .invalidFraction
  else
    match parseSignedDec coeff with
    | some d => .ok (.dec d)
    | none => .error .invalidCoefficient

/-- exponent characters: ASCII digits and `. / -` -/
def scanExp : List Char → List Char × List Char
  | [] => ([], [])
  | c :: cs =>
    if isAsciiDigit c ∨ c = '.' ∨ c = '/' ∨ c = '-' then
      let (a, b) := scanExp cs
      (c :: a, b)
    else ([], c :: cs)

def expValue (pow : List Char) : Except PErr Num :=
  if pow.contains '/' then
    match parseFraction pow with
    | some v => .ok v
    | none => .error .invalidFractionalExponent
  else
    match parseSignedDec pow with
    | some d => .ok (.dec d)
    | none => .error .invalidExponent

/-- push, or add the exponent to the first occurrence of the name -/
def addVar (vars : List (String × Num)) (name : String) (p : Num) : List (String × Num) :=
  if vars.any (fun v => v.1 = name) then
    let rec upd : List (String × Num) → List (String × Num)
      | [] => []
      | (n, e) :: rest => if n = name then (n, Num.add e p) :: rest else (n, e) :: upd rest
    upd vars
  else vars ++ [(name, p)]

/-- the variable loop of one part; fuel = length of the remaining text (each pass consumes a char) -/
def scanVars : Nat → List Char → List (String × Num) → Except PErr (List (String × Num))
  | 0, _, vars => .ok vars
  | _, [], vars => .ok vars
  | fuel + 1, c :: cs, vars =>
    if isAsciiLetter c then
      match cs with
      | '^' :: rest =>
        let (pow, rest') := scanExp rest
        match expValue pow with
        | .error e => .error e
        | .ok p => scanVars fuel rest' (addVar vars (String.singleton c) p)
      | _ => scanVars fuel cs (addVar vars (String.singleton c) Num.one)
    else .error .unexpectedChar

def parsePart (cc : CharClass) (part : List Char) : Except PErr ITerm :=
  let (coeff, rest) := scanCoeff cc true part
  match coeffValue coeff with
  | .error e => .error e
  | .ok c =>
    match scanVars (rest.length + 1) rest [] with
    | .error e => .error e
    | .ok vars => .ok ⟨c, vars.mergeSort (fun a b => a.1 ≤ b.1)⟩

def parseParts (cc : CharClass) : List (List Char) → Except PErr (List ITerm)
  | [] => .ok []
  | p :: ps =>
    match parsePart cc p with
    | .error e => .error e
    | .ok t =>
      match parseParts cc ps with
      | .error e => .error e
      | .ok ts => .ok (t :: ts)

def parts (norm : List Char) : List (List Char) :=
  match splitOn '+' norm with
  | [] :: rest => rest
  | ps => ps

def parse (cc : CharClass) (s : List Char) : Except PErr IParsed :=
  let ps := parts (normalize cc s)
  if ps.any (fun p => p = [] ∨ p = ['-']) then .error .syntaxError
  else
    match parseParts cc ps with
    | .error e => .error e
    | .ok ts =>
      let names := (ts.flatMap fun t => t.vars.map (·.1)).eraseDups.mergeSort (fun a b => a ≤ b)
      .ok ⟨ts, names⟩

end SV.C02

namespace SV.C02.Driver
open SV SV.Wire SV.Text SV.Poly SV.PolyWire SV.C02

def fmtParsed (r : Except PErr IParsed) : String :=
  match r with
  | .error e => fmtErr e
  | .ok p =>
    " ".intercalate (["ok", "I", toString p.terms.length]
      ++ p.terms.map (fun t => " ".intercalate ([t.coef.show, toString t.vars.length]
          ++ t.vars.map fun (v, e) => fmtName v ++ " " ++ e.show))
      ++ [toString p.variables.length] ++ p.variables.map fmtName)

/--
    parse <entry> <text>       → ok I … (numbers as Text.Num) | err Kind
    eval / evalm …             → as in SV.PolyOps
    pe, both …                 → "-" (decided by the oracle)
-/
def handle (line : String) : String :=
  let p : P String := do
    let cmd ← tok
    match cmd with
    | "parse" => do
      let _entry ← tok
      let s ← chars
      return fmtParsed (parse stdClass s)
    | "pe" | "both" => fun _ => some ("-", [])
    | other => PolyOps.handleCmd other
  match run p ((line.splitOn " | ").headD line) with
  | some s => s
  | none => "bad-request"

end SV.C02.Driver
