import SV.Model.C03
import SV.Lemmas.C03
import Mathlib.Analysis.Calculus.Deriv.Polynomial
/-!
# C03 — symbolic derivatives are the derivative, and stay usable polynomials

Property theorems only (helpers: `SV.Lemmas.Poly`, `SV.Lemmas.C03`).  They speak about the shared model
`SV.Model.Poly` — `simpleDeriv` (`simple_derivative`), `partialDeriv` (`partial_derivative`), `derivUni` /
`integUni` / `evalUni` (the `PolynomialTraits` wrappers of `IntermediatePolynomial`), `evalTerms`
(`eval_intermediate_polynomial`) — the same definitions the driver runs at `Float` and the check
compares with the Rust code on every run.  Analysis is over `ℝ` with `powf := Real.rpow`.

Reading guide: DESIGN.md §6 "C03".  Well-formedness (`SV.C03.TermsWF`, `Usable`, `WF`) is defined in
`SV.Model.C03`; that the parser produces `WF` values is C02's `parse_canonical` and is re-checked on
every parsed polynomial by this property's search.
-/
namespace SV.Props.C03
open SV SV.Poly SV.C03 Polynomial

/-! ### the dense univariate type -/

/-- `simple_derivative` is the formal derivative of the polynomial the coefficients denote
(any field, every length — `[]` and constants included). -/
theorem simple_deriv_correct {K : Type} [Field K] (cs : List K) :
    ofCoeffs (simpleDeriv cs) = derivative (ofCoeffs cs) :=
  ofCoeffs_simpleDeriv cs

/-- … hence evaluating the returned coefficients (with the code's own left-to-right `powi` fold)
gives the derivative of the function the input evaluates to, at every real point. -/
theorem simple_deriv_hasDerivAt (cs : List ℝ) (x : ℝ) :
    HasDerivAt (fun t => evalSimple cs t) (evalSimple (simpleDeriv cs) x) x := by
  have h : (fun t => evalSimple cs t) = fun t => (ofCoeffs cs).eval t := by
    funext t; exact evalSimple_eq cs t
  rw [h, evalSimple_eq, ofCoeffs_simpleDeriv]
  exact (ofCoeffs cs).hasDerivAt x

/-- the univariate trait entry point of the dense type never fails and is `simple_derivative` -/
theorem simple_derivUni_ok {K : Type} [Field K] [LinearOrder K] (p : SPoly K) :
    (AnyPoly.simple p).derivUni = .ok (.simple ⟨simpleDeriv p.coeffs, p.var⟩) := rfl

/-! ### the sparse multivariate type: one term -/

/-- Domain of the derivative statement at the point `x` for the variable `v`: every power `p` that
`v` carries is differentiated either away from `0` or with `p ≥ 1`.

This contains the property's domain "positive values when an exponent is non-integer, non-zero when
negative" (`derivDomain_of_property_domain`) except for the single combination `x = 0`, `p = 0`: there
the code returns the term `0·v^(-1)`, which is `0·∞ = NaN` in IEEE arithmetic (DESIGN.md §5, judged
outside the natural domain of the result), while `Real.rpow 0 (-1) = 0` would make the statement
true for a reason that is not the code's — so it is left out rather than proved from a junk value.
For `x < 0` and a non-integer power `Real.rpow` is a total convention that IEEE `powf` does not share
(NaN); the theorem is still true there but says nothing about the `Float` instance. -/
def DerivDomain (ts : List (Term ℝ)) (v : String) (x : ℝ) : Prop :=
  ∀ t ∈ ts, ∀ p, (v, p) ∈ t.vars → x ≠ 0 ∨ 1 ≤ p

/-- the domain named in the property statement -/
def PropertyDomain (ts : List (Term ℝ)) (v : String) (x : ℝ) : Prop :=
  ∀ t ∈ ts, ∀ p, (v, p) ∈ t.vars →
    0 < x ∨ ((∃ n : ℤ, p = n) ∧ x ≠ 0) ∨ (∃ n : ℕ, p = n ∧ 1 ≤ n)

theorem derivDomain_of_property_domain {ts : List (Term ℝ)} {v : String} {x : ℝ}
    (h : PropertyDomain ts v x) : DerivDomain ts v x := by
  intro t ht p hp
  rcases h t ht p hp with h | ⟨_, h⟩ | ⟨n, rfl, hn⟩
  · exact Or.inl (ne_of_gt h)
  · exact Or.inl h
  · exact Or.inr (by exact_mod_cast hn)

/-- **Power rule on one term** (`NodupVars` term, any real exponents: zero, negative, fractional).
For the variable list `vs` of a term and the differentiation variable `v`:

* `v` absent ⇒ the term is dropped (`derivVars = none`), and its value does not depend on `v`;
* `v` present with power `p` ⇒ the multiplier is `p`, the other variables are untouched, `v` is
  *removed* when `p - 1 = 0` and carries `p - 1` otherwise (never a literal `v^0`), and the value
  function of the term has derivative `c·p·(value of the new variable list)` at `x`. -/
theorem inter_deriv_term (vs : List (String × ℝ)) (hnd : strictSorted (names vs) = true)
    (v : String) (c : ℝ) (σ : String → ℝ) (x : ℝ) :
    (v ∉ names vs → derivVars v vs = none ∧
        ∀ t, c * varsVal Real.rpow (Function.update σ v t) vs = c * varsVal Real.rpow σ vs) ∧
    (∀ p, (v, p) ∈ vs → ∃ vs', derivVars v vs = some (p, vs') ∧
        (p - 1 = 0 → v ∉ names vs') ∧
        (p - 1 ≠ 0 → (v, p - 1) ∈ vs' ∧ ∀ q, (v, q) ∈ vs' → q = p - 1) ∧
        (∀ w q, w ≠ v → ((w, q) ∈ vs' ↔ (w, q) ∈ vs)) ∧
        ((x ≠ 0 ∨ 1 ≤ p) →
          HasDerivAt (fun t => c * varsVal Real.rpow (Function.update σ v t) vs)
            ((c * p) * varsVal Real.rpow (Function.update σ v x) vs') x)) := by
  have hnodup : (names vs).Nodup := strictSorted_nodup hnd
  refine ⟨fun hv => ⟨derivVars_none hv, fun t => by rw [varsVal_update_of_not_mem _ _ _ _ hv]⟩, ?_⟩
  intro p hp
  have hv : v ∈ names vs := List.mem_map.2 ⟨(v, p), hp, rfl⟩
  obtain ⟨pre, q, post, hvs, hpre, hd⟩ := derivVars_split hv
  -- the only occurrence of `v` is the one found
  have hpost : v ∉ names post := by
    rw [hvs] at hnodup
    simp only [names, List.map_append, List.map_cons] at hnodup
    exact (List.nodup_cons.1 (List.nodup_append.1 hnodup).2.1).1
  have hq : q = p := by
    rw [hvs, List.mem_append, List.mem_cons] at hp
    rcases hp with hp | hp | hp
    · exact absurd (List.mem_map.2 ⟨(v, p), hp, rfl⟩) hpre
    · exact (Prod.mk.inj hp).2.symm
    · exact absurd (List.mem_map.2 ⟨(v, p), hp, rfl⟩) hpost
  subst hq
  refine ⟨_, hd, ?_, ?_, ?_, ?_⟩
  · intro h0
    rw [if_pos ((isZero_iff _).2 h0)]
    simp only [names, List.map_append, List.mem_append, not_or]
    exact ⟨hpre, hpost⟩
  · intro h0
    have hz : ¬ isZero (q - 1) = true := fun h => h0 ((isZero_iff _).1 h)
    rw [if_neg hz]
    refine ⟨by simp, ?_⟩
    intro r hr
    rw [List.mem_append, List.mem_cons] at hr
    rcases hr with hr | hr | hr
    · exact absurd (List.mem_map.2 ⟨(v, r), hr, rfl⟩) hpre
    · exact (Prod.mk.inj hr).2
    · exact absurd (List.mem_map.2 ⟨(v, r), hr, rfl⟩) hpost
  · intro w r hw
    rw [hvs]
    have hne : (w, r) ≠ (v, q) := fun e => hw (Prod.mk.inj e).1
    have hne' : (w, r) ≠ (v, q - 1) := fun e => hw (Prod.mk.inj e).1
    split <;> simp [List.mem_append, List.mem_cons, hne, hne']
  · intro hdom
    have h := (hasDerivAt_varsVal σ v x hnodup hd (fun r hr => by
      have : r = q := by
        rw [hvs, List.mem_append, List.mem_cons] at hr
        rcases hr with hr | hr | hr
        · exact absurd (List.mem_map.2 ⟨(v, r), hr, rfl⟩) hpre
        · exact (Prod.mk.inj hr).2
        · exact absurd (List.mem_map.2 ⟨(v, r), hr, rfl⟩) hpost
      rw [this]; exact hdom)).const_mul c
    refine h.congr_deriv ?_
    ring

/-! ### the sparse multivariate type: whole polynomials, by-name entry point -/

/-- **`partial_derivative` / `derivate_multivariate` is the partial derivative.**  For a polynomial
whose terms are well-formed, any variable name `v` (present, absent, multi-letter), bindings `bs` of
the other variables and every point `x` of the domain: evaluating the source with `v ↦ t` (through the
model of `eval_intermediate_polynomial`, where the last binding of a name wins) succeeds for every `t`,
evaluating the returned polynomial at `v ↦ x` succeeds, and the latter is the derivative of the former
at `x`. -/
theorem inter_deriv_correct (p : IPoly ℝ) (hwf : TermsWF p.terms) (v : String)
    (bs : List (String × ℝ)) (hb : ∀ w ∈ termNames p.terms, w ≠ v → (lookup bs w).isSome)
    (x : ℝ) (hdom : DerivDomain p.terms v x) :
    ∃ (f : ℝ → ℝ) (d : ℝ),
      (∀ t, evalTerms Real.rpow p.terms (bs ++ [(v, t)]) = .ok (f t)) ∧
      evalTerms Real.rpow (partialDeriv p.terms v).terms (bs ++ [(v, x)]) = .ok d ∧
      HasDerivAt f d x := by
  have hbound : ∀ t w, w ∈ termNames p.terms → (lookup (bs ++ [(v, t)]) w).isSome := by
    intro t w hw
    rw [lookup_append_single]
    by_cases h : v = w
    · simp [h]
    · rw [if_neg h]; exact hb w hw (fun e => h e.symm)
  refine ⟨fun t => polyVal Real.rpow (Function.update (valuation bs) v t) p.terms,
    polyVal Real.rpow (Function.update (valuation bs) v x) (partialDeriv p.terms v).terms, ?_, ?_, ?_⟩
  · intro t
    rw [evalTerms_eq Real.rpow p.terms _ (hbound t), valuation_append_single]
  · rw [evalTerms_eq Real.rpow _ _ (fun w hw => hbound x w (partialDeriv_names p.terms v w hw)),
      valuation_append_single]
  · exact hasDerivAt_partialDeriv (valuation bs) v x p.terms hwf hdom

/-- terms that do not contain the variable vanish: the derivative has exactly one term per source
term containing `v`, in the same order -/
theorem deriv_term_count {K : Type} [Field K] [LinearOrder K] (ts : List (Term K)) (v : String) :
    (partialDeriv ts v).terms.length = (ts.filter fun t => decide (v ∈ names t.vars)).length := by
  unfold partialDeriv
  simp only [List.length_map]
  induction ts with
  | nil => rfl
  | cons t ts ih =>
    by_cases hv : v ∈ names t.vars
    · obtain ⟨_, _, _, _, _, hd⟩ := derivVars_split hv
      simp [derivTerms, hd, hv, ih]
    · simp [derivTerms, derivVars_none hv, hv, ih]

/-! ### closure -/

/-- what the parser produces can be handed to the univariate entry points -/
theorem wf_usable {S : Type} {p : IPoly S} (h : WF p) : Usable p := h.1

/-- **By-name entry points are closed.**  `derivate_multivariate` of a polynomial with well-formed
terms is a well-formed polynomial (sorted `NodupVars` terms; variable list sorted, duplicate-free,
exactly the names still in use), it introduces no variable, and every binding list that evaluates
the source evaluates the result. -/
theorem deriv_closed {K : Type} [Field K] [LinearOrder K] (powf : K → K → K)
    (p : IPoly K) (h : Usable p) (v : String) :
    WF (partialDeriv p.terms v) ∧
    (∀ w ∈ (partialDeriv p.terms v).variables, w ∈ p.variables) ∧
    (∀ bs : List (String × K), (∀ w ∈ p.variables, (lookup bs w).isSome) →
      (∃ y, evalTerms powf p.terms bs = .ok y) ∧
      (∃ y, evalTerms powf (partialDeriv p.terms v).terms bs = .ok y)) := by
  have hwf := partialDeriv_wf p.terms v h.1
  refine ⟨hwf, ?_, ?_⟩
  · intro w hw
    exact h.2.2 w (partialDeriv_names p.terms v w (hwf.2 w hw))
  · intro bs hbs
    refine ⟨⟨_, evalTerms_eq powf p.terms bs (fun w hw => hbs w (h.2.2 w hw))⟩,
      ⟨_, evalTerms_eq powf _ bs (fun w hw => hbs w (h.2.2 w (partialDeriv_names p.terms v w hw)))⟩⟩

/-- the invariant of the univariate interface: usable, at most one variable (none included) -/
def UniOK {S : Type} (p : IPoly S) : Prop := Usable p ∧ p.variables.length ≤ 1

/-- **Univariate entry points are closed** on every usable polynomial with at most one variable —
*including none*: `eval_univariate` returns a number at every point, `derivate_univariate` and
`indefinite_integral_univariate` return `Ok`, and what they return satisfies the same invariant
again (the derivative keeps the source's variable list, so it is `Usable` but in general not `WF`:
`x ↦ 1` still lists `x`; the integral is `WF`).  The model's result type has no panic outcome; that
the code has none either is what the correspondence run checks (constants were a panic before D8). -/
theorem uni_closed {K : Type} [Field K] [LinearOrder K] (powf : K → K → K)
    (p : IPoly K) (h : UniOK p) :
    (∀ x, ∃ y, evalUni powf p x = .ok y) ∧
    (∃ q, derivUni p = .ok q ∧ UniOK q) ∧
    (∃ q, integUni p = .ok q ∧ WF q ∧ UniOK q) := by
  obtain ⟨hu, h1⟩ := h
  have hgt : ¬ p.variables.length > 1 := by omega
  refine ⟨?_, ?_, ?_⟩
  · intro x
    unfold evalUni
    rw [if_neg hgt]
    cases hv : p.variables with
    | nil =>
      exact ⟨_, evalTerms_eq powf p.terms [] (fun w hw => by have := hu.2.2 w hw; simp [hv] at this)⟩
    | cons v r =>
      refine ⟨_, evalTerms_eq powf p.terms [(v, x)] (fun w hw => ?_)⟩
      have hw' := hu.2.2 w hw
      rw [hv] at hw' h1
      have hr : r = [] := by cases r with | nil => rfl | cons _ _ => simp at h1
      subst hr
      simp only [List.mem_singleton] at hw'
      subst hw'
      simp [lookup_single]
  · unfold derivUni
    rw [if_neg hgt]
    refine ⟨_, rfl, ⟨(partialDeriv_wf p.terms _ hu.1).1.1, hu.2.1, ?_⟩, h1⟩
    intro w hw
    exact hu.2.2 w (partialDeriv_names p.terms _ w hw)
  · unfold integUni
    rw [if_neg hgt]
    have hwf := integInter_wf p.terms (match p.variables with | v :: _ => v | [] => "x") hu.1
    refine ⟨_, rfl, hwf, hwf.1, ?_⟩
    apply length_le_one_of_subset_singleton hwf.1.2.1
      (match p.variables with | v :: _ => v | [] => "x")
    intro w hw
    rcases integInter_names p.terms _ w (hwf.2 w hw) with hw' | hw'
    · have hw'' := hu.2.2 w hw'
      cases hv : p.variables with
      | nil => simp [hv] at hw''
      | cons v r =>
        rw [hv] at hw'' h1
        have hr : r = [] := by cases r with | nil => rfl | cons _ _ => simp at h1
        subst hr
        simpa using hw''
    · exact hw'

/-- a sequence of univariate operations: `true` = `derivate_univariate`,
`false` = `indefinite_integral_univariate` -/
def uniSteps {K : Type} [Field K] [LinearOrder K] : List Bool → IPoly K → Except PErr (IPoly K)
  | [], p => .ok p
  | b :: r, p =>
    match (if b then derivUni p else integUni p) with
    | .ok q => uniSteps r q
    | .error e => .error e

/-- **Chains of any length**: starting from a parsed polynomial with at most one variable, every
sequence of derivatives and integrals through the univariate interface succeeds and its result can
be evaluated at every point. -/
theorem uni_chain_ok {K : Type} [Field K] [LinearOrder K] (powf : K → K → K)
    (steps : List Bool) (p : IPoly K) (h : UniOK p) :
    ∃ q, uniSteps steps p = .ok q ∧ UniOK q ∧ ∀ x, ∃ y, evalUni powf q x = .ok y := by
  induction steps generalizing p with
  | nil => exact ⟨p, rfl, h, (uni_closed powf p h).1⟩
  | cons b r ih =>
    obtain ⟨_, ⟨q, hq, hqok⟩, ⟨q', hq', _, hq'ok⟩⟩ := uni_closed powf p h
    cases b with
    | true => simpa [uniSteps, hq] using ih q hqok
    | false => simpa [uniSteps, hq'] using ih q' hq'ok

/-! ### the sparse multivariate type: univariate entry point -/

/-- **`derivate_univariate` is the derivative** of the function `eval_univariate` computes, for every
usable polynomial with at most one variable (constants: the derivative is the zero polynomial). -/
theorem deriv_uni_correct (p : IPoly ℝ) (h : UniOK p) (x : ℝ)
    (hdom : ∀ v ∈ p.variables, DerivDomain p.terms v x) :
    ∃ (q : IPoly ℝ) (f : ℝ → ℝ) (d : ℝ), derivUni p = .ok q ∧
      (∀ t, evalUni Real.rpow p t = .ok (f t)) ∧ evalUni Real.rpow q x = .ok d ∧
      HasDerivAt f d x := by
  obtain ⟨hu, h1⟩ := h
  have hgt : ¬ p.variables.length > 1 := by omega
  cases hv : p.variables with
  | nil =>
    have hno : ∀ w, w ∉ termNames p.terms := fun w hw => by
      have := hu.2.2 w hw; simp [hv] at this
    have hno' : ∀ w, w ∉ termNames (partialDeriv p.terms "x").terms :=
      fun w hw => hno w (partialDeriv_names p.terms "x" w hw)
    refine ⟨⟨(partialDeriv p.terms "x").terms, []⟩,
      fun t => polyVal Real.rpow (Function.update (valuation []) "x" t) p.terms,
      polyVal Real.rpow (Function.update (valuation []) "x" x) (partialDeriv p.terms "x").terms,
      ?_, ?_, ?_, ?_⟩
    · simp [derivUni, hv]
    · intro t
      simp only [evalUni, hv, List.length_nil, gt_iff_lt, Nat.not_lt_zero, if_false]
      rw [evalTerms_eq Real.rpow p.terms [] (fun w hw => absurd hw (hno w))]
      exact congrArg _ (polyVal_congr _ (fun w hw => absurd hw (hno w)))
    · simp only [evalUni, List.length_nil, gt_iff_lt, Nat.not_lt_zero, if_false]
      rw [evalTerms_eq Real.rpow _ [] (fun w hw => absurd hw (hno' w))]
      exact congrArg _ (polyVal_congr _ (fun w hw => absurd hw (hno' w)))
    · exact hasDerivAt_partialDeriv _ "x" x p.terms hu.1
        (fun t ht q hq => absurd (mem_termNames.2 ⟨t, ht, List.mem_map.2 ⟨_, hq, rfl⟩⟩) (hno "x"))
  | cons v r =>
    rw [hv] at h1
    have hr : r = [] := by cases r with | nil => rfl | cons _ _ => simp at h1
    subst hr
    have hmem : ∀ w ∈ termNames p.terms, w = v := fun w hw => by
      have := hu.2.2 w hw; rw [hv] at this; simpa using this
    obtain ⟨f, d, hf, hd, hder⟩ := inter_deriv_correct p hu.1 v []
      (fun w hw hne => absurd (hmem w hw) hne) x (hdom v (by simp [hv]))
    refine ⟨⟨(partialDeriv p.terms v).terms, [v]⟩, f, d, ?_, ?_, ?_, hder⟩
    · simp [derivUni, hv]
    · intro t
      simp only [evalUni, hv, List.length_singleton, gt_iff_lt, Nat.lt_irrefl, if_false]
      simpa using hf t
    · simp only [evalUni, List.length_singleton, gt_iff_lt, Nat.lt_irrefl, if_false]
      simpa using hd

/-! ### non-vacuity -/

/-- `"x^3 + x^2"` as `IntermediatePolynomial::parse` returns it -/
def cubic : IPoly ℚ := ⟨[⟨1, [("x", 3)]⟩, ⟨1, [("x", 2)]⟩], ["x"]⟩

example : WF cubic := by decide
example : UniOK cubic := ⟨by decide, by decide⟩

/-- differentiated twice through the univariate entry point: `6x + 2`, still listing `x`
(before D9 the first derivative listed `["x","x"]` and the second call failed) -/
example : ∃ q1 q2, derivUni cubic = .ok q1 ∧ derivUni q1 = .ok q2 ∧
    q2.terms.map (fun t => (t.coef, t.vars)) = [(6, [("x", 1)]), (2, [])] ∧
    q2.variables = ["x"] := by
  refine ⟨_, _, rfl, rfl, ?_, rfl⟩
  simp [cubic, partialDeriv, derivTerms, derivVars, sortVars, isZero]
  norm_num

/-- … and by name: `∂/∂x` twice, the variable list is rebuilt each time -/
example : (partialDeriv (partialDeriv cubic.terms "x").terms "x").variables = ["x"] ∧
    (partialDeriv (partialDeriv (partialDeriv cubic.terms "x").terms "x").terms "y").terms.length = 0 := by
  simp [cubic, partialDeriv, derivTerms, derivVars, sortVars, isZero, variablesOf, List.eraseDups_cons]
  norm_num [derivTerms, derivVars, variablesOf, List.eraseDups_cons, isZero,
    (by decide : ¬ ("x" : String) = "y")]

/-- a constant polynomial (`"5"`, no variable at all) goes through the univariate interface -/
example : UniOK (⟨[⟨5, []⟩], []⟩ : IPoly ℚ) := ⟨by decide, by decide⟩

/-- the hypotheses of `inter_deriv_correct` are satisfiable with a fractional and a negative
exponent: `3·x^(1/2)·y^(-1)` differentiated in `x` at `x = 4`, `y = 2` -/
example : ∃ (f : ℝ → ℝ) (d : ℝ),
    (∀ t, evalTerms Real.rpow [⟨3, [("x", 1 / 2), ("y", -1)]⟩] ([("y", 2)] ++ [("x", t)]) = .ok (f t)) ∧
    evalTerms Real.rpow (partialDeriv [(⟨3, [("x", 1 / 2), ("y", -1)]⟩ : Term ℝ)] "x").terms
      ([("y", 2)] ++ [("x", 4)]) = .ok d ∧ HasDerivAt f d 4 := by
  refine inter_deriv_correct ⟨[⟨3, [("x", 1 / 2), ("y", -1)]⟩], ["x", "y"]⟩ ?_ "x" [("y", 2)] ?_ 4 ?_
  · intro t ht
    simp only [List.mem_singleton] at ht
    subst ht
    decide
  · intro w hw hne
    simp only [termNames, names, List.flatMap_cons, List.flatMap_nil, List.map_cons, List.map_nil,
      List.append_nil, List.mem_cons, List.not_mem_nil, or_false] at hw
    rcases hw with rfl | rfl
    · exact absurd rfl hne
    · simp [lookup]
  · intro t _ p _
    exact Or.inl (by norm_num)

end SV.Props.C03
