"""C02 plug-in.  K: the model's `parse` answer carries exact decimal expressions (Text.Num) that are
evaluated in binary64 and must equal the implementation's f64 results exactly.  S: acceptance, canonical
form and meaning against the intended term list (exact rationals; variable values are r^12 with small
dyadic r and all generated exponents have denominators dividing 12, so every power is an exact rational; integer
exponents are exact at every value; anything else is referred to a 60-digit `decimal` power).  The oracle abstains from
judging a VALUE only when a factor, a partial product or the coefficient leaves [2^-900, 2^900] (overflow / underflow is
outside its rounding model; the bit-for-bit correspondence K still decides there).  Tolerance: 64u per token of the
intended term list (coefficient and exponent conversions, one powf and one product per factor, one addition per term)
plus 4u * sum |e ln x| for the effect of the exponent's own rounding, all relative to sum |term|.
The STORED numbers of a `parse` answer (canonical form) are judged to the last bit (`_stored_ok`): a coefficient /
exponent must be the double nearest to the exact value of its spelling, or what operation-wise rounding of the spelling
gives (every literal correctly rounded, one IEEE division for a/b, IEEE additions in the order of occurrence for the
exponents of a repeated variable), or lie between the two; for a literal and for a/b with integers below 2^53 these
coincide.  The intended term list names every OCCURRENCE of a variable (a repeated code point), so both the exact sum
(the meaning: a repeated variable multiplies) and the left-to-right binary64 sum are known.  A number that is snapped
to a nearby whole number, compared with a tolerance, truncated, or divided by way of a reciprocal lies outside that
set as soon as the exact value is not the special value itself (when it IS - x^0.6x^0.3x^0.1 means x^1 - the exact
value is accepted as well as the binary64 sum 0.9999999999999999: the statement promises the meaning, and K still
compares the stored number with the model's bit for bit)."""
from fractions import Fraction
from oracle_util import *

RULE = ("(round 4, narrow windows around special values: fraction exponents and fraction coefficients written as ratios of huge integers a/b with a = k b +- 1, 2, 3, b from 1e3 to 1e17 [powers of ten, multiples, random integers, 2^30..2^56 and neighbours], k = 0..10 of either sign, and next to 1/2, 1/3, 2/3, 3/2, 1/4, 5/2; decimals at distance 10^-1..10^-20 from whole numbers and halves, also as numerator / denominator; exponents of a repeated variable - decimal or fraction pieces, other variables in between - that add up to 1, 0, -1, 2, 1/2, 3 in exact arithmetic [one or two units in the last place off in binary64: x^0.6x^0.3x^0.1, ten factors x^0.1, x^0.4x^-1.4] or to such a value +- 1e-10..1e-19; texts with duplicated terms [a later term equal to the first / to its neighbour, all equal, p + p, a term and its negative, the same variables in neighbouring terms]; structures with exponents 1..4 ulps / 2^-20..2^-52 / 1e-5..1e-16 from 1, 0, -1, 2, 1/2, 3; the stored coefficient and exponent of EVERY parse request are judged to the last bit: the nearest double of the exact value, the value of operation-wise rounding [literals correctly rounded, one division, additions in the order of occurrence], or between the two) texts rendered from random term lists of the multivariate grammar (1-5 terms, 0-4 distinct variables per term in random "
        "order, coefficient forms '', n, n.d, .d, a/b, exponent forms n, -n, n.d, a/b, -a/b, random Unicode white space) through "
        "both entry points, evaluated under full and incomplete assignments; univariate texts through both parsers; random "
        "term structures through eval_multivariate. Hardening families: 0^0, zero / negative / signed-zero values and values at every "
        "distance from 1 and 0 under integer exponents, missing variables beside zero-valued ones, wrongly named / unused / repeated "
        "bindings, every letter of both cases and case pairs inside a term, coefficient and exponent spellings of extreme magnitude "
        "and length, 6-40 terms and 5-26 variables per term, exponents up to the dense parser's limit through both parsers, "
        "structures with extreme numbers through eval_multivariate / eval_univariate; every evaluation is repeated through the "
        "free function, borrowed names, a HashMap, f32 / i32 values and the univariate entry point (harness verdict). Words of other "
        "parsers spelled from single-letter variables (inf, nan, infinity, e in every letter case; pi, tau, ln, exp, sin, true, null, "
        "... in lower / upper / capitalised case) alone, signed, with every coefficient and exponent form, inside longer "
        "polynomials, with spaces between the letters, next to other variables; literal markers (1e+5, 1E-5, .5e-3, 0x, 0xf, 0b, 3j, "
        "1f, 1L ...) through the multivariate parser and through both parsers at a point - each with its intended term list (a "
        "repeated letter adds its exponents), evaluated with all variables bound and with one left out. Non-trivial = an accepted text/structure with at least one variable; "
        "distinct = distinct request lines")

def _parse_inter(tokens, numconv):
    """tokens after 'ok I' -> (terms, variables); numconv converts a number token"""
    i = 0
    nt = int(tokens[i]); i += 1
    terms = []
    for _ in range(nt):
        c = numconv(tokens[i]); i += 1
        nv = int(tokens[i]); i += 1
        vs = []
        for _ in range(nv):
            name, i = read_string(tokens, i)
            e = numconv(tokens[i]); i += 1
            vs.append((name, e))
        terms.append((c, vs))
    m = int(tokens[i]); i += 1
    names = []
    for _ in range(m):
        name, i = read_string(tokens, i)
        names.append(name)
    return terms, names

def _eval_request(head, cmd):
    """(terms, env, ntok) of an `eval` / `evalm` request in exact rationals (as the oracle reads it), or None when the
    request is not a plain evaluation with finite numbers (dense type with several names, eval_univariate on several
    variables, non-finite numbers)"""
    toks = head[1:]
    if toks[0] == "S":
        var = toks[1]
        n = int(toks[2])
        cs = [frac_of_bits(b) for b in toks[3:3 + n]]
        i = 3 + n
        if cmd == "evalm":
            nb = int(toks[i]); i += 1
            bl = []
            for _ in range(nb):
                name, i = read_string(toks, i)
                bl.append((name, frac_of_bits(toks[i]))); i += 1
            if len(bl) != 1:
                return None
            x = bl[-1][1]
        else:
            x = frac_of_bits(toks[i])
        if x is None or any(c is None for c in cs):
            return None
        return [(c, [("v", Fraction(k))] if k else []) for k, c in enumerate(cs)], {"v": x}, len(toks)
    if toks[0] != "I":
        return None
    terms, names = _parse_inter(toks[1:], lambda b: frac_of_bits(b))
    i = 0
    tokens = toks[1:]
    nt = int(tokens[i]); i += 1
    for _ in range(nt):
        i += 1
        nv = int(tokens[i]); i += 1
        for _ in range(nv):
            _, i = read_string(tokens, i); i += 1
    m = int(tokens[i]); i += 1
    for _ in range(m):
        _, i = read_string(tokens, i)
    i += 1
    env = {}
    if cmd == "evalm":
        nb = int(toks[i]); i += 1
        for _ in range(nb):
            name, i = read_string(toks, i)
            env[name] = frac_of_bits(toks[i]); i += 1
    else:
        if len(names) > 1:
            return None
        if names:
            env[names[0]] = frac_of_bits(toks[i])
    if any(v is None for v in env.values()):
        return None
    return terms, env, len(toks)


def _values_agree(req, ti, tm):
    """`ok f<a>` vs `ok f<b>` of an evaluation request, after the default rule (bit-equal / 1e-9 relative) failed.
    The statement promises the sum of coefficient * prod value^exponent - up to rounding, a real number being promised of
    a binary64 computation - so two evaluations agree when they differ by at most twice the bound the oracle judges each
    of them against (`_tol`: relative to sum |term|, the natural scale under cancellation).  Where a factor or a partial
    product leaves [2^-900, 2^900] (the oracle abstains: overflow to inf, `0 * inf`, precision lost in gradual underflow)
    the ORDER of the multiplications decides what comes out and no order is promised: such requests carry no
    information about the value clause and only Ok / Err / panic is compared there."""
    head, _ = split_req(req)
    try:
        r = _eval_request(head, head[0])
    except Exception:
        return False
    if r is None:
        return False
    terms, env, ntok = r
    val, scale, amp = _value(terms, env)
    if isinstance(val, tuple):
        return val[0] == "range"
    a, b = tok_frac(ti[1]), tok_frac(tm[1])
    if a is None or b is None:
        return False
    return abs(a - b) <= 2 * _tol(ntok, scale, 0)


def compare(req, impl, model):
    from __main__ import default_compare
    r = req.split()
    if r[0] in ("pe", "both"):
        return None
    if impl.startswith("err") and model.startswith("err"):
        return None      # the statement names no error kind ("accepted", "an error rather than a number")
    if r[0] == "parse" and model.startswith("ok I") and impl.startswith("ok I"):
        try:
            ti, ni = _parse_inter(impl.split()[2:], tok_float)
            tm, nm = _parse_inter(model.split()[2:], num_float)
        except Exception as e:  # malformed answer
            return f"unreadable answer: {e}"
        if ni != nm:
            return f"variable lists differ: impl {ni} model {nm}"
        if len(ti) != len(tm):
            return "different number of terms"
        for k, ((ci, vi), (cm, vm)) in enumerate(zip(ti, tm)):
            if not same_float(ci, cm):
                return f"term {k}: coefficient impl {ci!r} model {cm!r}"
            if [v for v, _ in vi] != [v for v, _ in vm]:
                return f"term {k}: variables impl {vi} model {vm}"
            for (v, ei), (_, em) in zip(vi, vm):
                if not same_float(ei, em):
                    return f"term {k}: exponent of {v} impl {ei!r} model {em!r}"
        return None
    d = default_compare(req, impl, model)
    if d is not None and r[0] in ("eval", "evalm"):
        ti, tm = impl.split(), model.split()
        if len(ti) == 2 and len(tm) == 2 and ti[0] == "ok" and tm[0] == "ok" and _values_agree(req, ti, tm):
            return None
    return d

def _num(neg, m, s, dm, ds):
    v = Fraction(m, 10 ** s)
    if dm:
        v = v / Fraction(dm, 10 ** ds)
    return -v if neg else v

def _intended_raw(extra):
    """-> [(coefficient spelling, [(name, exponent spelling) per OCCURRENCE, in order])]; a spelling is the tuple
    (neg, m, s, dm, ds) = +-(m / 10^s) / (dm / 10^ds), dm = 0: no denominator"""
    i = 0
    n = int(extra[i]); i += 1
    terms = []
    for _ in range(n):
        c = tuple(int(v) for v in extra[i:i + 5]); i += 5
        nv = int(extra[i]); i += 1
        vs = []
        for _ in range(nv):
            cp, eneg, em, es, fm, fs = (int(v) for v in extra[i:i + 6]); i += 6
            vs.append((chr(cp), (eneg, em, es, fm, fs)))
        terms.append((c, vs))
    return terms


def _intended(extra):
    """the meaning of the text in exact rationals: a repeated variable multiplies, so its exponents are added"""
    terms = []
    for c, occ in _intended_raw(extra):
        vs = []
        for name, e in occ:
            v = _num(*e)
            for k, (nm, old) in enumerate(vs):
                if nm == name:
                    vs[k] = (nm, old + v)
                    break
            else:
                vs.append((name, v))
        terms.append((_num(*c), vs))
    return terms


def _fl_lit(m, s):
    """the binary64 value of the decimal literal m / 10^s: correctly rounded (f64::from_str is; so is Fraction.__float__)"""
    try:
        return float(Fraction(m, 10 ** s))
    except OverflowError:
        return float("inf")


def _fl_num(neg, m, s, dm, ds):
    """what binary64 arithmetic makes of one spelling: each literal correctly rounded, then ONE IEEE division; None when
    the rounded denominator is 0 or something is not finite (no exact judgement then)"""
    a = _fl_lit(m, s)
    if dm:
        b = _fl_lit(dm, ds)
        if b == 0 or b != b or a in (float("inf"),) or b in (float("inf"),):
            return None
        a = a / b
    if a != a or a in (float("inf"), float("-inf")):
        return None
    return -a if neg else a


def _nearest(q):
    """the double nearest to the rational q (single rounding), None beyond the range"""
    try:
        return float(q)
    except OverflowError:
        return None


def _stored_ok(got, exact, chain):
    """Is `got` (Fraction of the stored double, None = not finite) a correct binary64 rendering of a number whose exact
    value is `exact`?  Accepted: the double nearest to the exact value (the best possible answer), the value `chain`
    that operation-wise rounding of the spelling gives (each literal correctly rounded, one IEEE division for a/b, IEEE
    additions from left to right for the exponents of a repeated variable), and anything between the two.  For a
    literal and for a/b with a, b below 2^53 the two coincide: the stored number is then fixed to the last bit.  A
    "whole up to rounding" snap, a tolerance in an "is it 1" test, a division replaced by a multiplication with the
    reciprocal ... are outside this set as soon as the exact value is not the special value itself."""
    if got is None:
        return False
    cands = []
    n = _nearest(exact)
    if n is not None:
        cands.append(Fraction(n))
    if chain is not None:
        cands.append(Fraction(chain))
    if not cands:
        return abs(got - exact) <= 4 * U * abs(exact)      # beyond the range / degenerate spelling: the old relative test
    return min(cands) <= got <= max(cands)


def _chain_exponents(occ):
    """{name: binary64 sum of the occurrences' exponents from left to right, or None}"""
    out = {}
    for name, e in occ:
        v = _fl_num(*e)
        if name not in out:
            out[name] = v
        elif out[name] is not None and v is not None:
            out[name] = out[name] + v
            if out[name] != out[name] or out[name] in (float("inf"), float("-inf")):
                out[name] = None
        else:
            out[name] = None
    return out


LO, HI = Fraction(1, 2 ** 900), Fraction(2 ** 900)


def _inrange(v):
    return v == 0 or LO <= abs(v) <= HI


def _iroot12(n):
    """exact integer 12th root of n >= 0, or None"""
    if n < 2:
        return n
    r = 1 << ((n.bit_length() + 11) // 12)
    while True:                      # Newton from above
        nr = (11 * r + n // r ** 11) // 12
        if nr >= r:
            break
        r = nr
    return r if r ** 12 == n else None


def _dec_pow(x, e):
    """x > 0, any rational e: 60-digit reference through `decimal` (relative error < 1e-55)"""
    import decimal
    ctx = decimal.Context(prec=70, Emax=decimal.MAX_EMAX, Emin=decimal.MIN_EMIN)
    dx = ctx.divide(decimal.Decimal(x.numerator), decimal.Decimal(x.denominator))
    de = ctx.divide(decimal.Decimal(e.numerator), decimal.Decimal(e.denominator))
    try:
        r = ctx.power(dx, de)
    except decimal.Overflow:
        return Fraction(2 ** 2000)
    except decimal.DecimalException:
        return None
    if not r.is_finite():
        return None
    if r == 0:
        return Fraction(1, 2 ** 2000)
    if not (-400 < r.adjusted() < 400):
        return Fraction(2 ** 2000) if r.adjusted() > 0 else Fraction(1, 2 ** 2000)     # far out of range either way
    return Fraction(r)


def _pow_int(x, k):
    """x^k for a rational x != 0 and an integer k: exact while affordable, else a 60-digit reference (the
    relative error 1e-60 is far below every tolerance used here)"""
    if abs(x) == 1:
        return Fraction(1) if (x > 0 or k % 2 == 0) else Fraction(-1)
    if max(x.numerator.bit_length(), x.denominator.bit_length()) * abs(k) <= 20000:
        return x ** k
    r = _dec_pow(abs(x), Fraction(k))
    if r is None:
        return None
    return -r if (x < 0 and k % 2) else r


def _exact_pow(x, e):
    """x^e as an exact rational when that exists (integer e; x = r^12 with rational r and 12e an integer),
    else a 60-digit reference for x > 0; None outside the natural domain"""
    if x is None or e is None:
        return None
    if e.denominator == 1:
        if x == 0:
            return (Fraction(1) if e == 0 else Fraction(0)) if e >= 0 else None
        return _pow_int(x, int(e))
    if x < 0:
        return None
    if x == 0:
        return Fraction(0) if e > 0 else None
    if 12 % e.denominator == 0:
        a, b = _iroot12(x.numerator), _iroot12(x.denominator)
        if a is not None and b is not None:
            k = int(e * 12)
            lg = abs(a.bit_length() - b.bit_length())
            if (lg + 1) * abs(k) <= 40000:
                return Fraction(a, b) ** k
    return _dec_pow(x, e)


def _lg(x):
    """upper bound of |ln x|"""
    return abs(x.numerator.bit_length() - x.denominator.bit_length()) + 1


def _value(terms, env):
    """-> (value, scale, amp) | (("missing"|"unknown"|"range", name), None, None).
    amp bounds sum_f |e_f| |ln x_f| over the factors of a term (effect of the exponent's own rounding)."""
    for c, vs in terms:
        for name, e in vs:
            if name not in env:
                return ("missing", name), None, None
    total = Fraction(0); scale = Fraction(0); amp = 0
    for c, vs in terms:
        v = c
        if c is None:
            return ("unknown", "coefficient"), None, None
        if not _inrange(c):
            return ("range", "coefficient"), None, None
        a = 0
        for name, e in sorted(vs):
            x = env[name]
            p = _exact_pow(x, e)
            if p is None:
                return ("unknown", name), None, None
            v *= p
            if not _inrange(p) or not _inrange(v):
                return ("range", name), None, None
            if x != 0:
                a += abs(e) * _lg(x)
        amp = max(amp, a)
        total += v; scale += abs(v)
    return total, scale, amp


def _tol(ntok, scale, amp):
    return U * scale * (64 * (ntok + 4) + 4 * amp) + Fraction(1, 2 ** 1000)


def oracle(req, impl):
    head, extra = split_req(req)
    cmd = head[0]
    if cmd in ("parse", "pe", "both") and not extra:
        return None  # no intended meaning attached (corpus lines of rejected texts): K only
    t = impl.split()
    if cmd == "parse":
        want = _intended(extra)
        if t[:2] != ["ok", "I"]:
            return f"a string of the documented grammar was not accepted: {impl}"
        terms, names = _parse_inter(t[2:], tok_frac)
        if len(terms) != len(want):
            return f"{len(terms)} terms returned, the string has {len(want)}"
        raw = _intended_raw(extra)
        used = set()
        for k, ((c, vs), (wc, wvs), (rc, rocc)) in enumerate(zip(terms, want, raw)):
            if not _stored_ok(c, wc, _fl_num(*rc)):
                return f"term {k}: coefficient {None if c is None else float(c)!r} but the string says {wc} (= {_nearest(wc)!r})"
            got_names = [v for v, _ in vs]
            if got_names != sorted(got_names):
                return f"term {k}: variables not sorted by name: {got_names}"
            if len(set(got_names)) != len(got_names):
                return f"term {k}: repeated variable {got_names}"
            wd = dict(wvs)
            if set(got_names) != set(wd):
                return f"term {k}: variables {got_names}, the string has {sorted(wd)}"
            chain = _chain_exponents(rocc)
            for v, e in vs:
                if not _stored_ok(e, wd[v], chain.get(v)):
                    return (f"term {k}: exponent of {v} is {None if e is None else float(e)!r}, the string says {wd[v]}"
                            f" (= {_nearest(wd[v])!r}; added in binary64 in the order of occurrence: {chain.get(v)!r})")
            used |= set(got_names)
        if names != sorted(used):
            return f"variable list {names} is not the sorted set of variables used {sorted(used)}"
        return None
    if cmd == "pe":
        want = _intended(extra)
        text, i = read_string(head, 1)
        nb = int(head[i]); i += 1
        env = {}
        for _ in range(nb):
            name, i = read_string(head, i)
            env[name] = frac_of_bits(head[i]); i += 1
        if t[:1] == ["panic"]:
            return "parse + eval_multivariate panicked"
        val, scale, amp = _value(want, env)
        if isinstance(val, tuple):
            if val[0] == "missing":
                # "evaluating with a missing variable is an error rather than a number" - the statement does not name the kind
                if t[:1] != ["err"]:
                    return f"variable {val[1]} is unbound but the answer is {impl}"
                return None
            if t[0] != "ok":
                return f"parse+eval of a grammatical string with every variable bound failed: {impl}"
            return None
        if t[0] != "ok":
            return f"parse+eval of a grammatical string failed: {impl}"
        got = tok_frac(t[1])
        if got is None:
            return f"value is not finite, the string means {float(val)!r}"
        tol = _tol(len(extra), scale, amp)
        if abs(got - val) > tol:
            return f"value {float(got)!r}, the string means {float(val)!r}"
        return None
    if cmd == "both":
        # intended in C01's format: n { neg mant scale pow }
        n = int(extra[0]); dense = {}; absd = {}
        for j in range(n):
            neg, mant, scale, pw = (int(v) for v in extra[1 + 4 * j: 5 + 4 * j])
            v = Fraction(mant, 10 ** scale)
            dense[pw] = dense.get(pw, 0) + (-v if neg else v); absd[pw] = absd.get(pw, 0) + v
        text, i = read_string(head, 1)
        x = frac_of_bits(head[i])
        if t[0] != "ok" or t[2] != "ok":
            return f"a univariate string was not accepted/evaluated by both parsers: {impl}"
        a, b = tok_frac(t[1]), tok_frac(t[3])
        if x is None:
            return None
        if t[0] == "panic" or "panic" in t:
            return "parse + eval_univariate panicked"
        kmax = max(list(dense) + [0])
        pw = {k: (Fraction(1) if k == 0 else (Fraction(0) if x == 0 else _pow_int(x, k))) for k in dense}
        if any(pw[k] is None or not _inrange(pw[k]) or not _inrange(absd[k] * pw[k]) for k in dense):
            return None               # overflow / underflow: outside the oracle's rounding model
        want = sum(c * pw[k] for k, c in dense.items())
        scale = sum(absd[k] * abs(pw[k]) for k in absd)
        # powi (repeated squaring) errs by up to k u on x^k
        tol = 64 * U * (n + 4 + kmax) * scale + Fraction(1, 2 ** 1000)
        if a is None or b is None or abs(a - want) > tol or abs(b - want) > tol:
            return f"representations disagree with the string's value {float(want)!r}: univariate {None if a is None else float(a)!r}, multivariate {None if b is None else float(b)!r}"
        return None
    if cmd in ("evalm", "eval"):
        # missing variable must be an error, never a number: recompute which names are used/bound
        toks = head[1:]
        if t[:1] == ["panic"]:
            return "evaluation panicked"
        if toks[0] == "S":
            var = toks[1]
            n = int(toks[2])
            cs = [frac_of_bits(b) for b in toks[3:3 + n]]
            i = 3 + n
            if cmd == "evalm":
                nb = int(toks[i]); i += 1
                bl = []
                for _ in range(nb):
                    name, i = read_string(toks, i)
                    bl.append((name, frac_of_bits(toks[i]))); i += 1
                if len({nm for nm, _ in bl}) != 1 or var == "-" or bl[-1][0] != chr(int(var)):
                    return None       # the dense type ignores names (documented): only the matching binding is judged
                x = bl[-1][1]
            else:
                x = frac_of_bits(toks[i])
            if x is None or any(c is None for c in cs):
                return None
            terms = [(c, [("v", Fraction(k))] if k else []) for k, c in enumerate(cs)]
            env = {"v": x}
        else:
            assert toks[0] == "I"
            terms, names = _parse_inter(toks[1:], lambda b: frac_of_bits(b))
            # position after the polynomial
            def skip(tokens):
                i = 0
                nt = int(tokens[i]); i += 1
                for _ in range(nt):
                    i += 1
                    nv = int(tokens[i]); i += 1
                    for _ in range(nv):
                        _, i = read_string(tokens, i); i += 1
                m = int(tokens[i]); i += 1
                for _ in range(m):
                    _, i = read_string(tokens, i)
                return i
            i = skip(toks[1:]) + 1
            env = {}
            if cmd == "evalm":
                nb = int(toks[i]); i += 1
                for _ in range(nb):
                    name, i = read_string(toks, i)
                    env[name] = frac_of_bits(toks[i]); i += 1
            else:
                # eval_univariate: more than one declared variable is an error, otherwise the single variable is bound
                if len(names) > 1:
                    # one value for several variables: some variable is missing - an error, whichever kind
                    if t[:1] != ["err"]:
                        return f"eval_univariate on a polynomial in {names} answered {impl}"
                    return None
                x = frac_of_bits(toks[i])
                if names:
                    env[names[0]] = x
            if any(v is None for v in env.values()):
                return None
        val, scale, amp = _value(terms, env)
        if isinstance(val, tuple):
            if val[0] == "missing":
                if t[:1] != ["err"]:
                    return f"variable {val[1]} is unbound but the answer is {impl}"
                return None
            if t[0] != "ok":
                return f"evaluation with all variables bound failed: {impl}"
            return None
        if t[0] != "ok":
            return f"evaluation with all variables bound failed: {impl}"
        got = tok_frac(t[1])
        if got is None:
            return f"evaluation returned a non-finite value, sum of coefficient * prod value^exponent is {float(val)!r}"
        tol = _tol(len(toks), scale, 0)
        if abs(got - val) > tol:
            return f"value {float(got)!r}, sum of coefficient * prod value^exponent is {float(val)!r}"
        return None
    return None

def nontrivial(req, model):
    r = req.split()
    if r[0] == "parse":
        return model.startswith("ok I") and " 1 1" in model or " 1 " in model
    return r[0] in ("pe", "both", "evalm", "eval")

def tag(req, model):
    r = req.split(); m = model.split()
    return r[0] + ":" + (m[0] if m else "empty") + (":" + m[1] if m and m[0] == "err" else "")
