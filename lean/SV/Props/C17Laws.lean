import SV.Lemmas.C17Simple
/-!
Structural laws of the model's printer of the simple (coefficient list) polynomial,
`SV.C17.displaySimple` (`Display for SimplePolynomial`), for every coefficient list and every number
formatter `fmt`.

The model receives every coefficient as an `Item` (sign class, `|c| = 1` flag, formatter text of `|c|`).
`itemsOf fmt cs` builds the items of a rational coefficient list `cs` for an arbitrary formatter `fmt`;
nothing else about a coefficient reaches the printer.
-/
namespace SV.Props.C17Laws
open SV SV.Text SV.C17

/-- the item of the coefficient `c` under the formatter `fmt`: sign class, the unit test `|c| == 1`, and
the formatter's text of the magnitude -/
def itemOf (fmt : ℚ → List Char) (c : ℚ) : Item := ⟨signOfQ c, decide (|c| = 1), fmt |c|⟩

/-- the items of a coefficient list (position `k` = power `k`) -/
def itemsOf (fmt : ℚ → List Char) (cs : List ℚ) : List Item := cs.map (itemOf fmt)

/-- two items the printer cannot tell apart: same sign class and, unless that class is "zero", same unit
flag and same formatter text -/
def SameItem (a b : Item) : Prop :=
  a.sign = b.sign ∧ (a.sign ≠ .zero → a.isOne = b.isOne ∧ a.text = b.text)

/-- the pieces of text the loop appends, in the order it appends them -/
def pieces (prec : Bool) (v : Char) : Bool → List (Nat × Item) → List (List Char)
  | _, [] => []
  | first, (i, it) :: rest =>
    if it.sign = .zero then pieces prec v first rest
    else piece prec v first i it :: pieces prec v false rest

/-- the powers of the printed terms, in the order they are printed -/
def printedPowers (items : List Item) : List Nat :=
  ((((List.range items.length).zip items).reverse).filter (fun p => p.2.sign ≠ .zero)).map Prod.fst

private theorem piece_congr (prec : Bool) (v : Char) (first : Bool) (i : Nat) {a b : Item}
    (hs : a.sign = b.sign) (ho : a.isOne = b.isOne) (ht : a.text = b.text) :
    piece prec v first i a = piece prec v first i b := by
  unfold piece; rw [hs, ho, ht]

private theorem go_congr (prec : Bool) (v : Char) {l l' : List (Nat × Item)}
    (h : List.Forall₂ (fun p q => p.1 = q.1 ∧ SameItem p.2 q.2) l l') (first : Bool) (acc : List Char) :
    displaySimple.go prec v l first acc = displaySimple.go prec v l' first acc := by
  induction h generalizing first acc with
  | nil => rfl
  | @cons p q l l' hpq _ ih =>
    rcases p with ⟨i, a⟩
    rcases q with ⟨j, b⟩
    obtain ⟨hij, hs, hr⟩ := hpq
    simp only at hij hs hr
    subst hij
    rw [go_cons, go_cons]
    by_cases hz : a.sign = .zero
    · rw [if_pos hz, if_pos (hs ▸ hz)]; exact ih first acc
    · rw [if_neg hz, if_neg (hs ▸ hz), piece_congr prec v first i hs (hr hz).1 (hr hz).2]
      exact ih false _

private theorem zip_forall₂ {R : Item → Item → Prop} {l l' : List Item} (h : List.Forall₂ R l l')
    (ns : List Nat) :
    List.Forall₂ (fun p q : Nat × Item => p.1 = q.1 ∧ R p.2 q.2) (ns.zip l) (ns.zip l') := by
  induction h generalizing ns with
  | nil => simp
  | cons hab _ ih =>
    cases ns with
    | nil => simp
    | cons n ns => exact List.Forall₂.cons ⟨rfl, hab⟩ (ih ns)

/-- **The printer sees a coefficient only through its item.**  If two item lists agree position by
position in the sign class and, at the non-zero positions, in the unit flag and in the formatter's
text, the printed texts are equal (same precision mode, same variable). -/
theorem display_congr (prec : Bool) (var : Option Char) {items items' : List Item}
    (h : List.Forall₂ SameItem items items') :
    displaySimple prec var items = displaySimple prec var items' := by
  unfold displaySimple
  simp only
  rw [h.length_eq]
  exact go_congr prec _ (List.forall₂_reverse_iff.mpr (zip_forall₂ h _)) true []

/-- **`display_uses_formatter_uniformly`.**  For every formatter `fmt`: if two coefficient lists agree
position by position in the sign / zero pattern and, at the non-zero positions, in whether the
magnitude is exactly 1 and in the formatter's output on the magnitude (`fmt |c| = fmt |c'|`), then the
printed texts are equal.  The only magnitude test of the printer is `|c| = 1` (coefficient elision);
there is no other magnitude-dependent path: whole numbers, huge numbers etc. all go through `fmt`. -/
theorem display_uses_formatter_uniformly (fmt : ℚ → List Char) (prec : Bool) (var : Option Char)
    {cs cs' : List ℚ}
    (h : List.Forall₂ (fun c c' => signOfQ c = signOfQ c' ∧
      (c ≠ 0 → ((|c| = 1 ↔ |c'| = 1) ∧ fmt |c| = fmt |c'|))) cs cs') :
    displaySimple prec var (itemsOf fmt cs) = displaySimple prec var (itemsOf fmt cs') := by
  apply display_congr
  unfold itemsOf
  rw [List.forall₂_map_left_iff, List.forall₂_map_right_iff]
  refine h.imp ?_
  intro c c' ⟨hs, hr⟩
  refine ⟨hs, fun hz => ?_⟩
  have hc : c ≠ 0 := fun h0 => hz (signOfQ_zero.mpr h0)
  obtain ⟨h1, ht⟩ := hr hc
  exact ⟨by simp only [itemOf]; exact decide_eq_decide.mpr h1, ht⟩

private theorem go_all_zero (prec : Bool) (v : Char) (l : List (Nat × Item))
    (h : ∀ p ∈ l, p.2.sign = .zero) (first : Bool) (acc : List Char) :
    displaySimple.go prec v l first acc = if first then acc ++ ['0'] else acc := by
  induction l with
  | nil => rw [go_nil]
  | cons p rest ih =>
    rcases p with ⟨i, it⟩
    rw [go_cons, if_pos (h (i, it) (by simp))]
    exact ih (fun q hq => h q (by simp [hq]))

/-- **`display_zero`.**  A coefficient list without a non-zero entry (in particular the empty one)
prints as `"0"`, whatever the formatter texts, the precision mode and the variable are. -/
theorem display_zero_items (prec : Bool) (var : Option Char) (items : List Item)
    (h : ∀ it ∈ items, it.sign = .zero) : displaySimple prec var items = ['0'] := by
  unfold displaySimple
  simp only
  rw [go_all_zero]
  · simp
  · intro p hp
    exact h _ (List.of_mem_zip (List.mem_reverse.mp hp)).2

/-- **`display_zero`** for a coefficient list and a formatter: all coefficients `0` ⇒ the text is `"0"`
(the formatter is not consulted). -/
theorem display_zero (fmt : ℚ → List Char) (prec : Bool) (var : Option Char) (cs : List ℚ)
    (h : ∀ c ∈ cs, c = 0) : displaySimple prec var (itemsOf fmt cs) = ['0'] := by
  apply display_zero_items
  intro it hit
  obtain ⟨c, hc, rfl⟩ := List.mem_map.mp hit
  exact signOfQ_zero.mpr (h c hc)

private theorem go_pieces (prec : Bool) (v : Char) (l : List (Nat × Item)) (first : Bool)
    (acc : List Char) :
    displaySimple.go prec v l first acc =
      acc ++ (if first = true ∧ pieces prec v first l = [] then ['0']
              else (pieces prec v first l).flatten) := by
  induction l generalizing first acc with
  | nil => rw [go_nil]; cases first <;> simp [pieces]
  | cons p rest ih =>
    rcases p with ⟨i, it⟩
    rw [go_cons]
    by_cases hz : it.sign = .zero
    · rw [if_pos hz, ih]; simp [pieces, hz]
    · rw [if_neg hz, ih]; simp [pieces, hz]

private theorem pieces_length (prec : Bool) (v : Char) (l : List (Nat × Item)) (first : Bool) :
    (pieces prec v first l).length = (l.filter (fun p => p.2.sign ≠ .zero)).length := by
  induction l generalizing first with
  | nil => simp [pieces]
  | cons p rest ih =>
    rcases p with ⟨i, it⟩
    by_cases hz : it.sign = .zero
    · simp [pieces, hz, ih]
    · simp [pieces, hz, ih]

/-- **`display_term_count`.**  The printed text is `"0"` if no coefficient is non-zero, and otherwise
the concatenation of one piece of text per non-zero coefficient (`pieces`; the first one without the
`" + "` separator): the number of pieces is the number of non-zero coefficients, and the powers of
the pieces (`printedPowers`) are strictly decreasing — highest power first. -/
theorem display_term_count (prec : Bool) (var : Option Char) (items : List Item) :
    let ps := pieces prec (var.getD 'x') true ((List.range items.length).zip items).reverse
    displaySimple prec var items = (if ps = [] then ['0'] else ps.flatten) ∧
    ps.length = items.countP (fun it => it.sign ≠ .zero) ∧
    (printedPowers items).length = ps.length ∧
    (printedPowers items).Pairwise (· > ·) := by
  have hcount : ((((List.range items.length).zip items).reverse).filter
      (fun p => p.2.sign ≠ .zero)).length = items.countP (fun it => it.sign ≠ .zero) := by
    rw [List.filter_reverse, List.length_reverse, ← List.countP_eq_length_filter]
    have : items = ((List.range items.length).zip items).map Prod.snd := by
      rw [List.map_snd_zip]; simp
    conv_rhs => rw [this, List.countP_map]
    rfl
  refine ⟨?_, ?_, ?_, ?_⟩
  · unfold displaySimple
    simp only
    rw [go_pieces]
    simp
  · rw [pieces_length, hcount]
  · rw [pieces_length]; simp [printedPowers]
  · unfold printedPowers
    have hsub : List.Sublist
        (((((List.range items.length).zip items).reverse).filter (fun p => p.2.sign ≠ .zero)).map
          Prod.fst) (List.range items.length).reverse := by
      have h1 := (List.filter_sublist (p := fun p : Nat × Item => p.2.sign ≠ .zero)
        (l := ((List.range items.length).zip items).reverse)).map Prod.fst
      refine h1.trans ?_
      rw [List.map_reverse, List.map_fst_zip]
      simp
    refine List.Pairwise.sublist hsub ?_
    rw [List.pairwise_reverse]
    exact List.pairwise_lt_range

/-- **A constant polynomial prints exactly the formatter's text.**  For `c ≠ 0` the one-coefficient list
`[c]` prints as the (fraction-trimmed, under a precision) text `fmt |c|`, preceded by `" - "` if `c < 0`:
whole numbers, numbers above `2^64` etc. take no other path. -/
theorem display_const (fmt : ℚ → List Char) (prec : Bool) (var : Option Char) {c : ℚ} (hc : c ≠ 0) :
    displaySimple prec var (itemsOf fmt [c]) =
      (if c < 0 then " - ".toList else []) ++ numText prec (fmt |c|) := by
  have hz : signOfQ c ≠ .zero := fun h => hc (signOfQ_zero.mp h)
  unfold displaySimple
  simp only [itemsOf, List.map_cons, List.map_nil, List.length_singleton, List.range_one,
    List.zip_cons_cons, List.zip_nil_right, List.reverse_singleton]
  rw [go_cons, if_neg (by simpa [itemOf] using hz), go_nil]
  by_cases hn : c < 0
  · have : signOfQ c = .neg := signOfQ_neg.mpr hn
    simp [piece, itemOf, this, hn]
  · have : signOfQ c = .pos := signOfQ_pos.mpr (lt_of_le_of_ne (not_lt.mp hn) (Ne.symm hc))
    simp [piece, itemOf, this, hn]

/-! ### non-vacuity -/

/-- a whole coefficient under a precision is printed through the formatter (here a formatter writing
`"3.00"` for 3, trimmed to `"3"` by the printer), negative sign as the separator -/
example : displaySimple true none (itemsOf (fun _ => "3.00".toList) [-3]) = " - 3".toList := by
  rw [display_const _ _ _ (by norm_num)]; norm_num; decide +kernel


/-- the zero text, concretely -/
example : displaySimple false none (itemsOf (fun _ => "9".toList) [0, 0, 0]) = "0".toList :=
  display_zero _ _ _ _ (by simp)

/-- two different coefficient lists on which a (coarse) formatter agrees print the same text -/
example : displaySimple true none (itemsOf (fun q => if q < 10 then "s".toList else "b".toList) [3, 0, -20, 1]) =
    displaySimple true none (itemsOf (fun q => if q < 10 then "s".toList else "b".toList) [7 / 2, 0, -(2 ^ 70), 1]) := by
  apply display_uses_formatter_uniformly
  refine .cons ?_ (.cons ?_ (.cons ?_ (.cons ?_ .nil))) <;> norm_num [signOfQ, abs_of_pos, abs_of_neg]

/-- a concrete text: `1 + 0 x − 2.5 x² + x³` prints highest power first, two separators, unit elided -/
example : displaySimple false none
    [⟨.pos, true, "1".toList⟩, ⟨.zero, false, "0".toList⟩, ⟨.neg, false, "2.5".toList⟩, ⟨.pos, true, "1".toList⟩]
    = "x^3 - 2.5x^2 + 1".toList := by decide +kernel

example : printedPowers
    [⟨.pos, true, "1".toList⟩, ⟨.zero, false, "0".toList⟩, ⟨.neg, false, "2.5".toList⟩, ⟨.pos, true, "1".toList⟩]
    = [3, 2, 0] := by decide +kernel

/-- `display_no_plus_minus` is NOT a law of the model for every formatter: the printer folds the sign of the
coefficient into the separator, but it does not inspect the formatter's text, so a formatter that
emits a leading `-` (it is only ever called on magnitudes) would give `"+ -"`.  The law needs a
hypothesis on `fmt` (no `+` / `-` in its output) and on the variable character. -/
example : displaySimple false none [⟨.pos, false, "-3".toList⟩, ⟨.pos, false, "2".toList⟩]
    = "2x + -3".toList := by decide +kernel

end SV.Props.C17Laws
