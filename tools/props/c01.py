"""C01 plug-in: the model answers `parse` with exact decimal expressions (Text.Num); they are evaluated
in binary64 here and must equal the implementation's f64 results exactly.  The oracle compares the
implementation with the *intended* term list the text was rendered from (exact rationals)."""
from fractions import Fraction
from oracle_util import *

RULE = ("texts rendered from random term lists of the univariate grammar (1-12 terms, powers 0-40 with repeats, all decimal "
        "spellings, implicit coefficients, leading sign, exponents with leading zeros, 13 variable letters incl. non-ASCII, "
        "random Unicode white space between tokens) through both parse entry points; coefficient vectors evaluated through "
        "the evaluation entry points (free function, eval_univariate, eval_multivariate with the binding under the variable's own "
        "name / another name / in several containers, f32 and i32 points) for every variable letter and for constants; "
        "vector lengths 0..40, 47..49, 63..65, 127..129, 255..258, 300; points next to 1, -1 and 0 at every distance "
        "10^-1..10^-17, 10^-k down to subnormals, 10^k up to 10^300, powers of two 2^-1074..2^1023; coefficients next to the largest "
        "binary64 number at points inside (-1, 1) with every power, term and the sum of |terms| below 2^1023; eval_multivariate with "
        "0..4 bindings; texts of 13..40, 64, 100, 255..257, 300 terms; exponents 41..300, the powers of two up to 65536 with "
        "long runs of leading zeros; 13..19-digit coefficient spellings; parse+eval with 25 alphabetic characters of every "
        "UTF-8 width / category and all 25 Unicode white-space characters; every parse result also through the free "
        "function on &str/&String/String, the trait, the re-export, Deref and PartialEq<Vec<f64>>; character-class table. Non-trivial = an accepted text with at least two terms, "
        "or an evaluation of a polynomial of degree >= 1; distinct = distinct request lines")

# "like powers are summed": the statement fixes the SUM, not the order in which the parser adds like terms.  Every
# coefficient that is a single literal or the sum of at most two like terms is compared bit for bit (every order of
# summation gives the same bits there); a coefficient that is the sum of THREE OR MORE like terms is compared up to the
# rounding of that sum - any order of rounded additions of the correctly rounded literals:
# |impl - exact sum| <= (n+1) 2^-52 sum |d_i|  (n literals; the bound of SV.Props.C01Rounding, and inside the tolerance
# 2u (cnt+1) sum |d_i| that the oracle below allows against the intended term list).

def _leaves(s):
    """decimal leaves of a Text.Num sum tree `(+,(+,d0e-0,a),b)`; None if the tree contains anything but + and decimals"""
    if s.startswith("d"):
        return [s]
    if not s.startswith("(+,"):
        return None
    import oracle_util
    op, a, b = oracle_util._split_args(s)
    la, lb = _leaves(a), _leaves(b)
    if la is None or lb is None:
        return None
    return la + lb


def sum_close(x, y):
    """impl coefficient token x (`f<bits>`) vs the model's sum tree y: any summation order of the rounded literals"""
    import math
    leaves = _leaves(y)
    if leaves is None:
        return False
    nz = [v for v in (num_frac(l) for l in leaves) if v != 0]
    if len(nz) < 3:
        return False                      # at most two like terms: every order gives the same bits - stay exact
    got = tok_frac(x)
    if got is None:
        return False
    try:
        if not all(math.isfinite(float(v)) for v in nz):
            return False
    except OverflowError:
        return False
    n = len(nz)
    bound = (n + 1) * Fraction(1, 2 ** 52) * sum(abs(v) for v in nz) + (n + 1) * Fraction(1, 2 ** 1074)
    return abs(got - sum(nz)) <= bound


def compare(req, impl, model):
    from __main__ import default_compare
    r = req.split()
    if r[0] == "pe":
        return None  # composition of parse and eval: decided by the oracle
    if impl.startswith("err") and model.startswith("err"):
        return None  # the statement names no error kind (it speaks of accepted strings and of evaluation only)
    if r[0] == "parse" and model.startswith("ok") and impl.startswith("ok"):
        ti, tm = impl.split(), model.split()
        if ti[:3] != tm[:3] or len(ti) != len(tm):
            return f"variable/length differ: impl {ti[:3]} model {tm[:3]}"
        for k, (x, y) in enumerate(zip(ti[3:], tm[3:])):
            if not same_float(tok_float(x), num_float(y)) and not sum_close(x, y):
                return f"coefficient {k}: impl {tok_float(x)!r} model {num_float(y)!r} ({y})"
        return None
    d = default_compare(req, impl, model)
    if d is not None and r[0] in ("eval", "evalm") and impl.startswith("ok f") and model.startswith("ok f"):
        # "equals the sum of c_k x^k up to floating-point rounding": two evaluations agree when they differ by at most
        # twice the bound the oracle judges each of them against (relative to sum |c_k| |x|^k - the natural scale when
        # the sum cancels); where a power leaves [2^-900, 2^900] the order of the operations decides what over- /
        # underflow does and only Ok / Err is compared
        try:
            head, _ = split_req(req)
            if r[0] == "eval":
                n = int(head[4]); cs = [frac_of_bits(b) for b in head[5:5 + n]]; x = frac_of_bits(head[5 + n])
            else:
                n = int(head[3]); cs = [frac_of_bits(b) for b in head[4:4 + n]]
                i = 4 + n
                if int(head[i]) != 1:
                    return d
                _, i = read_string(head, i + 1)
                x = frac_of_bits(head[i])
            a, b = tok_frac(impl.split()[1]), tok_frac(model.split()[1])
        except Exception:
            return d
        if x is None or any(c is None for c in cs):
            return d
        tol = _value_tolerance(cs, x)
        if tol is None:
            return None
        if a is not None and b is not None and abs(a - b) <= 2 * tol:
            return None
    return d

def _value_tolerance(cs, x):
    """the bound of `_judge_value` on |computed - sum c_k x^k|; None when a power or a term leaves [2^-900, 2^900]"""
    n = len(cs)
    lo, hi = Fraction(1, 2 ** 900), Fraction(2) ** 900
    # |x|^k is monotone in k: the extreme powers decide whether every power is in range (no huge rationals formed)
    if x != 0 and n > 1:
        lg = abs(x).numerator.bit_length() - abs(x).denominator.bit_length()
        if (abs(lg) + 1) * (n - 1) > 900 and abs(x) != 1:
            top = abs(x) ** (n - 1) if (abs(lg) + 1) * (n - 1) < 4000 else None
            if top is None or not (lo <= top <= hi):
                return None
    pw = [abs(x) ** k for k in range(n)]
    terms = [abs(c) * p for c, p in zip(cs, pw)]
    if any(t != 0 and not (lo <= t <= hi) for t in terms):
        return None
    scale = sum(terms)
    return 64 * U * (n + 2) * scale + 4 * U * sum(k * t for k, t in enumerate(terms)) + Fraction(1, 2 ** 1000)

def _fl(q):
    """a rational for a message (never raises: values beyond the binary64 range are shown by sign and size)"""
    try:
        return repr(float(q))
    except OverflowError:
        return ("-" if q < 0 else "") + "2^%d" % (abs(q.numerator).bit_length() - abs(q.denominator).bit_length())

def _intended(extra):
    n = int(extra[0]); dense = {}; absd = {}; cnt = {}
    for i in range(n):
        neg, mant, scale, pw = (int(v) for v in extra[1 + 4 * i: 5 + 4 * i])
        v = Fraction(mant, 10 ** scale)
        dense[pw] = dense.get(pw, 0) + (-v if neg else v)
        absd[pw] = absd.get(pw, 0) + v
        cnt[pw] = cnt.get(pw, 0) + 1
    return dense, absd, cnt

def oracle(req, impl):
    head, extra = split_req(req)
    cmd = head[0]
    if cmd in ("parse", "pe", "both") and not extra:
        return None  # no intended meaning attached (corpus lines of rejected texts): K only
    if cmd == "parse":
        dense, absd, cnt = _intended(extra)
        t = impl.split()
        if t[0] != "ok":
            return f"a string of the documented grammar was not accepted: {impl}"
        # the variable reported is the (single) letter of the text, none for a constant text
        text, _ = read_string(head, 2)
        letters = {c for c in text if c.isalpha()}
        if len(letters) <= 1:
            want_var = str(ord(next(iter(letters)))) if letters else "-"
            if t[1] != want_var:
                return f"variable reported as {t[1]}, the text's variable is {want_var}"
        n = int(t[2]); cs = t[3:]
        if n != max(dense, default=0) + 1:
            return f"coefficient vector has length {n}, highest power is {max(dense, default=0)}"
        for k in range(n):
            got = tok_frac(cs[k])
            if got is None:
                return f"coefficient {k} is not finite"
            want = dense.get(k, Fraction(0))
            tol = 2 * U * absd.get(k, 0) * (cnt.get(k, 0) + 1)
            if abs(got - want) > tol:
                return f"coefficient of power {k} is {_fl(got)}, the string says {_fl(want)}"
        return None
    if cmd == "pe":
        dense, absd, cnt = _intended(extra)
        text, i = read_string(head, 1)
        x = frac_of_bits(head[i])
        t = impl.split()
        if t[0] != "ok":
            return f"parse+eval of a grammatical string failed: {impl}"
        got = tok_frac(t[1])
        want = sum(c * x ** k for k, c in dense.items())
        scale = sum(absd[k] * abs(x) ** k for k in absd)
        if got is None:
            # overflow of a term or of a power x^k beyond the binary64 range is not a misreading (see `_judge_value`)
            big = max([abs(x) ** k for k in absd] + [scale])
            return None if big >= Fraction(2) ** 1023 else "value is not finite although every power and the sum of |terms| are in range"
        tol = 64 * U * (len(extra) + 2) * scale + Fraction(1, 2 ** 1000)
        # x^k by repeated squaring carries a relative error of up to ~k units of roundoff
        tol += 4 * U * sum(k * absd[k] * abs(x) ** k for k in absd)
        tiny = Fraction(1, 2 ** 900)
        tol += sum(absd[k] * abs(x) ** k for k in absd if 0 < abs(x) ** k < tiny or 0 < absd[k] * abs(x) ** k < tiny)
        if abs(got - want) > tol:
            return f"value at {_fl(x)} is {_fl(got)}, the string means {_fl(want)}"
        return None
    if cmd == "eval":
        # eval <entry> S <var> <n> c… <x>
        n = int(head[4]); cs = [frac_of_bits(b) for b in head[5:5 + n]]; x = frac_of_bits(head[5 + n])
        t = impl.split()
        if t[0] != "ok":
            if head[1] == "3":
                return None  # a binding under another name may be refused; a value, if any, is judged below
            return f"evaluation failed: {impl}"
        return _judge_value(cs, x, t[1])
    if cmd == "evalm":
        # evalm S <var> <n> c… <k> {<name> <x>}*
        n = int(head[3]); cs = [frac_of_bits(b) for b in head[4:4 + n]]
        var = head[2]
        i = 4 + n
        k = int(head[i]); i += 1
        binds = {}
        for _ in range(k):
            name, i = read_string(head, i)
            binds[name] = frac_of_bits(head[i]); i += 1
        t = impl.split()
        if len(binds) == 1:
            if t[0] != "ok":
                return f"evaluation with exactly one binding failed: {impl}"
            return _judge_value(cs, next(iter(binds.values())), t[1])
        if t[0] != "ok":
            return None
        # a value although the bindings do not name exactly one variable: it can only be the value at the binding of
        # the polynomial's own variable
        own = chr(int(var)) if var != "-" else None
        if own in binds:
            return _judge_value(cs, binds[own], t[1])
        if all(c == 0 for c in cs[1:]):
            return _judge_value(cs, Fraction(0), t[1])
        return f"a value ({impl}) although no binding names the variable"
    return None

def _judge_value(cs, x, tok):
    n = len(cs)
    got = tok_frac(tok)
    want = sum(c * x ** k for k, c in enumerate(cs))
    pw = [abs(x) ** k for k in range(n)]
    scale = sum(abs(c) * p for c, p in zip(cs, pw))
    if got is None:
        # Abstain only where a quantity the statement names is itself out of range: a power x^k, or the sum of |terms| (a
        # bound on every term and on every partial sum of terms), at or beyond 2^1023.  Below that every order of adding
        # the terms stays finite, so the value is an ordinary number and must come out as one (an evaluation scheme whose
        # intermediates exceed the terms - nested multiplication with huge coefficients at |x| < 1 - fails here).
        big = max(pw + [scale])
        if big >= Fraction(2) ** 1023:
            return None
        return (f"eval at {_fl(x)} is not finite although every power, every term and the sum of |terms| "
                f"({_fl(scale)}) are in range; sum c_k x^k is {_fl(want)}")
    tol = 64 * U * (n + 2) * scale + Fraction(1, 2 ** 1000)
    # x^k by repeated squaring carries a relative error of up to ~k units of roundoff
    tol += 4 * U * sum(k * abs(c) * p for k, (c, p) in enumerate(zip(cs, pw)))
    # a power below the normal range of binary64 may be lost entirely (underflow is not a wrong sum); a product
    # c_k x^k below the normal range likewise
    tiny = Fraction(1, 2 ** 900)
    tol += sum(abs(c) * p for c, p in zip(cs, pw) if 0 < p < tiny or 0 < abs(c) * p < tiny)
    if abs(got - want) > tol:
        return f"eval at {_fl(x)} is {_fl(got)}, sum c_k x^k is {_fl(want)}"
    return None

def nontrivial(req, model):
    r = req.split()
    if r[0] == "parse":
        return model.startswith("ok") and " | " in req and int(req.split(" | ")[1].split()[0]) >= 2
    if r[0] == "eval":
        return int(r[4]) >= 2
    if r[0] == "evalm":
        return int(r[3]) >= 2
    if r[0] == "pe":
        return True
    return False

def tag(req, model):
    r = req.split(); m = model.split()
    return r[0] + ":" + (m[0] if m else "empty") + (":" + m[1] if m and m[0] == "err" else "")
